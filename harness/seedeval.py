"""Evaluate a seeded change:  /venv/bin/python -m harness.seedeval <prop> <patch.diff> <demo.py> [--tier quick|thorough]

1. scratch worktree of /repo HEAD (under /tmp), apply the patch;
2. confirm the repository's own test-suite still passes with it;
3. confirm the demonstration fails with the patch and passes without it;
4. run `WATCHDOG_REPO=<worktree> ./check <prop>` and report whether the check caught it.
Prints one JSON object; removes the worktree afterwards.  Nothing is ever applied to /repo itself.
"""
from __future__ import annotations

import json
import os
import shutil
import subprocess
import sys
import tempfile
import time

VERIF = os.path.dirname(os.path.dirname(os.path.abspath(__file__)))


def sh(cmd, cwd=None, env=None, timeout=3600):
    p = subprocess.run(cmd, shell=True, cwd=cwd, env=env, capture_output=True, text=True, timeout=timeout)
    return p.returncode, (p.stdout + p.stderr)


def main():
    prop, patch, demo = sys.argv[1], os.path.abspath(sys.argv[2]), os.path.abspath(sys.argv[3])
    tier = "quick"
    if "--tier" in sys.argv:
        tier = sys.argv[sys.argv.index("--tier") + 1]
    skip_tests = "--skip-tests" in sys.argv
    wt = tempfile.mkdtemp(prefix="wt-seed-", dir="/tmp")
    os.rmdir(wt)
    out = {"property": prop, "patch": patch, "demo": demo, "tier": tier}
    rc, o = sh(f"git -C /repo worktree add -q --detach {wt} HEAD")
    if rc:
        print(json.dumps({**out, "error": "worktree: " + o[-300:]}))
        return 2
    try:
        env = dict(os.environ, PYTHONPATH=f"{wt}/src")
        rc0, o0 = sh(f"/venv/bin/python {demo}", cwd=wt, env=env, timeout=900)
        out["demo_without_patch_rc"] = rc0
        rc, o = sh(f"git -C {wt} apply {patch}")
        if rc:
            rc, o = sh(f"git -C {wt} apply --3way {patch}")
        out["patch_applies"] = (rc == 0)
        if rc:
            out["error"] = o[-400:]
            print(json.dumps(out, indent=1))
            return 2
        if not skip_tests:
            t0 = time.time()
            rc, o = sh("/venv/bin/python -m pytest -q -p no:cacheprovider --timeout=900 tests 2>&1 | tail -3", cwd=wt, env=env)
            out["tests_tail"] = o.strip().splitlines()[-1:] if o.strip() else []
            out["tests_pass"] = (" failed" not in o and " error" not in o and " passed" in o)
            out["tests_s"] = round(time.time() - t0, 1)
        rc1, o1 = sh(f"/venv/bin/python {demo}", cwd=wt, env=env, timeout=900)
        out["demo_with_patch_rc"] = rc1
        out["demo_output_tail"] = o1.strip()[-300:]
        t0 = time.time()
        rc, o = sh(f"./check {prop} --tier {tier}", cwd=VERIF, env=dict(os.environ, WATCHDOG_REPO=wt), timeout=7200)
        out["check_rc"] = rc
        out["check_s"] = round(time.time() - t0, 1)
        lines = [l for l in o.splitlines() if l.startswith("VIOLATION") or l.startswith(prop + " tier=")]
        out["check_lines"] = lines[-3:]
        out["caught"] = (rc != 0 and any(l.startswith("VIOLATION") for l in lines))
        out["caught_with_input"] = out["caught"] and not any("no-failing-input-found" in l for l in lines)
    finally:
        sh(f"git -C /repo worktree remove --force {wt}")
        shutil.rmtree(wt, ignore_errors=True)
    print(json.dumps(out, indent=1))
    return 0


if __name__ == "__main__":
    sys.exit(main())
