(* C03 on the Pipeline model, the pairing delay: between the last read of a block and the final "ATick delay; AEmit ..." any
   sequence of ATick and AEmit steps may happen - the delay in several parts, queue_events called before the delay of a lone
   IN_MOVED_FROM has elapsed (nothing is delivered then), items delivered early.  The stream of the block is the same. *)
Require Import WD.Base.Prelude WD.Base.BStr WD.Model.SubEvents WD.Model.Emitter WD.Model.Fs WD.Model.Reader
               WD.Model.DelayQueue WD.Model.Grouping WD.Model.Pipeline WD.Model.Contract.
Require Import WD.Proofs.GroupingProofs WD.Proofs.ContractProofs WD.Proofs.TieProofs WD.Proofs.CoverProofs WD.Proofs.CoverOutProofs
               WD.Proofs.ReplayProofs WD.Proofs.ReplayOutProofs WD.Proofs.TieStrongProofs WD.Proofs.ReplayPipeProofs
               WD.Proofs.CutsProofs WD.Proofs.CutsReaderProofs WD.Proofs.CutsPipeProofs
               WD.Proofs.SoundSeqProofs WD.Proofs.SoundPipeProofs WD.Proofs.SoundCutsProofs.
Local Open Scope N_scope.
Local Arguments sep : simpl never.

Definition tick_or_emit (a : action) : Prop := match a with ATick _ | AEmit => True | _ => False end.

Lemma three_steps_g delay d en rest :
  q d = en :: rest -> pc d = CIdle -> closed d = false -> (e_delayed en = false \/ e_tins en + delay <= clock d) ->
  exists d1 d2, step delay d GetEnter = Some d1 /\ step delay d1 GetDelay = Some d2 /\
                step delay d2 GetPop = Some (popq d rest en).
Proof.
  intros Hq Hpc Hcl Ht. destruct d as [qq c0 cl0 ck pc0 pu go en0 rm]. cbn in *. subst.
  eexists. eexists. split; [reflexivity|]. cbn.
  assert (Hc : negb (e_delayed en) || N.leb (e_tins en + delay) ck = true).
  { destruct Ht as [->|Ht]; [reflexivity|]. apply orb_true_iff. right. now apply N.leb_le. }
  rewrite Hc. split; [reflexivity|]. cbn. now rewrite N.eqb_refl.
Qed.

Section Loose.
  Variable P : pcfg.
  Hypothesis HF : pc_filter P = None.
  Let C := pc_reader P.
  Let delay := pc_delay P.

  Lemma emit_step_g s d rs en rest git eit :
    p_buf s = (d, rs) -> p_stopped s = false ->
    q d = en :: rest -> pc d = CIdle -> closed d = false -> (e_delayed en = false \/ e_tins en + delay <= clock d) ->
    item_of (items rs) (e_id en) = Some git -> item_to_emit (p_tbl s) git = Some eit ->
    pstep P s AEmit =
    let r := emit (pc_full P) (c_recursive C) (c_root C) (content (w_fs (p_world s))) eit in
    Done (set_emit s (popq d rest en, rs) (fst r) (snd r), OEvents (fst r)).
  Proof.
    intros Hb Hs Hq Hpc Hcl Ht Hit Hem. unfold pstep. rewrite Hs, Hb.
    destruct (three_steps_g delay d en rest Hq Hpc Hcl Ht) as [d1 [d2 [H1 [H2 H3]]]].
    fold delay. cbn [gstep]. rewrite H1. cbn [gstep]. rewrite H2. cbn [gstep]. rewrite H3.
    unfold Grouping.delivered. cbn [fst snd got popq]. rewrite map_app, items_of_app. cbn [map fst].
    rewrite items_of_cons, Hit. cbn [items_of flat_map app]. rewrite rev_app_distr. cbn [rev app].
    rewrite Hem. fold C. rewrite HF, emit_nofilter.
    destruct (emit (pc_full P) (c_recursive C) (c_root C) (content (w_fs (p_world s))) eit) as [evs stop].
    reflexivity.
  Qed.

  (* queue_events finds nothing it may deliver: the state is unchanged *)
  Lemma emit_wait s d rs :
    p_buf s = (d, rs) -> p_stopped s = false -> pc d = CIdle -> closed d = false ->
    (q d = [] \/ exists en rest, q d = en :: rest /\ e_delayed en = true /\ clock d < e_tins en + delay) ->
    pstep P s AEmit = Done (s, OSkip).
  Proof.
    intros Hb Hs Hpc Hcl Hq. unfold pstep. rewrite Hs, Hb. fold delay.
    destruct d as [qq c0 cl0 ck pc0 pu go en0 rm]. cbn in *. subst.
    destruct Hq as [->|(en & rest & -> & Hd & Hlt)]; cbn; [reflexivity|].
    assert (Hc : negb (e_delayed en) || N.leb (e_tins en + delay) ck = false).
    { rewrite Hd. cbn. apply N.leb_gt. exact Hlt. }
    now rewrite Hc.
  Qed.
End Loose.

Section LooseLoop.
  Variable P : pcfg.
  Hypothesis HF : pc_filter P = None.
  Let C := pc_reader P.
  Let delay := pc_delay P.

  Definition tickd (d : st) (x : N) : st :=
    {| q := q d; closed := closed d; cl := cl d; clock := clock d + x; pc := pc d; puts := puts d; got := got d;
       ends := ends d; removed := removed d |}.

  Lemma tick_step s d rs x : p_buf s = (d, rs) ->
    pstep P s (ATick x) = Done ({| p_world := p_world s; p_k := p_k s; p_r := p_r s; p_buf := (tickd d x, rs); p_tbl := p_tbl s;
                                   p_next := p_next s; p_out := p_out s; p_stopped := p_stopped s |}, ONone).
  Proof. intros Hb. cbn [pstep]. rewrite Hb. reflexivity. Qed.

  Lemma loose_loop L : Forall tick_or_emit L -> forall s d rs K raws acc,
    p_buf s = (d, rs) -> pc d = CIdle -> closed d = false -> p_stopped s = false ->
    Forall2 (fun en it => item_of (items rs) (e_id en) = Some it) (q d) K ->
    Forall2 (relI C (p_tbl s)) K raws -> Forall (item_safe C) raws ->
    exists s' obs d' K2 raws1 raws2, prun P s L acc = Done (s', obs) /\ raws = raws1 ++ raws2 /\
      p_out s' = p_out s ++ emit_all (pc_full P) (c_recursive C) (c_root C) (content (w_fs (p_world s))) raws1 /\
      p_world s' = p_world s /\ p_k s' = p_k s /\ p_r s' = p_r s /\ p_tbl s' = p_tbl s /\ p_next s' = p_next s /\
      p_stopped s' = false /\ p_buf s' = (d', rs) /\ pc d' = CIdle /\ closed d' = false /\
      Forall2 (fun en it => item_of (items rs) (e_id en) = Some it) (q d') K2 /\
      Forall2 (relI C (p_tbl s)) K2 raws2 /\ Forall (item_safe C) raws2 /\
      clock d <= clock d' /\ (forall en, In en (q d') -> In en (q d)).
  Proof.
    induction L as [|a L IH]; intros Hf s d rs K raws acc Hb Hpc Hcl Hs HQ HR Hsafe.
    - exists s, acc, d, K, [], raws. cbn [prun emit_all app]. rewrite app_nil_r. repeat split; auto. lia.
    - inversion Hf as [|? ? Ha Hf']; subst. destruct a as [o|n| |x]; try contradiction.
      + (* AEmit *)
        assert (Hwait : pstep P s AEmit = Done (s, OSkip) ->
                  exists s' obs d' K2 raws1 raws2, prun P s (AEmit :: L) acc = Done (s', obs) /\ raws = raws1 ++ raws2 /\
                    p_out s' = p_out s ++ emit_all (pc_full P) (c_recursive C) (c_root C) (content (w_fs (p_world s))) raws1 /\
                    p_world s' = p_world s /\ p_k s' = p_k s /\ p_r s' = p_r s /\ p_tbl s' = p_tbl s /\ p_next s' = p_next s /\
                    p_stopped s' = false /\ p_buf s' = (d', rs) /\ pc d' = CIdle /\ closed d' = false /\
                    Forall2 (fun en it => item_of (items rs) (e_id en) = Some it) (q d') K2 /\
                    Forall2 (relI C (p_tbl s)) K2 raws2 /\ Forall (item_safe C) raws2 /\
                    clock d <= clock d' /\ (forall en, In en (q d') -> In en (q d))).
        { intros Hst. rewrite (prun_cons P _ _ _ _ _ _ Hst). exact (IH Hf' s d rs K raws _ Hb Hpc Hcl Hs HQ HR Hsafe). }
        destruct (q d) as [|en rest] eqn:Hqd.
        { apply Hwait. apply (emit_wait P s d rs Hb Hs Hpc Hcl). now left. }
        destruct (e_delayed en) eqn:Hdel; [destruct (N.leb (e_tins en + delay) (clock d)) eqn:Hle|].
        2:{ apply Hwait. apply (emit_wait P s d rs Hb Hs Hpc Hcl). right. exists en, rest. split; [exact Hqd|].
            split; [exact Hdel | now apply N.leb_gt]. }
        all: inversion HQ as [|? git ? K' Hit HQ']; subst; inversion HR as [|? eit ? raws' Hr1 HR']; subst;
             inversion Hsafe as [|? ? Hs1 Hsafe']; subst;
             assert (Hcond : e_delayed en = false \/ e_tins en + delay <= clock d)
               by (first [left; exact Hdel | right; now apply N.leb_le]);
             assert (Hstep := emit_step_g P HF s d rs en rest git eit Hb Hs Hqd Hpc Hcl Hcond Hit (relI_emit _ _ _ _ Hr1));
             assert (Hns := emit_nostop C (pc_full P) (c_recursive C) (content (w_fs (p_world s))) eit Hs1);
             cbv zeta in Hstep; change (pc_reader P) with C in Hstep;
             destruct (emit (pc_full P) (c_recursive C) (c_root C) (content (w_fs (p_world s))) eit) as [evs stop] eqn:Ee;
             cbn [fst snd] in *; subst stop;
             rewrite (prun_cons P _ _ _ _ _ _ Hstep);
             destruct (IH Hf' (set_emit s (popq d rest en, rs) evs false) (popq d rest en) rs K' raws' (acc ++ [OEvents evs]))
               as (s' & obs & d' & K2 & raws1 & raws2 & Hrun & Er & Hout & A1 & A2 & A3 & A4 & A5 & A6 & A7 & A8 & A9 & A10 & A11 & A12 & A13 & A14);
             try reflexivity; try assumption;
             (exists s', obs, d', K2, (eit :: raws1), raws2; split; [exact Hrun|]; split; [now rewrite Er|];
              cbn [set_emit p_out p_world p_k p_r p_tbl p_next popq q clock] in *;
              split; [rewrite Hout; cbn [emit_all]; rewrite Ee; now rewrite <- app_assoc|];
              repeat (split; [assumption|]); intros en' Hin; right; now apply A14).
      + (* ATick *)
        assert (Ht := tick_step s d rs x Hb).
        set (s1 := {| p_world := p_world s; p_k := p_k s; p_r := p_r s; p_buf := (tickd d x, rs); p_tbl := p_tbl s;
                      p_next := p_next s; p_out := p_out s; p_stopped := p_stopped s |}) in Ht.
        rewrite (prun_cons P _ _ _ _ _ _ Ht).
        destruct (IH Hf' s1 (tickd d x) rs K raws (acc ++ [ONone]) eq_refl Hpc Hcl Hs HQ HR Hsafe)
          as (s' & obs & d' & K2 & raws1 & raws2 & Hrun & Er & Hout & A1 & A2 & A3 & A4 & A5 & A6 & A7 & A8 & A9 & A10 & A11 & A12 & A13 & A14).
        exists s', obs, d', K2, raws1, raws2. cbn [s1 p_out p_world p_k p_r p_tbl p_next tickd q clock] in *.
        repeat (split; [assumption|]). split; [lia | assumption].
  Qed.
End LooseLoop.

Lemma emit_all_app_safe C full rec ct a b : Forall (item_safe C) a ->
  emit_all full rec (c_root C) ct (a ++ b) = emit_all full rec (c_root C) ct a ++ emit_all full rec (c_root C) ct b.
Proof.
  induction a as [|it a IH]; intros H; [reflexivity|]. inversion H as [|? ? H1 H2]; subst. cbn [app emit_all].
  assert (Hn := emit_nostop C full rec ct it H1). destruct (emit full rec (c_root C) ct it) as [evs stop]. cbn in Hn. subst.
  now rewrite IH, app_assoc.
Qed.

Section LooseTie.
  Variable P : pcfg.
  Hypothesis HF : pc_filter P = None.
  Let C := pc_reader P.

  (* AOp; the reads; any ticks and queue_events calls; the pairing delay; queue_events until the buffer is empty *)
  Definition loose_history (o : op) (cuts : list nat) (L : list action) (nit : nat) : list action :=
    AOp o :: map ARead cuts ++ L ++ ATick (pc_delay P) :: repeat AEmit nit.

  Theorem tie_loose s o w' cuts L r' k' Rs : Forall tick_or_emit L ->
    buffer_idle (p_buf s) -> p_stopped s = false -> (forall id, In id (map fst (p_tbl s)) -> id < p_next s) ->
    apply_op (p_world s) o = Some w' ->
    rcut C (w_fs w') (p_r s) (kernel_op (p_k s) (w_fs (p_world s)) o) cuts = Done (r', k', Rs) ->
    Forall (root_safe C) (concat Rs) -> cuts_ok C [] Rs ->
    exists nit s' obs, prun P s (loose_history o cuts L nit) [] = Done (s', obs) /\
      p_out s' = p_out s ++ emit_all (pc_full P) (c_recursive C) (c_root C) (content (w_fs w')) (group_batch C (concat Rs)) /\
      p_world s' = w' /\ p_k s' = k' /\ p_r s' = r' /\
      buffer_idle (p_buf s') /\ p_stopped s' = false /\ (forall id, In id (map fst (p_tbl s')) -> id < p_next s').
  Proof.
    intros HL Hidle Hstop Hfresh Happ Hrc Hsafe Hok.
    destruct s as [w k r [d rs] tbl0 nx out stopped]. cbn [p_world p_k p_r p_buf p_tbl p_next p_out p_stopped] in *.
    subst stopped. destruct Hidle as [Hq [Hcl [Hpc [Hb [Hg [Hds Hfr]]]]]]. cbn [fst snd] in *.
    destruct rs as [b0 g0 ds0 n0 its0 nr0]. cbn [batch grouped deleted_self items next_el] in *. subst b0 g0 ds0.
    set (k1 := kernel_op k (w_fs w) o) in *.
    set (s0 := {| p_world := w'; p_k := k1; p_r := r; p_buf := (d, mkrst [] [] false n0 its0 nr0);
                  p_tbl := tbl0; p_next := nx; p_out := out; p_stopped := false |}).
    assert (HB0 : BInv P s0 (clock d) [] []).
    { constructor; cbn [s0 p_buf p_tbl p_next p_stopped]; [|constructor|exact Hfresh|reflexivity].
      exists d, n0, its0, nr0. split; [reflexivity|]. split; [|reflexivity].
      constructor; [rewrite Hq; constructor | rewrite Hq; intros en [] | exact Hpc | exact Hcl | exact Hfr]. }
    destruct (reads_loop P cuts s0 (clock d) [] [] [ONone] r' k' Rs HB0 Hrc Hsafe Hok)
      as (s1 & obs1 & B & Hrun1 & [(d1 & n1 & its1 & nr1 & Hb1 & HI1 & Hclk1) Hrel1 Htbl1 Hstop1] & Ew1 & Ek1 & Er1 & Eo1).
    cbn [app] in Hrel1. set (R := concat Rs) in *. set (K := filter kept (ggo B [])) in *.
    destruct HI1 as [H1 H2 H3 H4 H5].
    assert (HRK : Forall2 (relI C (p_tbl s1)) K (group_batch C R)).
    { unfold K, group_batch. apply Forall2_filter; [apply kept_put|]. apply ggo_rel; [exact Hrel1 | constructor]. }
    assert (HSF : Forall (item_safe C) (group_batch C R)) by now apply group_batch_safe.
    destruct (loose_loop P HF L HL s1 d1 (mkrst [] [] false n1 its1 nr1) K (group_batch C R) obs1 Hb1 H3 H4 Hstop1 H1 HRK HSF)
      as (s2 & obs2 & d2 & K2 & raws1 & raws2 & Hrun2 & Er & Hout2 & A1 & A2 & A3 & A4 & A5 & A6 & A7 & A8 & A9 & A10 & A11 & A12 & A13 & A14).
    set (d3 := tickd d2 (pc_delay P)).
    set (s3 := {| p_world := p_world s2; p_k := p_k s2; p_r := p_r s2; p_buf := (d3, mkrst [] [] false n1 its1 nr1); p_tbl := p_tbl s2;
                  p_next := p_next s2; p_out := p_out s2; p_stopped := p_stopped s2 |}).
    assert (HR3 : Forall2 (relI (pc_reader P) (p_tbl s3)) K2 raws2) by (cbn [s3 p_tbl]; rewrite A4; exact A11).
    destruct (emit_loop_strong P HF K2 raws2 s3 d3 (mkrst [] [] false n1 its1 nr1) (obs2 ++ [ONone]))
      as (s' & obs & d4 & Hrun' & Hout & E1 & E2 & E3 & E4 & E5 & E6 & E7 & E8 & E9 & E10); try reflexivity; try assumption.
    - intros en Hin. cbn [d3 tickd q clock] in *. apply A14, H2 in Hin. lia.
    - exists (length K2), s', obs. split.
      + unfold loose_history.
        match goal with |- context [prun P ?sx (AOp o :: _) _] =>
          assert (Hop : pstep P sx (AOp o) = Done (s0, ONone)) by (cbn [pstep p_world]; rewrite Happ; reflexivity);
          rewrite (prun_cons P _ _ _ _ _ _ Hop) end.
        cbn [app]. rewrite (cprun_app P (map ARead cuts)), Hrun1. rewrite (cprun_app P L), Hrun2.
        rewrite (prun_cons P _ _ _ _ _ _ (tick_step P s2 d2 _ (pc_delay P) A7)). exact Hrun'.
      + cbn [s3 p_out p_world p_k p_r p_tbl p_next p_stopped] in *.
        split; [|split; [rewrite E1, A1, Ew1; reflexivity|split; [rewrite E2, A2; exact Ek1|split; [rewrite E3, A3; exact Er1|split; [|split; [exact E6|]]]]]].
        * rewrite Hout, Hout2, Eo1, A1, Ew1. cbn [s0 p_out p_world]. rewrite <- app_assoc. f_equal.
          rewrite Er. symmetry. apply emit_all_app_safe. rewrite Er in HSF. now apply Forall_app in HSF.
        * rewrite E7. unfold buffer_idle. cbn [fst snd batch grouped deleted_self items next_el mkrst]. repeat split; assumption.
        * rewrite E4, E5, A4, A5. exact Htbl1.
  Qed.
End LooseTie.

(* ================================================================== blocks and histories *)
Theorem block_loose P s hot o w' cuts L : let C := pc_reader P in
  c_faults C = [] -> c_fix_moveout C = true -> c_mask C = WATCHDOG_ALL -> pc_filter P = None ->
  PSx P s hot -> step_ok C (p_world s) hot o -> apply_op (p_world s) o = Some w' ->
  CutsPipeProofs.sum cuts = length (k_queue (kernel_op (p_k s) (w_fs (p_world s)) o)) -> Forall tick_or_emit L ->
  exists nit s' obs raws, prun P s (loose_history P o cuts L nit) [] = Done (s', obs) /\
    PSx P s' (hot_next C (p_world s) hot o) /\ p_world s' = w' /\
    p_out s' = p_out s ++ delivered C (pc_full P) w' raws /\
    read_batch C (w_fs w') (p_r s, drainq (kernel_op (p_k s) (w_fs (p_world s)) o), [])
               (k_queue (kernel_op (p_k s) (w_fs (p_world s)) o)) = Done (p_r s', p_k s', raws).
Proof.
  intros C Hf Hmo Hm HF [G Hidle Hal Htbl] Hs Ha Hsum HL.
  assert (Hcp := cut_paired_gs C (p_world s) (p_k s) (p_r s) hot o w' cuts Hf Hmo Hm G Hs Ha Hsum).
  destruct (gs_step C Hf Hmo (p_world s) (p_k s) (p_r s) hot o w' Hm G Hs Ha) as (r' & k' & raws & Hrd & G' & Hsafe).
  set (k1 := kernel_op (p_k s) (w_fs (p_world s)) o) in *.
  assert (HK : KQ k1) by (apply kernel_op_KQ; exact (GS_KQ _ _ _ _ _ G)).
  destruct (rcut_eq C Hmo (w_fs w') (p_r s) k1 cuts r' k' raws (proj2 HK) Hsum Hrd) as (Rs & Hrc & Econc).
  unfold cut_paired in Hcp. fold C in Hrc. rewrite Hrc in Hcp.
  assert (Hsafe' : Forall (root_safe (pc_reader P)) (concat Rs)) by (rewrite Econc; exact Hsafe).
  destruct (tie_loose P HF s o w' cuts L r' k' Rs HL Hidle Hal Htbl Ha Hrc Hsafe' Hcp)
    as (nit & s' & obs & Hrun & Hout & E1 & E2 & E3 & Hidle' & Hal' & Htbl').
  rewrite Econc in Hout.
  exists nit, s', obs, raws. split; [exact Hrun|]. split; [|split; [exact E1|split; [exact Hout|]]].
  - constructor; try assumption. now rewrite E1, E2, E3.
  - rewrite E2, E3. exact Hrd.
Qed.

(* [lt] chooses, in every state, the ticks and queue_events calls between the reads and the final delay *)
Definition loose_timer (lt : pstate -> op -> list action) : Prop := forall s o, Forall tick_or_emit (lt s o).

Inductive loose_hist (P : pcfg) (ct : pstate -> op -> list nat) (lt : pstate -> op -> list action)
  : pstate -> list op -> list action -> Prop :=
| lh_nil s : loose_hist P ct lt s [] []
| lh_skip s o ops h : apply_op (p_world s) o = None -> loose_hist P ct lt s ops h -> loose_hist P ct lt s (o :: ops) (AOp o :: h)
| lh_step s o ops h nit s1 obs1 w' : apply_op (p_world s) o = Some w' ->
    prun P s (loose_history P o (ct s o) (lt s o) nit) [] = Done (s1, obs1) -> loose_hist P ct lt s1 ops h ->
    loose_hist P ct lt s (o :: ops) (loose_history P o (ct s o) (lt s o) nit ++ h).

Lemma loose_rest_noop P cuts L nit : Forall tick_or_emit L ->
  Forall noop (map ARead cuts ++ L ++ ATick (pc_delay P) :: repeat AEmit nit).
Proof.
  intros HL. apply Forall_app. split; [|apply Forall_app; split].
  - apply Forall_forall. intros a Ha. apply in_map_iff in Ha as [n [<- _]]. exact I.
  - eapply Forall_impl; [|exact HL]. intros a Ha. destruct a; try contradiction; exact I.
  - constructor; [exact I | apply repeat_noop].
Qed.

Theorem blocks_sound_loose P ct lt : let C := pc_reader P in
  c_faults C = [] -> c_fix_moveout C = true -> c_mask C = WATCHDOG_ALL -> pc_filter P = None ->
  sum_cutter P ct -> loose_timer lt ->
  forall ops s hot recs, PSx P s hot -> ops_x3 C (p_world s) hot ops ->
  exists h s' obs hot' chunks, loose_hist P ct lt s ops h /\ prun P s h [] = Done (s', obs) /\ PSx P s' hot' /\
    sound_along P s recs h = true /\
    p_out s' = p_out s ++ concat chunks /\
    Forall2 (fun ch ct0 => collapse ch = collapse ct0) chunks (contracts_of C (pc_full P) (p_world s) ops).
Proof.
  intros C Hf Hmo Hm HF Hct Hlt. induction ops as [|o ops IH]; intros s hot recs S Hc; cbn [ops_x3 contracts_of] in *.
  - exists [], s, [], hot, []. split; [constructor|]. split; [reflexivity|]. split; [exact S|].
    split; [reflexivity|]. split; [now rewrite app_nil_r | constructor].
  - destruct (apply_op (p_world s) o) as [w'|] eqn:Ea.
    + destruct Hc as [Hs Hc].
      destruct (block_loose P s hot o w' (ct s o) (lt s o) Hf Hmo Hm HF S (step_ok3_ok C _ _ _ Hs) Ea (Hct s o) (Hlt s o))
        as (nit & s1 & obs1 & raws & Hrun & S1 & E1 & Hout & Hrd).
      destruct (gs_contract_step3 C (pc_full P) Hf Hmo Hm (p_world s) (p_k s) (p_r s) hot o w' (px_sync _ _ _ S) Hs Ea)
        as (r' & k' & raws' & Hrd' & _ & _ & Hcol).
      fold C in Hrd. cbv zeta in Hrd'. rewrite Hrd in Hrd'. injection Hrd' as _ _ <-.
      rewrite <- E1 in Hc.
      destruct (IH s1 _ (recs ++ [oprec_of (w_fs (p_world s)) o]) S1 Hc) as (h & s' & obs & hot' & chunks & Hh & Hr & S' & Hsa & Ho' & Hch).
      exists (loose_history P o (ct s o) (lt s o) nit ++ h), s', (obs1 ++ obs), hot', (delivered C (pc_full P) w' raws :: chunks).
      split; [eapply lh_step; eassumption|]. split; [rewrite prun_app, Hrun, prun_acc, Hr; reflexivity|]. split; [exact S'|].
      split; [|split].
      * unfold loose_history in *.
        destruct (sa_block_gen P s o _ w' s1 obs1 h recs Ea (loose_rest_noop P (ct s o) (lt s o) nit (Hlt s o)) Hrun) as (new & Hn & Hsb).
        rewrite Hsb, Hsa, andb_true_r.
        assert (new = delivered C (pc_full P) w' raws) by (rewrite Hout in Hn; now apply app_inv_head in Hn). subst new.
        apply forallb_forall. intros e He. apply justified_mono.
        revert e He. apply (collapse_forall _ _ _ Hcol). intros e He.
        apply (contract_justified (c_recursive C) (pc_full P) (c_root C) (w_fs (p_world s)) o); [|exact He].
        exact (step_ok3_np C _ _ _ Hs).
      * cbn [concat]. now rewrite Ho', Hout, app_assoc.
      * rewrite E1 in Hch. constructor; [exact Hcol | exact Hch].
    + destruct (IH s hot recs S Hc) as (h & s' & obs & hot' & chunks & Hh & Hr & S' & Hsa & Ho' & Hch).
      exists (AOp o :: h), s', (OSkip :: obs), hot', chunks. split; [now apply lh_skip|].
      split; [cbn [prun pstep]; rewrite Ea; rewrite prun_acc, Hr; reflexivity|]. split; [exact S'|].
      split; [|split; assumption].
      cbn [sound_along pstep]. rewrite Ea. exact Hsa.
Qed.

Theorem contract_pipeline_loose P ct lt ops w s0 : let C := pc_reader P in
  c_faults C = [] -> c_fix_moveout C = true -> c_mask C = WATCHDOG_ALL -> pc_filter P = None ->
  sum_cutter P ct -> loose_timer lt -> wf_fs w ->
  fisdir (c_root C) (w_fs w) = true -> pinit P w = Some s0 -> ops_x3 C w None ops ->
  exists h s' obs chunks, loose_hist P ct lt s0 ops h /\ prun P s0 h [] = Done (s', obs) /\
    sound_along P s0 [] h = true /\
    p_out s' = concat chunks /\
    Forall2 (fun ch ct0 => collapse ch = collapse ct0) chunks (contracts_of C (pc_full P) w ops).
Proof.
  intros C Hf Hmo Hm HF Hct Hlt W Hroot Hi Hc. destruct (pinit_psx P w s0 Hf Hmo W Hroot Hi) as (S0 & Ew & Eo).
  rewrite <- Ew in Hc.
  destruct (blocks_sound_loose P ct lt Hf Hmo Hm HF Hct Hlt ops s0 None [] S0 Hc) as (h & s' & obs & hot' & chunks & Hh & Hr & _ & Hsa & Ho & Hch).
  exists h, s', obs, chunks. split; [exact Hh|]. split; [exact Hr|]. split; [exact Hsa|].
  split; [now rewrite Ho, Eo | now rewrite <- Ew].
Qed.

(* ---------------------------------------------------------------- an instance, by computation *)
(* queue_events is called right after the reads (before any time has passed), the delay 5 comes as 2 + 2 + 5 *)
Definition early_timer (s : pstate) (o : op) : list action := [AEmit; ATick 2; AEmit; AEmit; ATick 2; AEmit].
Lemma early_timer_ok : loose_timer early_timer.
Proof. intros s o. repeat constructor. Qed.

Fixpoint run_loose (P : pcfg) ct lt (nit : nat) (s : pstate) (ops : list op) : option pstate :=
  match ops with
  | [] => Some s
  | o :: ops' => match prun P s (loose_history P o (ct s o) (lt s o) nit) [] with
                 | Done (s', _) => run_loose P ct lt nit s' ops'
                 | Crash _ => None
                 end
  end.

Lemma seq3_loose_run :
  exists s0 s s1, pinit phx_P w0 = Some s0 /\ run_loose phx_P first_cutter early_timer 4 s0 seq3_ops = Some s /\
    run_blocks phx_P 4 s0 seq3_ops = Some s1 /\ p_out s = p_out s1 /\ length (p_out s) = 18%nat.
Proof.
  eexists; eexists; eexists. split; [vm_compute; reflexivity|]. split; [vm_compute; reflexivity|].
  split; [vm_compute; reflexivity|]. split; vm_compute; reflexivity.
Qed.
