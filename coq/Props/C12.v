(* C12 - Every descriptor and thread is released exactly once, also on failure.
   Only statements; every proof is `exact <lemma>`.

   CloseProto: LTS of Inotify.close() against the InotifyBuffer thread's read loop
   (variant `repaired` = the tree with fixes F4b/F4c, `pinned` = the pinned tree).
   Ledger: watch construction expanded into kernel calls with faults, tear-down through CloseProto
   (fixed = true: with fix F4a). *)
Require Import WD.Base.Prelude WD.Model.CloseProto WD.Model.Ledger
               WD.Proofs.CloseProtoProofs WD.Proofs.LedgerProofs.

(* No descriptor is polled, read, written, used for rm_watch/add_watch or closed after it was
   closed - for every interleaving of any number of close() calls, the kernel making the inotify
   descriptor readable, and the buffer thread (no bound on the length of the label list). *)
Theorem C12_proto_safe : forall (wd : bool) (x : state),
  reachable repaired wd x -> is_bad x = false.
Proof. exact proto_safe. Qed.
Print Assumptions C12_proto_safe.

(* Once the buffer thread has finished and a close() has returned, all three descriptors are closed. *)
Theorem C12_proto_no_leak : forall (wd : bool) (s : st),
  reachable repaired wd (Ok s) -> reader_done s = true -> close_returned s = true ->
  all_closed s = true.
Proof. exact proto_no_leak. Qed.
Print Assumptions C12_proto_no_leak.

(* Each descriptor is closed at most once (in every variant: a second close is a Bad state). *)
Theorem C12_proto_closed_once : forall (v : variant) (wd : bool) (s : st),
  reachable v wd (Ok s) -> ni s <= 1 /\ nr s <= 1 /\ nw s <= 1.
Proof. exact proto_closed_once. Qed.
Print Assumptions C12_proto_closed_once.

(* The pinned tree (F4b, _is_reading = True in __init__): stop() before the thread's first loop test
   leaves all three descriptors open although the thread has finished and close() has returned. *)
Theorem C12_proto_leak_refuted_pinned :
  exists tr s, run (step pinned) (Ok (init pinned true)) tr = Some (Ok s) /\
    reader_done s = true /\ close_returned s = true /\ all_open s = true.
Proof. exact leak_refuted_pinned. Qed.
Print Assumptions C12_proto_leak_refuted_pinned.

(* The pinned tree (F4c): close() between sections 2 and 3 of read_events() makes section 3 call
   inotify_add_watch on the closed inotify descriptor. *)
Theorem C12_proto_safe_refuted_pinned :
  exists tr b, run (step pinned) (Ok (init pinned true)) tr = Some (Bad b).
Proof. exact safe_refuted_pinned. Qed.
Print Assumptions C12_proto_safe_refuted_pinned.

(* Ledger: after ANY failed construction (a fault at any kernel call, any errno, any number of
   directories) the descriptor and thread counts are what they were before ... *)
Theorem C12_ledger_failed : forall (fs : list fault) (ndirs : nat) (L : ledger) (x : exn) (L' : ledger),
  emitter_start true fs ndirs L = (Raised x, L') -> L' = L.
Proof. exact ledger_failed. Qed.
Print Assumptions C12_ledger_failed.

(* ... and after any completed stop()/unschedule() of a watch that was built, whatever the
   interleaving of the close protocol was *)
Theorem C12_ledger : forall (fs : list fault) (ndirs : nat) (L : ledger) (h : handle) (L' : ledger)
                            (wd : bool) (tr : list label) (s : st),
  emitter_start true fs ndirs L = (Built h, L') ->
  run (step repaired) (Ok (init repaired wd)) tr = Some (Ok s) ->
  reader_done s = true -> close_returned s = true ->
  teardown s L' = L.
Proof. exact ledger_stopped. Qed.
Print Assumptions C12_ledger.

(* over any number of cycles *)
Theorem C12_ledger_cycles : forall (cs : list cycle) (L L' : ledger),
  run_cycles true cs L = Some L' -> L' = L.
Proof. exact ledger_cycles. Qed.
Print Assumptions C12_ledger_cycles.

(* The pinned tree (F4a): 20 failed schedule() calls on a missing path leak 60 descriptors. *)
Theorem C12_ledger_refuted_pinned :
  exists cs L L', run_cycles false cs L = Some L' /\ nfd L' = nfd L + 60 /\ nthr L' = nthr L.
Proof. exact ledger_refuted_pinned. Qed.
Print Assumptions C12_ledger_refuted_pinned.

(* Non-vacuity *)
Example C12_proto_nonvacuous :
  (exists s, run (step repaired) (Ok (init repaired true)) handover_run = Some (Ok s) /\
     reader_done s = true /\ close_returned s = true /\ all_closed s = true /\ (ni s, nr s, nw s) = (1, 1, 1)) /\
  (exists s, run (step repaired) (Ok (init repaired true)) direct_run = Some (Ok s) /\
     reader_done s = true /\ close_returned s = true /\ all_closed s = true).
Proof. split; [exact nonvacuous_handover | exact nonvacuous_direct]. Qed.

Example C12_ledger_nonvacuous :
  run_cycles true [failed_schedule; Watch [] 3 handover_run; Watch [None; Some EMFILE] 3 [];
                   Watch [None; None; Some EACCES] 3 direct_run; Watch [Some EACCES] 2 []]
             {| nfd := 3; nthr := 2 |} = Some {| nfd := 3; nthr := 2 |}.
Proof. exact ledger_nonvacuous. Qed.

(* EACCES is swallowed by _raise_error: construction "succeeds" with watch descriptor -1 stored *)
Example C12_eacces_is_silent : forall L,
  emitter_start true [None; None; Some EACCES; None; Some EACCES] 3 L
  = (Built {| h_i := true; h_r := true; h_w := true; h_wds := [-1; 2; -1]%Z |}, add_thr 2 (add_fds 2 (add_fds 1 L))).
Proof. exact eacces_is_silent. Qed.
