open Sexp
open Conv
(* case: (wait drop (label ...))  label: E | D | (W i) | (X i)    result: (ok started dropped max_alive alive) | (stuck i) *)
let run = function
  | L [w; d; L items] ->
    let w = bool_of w and d = bool_of d in
    let rec go i s = function
      | [] -> L [A "ok"; sx_nat s.ShellTrick.started; sx_nat s.ShellTrick.dropped; sx_nat s.ShellTrick.max_alive;
                 sx_nat (ShellTrick.alive_children s)]
      | it :: rest ->
        let l = match it with
          | A "E" -> ShellTrick.Event | A "D" -> ShellTrick.DStep
          | L [A "W"; i] -> ShellTrick.WStep (nat_of i) | L [A "X"; i] -> ShellTrick.Exit (nat_of i)
          | _ -> failwith "shelltrick: bad label" in
        (match ShellTrick.sh_step w d s l with None -> L [A "stuck"; sx_int i] | Some s' -> go (i + 1) s' rest) in
    go 0 ShellTrick.init_state items
  | _ -> failwith "shelltrick: bad case"
