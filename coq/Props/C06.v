(* C06 - No API call order deadlocks; stop()+join() always ends every library thread.
   All statements are about every reachable state of the observer LTS (Model/Observer.v, start() under
   the observer lock) = every interleaving of dispatcher, emitter and API threads, calls from callbacks
   included. *)
Require Import WD.Base.Prelude WD.Model.Observer WD.Proofs.ObserverProofs WD.Proofs.ObserverInv WD.Proofs.ObserverRet
  WD.Proofs.ObserverDisp WD.Proofs.ObserverLive WD.Proofs.ObserverExamples.

(* (i) FULL: no reachable state is deadlocked.  [deadlocked s] = no thread (dispatcher, API thread, emitter)
   can take a step although some thread waits for the observer lock, in emitter.join(), or in
   observer.join() after stop() was requested.  Proved by the wait-for argument: the lock owner is never
   blocked on the lock, in get, or in join(dispatcher) from a non-dispatcher thread; a joined emitter
   exists and, if started, is running (hence enabled) or exited; whenever the flagged dispatcher waits in
   get the stop marker is queued or its put is pending in a thread that is not blocked. *)
Theorem C06_no_deadlock : forall s, reachable s -> deadlocked s = false.
Proof. exact no_deadlock. Qed.
Print Assumptions C06_no_deadlock.

(* [thread_enabled] / [any_enabled], on which [deadlocked] is built, are sound: an enabled thread can take
   a step of the LTS (so "not deadlocked" really means "some label is enabled"). *)
Theorem C06_enabled_sound : forall s t, reachable s -> thread_enabled s t = true -> exists l s', step s l = Some s'.
Proof. exact enabled_sound. Qed.
Print Assumptions C06_enabled_sound.

Theorem C06_stuck_implies_progress : forall s t, reachable s -> In t (all_tids s) -> thread_stuck s t = true ->
  exists l s', step s l = Some s'.
Proof. exact stuck_implies_progress. Qed.
Print Assumptions C06_stuck_implies_progress.

(* LockInv (DESIGN.md §8b): the lock's owner and count agree with the continuations of all threads: every
   registry-touching instruction, every handler turn, is reached only with the lock held by its thread. *)
Theorem C06_lock_invariant : forall s, reachable s -> LockInv s.
Proof. exact LockInv_reachable. Qed.
Print Assumptions C06_lock_invariant.

(* `for e in self._emitters` never raises "Set changed size during iteration" (it did in the pinned code,
   where start() touched the set without the lock): the stop marker can therefore not be lost. *)
Theorem C06_emitter_iteration_stable : forall s t n k, reachable s -> cont s t = IIterChk n :: k ->
  length (emitters s) = n.
Proof. exact iter_check_passes. Qed.
Print Assumptions C06_emitter_iteration_stable.

(* an emitter thread never waits for anything *)
Theorem C06_emitter_never_blocked : forall s e m, get_em s e = Some m -> em_running m = true ->
  exists l s', em_of l = Some e /\ step s l = Some s'.
Proof. exact emitter_never_blocked. Qed.
Print Assumptions C06_emitter_never_blocked.

(* (ii) bounded shutdown.  Emitter threads: once its stop flag is set, each own step of an emitter strictly
   decreases em_bound (<= 3) and the flag stays set. *)
Theorem C06_emitter_bounded : forall s l s' e m,
  step s l = Some s' -> em_of l = Some e -> get_em s e = Some m -> estop m = true ->
  exists m', get_em s' e = Some m' /\ estop m' = true /\ em_bound m' < em_bound m.
Proof. exact emitter_bounded. Qed.
Print Assumptions C06_emitter_bounded.

(* Dispatcher thread: once its stop flag is set, each own instruction of its loop (flag check, get, the
   dispatch's acquire, snapshot, a handler turn, the dispatch's release, task_done, exit) strictly decreases
   [dbound s], a computed function of the state (position in the loop, handlers still to serve, head of the
   queue).  Calls made by callbacks are application steps and are not counted; an application thread that
   registers more handlers before the snapshot is taken raises the bound (environment step).  With (i) and
   weak fairness this gives: stop(); join() returns. *)
Theorem C06_dispatcher_bounded : forall s i k inp s', P3 s -> dstop s = true -> dcont s = i :: k ->
  loop_step i k = true -> exec s TD i k inp = Some s' -> dbound s' < dbound s.
Proof. exact dispatcher_loop_bounded. Qed.
Print Assumptions C06_dispatcher_bounded.

Theorem C06_invariants_reachable : forall s, reachable s -> P3 s.
Proof. exact P3_reachable. Qed.
Print Assumptions C06_invariants_reachable.

(* (iii) stop() twice, from inside a callback, is an ordinary reachable state; the run continues to a
   state where every library thread has exited, the lock is free and nothing is deadlocked. *)
Example C06_stop_twice_from_callback :
  option_map (fun s => (dcont s, lock s, deadlocked s)) (run init tr_stop_in_callback)
  = Some ([ICall CStop; ICall CStop; DTurns; IRel; DTaskDone; DCheck], Some (TD, 1%nat), false).
Proof. vm_compute. reflexivity. Qed.

Example C06_shutdown_completes :
  option_map (fun s => (dcont s, lock s, deadlocked s, finished s, queue s, dbound s)) (run init tr_shutdown)
  = Some ([], None, false, true, [QStop], 0%nat).
Proof. vm_compute. reflexivity. Qed.

(* The statement is FALSE of the pinned start() (finding F16, repaired in /repo by 65dd668): in the model of
   the pinned code (init_of false) a second start() racing with stop() makes stop() raise before it puts
   the stop marker; the dispatcher waits in get() forever and a later observer.join() is stuck. *)
Theorem C06_no_deadlock_refuted_pinned : exists s, reachable_pinned s /\ deadlocked s = true /\ dstop s = true /\
  cont s A1 = [IJoinDisp; IRet CJoin] /\ dcont s = [DGet] /\ queue s = [] /\
  In (GRet A1 CStop true) (glog s).
Proof. exact pinned_deadlock. Qed.
Print Assumptions C06_no_deadlock_refuted_pinned.
