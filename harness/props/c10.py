"""C10 - polling reports exactly the diff of successive snapshots and survives races.

Correspondence: (1) the real DirectorySnapshot over a virtual tree with a failure injected at a stat/listdir call
position, against the extracted model `walk` (snapshot_of) told which call that was; (2) the real PollingEmitter
(constructed directly with an EventQueue, an ObservedWatch and custom stat/listdir; on_thread_start() and
queue_events(0) called from the test thread) over sequences of virtual tree states, against the model's start/poll:
events per poll (class blocks in source order, compared as sets inside a block), stopped flag, new snapshot.
Oracle: the property text evaluated on what the real code did, with an independent account of the tree.
"""
from __future__ import annotations

import copy
import errno
import os
import stat as statmod

from harness import core
from harness.core import Atom, Failure, Mismatch, Result, sx
from harness.props import c09
from harness.props.c09 import NAMES, ROOT, VEntry, VStat, entries, node

MANIFEST = dict(
    design_ref="DESIGN.md §6 C10",
    text="Coq theorems C10_walk_exact, C10_walk_reach_iff, C10_walk_total, C10_poll, C10_quiet, C10_root_gone, C10_stopped_silent about an "
         "executable model of DirectorySnapshot.__init__/walk over a virtual tree with a fault plan and of "
         "PollingEmitter.on_thread_start/queue_events (all trees, all fault plans from the stated errno set); the model is tied "
         "to /repo by running the extracted model and the real classes on the same trees, faults and state sequences on every run.",
    note="Trusted: Coq kernel; generator/contextlib.suppress semantics are modelled (validated by the correspondence at every call "
         "position in the thorough tier); faults are keyed by (call, path) in the model and injected by call position in the "
         "harness; the order of events inside one of the eight loops is a set iteration order and is not modelled.",
    technique="Coq proof (structural induction over rose trees, C09 lemmas for the diff) + differential correspondence via "
              "extracted OCaml model + fault enumeration at every call position + law oracle on the real emitter",
)
TRUSTED = [
    "modelled, not verified: Python generators, `yield from`, contextlib.suppress, OSError subclass mapping by errno "
    "(PermissionError for EACCES); sibling names are unique, so every path is stat'ed / listed at most once per walk and a fault "
    "keyed by (call, path) is the same thing as a fault at a call position",
    "the emitter is driven from the test thread (on_thread_start(), queue_events(0)); its thread is never started, the stop event is "
    "only set by the emitter itself",
]
ASSUMPTIONS = [
    "faults are drawn from ENOENT / ENOTDIR / EACCES at calls below the root (not the root's own stat / listdir); EACCES on the "
    "root's own listdir and any error of the root's stat count as 'root gone'",
    "for the exact-event-set oracle every inode has one path in both states (C09's hypothesis); with hard links only the "
    "correspondence, the once-only and the ordering clauses are evaluated",
]

ERRNOS = {"ENOENT": errno.ENOENT, "ENOTDIR": errno.ENOTDIR, "EACCES": errno.EACCES, "EINVAL": errno.EINVAL, "EIO": errno.EIO}
STATED = ["ENOENT", "ENOTDIR", "EACCES"]
KINDS = ["FileDeleted", "FileModified", "FileCreated", "FileMoved", "DirDeleted", "DirModified", "DirCreated", "DirMoved"]


# ------------------------------------------------------------------ virtual file system with call log and fault injection
class FaultFS:
    def __init__(self, root=ROOT):
        self.root = root
        self.stats, self.kids = {}, {}
        self.calls = []
        self.fault = None          # (position, errno name)

    def set(self, tree, fault=None):
        self.stats, self.kids = {}, {}
        if tree is not None:
            self._add(self.root, tree)
        self.calls = []
        self.fault = fault
        # a user-supplied listdir (PollingObserverVFS) may be LAZY - a generator that fails when iterated, not when called;
        # both styles must give the same walk.  Decided by the fault position so that a replay sees the same style.
        self.lazy = fault is not None and fault[0] % 2 == 1

    def _add(self, p, nd):
        self.stats[p] = VStat(*nd["st"])
        if nd["st"][2]:
            self.kids[p] = list(nd["ch"])
            for n, sub in nd["ch"].items():
                self._add(os.path.join(p, n), sub)

    def _call(self, kind, p):
        k = len(self.calls)
        self.calls.append((kind, p))
        if self.fault is not None and self.fault[0] == k:
            e = ERRNOS[self.fault[1]]
            raise OSError(e, os.strerror(e), p)

    def stat(self, p):
        self._call("stat", p)
        try:
            return self.stats[p]
        except KeyError:
            raise FileNotFoundError(errno.ENOENT, "virtual: no such entry", p) from None

    def listdir(self, p):
        if self.lazy:
            return self._listdir_lazy(p)
        return self._listdir(p)

    def _listdir(self, p):
        self._call("listdir", p)
        if p not in self.stats:
            raise FileNotFoundError(errno.ENOENT, "virtual: no such entry", p)
        if p not in self.kids:
            raise NotADirectoryError(errno.ENOTDIR, "virtual: not a directory", p)
        return [VEntry(n) for n in self.kids[p]]

    def _listdir_lazy(self, p):
        yield from self._listdir(p)


def tree_wire(t):
    if t is None:
        return []
    return [_tw(t)]


def _tw(nd):
    i, d, k, m, z = nd["st"]
    return [i, d, bool(k), m, z, [[n.encode(), _tw(s)] for n, s in nd["ch"].items()]]


def fault_wire(fs_calls, fault):
    """The model is told which call the position was: (kind path errno)."""
    if fault is None:
        return []
    k, e = fault
    if k >= len(fs_calls):
        return []
    kind, p = fs_calls[k]
    return [[Atom(kind), p.encode(), Atom(e)]]


def snap_list(snap):
    info = getattr(snap, "_stat_info", None)
    if info is None:              # EmptyDirectorySnapshot: no baseline was taken (compares unequal to the model's snapshot)
        return [["<no baseline>"]]
    return [[c09.pb(p).hex(), st.st_ino, st.st_dev, int(statmod.S_ISDIR(st.st_mode)), st.st_mtime, st.st_size]
            for p, st in info.items()]


def model_snap(o):
    return [[e[0][1:]] + [int(x) for x in e[1:]] for e in o]


def reachable(tree, recursive, root=ROOT):
    """Independent account: path -> stat list, for the root and what a snapshot must contain."""
    out = {root: tree["st"]}

    def go(p, nd, depth):
        if not nd["st"][2]:
            return
        for n, sub in nd["ch"].items():
            q = p + "/" + n
            out[q] = sub["st"]
            if recursive:
                go(q, sub, depth + 1)
    go(root, tree, 0)
    return out


def expected_under_fault(tree, recursive, call):
    """The entries that must remain when `call` = (kind, path) failed: a failed stat hides the entry and what lies below it,
    a failed listdir hides what lies below the directory."""
    full = reachable(tree, recursive)
    if call is None:
        return full
    kind, p = call
    if kind == "stat":
        return {q: st for q, st in full.items() if q != p and not q.startswith(p + "/")}
    return {q: st for q, st in full.items() if not q.startswith(p + "/")}


def snap_view(snap):
    return {p: [snap.inode(p)[0], snap.inode(p)[1], snap.isdir(p), snap.mtime(p), snap.size(p)] for p in snap.paths}


# ------------------------------------------------------------------ part 1: walk under faults
def run_walks(ctx, res: Result, trees, label, every_position, errnos):
    from watchdog.utils.dirsnapshot import DirectorySnapshot
    rng = ctx.rng("walk/" + label)
    fs = FaultFS()
    lines, impls, metas = [], [], []
    for tree, rec in trees:
        fs.set(tree, None)
        base = DirectorySnapshot(ROOT, recursive=rec, stat=fs.stat, listdir=fs.listdir)
        calls0 = list(fs.calls)
        # clause: exact without faults
        view, want = snap_view(base), reachable(tree, rec)
        res.evaluations += 1
        if view != want or any(base.stat_info(p) is not fs.stats[p] for p in base.paths):
            res.failures.append(Failure(what="snapshot without faults is not exactly the reachable entries with the stat data returned",
                                        case={"tree": tree, "recursive": rec, "fault": None},
                                        signature={"law": "walk_exact", "recursive": rec}, observed=view, expected=want))
        lines.append(sx([Atom("snapshot"), rec, ROOT.encode(), tree_wire(tree), []]))
        impls.append(["SNAP", snap_list(base)])
        metas.append({"tree": tree, "recursive": rec, "fault": None})
        positions = range(len(calls0)) if every_position else sorted(set(rng.choice(range(len(calls0))) for _ in range(3)))
        for k in positions:
            for e in errnos:
                fs.set(tree, (k, e))
                case = {"tree": tree, "recursive": rec, "fault": [k, e], "call": list(calls0[k])}
                try:
                    s = DirectorySnapshot(ROOT, recursive=rec, stat=fs.stat, listdir=fs.listdir)
                    impl = ["SNAP", snap_list(s)]
                except OSError as ex:
                    s = None
                    impl = ["RAISED", errno.errorcode.get(ex.errno, str(ex.errno))]
                res.evaluations += 1
                res.hist("walk_fault", f"{calls0[k][0]}{'(root)' if k < 2 else ''}/{e}")
                res.hist("walk_outcome", impl[0])
                lines.append(sx([Atom("snapshot"), rec, ROOT.encode(), tree_wire(tree), fault_wire(calls0, (k, e))]))
                impls.append(impl)
                metas.append(case)
                res.nontrivial.add(core.digest(["walk", _tw(tree), rec, k, e]))
                # oracle: stated errnos below the root never raise; the result is the tree minus the faulted entry / what lies below
                if e in STATED:
                    sig = {"law": "walk_total", "call": calls0[k][0], "errno": e, "at_root": k < 2, "recursive": rec}
                    if k >= 2 or (k == 1 and e != "EACCES"):
                        want = expected_under_fault(tree, rec, calls0[k])
                        if s is None:
                            res.failures.append(Failure(what=f"snapshot raised although the failing {calls0[k][0]} call is below the root / tolerated",
                                                        case=case, signature=sig, observed=impl, expected=want))
                        elif snap_view(s) != want:
                            res.failures.append(Failure(what="snapshot under a fault is not the tree minus the faulted entry and what lies below it",
                                                        case=case, signature=sig, observed=snap_view(s), expected=want))
                        if rng.random() < 0.1:
                            lines.append(sx([Atom("pruned"), rec, ROOT.encode(), _tw(tree), fault_wire(calls0, (k, e))]))
                            impls.append(impl)
                            metas.append({**case, "pair": "prune"})
                    elif s is not None:
                        # root stat failed / root unreadable: the constructor must raise (handled by the emitter as 'root gone')
                        res.failures.append(Failure(what="snapshot did not raise although the root's own stat failed / the root is unreadable",
                                                    case=case, signature=sig, observed=impl, expected="OSError"))
        if len(lines) > 20000:
            flush_walk(res, lines, impls, metas)
    flush_walk(res, lines, impls, metas)


def flush_walk(res, lines, impls, metas):
    outs = core.run_model("walk", lines)
    for o, im, me in zip(outs, impls, metas):
        res.traces_validated += 1
        mo = [o[0], model_snap(o[1])] if o and o[0] == "SNAP" else o
        if mo != im:
            res.mismatches.append(Mismatch(pair="DirectorySnapshot under a fault plan" if me.get("pair") != "prune" else
                                           "prune (specification tree) vs real snapshot", case=me, model=str(mo)[:800], impl=str(im)[:800]))
    lines.clear(), impls.clear(), metas.clear()


# ------------------------------------------------------------------ part 2: the emitter over sequences of states
def ev_tuple(e):
    k = type(e).__name__.replace("Event", "")
    dst = getattr(e, "dest_path", "") or None
    return (k, e.src_path, dst)


def expected_events(old, new):
    """The difference between two states path -> [ino, dev, isdir, mtime, size] (every inode one path): set of events."""
    io = {(st[0], st[1]): p for p, st in old.items()}
    inw = {(st[0], st[1]): p for p, st in new.items()}
    ev = set()
    for p, st in old.items():
        i = (st[0], st[1])
        kind = "Dir" if st[2] else "File"
        if i not in inw:
            ev.add((kind + "Deleted", p, None))
        else:
            q = inw[i]
            if q != p:
                ev.add((kind + "Moved", p, q))
            if st[3] != new[q][3] or st[4] != new[q][4]:
                ev.add((kind + "Modified", p, None))
    for q, st in new.items():
        if (st[0], st[1]) not in io:
            ev.add((("Dir" if st[2] else "File") + "Created", q, None))
    return ev


def one_path_per_inode(view):
    return len({(st[0], st[1]) for st in view.values()}) == len(view)


def run_sequences(ctx, res: Result, seqs, label):
    """seqs: iterable of {"recursive", "start": tree, "steps": [{"tree": tree|None, "fault": [pos, errno]|None}]}"""
    from watchdog.observers.api import EventQueue, ObservedWatch
    from watchdog.events import FileSystemEventHandler
    from watchdog.observers.polling import PollingEmitter, PollingObserverVFS
    fs = FaultFS()
    lines, impls, metas = [], [], []
    for seq in seqs:
        rec = seq["recursive"]
        # while the emitter is BUILT (schedule()) the file system shows another tree than at start(): "the baseline is the
        # tree at start()" - whatever is read before on_thread_start() must not end up in the first poll's difference
        pre = next((st["tree"] for st in reversed(seq["steps"]) if st["tree"] is not None), seq["start"])
        if pre is not None:
            fs.set(pre, None)
        if seq.get("via") == "PollingObserverVFS":
            # the public route: the observer builds the emitter from its stat/listdir (never started: no thread)
            obs = PollingObserverVFS(fs.stat, fs.listdir, polling_interval=0)
            obs.schedule(FileSystemEventHandler(), ROOT, recursive=rec)
            (em,) = tuple(obs.emitters)
            q = obs.event_queue
            res.hist("emitter_built_by", "PollingObserverVFS.schedule")
        else:
            q = EventQueue()
            em = PollingEmitter(q, ObservedWatch(ROOT, recursive=rec), timeout=0, stat=fs.stat, listdir=fs.listdir)
            res.hist("emitter_built_by", "PollingEmitter(...) directly")
        fs.set(seq["start"], None)
        try:
            em.on_thread_start()
        except OSError:
            lines.append(sx([Atom("polls"), rec, ROOT.encode(), [tree_wire(seq["start"]), []], []]))
            impls.append(["START-RAISED"])
            metas.append(seq)
            continue
        visible = reachable(seq["start"], rec)      # the oracle's own account of the previous state
        impl = ["OK"]
        wsteps = []
        stopped = False
        for si, step in enumerate(seq["steps"]):
            tree, fault = step["tree"], step.get("fault")
            fault = tuple(fault) if fault else None
            fs.set(tree, fault)
            try:
                em.queue_events(0)
            except Exception as ex:      # nothing may escape a poll
                res.evaluations += 1
                res.failures.append(Failure(what=f"queue_events raised {type(ex).__name__}: {ex}",
                                            case={"recursive": rec, "start": seq["start"], "steps": seq["steps"][:si + 1], "via": seq.get("via")},
                                            signature={"law": "poll_raises", "exception": type(ex).__name__, "recursive": rec},
                                            observed=repr(ex), expected="events"))
                impl.append(["RAISED", type(ex).__name__])
                wsteps.append([tree_wire(tree), fault_wire(list(fs.calls), fault)])
                break
            evs = []
            while not q.empty():
                e, w = q.get_nowait()
                evs.append(ev_tuple(e))
            calls = list(fs.calls)
            call = calls[fault[0]] if fault and fault[0] < len(calls) else None
            now_stopped = not em.should_keep_running()
            res.evaluations += 1
            case = {"recursive": rec, "start": seq["start"], "steps": seq["steps"][:si + 1], "failing_step": si, "via": seq.get("via")}
            sig_base = {"recursive": rec, "fault_call": call[0] if call else None, "errno": fault[1] if call else None}
            # --- canonical form for the correspondence: blocks in source order, sorted inside a block
            ks = [KINDS.index(k) for k, _, _ in evs]
            blocks_ok = ks == sorted(ks)
            canon = sorted(([k, s.encode().hex(), None if d is None else d.encode().hex()] for k, s, d in evs),
                           key=lambda x: (KINDS.index(x[0]), x[1], x[2] or ""))
            impl.append(["STEP", canon if blocks_ok else ["BLOCK-ORDER-BROKEN", evs], int(now_stopped), snap_list(em._snapshot)])
            wsteps.append([tree_wire(tree), fault_wire(calls, fault)])
            # --- oracle
            if stopped:
                if evs:
                    res.failures.append(Failure(what="events after the emitter stopped", case=case, signature={**sig_base, "law": "stopped"},
                                                observed=evs, expected=[]))
                res.hist("poll_class", "after stop")
                continue
            root_gone = tree is None or (call is not None and (fault[0] == 0 or (fault[0] == 1 and fault[1] not in ("ENOENT", "ENOTDIR", "EINVAL"))))
            if root_gone:
                res.hist("poll_class", "root gone")
                if tree is None or fault[0] == 0 or fault[1] in STATED:
                    if evs != [("DirDeleted", ROOT, None)] or not now_stopped:
                        res.failures.append(Failure(what="root gone: expected exactly one DirDeletedEvent for the root and a stopped emitter",
                                                    case=case, signature={**sig_base, "law": "root_gone"},
                                                    observed=[evs, now_stopped], expected=[[("DirDeleted", ROOT, None)], True]))
                stopped = now_stopped
                res.nontrivial.add(core.digest(["gone", rec, si]))
                continue
            if call is not None and fault[1] not in STATED:
                # outside the stated fault set: correspondence only
                res.hist("poll_class", "fault outside the stated set")
                stopped = now_stopped
                visible = snap_view(em._snapshot) if not now_stopped else visible
                continue
            new_visible = expected_under_fault(tree, rec, call)
            res.hist("poll_class", "fault below root" if call else ("unchanged" if new_visible == visible else "changed"))
            if now_stopped:
                res.failures.append(Failure(what="emitter stopped although the root is there", case=case,
                                            signature={**sig_base, "law": "survives"}, observed=evs, expected="running"))
                stopped = True
                continue
            if len(set(evs)) != len(evs):
                res.failures.append(Failure(what="an entry of the difference is reported twice", case=case,
                                            signature={**sig_base, "law": "once"}, observed=evs, expected=None))
            for dk, ck in (("FileDeleted", "FileCreated"), ("DirDeleted", "DirCreated")):
                kinds = [k for k, _, _ in evs]
                if dk in kinds and ck in kinds and max(i for i, k in enumerate(kinds) if k == dk) > min(i for i, k in enumerate(kinds) if k == ck):
                    res.failures.append(Failure(what=f"a {dk} event after a {ck} event", case=case,
                                                signature={**sig_base, "law": "order"}, observed=evs, expected=None))
            if new_visible == visible and evs:
                res.failures.append(Failure(what="events although nothing changed", case=case,
                                            signature={**sig_base, "law": "quiet"}, observed=evs, expected=[]))
            if one_path_per_inode(visible) and one_path_per_inode(new_visible):
                want = expected_events(visible, new_visible)
                if set(evs) != want:
                    res.failures.append(Failure(what="events of a poll are not exactly the difference between the previous and the new state",
                                                case=case, signature={**sig_base, "law": "poll_exact"},
                                                observed=sorted(evs, key=repr), expected=sorted(want, key=repr)))
                res.hist("exact_event_oracle", "evaluated")
            else:
                res.hist("exact_event_oracle", "skipped (hard links)")
            if snap_view(em._snapshot) != new_visible:
                res.failures.append(Failure(what="the new baseline is not the new state of the tree", case=case,
                                            signature={**sig_base, "law": "baseline"}, observed=snap_view(em._snapshot), expected=new_visible))
            if evs:
                res.nontrivial.add(core.digest(["poll", sorted(visible.items()), sorted(new_visible.items()), rec]))
            res.hist("events_per_poll", min(len(evs), 8))
            visible = new_visible
        lines.append(sx([Atom("polls"), rec, ROOT.encode(), [tree_wire(seq["start"]), []], wsteps]))
        impls.append(impl)
        metas.append(seq)
        if len(res.samples) < 4 and len(seq["steps"]) >= 2 and sum(len(s[1]) for s in impl[1:] if s[0] == "STEP") >= 3 and label != "exhaustive":
            def _show(x):
                try:
                    return bytes.fromhex(x).decode()
                except (ValueError, TypeError):
                    return x
            try:
                shown = [[[e[0], _show(e[1]), e[2] and _show(e[2])] for e in s[1]] if s[0] == "STEP" else list(s) for s in impl[1:]]
            except Exception:      # noqa: BLE001 - a sample is documentation only; never let it break the check
                shown = [list(s) if isinstance(s, (list, tuple)) else s for s in impl[1:]]
            res.samples.append({"recursive": rec, "start": seq["start"], "steps": seq["steps"], "events": shown})
        if len(lines) >= 5000:
            flush_polls(res, lines, impls, metas)
    flush_polls(res, lines, impls, metas)


def flush_polls(res, lines, impls, metas):
    outs = core.run_model("walk", lines)
    for o, im, me in zip(outs, impls, metas):
        res.traces_validated += 1
        mo = o
        if o and o[0] == "OK":
            mo = ["OK"]
            for s in o[1:]:
                if s[0] != "STEP":
                    mo.append(s)
                    continue
                evs = {(e[0], e[1][1:], e[2][0][1:] if e[2] else None) for e in s[1]}
                canon = sorted(([k, a, b] for k, a, b in evs), key=lambda x: (KINDS.index(x[0]), x[1], x[2] or ""))
                # the model's blocks are in source order by construction; check it anyway
                ks = [KINDS.index(e[0]) for e in s[1]]
                if ks != sorted(ks):
                    canon = ["MODEL-BLOCK-ORDER-BROKEN"]
                mo.append(["STEP", canon, int(s[2]), model_snap(s[3])])
        if mo != im:
            first = next((i for i, (a, b) in enumerate(zip(mo, im)) if a != b), None)
            res.mismatches.append(Mismatch(pair="PollingEmitter on_thread_start / queue_events sequence", case=me,
                                           model=f"first difference at item {first}: " + str(mo[first] if first is not None and first < len(mo) else mo)[:700],
                                           impl=str(im[first] if first is not None and first < len(im) else im)[:700]))
    lines.clear(), impls.clear(), metas.clear()


# ------------------------------------------------------------------ generators
def rand_state_tree(rng, unique=True):
    pool = [(i, 1) for i in range(1, 8)]
    return c09.rand_tree(rng, pool, unique, max_entries=5 if unique else 6), pool


def rand_sequence(rng, with_faults):
    unique = rng.random() < 0.85
    t, pool = rand_state_tree(rng, unique)
    t["st"][2] = True
    seq = {"recursive": rng.random() < 0.7, "start": copy.deepcopy(t), "steps": [],
           "via": "PollingObserverVFS" if rng.random() < 0.3 else "PollingEmitter"}
    for i in range(rng.randint(2, 5)):
        r = rng.random()
        if r < 0.15:
            pass                                    # unchanged
        else:
            for _ in range(rng.choice([1, 1, 2])):
                c09.mutate(rng, t, pool)
        step = {"tree": copy.deepcopy(t), "fault": None}
        if with_faults and rng.random() < 0.35:
            step["fault"] = [rng.randint(0, 2 + 2 * sum(1 for _ in entries(t))), rng.choice(STATED + STATED + ["EIO", "EINVAL"])]
        seq["steps"].append(step)
        if step["fault"] and step["fault"][0] <= 1:
            seq["steps"].append({"tree": copy.deepcopy(t), "fault": None})     # a poll after a possible stop
            break
    if rng.random() < 0.2:
        seq["steps"].append({"tree": None, "fault": None})
        seq["steps"].append({"tree": copy.deepcopy(t), "fault": None})
    return seq


def fault_sequences(tree0, tree1, rec):
    """One poll with a fault at every call position of its walk, for the stated errnos."""
    fs = FaultFS()
    fs.set(tree1, None)
    from watchdog.utils.dirsnapshot import DirectorySnapshot
    DirectorySnapshot(ROOT, recursive=rec, stat=fs.stat, listdir=fs.listdir)
    n = len(fs.calls)
    for k in range(n):
        for e in STATED:
            yield {"recursive": rec, "start": tree0, "steps": [{"tree": tree1, "fault": [k, e]}, {"tree": tree1, "fault": None}]}


def corpus_sequences():
    f, d = False, True
    A = node(1, 1, d, 0, 0, {"a": node(2, 1, d, 0, 0, {"x": node(3, 1, f, 0, 0), "y": node(4, 1, d, 0, 0)}), "b": node(5, 1, f, 0, 0)})
    B = node(1, 1, d, 1, 0, {"a": node(2, 1, d, 1, 0, {"x": node(3, 1, f, 0, 1)}), "c": node(5, 1, f, 0, 0), "e": node(6, 1, d, 0, 0)})
    out = []
    for rec in (True, False):
        out.append({"recursive": rec, "start": A, "steps": [{"tree": A, "fault": None}, {"tree": B, "fault": None}, {"tree": B, "fault": None},
                                                            {"tree": A, "fault": None}, {"tree": None, "fault": None}, {"tree": A, "fault": None}]})
        out += list(fault_sequences(A, B, rec))
        out += list(fault_sequences(A, A, rec))
        # replace_dir_with_file / permission error of the upstream tests, at the listing of /r/a
        out.append({"recursive": rec, "start": A, "steps": [{"tree": A, "fault": [5, "EIO"]}, {"tree": A, "fault": None}]})
    return out


def run(ctx) -> Result:
    res = Result()
    res.rule = ("(1) walks: virtual trees (names a-d, depth <= 2, <= 6 entries, file/dir kinds) snapshotted through the real DirectorySnapshot, "
                "fault-free and with one failing stat/listdir call (ENOENT, ENOTDIR, EACCES; EINVAL, EIO for the correspondence only) at "
                "sampled (quick) / every (thorough) call position; recursive and not; (2) polls: sequences of 2-6 states (mutations of the "
                "previous state, unchanged states, root removal, optional fault during the poll) driven through the real PollingEmitter; "
                "distinct non-trivial = (tree, recursive, position, errno) of a faulted walk, (previous state, new state, recursive) of a poll "
                "with at least one event, and root-gone polls")
    rng = ctx.rng("walks")
    nwalk = 1500 if not ctx.thorough else 6000
    trees = []
    for i in range(nwalk):
        t, _ = rand_state_tree(rng, rng.random() < 0.8)
        if rng.random() < 0.95:
            t["st"][2] = True
        trees.append((t, rng.random() < 0.7))
    for c in ctx.corpus():
        c = c.get("case", c)
        if "tree" in c:
            trees.insert(0, (c["tree"], c["recursive"]))
    run_walks(ctx, res, trees, "random", every_position=ctx.thorough, errnos=list(ERRNOS))
    seqs = corpus_sequences()
    for c in ctx.corpus():
        c = c.get("case", c)
        if "steps" in c:
            seqs.insert(0, {"recursive": c["recursive"], "start": c["start"], "steps": c["steps"], "via": c.get("via")})
    run_sequences(ctx, res, seqs, "corpus")
    rng = ctx.rng("seqs")
    nseq = 2000 if not ctx.thorough else 8000
    run_sequences(ctx, res, (rand_sequence(rng, with_faults=True) for _ in range(nseq)), "random")
    # a fault at every call position of a poll's walk
    rng = ctx.rng("faultpolls")
    npairs = 60 if not ctx.thorough else 1200

    def gen():
        for _ in range(npairs):
            t, pool = rand_state_tree(rng, True)
            t["st"][2] = True
            t2 = copy.deepcopy(t)
            for _ in range(rng.choice([0, 1, 2])):
                c09.mutate(rng, t2, pool)
            yield from fault_sequences(t, t2, rng.random() < 0.7)
    run_sequences(ctx, res, gen(), "fault-at-every-position")
    if ctx.thorough:
        small = c09.all_small_trees([(0, 0), (1, 0)])
        run_sequences(ctx, res, ({"recursive": True, "start": a, "steps": [{"tree": b, "fault": None}]} for a in small for b in small),
                      "exhaustive")
        res.notes.append(f"exhaustive: one poll for every ordered pair of the {len(small)} trees with a fixed root and <= 2 further entries "
                         "(names {a,b}, inodes {1,2,3} duplicates allowed, kinds, mtime in {0,1}), recursive")
        res.notes.append("a fault at every stat/listdir call position x 5 errnos of every generated walk; x 3 stated errnos of the polls of "
                         f"{npairs} state pairs")
        res.exhaustive = True
    res.notes.append("EACCES on the root's own listdir raises out of the constructor and is handled as 'root gone' (DirDeleted(root) + stop); "
                     "errnos outside the stated set (EIO) on any listdir escalate the same way, EINVAL is tolerated like ENOENT: "
                     "correspondence only, no oracle clause")
    return res


def replay(ctx, obj) -> int:
    case = obj.get("case", obj)
    if "first_disagreement" in obj:
        case = obj["first_disagreement"]["case"]
    res = Result()
    if "steps" in case:
        print("replay sequence: recursive =", case["recursive"])
        print(" start:", case["start"])
        for s in case["steps"]:
            print(" step :", s)
        run_sequences(ctx, res, [{"recursive": case["recursive"], "start": case["start"], "steps": case["steps"],
                                  "via": case.get("via")}], "replay")
    else:
        print("replay walk:", case)
        fs = FaultFS()
        fs.set(case["tree"], None)
        from watchdog.utils.dirsnapshot import DirectorySnapshot
        DirectorySnapshot(ROOT, recursive=case["recursive"], stat=fs.stat, listdir=fs.listdir)
        print("calls of the fault-free walk:", list(enumerate(fs.calls)))
        only = case.get("fault")

        class C:
            thorough = True

            @staticmethod
            def rng(tag):
                return ctx.rng(tag)
        run_walks(C, res, [(case["tree"], case["recursive"])], "replay", every_position=True,
                  errnos=[only[1]] if only else list(ERRNOS))
        if only:
            res.failures = [f for f in res.failures if f.case.get("fault") == list(only)]
            res.mismatches = [m for m in res.mismatches if m.case.get("fault") == list(only)]
    for f in res.failures:
        print("FAIL:", f.what, "\n  observed", f.observed, "\n  expected", f.expected)
    for m in res.mismatches:
        print("MISMATCH:", m.pair, "\n  model", m.model, "\n  impl ", m.impl)
    return 1 if res.failures or res.mismatches else 0
