(* Model of watchdog.utils.bricks.SkipRepeatsQueue (= observers.api.EventQueue) as a labelled
   transition system with any number of producers and one consumer, and of the equality of
   watchdog.events.FileSystemEvent objects.  Definitions only.

   Source cut points (bricks.py):
     put:   if self._last_item is None            <- PRead1 (unlocked read)
               or item != self._last_item:         <- PRead2 (second unlocked read of the CURRENT value)
                super().put(item, ...)             <- PPut   (queue mutex held: _put = append; _last_item = item)
     get:   queue.Queue.get -> _get                <- CGet   (queue mutex held, enabled when non-empty:
                                                              popleft; if item is _last_item: _last_item = None)
   Inside _put/_get the only shared variable that unlocked code can see is _last_item and it is written
   once, at the end; the step is placed at that write. *)
Require Import WD.Base.Prelude.

(* An item is (identity, value): [ident] is the Python object identity (`is`), [value] the
   equivalence class of `==`. *)
Definition item := (N * N)%type.
Definition ident (x : item) : N := fst x.
Definition value (x : item) : N := snd x.

(* Program counter of a producer that is inside put(x).  An idle producer has no entry. *)
Inductive pc :=
| AtRead2 (x : item)     (* first read saw an item: about to evaluate `item != self._last_item` *)
| AtPut (x : item).      (* the test succeeded: about to run the locked super().put *)

Definition pc_item (c : pc) : item := match c with AtRead2 x => x | AtPut x => x end.

Inductive label :=
| PRead1 (p : N) (x : item)
| PRead2 (p : N)
| PPut (p : N)
| CGet.

(* What the real code observes at the step. *)
Inductive obs :=
| ORead (v : option item)     (* the value of _last_item that was read *)
| OPut (x : item)             (* the item appended *)
| OGet (x : item).            (* the item popped *)

Record state := mkState {
  queue : list item;                 (* the deque *)
  last_item : option item;           (* self._last_item *)
  pcs : list (N * pc);               (* producers inside put *)
  (* ghost *)
  enq : list item;                   (* everything ever appended, in append order *)
  out : list item;                   (* everything popped, in pop order *)
  dropped : list (item * item)       (* (x, y): put(x) returned without appending, having read _last_item = y *)
}.

Definition init : state := mkState [] None [] [] [] [].

Definition pc_of (s : state) (p : N) : option pc := alookup N.eqb p (pcs s).

Definition with_pcs (s : state) (m : list (N * pc)) : state :=
  mkState (queue s) (last_item s) m (enq s) (out s) (dropped s).

Definition step (s : state) (l : label) : option (state * obs) :=
  match l with
  | PRead1 p x =>
    match pc_of s p with
    | Some _ => None
    | None =>
      let c := match last_item s with None => AtPut x | Some _ => AtRead2 x end in
      Some (with_pcs s (aset N.eqb p c (pcs s)), ORead (last_item s))
    end
  | PRead2 p =>
    match pc_of s p with
    | Some (AtRead2 x) =>
      match last_item s with
      | None => Some (with_pcs s (aset N.eqb p (AtPut x) (pcs s)), ORead None)
      | Some y =>
        if N.eqb (value x) (value y)
        then Some (mkState (queue s) (last_item s) (aremove N.eqb p (pcs s)) (enq s) (out s)
                           (dropped s ++ [(x, y)]), ORead (Some y))
        else Some (with_pcs s (aset N.eqb p (AtPut x) (pcs s)), ORead (Some y))
      end
    | _ => None
    end
  | PPut p =>
    match pc_of s p with
    | Some (AtPut x) =>
      Some (mkState (queue s ++ [x]) (Some x) (aremove N.eqb p (pcs s)) (enq s ++ [x]) (out s) (dropped s),
            OPut x)
    | _ => None
    end
  | CGet =>
    match queue s with
    | [] => None
    | h :: t =>
      let l' := match last_item s with
                | Some y => if N.eqb (ident h) (ident y) then None else Some y
                | None => None
                end in
      Some (mkState t l' (pcs s) (enq s) (out s ++ [h]) (dropped s), OGet h)
    end
  end.

Fixpoint run (s : state) (tr : list label) : option state :=
  match tr with
  | [] => Some s
  | l :: tr' => match step s l with Some (s', _) => run s' tr' | None => None end
  end.

(* The items offered to the queue by a label list: the arguments of the put calls that started. *)
Definition offered_by (l : label) : list item := match l with PRead1 _ x => [x] | _ => [] end.
Definition offered (tr : list label) : list item := flat_map offered_by tr.

(* Items whose put has started and neither appended nor dropped yet. *)
Definition pending (s : state) : list item := map (fun e => pc_item (snd e)) (pcs s).

Fixpoint final {A : Type} (l : list A) : option A :=
  match l with
  | [] => None
  | [x] => Some x
  | _ :: l' => final l'
  end.

(* ---- a put / a get executed without interleaving (sequential use of the queue) ---- *)

Definition step_st (s : state) (l : label) : option state :=
  match step s l with Some (s', _) => Some s' | None => None end.

(* run producer p's current put to its end *)
Definition finish_put (p : N) (s : state) : option state :=
  match pc_of s p with
  | None => Some s
  | Some (AtPut _) => step_st s (PPut p)
  | Some (AtRead2 _) =>
    match step_st s (PRead2 p) with
    | None => None
    | Some s1 =>
      match pc_of s1 p with
      | Some (AtPut _) => step_st s1 (PPut p)
      | _ => Some s1
      end
    end
  end.

Definition seq_put (p : N) (x : item) (s : state) : option state :=
  match step_st s (PRead1 p x) with
  | None => None
  | Some s1 => finish_put p s1
  end.

(* get_nowait: None = queue.Empty *)
Definition seq_get (s : state) : option (state * item) :=
  match step s CGet with
  | Some (s', OGet h) => Some (s', h)
  | _ => None
  end.

(* ---- equality of events (events.py: @dataclass(unsafe_hash=True) class FileSystemEvent) ----
   dataclass __eq__: `other.__class__ is self.__class__` and the tuples
   (src_path, dest_path, event_type, is_directory, is_synthetic) are equal.
   event_type and is_directory are class attributes (init=False): functions of the class. *)

Inductive ecls :=
| CFileSystemEvent | CFileSystemMovedEvent
| CFileDeleted | CFileModified | CFileCreated | CFileMoved | CFileClosed | CFileClosedNoWrite | CFileOpened
| CDirDeleted | CDirModified | CDirCreated | CDirMoved.

Inductive etype := TNone | TMoved | TDeleted | TCreated | TModified | TClosed | TClosedNoWrite | TOpened.

Definition event_type (c : ecls) : etype :=
  match c with
  | CFileSystemEvent => TNone
  | CFileSystemMovedEvent | CFileMoved | CDirMoved => TMoved
  | CFileDeleted | CDirDeleted => TDeleted
  | CFileModified | CDirModified => TModified
  | CFileCreated | CDirCreated => TCreated
  | CFileClosed => TClosed
  | CFileClosedNoWrite => TClosedNoWrite
  | CFileOpened => TOpened
  end.

Definition is_directory (c : ecls) : bool :=
  match c with CDirDeleted | CDirModified | CDirCreated | CDirMoved => true | _ => false end.

(* a path is a str or a bytes object; "a" != b"a" *)
Inductive path := PStr (s : bytes) | PBytes (s : bytes).

Record event := mkEvent { cls : ecls; src_path : path; dest_path : path; is_synthetic : bool }.

Definition ecls_tag (c : ecls) : N :=
  match c with
  | CFileSystemEvent => 0 | CFileSystemMovedEvent => 1
  | CFileDeleted => 2 | CFileModified => 3 | CFileCreated => 4 | CFileMoved => 5 | CFileClosed => 6
  | CFileClosedNoWrite => 7 | CFileOpened => 8
  | CDirDeleted => 9 | CDirModified => 10 | CDirCreated => 11 | CDirMoved => 12
  end.
Definition ecls_eqb (a b : ecls) : bool := N.eqb (ecls_tag a) (ecls_tag b).

Definition etype_tag (t : etype) : N :=
  match t with
  | TNone => 0 | TMoved => 1 | TDeleted => 2 | TCreated => 3 | TModified => 4 | TClosed => 5
  | TClosedNoWrite => 6 | TOpened => 7
  end.
Definition etype_eqb (a b : etype) : bool := N.eqb (etype_tag a) (etype_tag b).

Definition path_eqb (a b : path) : bool :=
  match a, b with
  | PStr x, PStr y => beqb x y
  | PBytes x, PBytes y => beqb x y
  | _, _ => false
  end.

Definition event_eqb (a b : event) : bool :=
  ecls_eqb (cls a) (cls b) &&
  (path_eqb (src_path a) (src_path b) &&
   (path_eqb (dest_path a) (dest_path b) &&
    (etype_eqb (event_type (cls a)) (event_type (cls b)) &&
     (Bool.eqb (is_directory (cls a)) (is_directory (cls b)) &&
      Bool.eqb (is_synthetic a) (is_synthetic b))))).
