(* C02 past directory move-outs (repair of F10): junk IN_IGNORED records of forgotten descriptors, the state right
   after a directory left the tree (move-out candidate pending, departed watches still there), and how the next
   record the reader processes forgets the departed sub-tree. *)
Require Import WD.Base.Prelude WD.Base.BStr WD.Model.SubEvents WD.Model.Emitter WD.Model.Fs WD.Model.Reader.
Require Import WD.Proofs.SubEventsProofs WD.Proofs.ReaderFixProofs WD.Proofs.PathProofs WD.Proofs.CoverProofs.

Local Arguments sep : simpl never.

Section Out.
  Variable C : cfg.
  Hypothesis Hfaults : c_faults C = [].
  Hypothesis Hmo : c_fix_moveout C = true.
  Let root := c_root C.

  (* ---------------------------------------------------------------- junk: IN_IGNORED records of forgotten descriptors *)
  Definition junk_ev (k : kst) (r : rstate) (a : kraw) : Prop :=
    alookup N.eqb (k_wd a) (pfw r) = None /\ (forall kw, In kw (k_watches k) -> kw_wd kw <> k_wd a).

  (* synchronised up to junk in the kernel queue *)
  Record JSync (w : world) (k : kst) (r : rstate) : Prop := {
    js_sync : RSync C w (kset_queue k []) r;
    js_junk : Forall (junk_ev k r) (k_queue k)
  }.

  Lemma RSync_JSync w k r : RSync C w k r -> JSync w k r.
  Proof.
    intros S. assert (Hq := rs_queue _ _ _ _ S). split; [|rewrite Hq; constructor].
    destruct k as [ws nw qu nc]. cbn in Hq. subst qu. exact S.
  Qed.

  (* a record for an unknown descriptor is skipped *)
  Lemma read_skip t r k acc a : pend r = None -> alookup N.eqb (k_wd a) (pfw r) = None ->
    read_one C t (r, k, acc) a = Done (r, k, acc).
  Proof. intros Hp Hw. rewrite read_one_body_eq by exact Hp. unfold read_one_body. now rewrite Hw, Hmo. Qed.

  Lemma read_batch_skip t r k acc J Q : pend r = None ->
    Forall (fun a => alookup N.eqb (k_wd a) (pfw r) = None) J ->
    read_batch C t (r, k, acc) (J ++ Q) = read_batch C t (r, k, acc) Q.
  Proof.
    intros Hp. induction 1 as [|a J Ha HJ IH]; [reflexivity|]. cbn [app read_batch]. now rewrite read_skip.
  Qed.

  (* ---------------------------------------------------------------- the kernel appends behind junk *)
  Definition qext (J : list kraw) (k1 k2 : kst) : Prop :=
    k_watches k1 = k_watches k2 /\ k_next_wd k1 = k_next_wd k2 /\ k_next_cookie k1 = k_next_cookie k2 /\
    k_queue k1 = J ++ k_queue k2.

  Definition jfree (J : list kraw) (k : kst) : Prop :=
    forall a kw, In a J -> In kw (k_watches k) -> kw_wd kw <> k_wd a.

  Lemma kpush_qext J q e : (forall a, In a J -> k_wd a <> k_wd e) -> kpush (J ++ q) e = J ++ kpush q e.
  Proof.
    intros HJ. unfold kpush. rewrite rev_app_distr. destruct (rev q) as [|l rq] eqn:Eq.
    - assert (q = []) by (apply (f_equal (@rev kraw)) in Eq; now rewrite rev_involutive in Eq). subst q.
      cbn [app]. rewrite !app_nil_r. destruct (rev J) as [|a rj] eqn:Ej; [reflexivity|].
      assert (Ha : In a J) by (apply in_rev; rewrite Ej; now left).
      unfold kraw_eqb. apply HJ in Ha. apply N.eqb_neq in Ha. now rewrite Ha.
    - cbn [app]. destruct (kraw_eqb l e); [reflexivity | now rewrite app_assoc].
  Qed.

  Lemma knotify_qext J k1 k2 ino bit isd c name : qext J k1 k2 -> jfree J k2 ->
    qext J (knotify k1 ino bit isd c name) (knotify k2 ino bit isd c name).
  Proof.
    intros (A & B & D & E) HJ. unfold knotify, watch_of_ino. rewrite A.
    destruct (find _ (k_watches k2)) as [kw|] eqn:Ef; [|now repeat split].
    destruct (N.eqb (N.land bit (kw_mask kw)) 0); [now repeat split|].
    repeat split; cbn; try assumption. rewrite E. apply kpush_qext. intros a Ha. cbn.
    apply find_some in Ef as [Hk _]. intros Eq. exact (HJ a kw Ha Hk (eq_sym Eq)).
  Qed.

  Lemma knotify_jfree J k ino bit isd c name : jfree J k -> jfree J (knotify k ino bit isd c name).
  Proof.
    intros H a kw Ha Hk. apply (H a kw Ha).
    destruct (knotify_cases k ino bit isd c name) as [E|(kw' & _ & _ & E)]; rewrite E in Hk; exact Hk.
  Qed.

  Lemma kgone_qext J k1 k2 ino af : qext J k1 k2 -> jfree J k2 -> qext J (kgone k1 ino af) (kgone k2 ino af) /\ jfree J (kgone k2 ino af).
  Proof.
    intros Q HJ. assert (Q0 := Q). destruct Q as (A & B & D & E). unfold kgone, watch_of_ino. rewrite A.
    destruct (find _ (k_watches k2)) as [kw|] eqn:Ef; [|split; assumption].
    fold (watch_of_ino k2 ino) in Ef.
    set (a1 := if af then knotify k1 ino IN_ATTRIB true 0 [] else k1).
    set (a2 := if af then knotify k2 ino IN_ATTRIB true 0 [] else k2).
    assert (Q1 : qext J a1 a2 /\ jfree J a2).
    { unfold a1, a2. destruct af; [split; [now apply knotify_qext | now apply knotify_jfree] | split; assumption]. }
    destruct Q1 as [Q1 J1].
    assert (Q2 := knotify_qext J a1 a2 ino IN_DELETE_SELF false 0 [] Q1 J1).
    assert (J2 := knotify_jfree J a2 ino IN_DELETE_SELF false 0 [] J1).
    destruct Q2 as (A2 & B2 & D2 & E2). split.
    - repeat split; cbn; try assumption; [now rewrite A2|]. rewrite E2. apply kpush_qext. intros a Ha. cbn.
      apply watch_of_ino_some in Ef as [Hk _]. intros Eq. exact (HJ a kw Ha Hk (eq_sym Eq)).
    - intros a kw' Ha Hk. cbn in Hk. apply filter_In in Hk as [Hk _]. exact (J2 a kw' Ha Hk).
  Qed.

  Lemma kernel_op_qext J k1 k2 t o : qext J k1 k2 -> jfree J k2 -> qext J (kernel_op k1 t o) (kernel_op k2 t o).
  Proof.
    intros Q HJ. destruct o as [p|p|p|p|p|p|p q]; cbn [kernel_op].
    - repeat first [apply knotify_qext | apply knotify_jfree]; assumption.
    - repeat first [apply knotify_qext | apply knotify_jfree]; assumption.
    - destruct (fisdir p t); repeat first [apply knotify_qext | apply knotify_jfree]; assumption.
    - now apply knotify_qext.
    - now apply knotify_qext.
    - destruct (kgone_qext J k1 k2 (ino_of t p) false Q HJ) as [Q1 J1]. now apply knotify_qext.
    - set (c1 := {| k_watches := k_watches k1; k_next_wd := k_next_wd k1; k_queue := k_queue k1; k_next_cookie := k_next_cookie k1 + 1 |}).
      set (c2 := {| k_watches := k_watches k2; k_next_wd := k_next_wd k2; k_queue := k_queue k2; k_next_cookie := k_next_cookie k2 + 1 |}).
      assert (Q0 : qext J c1 c2) by (destruct Q as (A & B & D & E); repeat split; cbn; congruence).
      assert (J0 : jfree J c2) by exact HJ.
      destruct Q as (_ & _ & D & _). rewrite D.
      assert (Q2 : qext J (knotify (knotify c1 (ino_of t (dirname p)) IN_MOVED_FROM (fisdir p t) (k_next_cookie k2) (basename p))
                                   (ino_of t (dirname q)) IN_MOVED_TO (fisdir p t) (k_next_cookie k2) (basename q))
                          (knotify (knotify c2 (ino_of t (dirname p)) IN_MOVED_FROM (fisdir p t) (k_next_cookie k2) (basename p))
                                   (ino_of t (dirname q)) IN_MOVED_TO (fisdir p t) (k_next_cookie k2) (basename q))).
      { apply knotify_qext; [now apply knotify_qext | now apply knotify_jfree]. }
      destruct (fisdir q t); [|exact Q2]. apply kgone_qext; [exact Q2|]. now repeat apply knotify_jfree.
  Qed.

  Lemma qext_drainq J k1 k2 : qext J k1 k2 -> drainq k1 = drainq k2.
  Proof. intros (A & B & D & _). unfold drainq, kset_queue. now rewrite A, B, D. Qed.

  (* one covered operation and one read of the whole queue from a state synchronised up to junk *)
  Theorem cover_step_junk w k r o w' : mask_ok C -> JSync w k r -> covered_op C w o -> apply_op w o = Some w' ->
    let k1 := kernel_op k (w_fs w) o in
    exists r' k' evs, read_batch C (w_fs w') (r, drainq k1, []) (k_queue k1) = Done (r', k', evs) /\ RSync C w' k' r' /\
      Forall (rsafe C) evs.
  Proof.
    intros M [S HJ] Ho Ha k1.
    assert (Q : qext (k_queue k) k (kset_queue k [])) by (repeat split; cbn; now rewrite ?app_nil_r).
    assert (JF : jfree (k_queue k) (kset_queue k [])).
    { intros a kw Ha' Hk. rewrite Forall_forall in HJ. destruct (HJ a Ha') as [_ H]. now apply H. }
    assert (Q1 := kernel_op_qext _ _ _ (w_fs w) o Q JF). fold k1 in Q1.
    destruct (cover_step_safe C Hfaults w (kset_queue k []) r o w' M S Ho Ha) as (r' & k' & evs & Hrd & S' & Hsafe).
    exists r', k', evs. split; [|split; assumption].
    rewrite (qext_drainq _ _ _ Q1). destruct Q1 as (_ & _ & _ & ->).
    rewrite read_batch_skip; [exact Hrd | apply (rs_pend _ _ _ _ S)|].
    eapply Forall_impl; [|exact HJ]. intros a [H _]. exact H.
  Qed.
End Out.
