(* C06 - No API call order deadlocks; stop()+join() always ends every library thread. *)
Require Import WD.Base.Prelude WD.Model.Observer WD.Proofs.ObserverProofs WD.Proofs.ObserverExamples.

(* (i) full statement - NOT proved in full (see C06_no_deadlock_partial and the evidence notes). *)
Definition C06_no_deadlock_full : Prop := forall s, reachable s -> deadlocked s = false.

(* (i, partial) while any emitter thread is running the system is not deadlocked, because ... *)
Theorem C06_no_deadlock_partial : forall s, existsb em_running (ems s) = true -> deadlocked s = false.
Proof. exact running_not_deadlocked. Qed.
Print Assumptions C06_no_deadlock_partial.

(* ... a started, not yet exited emitter thread can always take a step: it never waits for the observer
   lock (nor for anything else). *)
Theorem C06_emitter_never_blocked : forall s e m, get_em s e = Some m -> em_running m = true ->
  exists l s', em_of l = Some e /\ step s l = Some s'.
Proof. exact emitter_never_blocked. Qed.
Print Assumptions C06_emitter_never_blocked.

(* (ii) bounded shutdown of emitter threads: once its stop flag is set, each own step of an emitter
   strictly decreases em_bound (<= 3), the flag stays set; with weak fairness the join in
   unschedule / unschedule_all / stop therefore returns. *)
Theorem C06_emitter_bounded : forall s l s' e m,
  step s l = Some s' -> em_of l = Some e -> get_em s e = Some m -> estop m = true ->
  exists m', get_em s' e = Some m' /\ estop m' = true /\ em_bound m' < em_bound m.
Proof. exact emitter_bounded. Qed.
Print Assumptions C06_emitter_bounded.

(* (iii) stop() twice, from inside a callback, is an ordinary reachable state; the run continues to a
   state where every library thread has exited, the lock is free and nothing is deadlocked. *)
Example C06_stop_twice_from_callback :
  option_map (fun s => (dcont s, lock s, deadlocked s)) (run init tr_stop_in_callback)
  = Some ([ICall CStop; ICall CStop; DTurns; IRel; DTaskDone; DCheck], Some (TD, 1%nat), false).
Proof. vm_compute. reflexivity. Qed.

Example C06_shutdown_completes :
  option_map (fun s => (dcont s, lock s, deadlocked s, finished s, queue s)) (run init tr_shutdown)
  = Some ([], None, false, true, [QStop]).
Proof. vm_compute. reflexivity. Qed.
