(* A small file-system model for the OS simulators of C20 (ReadDirectoryChangesW, FSEvents):
   the watched tree as a flat list of entries keyed by their component path relative to the
   watch root, the operation alphabet of C01, and the abstract (component-path) event language
   in which contracts and the replay law are stated.  Definitions only. *)
Require Import WD.Base.Prelude WD.Base.BStr WD.Model.SubEvents.

Definition path := list bytes.          (* components below the watch root; [] = the root itself *)

Record entry := Entry { e_path : path; e_kind : kind; e_ino : N }.
Definition fs := list entry.

Fixpoint path_eqb (a b : path) : bool :=
  match a, b with
  | [], [] => true
  | x :: a', y :: b' => beqb x y && path_eqb a' b'
  | _, _ => false
  end.

(* [under p q]: q = p or q lies below p *)
Fixpoint under (p q : path) : bool :=
  match p, q with
  | [], _ => true
  | x :: p', y :: q' => beqb x y && under p' q'
  | _ :: _, [] => false
  end.

Definition kind_eqb (a b : kind) : bool :=
  match a, b with KFile, KFile | KDir, KDir => true | _, _ => false end.

Definition lookup (f : fs) (p : path) : option entry := find (fun e => path_eqb (e_path e) p) f.
Definition fs_isdir (f : fs) (p : path) : bool :=
  match lookup f p with Some e => kind_eqb (e_kind e) KDir | None => false end.
Definition fs_mem (f : fs) (p : path) : bool :=
  match lookup f p with Some _ => true | None => false end.
Definition has_child (f : fs) (p : path) : bool :=
  existsb (fun e => under p (e_path e) && negb (path_eqb (e_path e) p)) f.
Definition parent (p : path) : path := removelast p.
Definition ino_used (f : fs) (i : N) : bool := existsb (fun e => N.eqb (e_ino e) i) f.

(* replace the prefix s of q by d (q is under s) *)
Definition reprefix (s d q : path) : path := d ++ skipn (length s) q.

(* Operations of the C01 alphabet that change what a watcher of the root can see.  Content of an
   arriving directory: entries with paths relative to the arriving directory. *)
Inductive op :=
| OCreate (p : path) (ino : N)                     (* new empty regular file *)
| OMkdir (p : path) (ino : N)
| OWrite (p : path)                                (* content change of a file *)
| OChmod (p : path)                                (* metadata change *)
| OUnlink (p : path)
| ORmdir (p : path)                                (* empty directory *)
| ORename (s d : path)                             (* inside the tree; d does not exist *)
| OMoveOut (s : path)                              (* to a place outside the watched tree *)
| OMoveIn (d : path) (k : kind) (ino : N) (content : list entry).   (* from outside *)

Definition apply_op (f : fs) (o : op) : fs :=
  match o with
  | OCreate p i => f ++ [Entry p KFile i]
  | OMkdir p i => f ++ [Entry p KDir i]
  | OWrite _ | OChmod _ => f
  | OUnlink p | ORmdir p | OMoveOut p => filter (fun e => negb (under p (e_path e))) f
  | ORename s d =>
    map (fun e => if under s (e_path e) then Entry (reprefix s d (e_path e)) (e_kind e) (e_ino e) else e) f
  | OMoveIn d k i content =>
    f ++ Entry d k i :: map (fun e => Entry (d ++ e_path e) (e_kind e) (e_ino e)) content
  end.

(* would the real call succeed (and is it inside the alphabet)? *)
Definition fresh_at (f : fs) (p : path) (i : N) : bool :=
  match p with [] => false | _ => true end &&
  negb (fs_mem f p) && (match parent p with [] => true | pp => fs_isdir f pp end) && negb (ino_used f i).

Definition op_ok (f : fs) (o : op) : bool :=
  match o with
  | OCreate p i | OMkdir p i => fresh_at f p i
  | OWrite p | OChmod p | OUnlink p =>
    match lookup f p with Some e => kind_eqb (e_kind e) KFile | None => false end
  | ORmdir p => fs_isdir f p && negb (has_child f p)
  | ORename s d =>
    fs_mem f s && match d with [] => false | _ => true end && negb (fs_mem f d) &&
    (match parent d with [] => true | pp => fs_isdir f pp end) && negb (under s d)
  | OMoveOut s => fs_mem f s
  | OMoveIn d k i content =>
    fresh_at f d i &&
    match k with KFile => match content with [] => true | _ => false end | KDir => true end &&
    forallb (fun e => match e_path e with [] => false | _ => true end && negb (ino_used f (e_ino e))
                      && negb (N.eqb (e_ino e) i)) content &&
    (* the arriving tree is a tree: every entry's parent is the arriving directory or a directory in it *)
    forallb (fun e => match parent (e_path e) with [] => true | pp => fs_isdir content pp end) content
  end.

(* --------------------------------------------------------------- abstract events and replay *)
Inductive aev :=
| ACreated (k : kind) (p : path) (syn : bool)
| ADeleted (k : kind) (p : path)
| AModified (k : kind) (p : path)
| AMoved (k : kind) (s d : path) (syn : bool).

(* What a consumer that mirrors the tree from the event stream does (kind and path only; inode
   numbers are not in the events).  A moved event re-keys exactly the path it names - the
   descendants of a moved directory are re-keyed by their own (synthetic) events; a deleted event
   removes the path and everything below it (a directory that leaves the tree is reported once). *)
Definition view := list (path * kind).
Definition view_of (f : fs) : view := map (fun e => (e_path e, e_kind e)) f.

Definition replay1 (v : view) (e : aev) : view :=
  match e with
  | ACreated k p _ => v ++ [(p, k)]
  | ADeleted _ p => filter (fun x => negb (under p (fst x))) v
  | AModified _ _ => v
  | AMoved _ s d _ => map (fun x => if path_eqb (fst x) s then (d, snd x) else x) v
  end.
Definition replay (v : view) (es : list aev) : view := fold_left replay1 es v.

(* rendering: component path -> the string the emitters build with os.path.join(root, rel) *)
Fixpoint relstr (p : path) : bytes :=
  match p with
  | [] => []
  | [n] => n
  | n :: p' => n ++ sep :: relstr p'
  end.
Definition abspath (root : bytes) (p : path) : bytes := root ++ relsuffix p.

(* the entries strictly below p, as paths relative to p *)
Definition below (f : fs) (p : path) : list (path * kind) :=
  flat_map (fun e => if under p (e_path e) && negb (path_eqb (e_path e) p)
                     then [(skipn (length p) (e_path e), e_kind e)] else []) f.

(* names are valid file names (non-empty, no separator, no NUL) and paths are non-empty *)
Definition path_ok (p : path) : bool :=
  match p with [] => false | _ => true end && forallb valid_name p.
Definition op_names_ok (o : op) : bool :=
  match o with
  | OCreate p _ | OMkdir p _ | OWrite p | OChmod p | OUnlink p | ORmdir p | OMoveOut p => path_ok p
  | ORename s d => path_ok s && path_ok d
  | OMoveIn d _ _ content => path_ok d && forallb (fun e => path_ok (e_path e)) content
  end.

(* the FileSystemEvent objects put on the queue (string paths) *)
Inductive ev :=
| Created (k : kind) (p : bytes) (syn : bool)
| Deleted (k : kind) (p : bytes)
| Modified (k : kind) (p : bytes)
| Moved (k : kind) (s d : bytes) (syn : bool).

Definition dirkind (b : bool) : kind := if b then KDir else KFile.


(* abstract event -> the event object with os.path.join'ed string paths *)
Definition render (root : bytes) (e : aev) : ev :=
  match e with
  | ACreated k p syn => Created k (abspath root p) syn
  | ADeleted k p => Deleted k (abspath root p)
  | AModified k p => Modified k (abspath root p)
  | AMoved k s d syn => Moved k (abspath root s) (abspath root d) syn
  end.

(* well-formed tree: paths unique and non-empty, every entry's parent is the root or a directory
   of the tree (so nothing lies below a file) *)
Definition wf_fs (f : fs) : Prop :=
  NoDup (map e_path f) /\
  forall e, In e f -> e_path e <> [] /\ (parent (e_path e) = [] \/ fs_isdir f (parent (e_path e)) = true).

(* the paths an operation names *)
Definition op_paths (o : op) : list path :=
  match o with
  | OCreate p _ | OMkdir p _ | OWrite p | OChmod p | OUnlink p | ORmdir p | OMoveOut p => [p]
  | ORename s d => [s; d]
  | OMoveIn d _ _ _ => [d]
  end.
