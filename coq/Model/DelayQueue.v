(* Model of watchdog.utils.delayed_queue.DelayedQueue as a labelled transition system.
   One step = one thread running from one synchronisation point to the next:
   every section executed while holding the queue lock is atomic; the unlocked parts
   (the write `_closed = True`, the delay wait) are separate steps.  One consumer thread;
   any number of producers/removers/closers (their steps carry no thread-local state).
   Definitions only. *)
Require Import WD.Base.Prelude.

Record entry := { e_id : N; e_tins : N; e_delayed : bool }.

(* consumer program counter inside/outside get() *)
Inductive cpc :=
| CIdle                 (* outside get(), or inside get() at the top of its `while True` loop *)
| CWait                 (* blocked in _not_empty.wait() *)
| CWoken                (* notified, has to re-acquire the lock and re-test the loop condition *)
| CHead (h : entry)     (* lock released, remembers the head; delay wait not yet passed *)
| CPop (h : entry).     (* delay wait passed; about to re-lock and test `queue[0][0] is head` *)

Inductive closepc := Open | Closing | Closed.   (* Closing: `_closed = True` written, notify not yet done *)

Inductive label :=
| Put (id : N) (delayed : bool)   (* put(): lock; append (elem, now, delay); notify; unlock *)
| Remove (sat : list N)           (* remove(pred): lock; delete first element satisfying pred; unlock *)
| Close1                          (* close(): self._closed = True   (no lock) *)
| Close2                          (* close(): lock; notify; unlock *)
| GetEnter                        (* get(): lock; `while empty and not closed: wait`; closed -> None; else remember head *)
| GetDelay                        (* get(): delay wait over (time_left <= 0) or element not delayed *)
| GetPop                          (* get(): lock; if queue[0][0] is head: popleft, return; else loop *)
| Tick (d : N).                   (* time passes *)

Record st := {
  q : list entry;
  closed : bool;
  cl : closepc;
  clock : N;
  pc : cpc;
  (* ghost history *)
  puts : list entry;        (* every element ever put, in order, with its insertion time *)
  got : list (N * N);       (* (element, clock at return) for every element returned by get() *)
  ends : nat;               (* how many times get() returned the end marker *)
  removed : list N          (* elements returned by remove() *)
}.

Definition init : st :=
  {| q := []; closed := false; cl := Open; clock := 0; pc := CIdle;
     puts := []; got := []; ends := 0; removed := [] |}.

Definition notify (p : cpc) : cpc := match p with CWait => CWoken | x => x end.

Fixpoint memN (x : N) (l : list N) : bool :=
  match l with [] => false | y :: l' => N.eqb x y || memN x l' end.

(* delete the first entry whose id satisfies the predicate; return it *)
Fixpoint remove_first (sat : list N) (l : list entry) : option entry * list entry :=
  match l with
  | [] => (None, [])
  | e :: l' => if memN (e_id e) sat then (Some e, l')
               else let '(r, l'') := remove_first sat l' in (r, e :: l'')
  end.

Section Delay.
  Variable delay : N.

  Definition step (s : st) (l : label) : option st :=
    match l with
    | Put id d =>
      let e := {| e_id := id; e_tins := clock s; e_delayed := d |} in
      Some {| q := q s ++ [e]; closed := closed s; cl := cl s; clock := clock s; pc := notify (pc s);
              puts := puts s ++ [e]; got := got s; ends := ends s; removed := removed s |}
    | Remove sat =>
      match remove_first sat (q s) with
      | (Some e, q') =>
        Some {| q := q'; closed := closed s; cl := cl s; clock := clock s; pc := pc s;
                puts := puts s; got := got s; ends := ends s; removed := removed s ++ [e_id e] |}
      | (None, _) => Some s
      end
    | Close1 =>
      Some {| q := q s; closed := true; cl := match cl s with Open => Closing | x => x end;
              clock := clock s; pc := pc s;
              puts := puts s; got := got s; ends := ends s; removed := removed s |}
    | Close2 =>
      match cl s with
      | Open => None
      | _ => Some {| q := q s; closed := closed s; cl := Closed; clock := clock s; pc := notify (pc s);
                     puts := puts s; got := got s; ends := ends s; removed := removed s |}
      end
    | GetEnter =>
      match pc s with
      | CIdle | CWoken =>
        if closed s then
          Some {| q := q s; closed := closed s; cl := cl s; clock := clock s; pc := CIdle;
                  puts := puts s; got := got s; ends := S (ends s); removed := removed s |}
        else
          match q s with
          | [] => Some {| q := q s; closed := closed s; cl := cl s; clock := clock s; pc := CWait;
                          puts := puts s; got := got s; ends := ends s; removed := removed s |}
          | h :: _ => Some {| q := q s; closed := closed s; cl := cl s; clock := clock s; pc := CHead h;
                              puts := puts s; got := got s; ends := ends s; removed := removed s |}
          end
      | _ => None
      end
    | GetDelay =>
      match pc s with
      | CHead h =>
        if negb (e_delayed h) || N.leb (e_tins h + delay) (clock s) then
          Some {| q := q s; closed := closed s; cl := cl s; clock := clock s; pc := CPop h;
                  puts := puts s; got := got s; ends := ends s; removed := removed s |}
        else None
      | _ => None
      end
    | GetPop =>
      match pc s with
      | CPop h =>
        match q s with
        | h' :: q' =>
          if N.eqb (e_id h') (e_id h) then
            Some {| q := q'; closed := closed s; cl := cl s; clock := clock s; pc := CIdle;
                    puts := puts s; got := got s ++ [(e_id h', clock s)]; ends := ends s;
                    removed := removed s |}
          else
            Some {| q := q s; closed := closed s; cl := cl s; clock := clock s; pc := CIdle;
                    puts := puts s; got := got s; ends := ends s; removed := removed s |}
        | [] =>
          Some {| q := q s; closed := closed s; cl := cl s; clock := clock s; pc := CIdle;
                  puts := puts s; got := got s; ends := ends s; removed := removed s |}
        end
      | _ => None
      end
    | Tick d =>
      Some {| q := q s; closed := closed s; cl := cl s; clock := clock s + d; pc := pc s;
              puts := puts s; got := got s; ends := ends s; removed := removed s |}
    end.

  Fixpoint run (s : st) (tr : list label) : option st :=
    match tr with
    | [] => Some s
    | l :: tr' => match step s l with Some s' => run s' tr' | None => None end
    end.

  Definition reachable (s : st) : Prop := exists tr, run init tr = Some s.
End Delay.
