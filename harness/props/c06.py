"""C06 - no API call order deadlocks; stop()+join() always ends every library thread."""
from __future__ import annotations

from harness import core
from harness.core import Result

MANIFEST = dict(
    design_ref="DESIGN.md §6 Group O / C06",
    text="Coq theorems over every label list of the observer LTS (Model/Observer.v, start() under the observer lock, "
         "scripted-emitter shutdown contract): C06_no_deadlock (deadlocked s = false for EVERY reachable state; wait-for argument "
         "over the inductive invariants LockInv, EmRef, ItInv, MarkerInv, JInv, DA), C06_enabled_sound / "
         "C06_stuck_implies_progress (an enabled thread can step, a stuck thread coexists with an enabled one), "
         "C06_emitter_iteration_stable, C06_emitter_never_blocked, C06_emitter_bounded and C06_dispatcher_bounded (bounded shutdown: "
         "own steps of library threads strictly decrease em_bound / dbound once the stop flag is set), stop twice / stop from a "
         "callback as reachable-state examples. Tied to /repo by lock-step replay; the oracle (scheduler deadlock detector, "
         "livelock, threads alive after the final stop()+join(), uncaught exceptions in library threads) also runs with the REAL "
         "PollingEmitter (virtual clock) and InotifyEmitter (fake kernel).",
    note="Liveness is reduced to weak fairness of the OS scheduler (stated hypothesis); C-level blocking inside CPython is outside "
         "the model; the inotify close/read protocol is C12's, the debouncer hang F5 is C18's.",
    technique="Coq proof (wait-for invariant of an LTS) + lock-step correspondence + exhaustive small-scope call orders under a "
              "deterministic scheduler",
)
TRUSTED = [
    "modelled, not verified: CPython/threading/queue.Queue semantics (scheduler twins); harness/fakefd.py as the kernel side of "
    "inotify for the InotifyEmitter runs; virtual clock for PollingEmitter",
]
ASSUMPTIONS = [
    "weak fairness: a library thread that stays enabled is eventually scheduled (turns 'no deadlock + bounded remaining steps' into "
    "'stop(); join() returns')",
    "the program ends with stop(); join() issued after the other API threads finished; a schedule() issued after the last stop() "
    "may start an emitter that nobody stops (observation, outside the property as interpreted)",
    "handler callbacks terminate",
]


def judge(prog, s):
    from harness import obsprog as op
    bad = [(law, d, {}) for law, d in op.oracle_c06(prog, s)]
    ev = s.events
    stops = [e for e in ev if e[1] == "dsetflag"]
    started = any(e[1] == "dstart" and not e[3] for e in ev)
    key = None
    if stops and started:
        key = [len(stops), any(e[2] == "d" for e in stops), sorted({e[3][0] for e in ev if e[1] == "call"})]
    return bad, key


def backlog(ctx, res: Result):
    """Real kernel, real threads (own process): stop() with thousands of unconsumed events pending."""
    import json
    import os
    import subprocess
    import sys
    from harness.core import Failure, digest
    for n in ([2500] if not ctx.thorough else [2500, 12000]):
        try:
            p = subprocess.run([sys.executable, "-m", "harness.backlog", str(n)], capture_output=True, text=True, timeout=120,
                               env=dict(os.environ))
            out = json.loads(p.stdout.strip().splitlines()[-1]) if p.stdout.strip() else {"problems": ["no output: " + p.stderr[-300:]]}
        except subprocess.TimeoutExpired:
            out = {"problems": ["the backlog scenario did not terminate within 120 s"]}
        res.evaluations += 1
        res.hist("emitter_kind", "inotify-real-kernel-backlog")
        res.nontrivial.add(digest(["backlog", n]))
        for pr in out.get("problems", []):
            res.failures.append(Failure(what="C06: shutdown with a backlog of unconsumed inotify events: " + pr,
                                        case={"scenario": "backlog", "files_written": n}, signature={"law": "backlog-shutdown"},
                                        observed=out, expected="stop()+join() returns and every library thread has exited"))


def run(ctx) -> Result:
    from harness import obsprog as op
    res = Result()
    res.rule = ("(a) random client programs (scripted, polling and inotify emitters; double start() included) x random schedules; "
                "(b) every order of start/schedule/unschedule/unschedule_all/stop up to length 3 (quick) / 4 (thorough) from an API "
                "thread and from inside a callback, each followed by stop();join(); distinct = (program, #stops, stop from "
                "callback?, calls made); non-trivial = the dispatcher was started and stop() was called")
    backlog(ctx, res)
    rng = ctx.rng("progs")
    n = 200 if not ctx.thorough else 800
    progs = [c["prog"] for c in ctx.corpus()] + [op.gen_program(rng) for _ in range(n)]
    op.campaign(ctx, res, "C06", [p for p in progs if op.n_starts(p) <= 1], judge, n_random=3)
    op.campaign(ctx, res, "C06", [p for p in progs if op.n_starts(p) > 1], judge, n_random=3, do_lockstep=not op.start_is_locked(),
                tag="ds")
    # stop twice, stop from a callback, join from a callback
    fixed = [
        dict(nw=1, nh=1, kind="scripted", scripts={"0": [0, 1]}, threads=[[["schedule", 0, 0], ["start"], ["stop"], ["stop"]]], cbs={}),
        dict(nw=1, nh=1, kind="scripted", scripts={"0": [0, 1]}, threads=[[["schedule", 0, 0], ["start"]], [["stop"]]],
             cbs={"0": [[["stop"], ["join"], ["stop"]]]}),
        dict(nw=2, nh=2, kind="scripted", scripts={"0": [0, 1], "1": [2]}, threads=[[["schedule", 0, 0], ["schedule", 1, 1], ["start"]]],
             cbs={"0": [[["unschedule", 0], ["schedule", 1, 0], ["stop"]]], "1": [[["unschedule_all"], ["stop"]]]}),
        # two racing stop() calls + the final one: both may read _last_item before either puts its marker (queue [M, M]);
        # getting the first marker then resets _last_item (identity test) although a marker is still queued
        dict(nw=1, nh=1, kind="scripted", scripts={"0": []}, threads=[[["start"], ["pause"], ["stop"]], [["pause"], ["stop"]]], cbs={}),
    ]
    op.campaign(ctx, res, "C06", fixed, judge, n_random=25 if not ctx.thorough else 0,
                explore_runs=0 if not ctx.thorough else 1500, tag="fixed")
    # real emitters (oracle only)
    for kind in ("polling", "inotify"):
        kp = [op.gen_program(rng, kind=kind) for _ in range(60 if not ctx.thorough else 300)]
        op.campaign(ctx, res, "C06", kp, judge, n_random=2, do_lockstep=False, tag=kind)
    # the watched directory disappears and stop()/unschedule() overtakes the reader (IN_IGNORED still unread)
    gone = [
        dict(nw=1, nh=1, kind="inotify", scripts={"0": []}, threads=[[["schedule", 0, 0], ["start"], ["rootgone", 0]]], cbs={},
             settle=0),                                   # the only stop() is the final one, right after the directory went
        dict(nw=1, nh=1, kind="inotify", scripts={"0": []}, threads=[[["schedule", 0, 0], ["start"], ["rootgone", 0], ["stop"]]], cbs={}),
        dict(nw=1, nh=1, kind="inotify", scripts={"0": []}, threads=[[["schedule", 0, 0], ["start"], ["rootgone", 0], ["unschedule", 0]]],
             cbs={}),
        dict(nw=2, nh=1, kind="inotify", scripts={"0": [], "1": []},
             threads=[[["schedule", 0, 0], ["schedule", 0, 1], ["start"], ["rootgone", 1]], [["pause"], ["unschedule_all"]]], cbs={}),
    ]
    op.campaign(ctx, res, "C06", gone, judge, explore_runs=120 if not ctx.thorough else 1500, do_lockstep=False, tag="gone")
    # stop()/unschedule() racing the emitter thread's entry into the buffer's get() (real InotifyBuffer + DelayedQueue)
    races = [
        dict(nw=1, nh=1, kind="inotify", scripts={"0": []}, threads=[[["schedule", 0, 0], ["start"]], [["stop"]]], cbs={}, settle=0),
        dict(nw=1, nh=1, kind="inotify", scripts={"0": []}, threads=[[["schedule", 0, 0], ["start"]], [["unschedule", 0]]], cbs={},
             settle=0),
        dict(nw=1, nh=1, kind="inotify", scripts={"0": []}, threads=[[["start"], ["schedule", 0, 0], ["unschedule_all"]]], cbs={},
             settle=0),
    ]
    op.campaign(ctx, res, "C06", races, judge, explore_runs=150 if not ctx.thorough else 2000, do_lockstep=False, tag="races")
    # every call order
    maxlen = 3 if not ctx.thorough else 4
    for from_cb in (False, True):
        orders = list(op.order_programs(maxlen, from_cb))
        op.campaign(ctx, res, "C06", [p for p in orders if op.n_starts(p) <= 1], judge, n_random=2,
                    explore_runs=0 if not ctx.thorough else 60, tag=f"ord{from_cb}")
        op.campaign(ctx, res, "C06", [p for p in orders if op.n_starts(p) > 1], judge, n_random=2,
                    explore_runs=0 if not ctx.thorough else 60, do_lockstep=not op.start_is_locked(), tag=f"ordds{from_cb}")
    res.exhaustive = False
    res.notes.append(f"call orders: all {sum(5 ** k for k in range(1, maxlen + 1))} sequences over "
                     "{start, schedule, unschedule, unschedule_all, stop} up to length "
                     f"{maxlen}, from an API thread and from a callback")
    res.notes.append(op.LOCKSTEP_NOTE + "; real Polling/Inotify emitter runs are oracle-only (no model of those emitters' internals)")
    res.notes.append(f"start() variant under test: {'locked (repair F16)' if op.start_is_locked() else 'pinned (no lock)'}")
    return res


def replay(ctx, obj) -> int:
    from harness import obsprog as op
    return op.replay_generic(ctx, obj, [judge])
