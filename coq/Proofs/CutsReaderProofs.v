(* How the kernel's event buffer is split between reads, part A: the reader.  Reading the records of one operation in
   several reads (no operation in between) leaves the reader and its kernel in the state one big read leaves them in, and
   the events of the reads, concatenated, are the events of the big read: the file system is the same, and the reader
   never looks at the queue its kernel holds (the unread rest; removed watches append their IN_IGNORED behind it). *)
Require Import WD.Base.Prelude WD.Base.BStr WD.Model.SubEvents WD.Model.Emitter WD.Model.Fs WD.Model.Reader
               WD.Model.Pipeline WD.Model.Contract.
Require Import WD.Proofs.ReaderFixProofs WD.Proofs.CoverProofs WD.Proofs.CoverOutProofs WD.Proofs.C11ReaderProofs
               WD.Proofs.CutsProofs.
Local Open Scope N_scope.

(* ---------------------------------------------------------------- the frame: an unread rest in front of the reader's queue *)
(* every IN_IGNORED record of J is about a descriptor that is no longer watched (descriptors are not re-used) *)
Definition ignfree (J : list kraw) (k : kst) : Prop :=
  forall a, In a J -> k_mask a = IN_IGNORED ->
    k_wd a < k_next_wd k /\ forall kw, In kw (k_watches k) -> kw_wd kw <> k_wd a.

Definition qextg (J : list kraw) (k1 k2 : kst) : Prop := qext J k1 k2 /\ ignfree J k2.

Lemma kpush_qext_g J q e : (forall a, In a J -> kraw_eqb a e = false) -> kpush (J ++ q) e = J ++ kpush q e.
Proof.
  intros HJ. unfold kpush. rewrite rev_app_distr. destruct (rev q) as [|l rq] eqn:Eq.
  - assert (q = []) by (apply (f_equal (@rev kraw)) in Eq; now rewrite rev_involutive in Eq). subst q.
    cbn [app]. rewrite !app_nil_r. destruct (rev J) as [|a rj] eqn:Ej; [reflexivity|].
    assert (Ha : In a J) by (apply in_rev; rewrite Ej; now left). now rewrite (HJ a Ha).
  - cbn [app]. destruct (kraw_eqb l e); [reflexivity | now rewrite app_assoc].
Qed.

Lemma qextg_add J k1 k2 t p m : qextg J k1 k2 ->
  match kadd_watch k1 t p m, kadd_watch k2 t p m with
  | Some (a, wa), Some (b, wb) => wa = wb /\ qextg J a b
  | None, None => True
  | _, _ => False
  end.
Proof.
  intros [(A & B & D & E) HJ]. unfold kadd_watch, watch_of_ino. rewrite A. destruct (flookup p t) as [e|]; [|exact I].
  destruct (find _ (k_watches k2)) as [w0|] eqn:Ef.
  - split; [reflexivity|]. split; [repeat split; cbn; congruence|]. intros a Ha Hm. cbn. destruct (HJ a Ha Hm) as [L Hn]. split; [exact L|].
    intros kw Hin. apply in_map_iff in Hin as (x0 & <- & Hx0). destruct (N.eqb (kw_wd x0) (kw_wd w0)); cbn; now apply Hn.
  - split; [congruence|]. split; [repeat split; cbn; congruence|]. intros a Ha Hm. cbn. destruct (HJ a Ha Hm) as [L Hn]. split; [lia|].
    intros kw Hin. apply in_app_iff in Hin as [Hin|[<-|[]]]; [now apply Hn | cbn; lia].
Qed.

Lemma qextg_rm J k1 k2 wd : qextg J k1 k2 -> qextg J (krm_watch k1 wd) (krm_watch k2 wd).
Proof.
  intros [(A & B & D & E) HJ]. unfold krm_watch. rewrite A. destruct (find _ (k_watches k2)) as [w0|] eqn:Ef; [|now split].
  apply find_some in Ef as [Hw0 Ew0]. apply N.eqb_eq in Ew0.
  split; [repeat split; cbn; try congruence|].
  - rewrite E. apply kpush_qext_g. intros a Ha. unfold kraw_eqb. cbn [k_wd k_mask k_name].
    destruct (N.eqb (k_mask a) IN_IGNORED) eqn:Em; [|now rewrite andb_false_r].
    apply N.eqb_eq in Em. destruct (HJ a Ha Em) as [_ Hn].
    assert (Hne : N.eqb (k_wd a) wd = false) by (apply N.eqb_neq; intros Eq; apply (Hn w0 Hw0); congruence).
    now rewrite Hne.
  - intros a Ha Hm. cbn. destruct (HJ a Ha Hm) as [L Hn]. split; [exact L|]. intros kw Hk. apply filter_In in Hk as [Hk _]. now apply Hn.
Qed.

(* ---------------------------------------------------------------- the event list a read starts with does not matter *)
Lemma read_batch_acc C t b : forall r k,
  (exists r' k' o, forall acc, read_batch C t (r, k, acc) b = Done (r', k', acc ++ o)) \/
  (exists s, forall acc, read_batch C t (r, k, acc) b = Crash s).
Proof.
  induction b as [|e b IH]; intros r k; cbn [read_batch].
  - left. exists r, k, []. intros acc. now rewrite app_nil_r.
  - destruct (read_one_acc C t r k e) as [(r1 & k1 & o1 & _ & H1)|(s & H1)].
    + destruct (IH r1 k1) as [(r' & k' & o & H2)|(s & H2)].
      * left. exists r', k', (o1 ++ o). intros acc. now rewrite H1, H2, app_assoc.
      * right. exists s. intros acc. now rewrite H1, H2.
    + right. exists s. intros acc. now rewrite H1.
Qed.

Lemma firstn_app_le {A} n (a b : list A) : (n <= length a)%nat -> firstn n (a ++ b) = firstn n a.
Proof. intros H. rewrite firstn_app. replace (n - length a)%nat with 0%nat by lia. cbn. now rewrite app_nil_r. Qed.

Lemma skipn_app_le {A} n (a b : list A) : (n <= length a)%nat -> skipn n (a ++ b) = skipn n a ++ b.
Proof. intros H. rewrite skipn_app. replace (n - length a)%nat with 0%nat by lia. reflexivity. Qed.

Lemma ignfree_sub J J' k : (forall a, In a J' -> In a J) -> ignfree J k -> ignfree J' k.
Proof. intros Hs H a Ha. apply H. now apply Hs. Qed.

Section CutReader.
  Variable C : cfg.
  Hypothesis Hmo : c_fix_moveout C = true.

  (* kc: the reader's kernel in the cut run, holding the unread rest Q; kb: the kernel of the big read at the same point *)
  Lemma rcut_big t : forall cuts Q r kc kb r' k' raws,
    qextg Q kc kb -> fold_right plus 0%nat cuts = length Q ->
    read_batch C t (r, kb, []) Q = Done (r', k', raws) ->
    exists Rs, rcut C t r kc cuts = Done (r', k', Rs) /\ concat Rs = raws.
  Proof.
    induction cuts as [|n cuts IH]; intros Q r kc kb r' k' raws HQ Hsum Hrd; cbn [fold_right rcut] in *.
    - destruct Q; [|discriminate]. cbn [read_batch] in Hrd. injection Hrd as <- <- <-. exists []. split; [|reflexivity].
      destruct HQ as [(A & B & D & E) _]. cbn [app] in E. destruct kc, kb. cbn in *. now subst.
    - assert (Hn : (n <= length Q)%nat) by lia.
      destruct HQ as [(A & B & D & E) HJ].
      rewrite E, (firstn_app_le n Q _ Hn).
      rewrite <- (firstn_skipn n Q) in Hrd. rewrite read_batch_app in Hrd.
      destruct (read_batch C t (r, kb, []) (firstn n Q)) as [[[r1 kb1] o1]|] eqn:H1; [|discriminate].
      assert (HQ2 : qextg (skipn n Q) (kcut kc n) kb).
      { split; [repeat split; cbn [kcut k_watches k_next_wd k_next_cookie k_queue]; try assumption; rewrite E; now apply skipn_app_le|].
        eapply ignfree_sub; [|exact HJ]. intros a Ha. rewrite <- (firstn_skipn n Q). apply in_app_iff. now right. }
      assert (F := read_batch_keq C Hmo (qextg (skipn n Q)) (qextg_add (skipn n Q)) (qextg_rm (skipn n Q)) t (firstn n Q) r
                                  (kcut kc n) kb [] HQ2).
      rewrite H1 in F. destruct (read_batch C t (r, kcut kc n, []) (firstn n Q)) as [[[r1' kc1] o1']|]; [|contradiction].
      cbn in F. destruct F as (-> & -> & HQ3).
      destruct (read_batch_acc C t (skipn n Q) r1 kb1) as [(r2 & k2 & o2 & H2)|(s & H2)]; [|rewrite H2 in Hrd; discriminate].
      rewrite H2 in Hrd. injection Hrd as <- <- <-.
      assert (Hsum' : fold_right plus 0%nat cuts = length (skipn n Q)) by (rewrite skipn_length; lia).
      destruct (IH (skipn n Q) r1 kc1 kb1 r2 k2 o2 HQ3 Hsum' (H2 [])) as (Rs & -> & <-).
      exists (o1 :: Rs). split; reflexivity.
  Qed.

  (* from the kernel after an operation *)
  Theorem rcut_eq t r k cuts r' k' raws :
    ignfree (k_queue k) k -> fold_right plus 0%nat cuts = length (k_queue k) ->
    read_batch C t (r, drainq k, []) (k_queue k) = Done (r', k', raws) ->
    exists Rs, rcut C t r k cuts = Done (r', k', Rs) /\ concat Rs = raws.
  Proof.
    intros HI Hs Hrd. apply (rcut_big t cuts (k_queue k) r k (drainq k)); try assumption.
    split; [repeat split; cbn; now rewrite ?app_nil_r | exact HI].
  Qed.
End CutReader.

(* ---------------------------------------------------------------- the kernel keeps the frame condition *)
(* live descriptors are below the counter; IN_IGNORED records in the queue are about dead descriptors below the counter *)
Definition KQ (k : kst) : Prop :=
  (forall kw, In kw (k_watches k) -> kw_wd kw < k_next_wd k) /\ ignfree (k_queue k) k.

Lemma kpush_in q e a : In a (kpush q e) -> In a q \/ a = e.
Proof.
  unfold kpush. destruct (rev q) as [|l rq]; [|destruct (kraw_eqb l e)]; intros H; auto;
    apply in_app_iff in H as [H|[<-|[]]]; auto.
Qed.

Lemma knotify_KQ k ino bit (isd : bool) c name : (if isd then N.lor bit IN_ISDIR else bit) <> IN_IGNORED -> KQ k -> KQ (knotify k ino bit isd c name).
Proof.
  intros Hm [L HI]. unfold knotify. destruct (watch_of_ino k ino) as [w|]; [|now split].
  destruct (N.eqb (N.land bit (kw_mask w)) 0); [now split|]. split; [exact L|]. cbn [k_queue k_watches k_next_wd].
  intros a Ha Hma. apply kpush_in in Ha as [Ha| ->]; [now apply HI|]. cbn [k_mask] in Hma. contradiction.
Qed.

Lemma kgone_KQ k ino af : KQ k -> KQ (kgone k ino af).
Proof.
  intros H. unfold kgone. destruct (watch_of_ino k ino) as [w|] eqn:Ew; [|exact H].
  set (k1 := if af then knotify k ino IN_ATTRIB true 0 [] else k).
  assert (H1 : KQ k1) by (subst k1; destruct af; [apply knotify_KQ; [vm_compute; discriminate | exact H] | exact H]).
  assert (H2 : KQ (knotify k1 ino IN_DELETE_SELF false 0 [])) by (apply knotify_KQ; [vm_compute; discriminate | exact H1]).
  set (k2 := knotify k1 ino IN_DELETE_SELF false 0 []) in *.
  assert (Hw : In w (k_watches k2)).
  { assert (E : k_watches k2 = k_watches k).
    { unfold k2, k1. destruct af; unfold knotify;
        repeat (match goal with |- context [match ?x with _ => _ end] => destruct x end); reflexivity. }
    rewrite E. unfold watch_of_ino in Ew. now apply find_some in Ew as [Ew _]. }
  destruct H2 as [L HI]. split; cbn [k_watches k_next_wd k_queue].
  - intros kw Hk. apply filter_In in Hk as [Hk _]. now apply L.
  - intros a Ha Hma. apply kpush_in in Ha as [Ha| ->].
    + destruct (HI a Ha Hma) as [A B]. split; [exact A|]. intros kw Hk. apply filter_In in Hk as [Hk _]. now apply B.
    + cbn [k_wd]. split; [now apply L|]. intros kw Hk. apply filter_In in Hk as [_ Hk]. apply negb_true_iff, N.eqb_neq in Hk. exact Hk.
Qed.

Lemma kernel_op_KQ k t o : KQ k -> KQ (kernel_op k t o).
Proof.
  intros H. destruct o as [p|p|p|p|p|p|p q]; cbn [kernel_op];
    repeat first [ apply knotify_KQ; [vm_compute; discriminate|] | apply kgone_KQ | exact H
                 | match goal with |- KQ (if ?b then _ else _) => destruct b end ].
  - destruct (fisdir p t); repeat (apply knotify_KQ; [vm_compute; discriminate|]); exact H.
  - destruct (fisdir p t), (fisdir q t); repeat first [apply kgone_KQ | apply knotify_KQ; [vm_compute; discriminate|]];
      (destruct H as [L HI]; split; [exact L | exact HI]).
Qed.
