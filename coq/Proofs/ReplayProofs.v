(* C01: the replay of the delivered event stream (harness/pipeprops.py: replay / in_scope / scope_listing) as a
   Gallina function over association lists (Python dicts), its pointwise semantics, and the one-operation
   replay lemmas for the reader + buffer + emitter composition ([Contract.deliver_one]).
   [in_scope] is Contract.in_scope (under the root, non-recursive: a direct child); it agrees with pipeprops.in_scope
   on every path of a well-formed tree. *)
Require Import WD.Base.Prelude WD.Base.BStr WD.Model.SubEvents WD.Model.Emitter WD.Model.Fs WD.Model.Reader
               WD.Model.Grouping WD.Model.Pipeline WD.Model.Contract.
Require Import WD.Proofs.SubEventsProofs WD.Proofs.ContractProofs WD.Proofs.CoverProofs.

Local Arguments sep : simpl never.

Definition tset_eq := @alookup_aset_eq bytes bool beqb beqb_eq.
Definition tset_neq := @alookup_aset_neq bytes bool beqb beqb_eq.

Definition tree := list (bytes * bool).          (* path -> is_dir: a Python dict, keys unique *)

Definition below (p k : bytes) : bool := beqb k p || under p k.
Definition tdel_below (p : bytes) (t : tree) : tree := filter (fun kv => negb (below p (fst kv))) t.

Section Replay.
  Variables (recursive : bool) (root : bytes).
  Let ins := in_scope recursive root.

  (* if in_scope(run, k): tree[k] = v *)
  Definition tput (k : bytes) (v : bool) (t : tree) : tree := if ins k then aset beqb k v t else t.

  (* for k in below(dest): del; moved = {k: tree[k] for k in below(src)}; del them; tree[dest + k[len(src):]] = v *)
  Definition tmove (src dest : bytes) (t : tree) : tree :=
    let t1 := tdel_below dest t in
    let moved := filter (fun kv => below src (fst kv)) t1 in
    let t2 := tdel_below src t1 in
    fold_left (fun acc kv => tput (dest ++ skipn (length src) (fst kv)) (snd kv) acc) moved t2.

  Definition replay1 (t : tree) (e : nevent) : tree :=
    let isdir := cls_isdir (ev_cls e) in
    match cls_what (ev_cls e) with
    | WCreated => tput (ev_src e) isdir t                         (* also the synthetic created events *)
    | WDeleted => tdel_below (ev_src e) t
    | WMoved =>                                                   (* synthetic or not *)
      match ev_src e, ev_dest e with
      | [], _ => tput (ev_dest e) isdir t                         (* full emitter: arrival from outside *)
      | _, [] => tdel_below (ev_src e) t                          (* full emitter: departure *)
      | _, _ => match alookup beqb (ev_src e) t with
                | None => tput (ev_dest e) isdir t                (* source unknown: the destination exists now *)
                | Some _ => tmove (ev_src e) (ev_dest e) t
                end
      end
    | _ => t                                                      (* modified / opened / closed *)
    end.

  Definition replay (t0 : tree) (evs : list nevent) : tree := fold_left replay1 evs t0.

  (* scope_listing *)
  Definition tree_of (w : world) : tree :=
    map (fun e => (f_path e, f_dir e)) (filter (fun e => ins (f_path e)) (w_fs w)).

  (* ---------------------------------------------------------------- pointwise semantics *)
  Definition pt := bytes -> option bool.
  Definition fput (k : bytes) (v : bool) (f : pt) : pt := fun x => if ins k && beqb x k then Some v else f x.
  Definition fdel (p : bytes) (f : pt) : pt := fun x => if below p x then None else f x.
  Definition fmove (src dest : bytes) (f : pt) : pt := fun x =>
    let f1 := fdel dest f in
    if below dest x && ins x then
      match f1 (src ++ skipn (length dest) x) with Some v => Some v | None => None end
    else fdel src f1 x.

  Definition freplay1 (f : pt) (e : nevent) : pt :=
    let isdir := cls_isdir (ev_cls e) in
    match cls_what (ev_cls e) with
    | WCreated => fput (ev_src e) isdir f
    | WDeleted => fdel (ev_src e) f
    | WMoved =>
      match ev_src e, ev_dest e with
      | [], _ => fput (ev_dest e) isdir f
      | _, [] => fdel (ev_src e) f
      | _, _ => match f (ev_src e) with
                | None => fput (ev_dest e) isdir f
                | Some _ => fmove (ev_src e) (ev_dest e) f
                end
      end
    | _ => f
    end.

  Definition look (t : tree) : pt := fun x => alookup beqb x t.
  Definition peq (f g : pt) : Prop := forall x, f x = g x.

  Lemma look_aset k v t x : look (aset beqb k v t) x = if beqb x k then Some v else look t x.
  Proof.
    unfold look. destruct (beqb x k) eqn:E.
    - apply beqb_eq in E. subst. apply tset_eq.
    - apply beqb_neq in E. now apply tset_neq.
  Qed.

  Lemma look_filter_key (g : bytes -> bool) t x :
    look (filter (fun kv => g (fst kv)) t) x = if g x then look t x else None.
  Proof.
    unfold look. induction t as [|[k v] t IH]; cbn [filter fst alookup]; [now destruct (g x)|].
    destruct (g k) eqn:Egk; cbn [alookup]; destruct (beqb x k) eqn:E.
    - apply beqb_eq in E. subst. now rewrite Egk.
    - exact IH.
    - apply beqb_eq in E. subst. rewrite Egk in *. exact IH.
    - exact IH.
  Qed.

  Lemma look_tdel p t x : look (tdel_below p t) x = fdel p (look t) x.
  Proof.
    unfold tdel_below, fdel. rewrite (look_filter_key (fun k => negb (below p k))). now destruct (below p x).
  Qed.

  Lemma look_tput k v t x : look (tput k v t) x = fput k v (look t) x.
  Proof. unfold tput, fput. destruct (ins k); [apply look_aset | reflexivity]. Qed.

  Lemma nodup_aset k (v : bool) t : NoDup (map fst t) -> NoDup (map fst (aset beqb k v t)).
  Proof.
    induction t as [|[a b] t IH]; cbn; intros H; [repeat constructor; intros []|].
    inversion H; subst. destruct (beqb k a) eqn:E; cbn; [constructor; assumption|].
    constructor; [|now apply IH]. intros Hin. apply H2.
    clear -Hin E. induction t as [|[c d] t IH]; cbn in *.
    - destruct Hin as [->|[]]. now rewrite beqb_refl in E.
    - destruct (beqb k c); cbn in Hin; [exact Hin|]. destruct Hin as [->|Hin]; [now left | right; now apply IH].
  Qed.

  Lemma nodup_tput k v t : NoDup (map fst t) -> NoDup (map fst (tput k v t)).
  Proof. unfold tput. destruct (ins k); [apply nodup_aset | auto]. Qed.

  Lemma nodup_tdel p t : NoDup (map fst t) -> NoDup (map fst (tdel_below p t)).
  Proof. apply NoDup_map_filter. Qed.

  Lemma look_in k v t : NoDup (map fst t) -> In (k, v) t -> look t k = Some v.
  Proof.
    unfold look. induction t as [|[a b] t IH]; cbn; intros Hnd Hin; [contradiction|]. inversion Hnd; subst.
    destruct Hin as [E|Hin].
    - inversion E; subst. now rewrite beqb_refl.
    - destruct (beqb k a) eqn:E; [|now apply IH]. apply beqb_eq in E. subst. exfalso. apply H1.
      change a with (fst (a, v)). now apply in_map.
  Qed.

  Lemma below_split src k : below src k = true -> k = src ++ skipn (length src) k /\
    (skipn (length src) k = [] \/ exists r, skipn (length src) k = sep :: r).
  Proof.
    unfold below. intros H. apply orb_true_iff in H as [H|H].
    - apply beqb_eq in H. subst. rewrite skipn_all. rewrite app_nil_r. auto.
    - apply under_spec in H as [r ->]. rewrite skipn_app_length. split; [reflexivity | right; eauto].
  Qed.

  Lemma below_app p s : (s = [] \/ exists r, s = sep :: r) -> below p (p ++ s) = true.
  Proof.
    unfold below. intros [->|[r ->]]; [now rewrite app_nil_r, beqb_refl | now rewrite under_app, orb_true_r].
  Qed.

  Section Move.
    Variables src dest : bytes.
    Definition nk (k : bytes) : bytes := dest ++ skipn (length src) k.
    Let step := fun (acc : tree) (kv : bytes * bool) => tput (nk (fst kv)) (snd kv) acc.

    Lemma nk_inj a b : below src a = true -> below src b = true -> nk a = nk b -> a = b.
    Proof.
      intros Ha Hb E. apply below_split in Ha as [Ea _]. apply below_split in Hb as [Eb _].
      unfold nk in E. apply app_inv_head in E. congruence.
    Qed.

    Lemma fold_put_look m : forall acc, NoDup (map fst m) -> (forall kv, In kv m -> below src (fst kv) = true) ->
      forall x, look (fold_left step m acc) x =
                match find (fun kv => beqb x (nk (fst kv))) m with
                | Some kv => if ins x then Some (snd kv) else look acc x
                | None => look acc x
                end.
    Proof.
      induction m as [|[k v] m IH]; intros acc Hnd Hb x; [reflexivity|].
      inversion Hnd; subst. cbn [fold_left find fst]. rewrite IH; [|assumption | intros; apply Hb; now right].
      unfold step. cbn [fst snd]. rewrite !look_tput. unfold fput.
      destruct (beqb x (nk k)) eqn:E.
      - apply beqb_eq in E. subst x. rewrite andb_true_r.
        destruct (find (fun kv => beqb (nk k) (nk (fst kv))) m) as [kv|] eqn:Ef; [|reflexivity].
        exfalso. apply find_some in Ef as [Hin Hf]. apply beqb_eq in Hf.
        apply nk_inj in Hf; [|apply (Hb (k, v)); now left | apply Hb; now right].
        apply H1. cbn in Hf. rewrite Hf. now apply in_map.
      - rewrite andb_false_r. reflexivity.
    Qed.

    Lemma nodup_fold m : forall acc, NoDup (map fst acc) -> NoDup (map fst (fold_left step m acc)).
    Proof. induction m as [|kv m IH]; intros acc H; [exact H|]. cbn. apply IH. now apply nodup_tput. Qed.

    Lemma look_tmove t : NoDup (map fst t) -> forall x, look (tmove src dest t) x = fmove src dest (look t) x.
    Proof.
      intros Hnd x. unfold tmove. set (t1 := tdel_below dest t).
      assert (Hnd1 : NoDup (map fst t1)) by now apply nodup_tdel.
      set (moved := filter (fun kv => below src (fst kv)) t1).
      assert (Hndm : NoDup (map fst moved)) by now apply NoDup_map_filter.
      assert (Hbm : forall kv, In kv moved -> below src (fst kv) = true) by (intros kv H; now apply filter_In in H).
      fold step. rewrite (fold_put_look moved _ Hndm Hbm).
      unfold fmove. set (kx := src ++ skipn (length dest) x).
      assert (L1 : forall y, look t1 y = fdel dest (look t) y) by (intros; apply look_tdel).
      assert (L2 : look (tdel_below src t1) x = fdel src (fdel dest (look t)) x).
      { rewrite look_tdel. unfold fdel. destruct (below src x); [reflexivity | rewrite L1; reflexivity]. }
      destruct (find (fun kv => beqb x (nk (fst kv))) moved) as [[k v]|] eqn:Ef.
      - apply find_some in Ef as [Hin Hf]. cbn [fst snd] in *. apply beqb_eq in Hf.
        apply filter_In in Hin as [Hin1 Hbk]. cbn [fst] in Hbk.
        destruct (below_split _ _ Hbk) as [Ek Hs].
        assert (Hbx : below dest x = true) by (rewrite Hf; unfold nk; now apply below_app).
        assert (Ekx : kx = k).
        { unfold kx. rewrite Hf. unfold nk. rewrite skipn_app_length. now symmetry. }
        rewrite Hbx. cbn [andb]. destruct (ins x); [|exact L2].
        rewrite <- L1, Ekx, (look_in k v t1 Hnd1 Hin1). reflexivity.
      - rewrite L2. destruct (below dest x && ins x) eqn:Eb; [|reflexivity].
        apply andb_true_iff in Eb as [Hbx Hix].
        assert (Hd : fdel src (fdel dest (look t)) x = None).
        { unfold fdel. rewrite Hbx. now destruct (below src x). }
        rewrite Hd. rewrite <- L1. destruct (look t1 kx) as [v|] eqn:El; [|reflexivity]. exfalso.
        destruct (below_split _ _ Hbx) as [Ex Hs].
        assert (Hbk : below src kx = true) by (unfold kx; now apply below_app).
        assert (Hin : In (kx, v) moved).
        { apply filter_In. split; [|exact Hbk]. apply (alookup_in beqb beqb_eq). exact El. }
        rewrite find_none_iff in Ef. specialize (Ef _ Hin). cbn [fst] in Ef.
        unfold nk, kx in Ef. rewrite skipn_app_length, <- Ex, beqb_refl in Ef. discriminate.
    Qed.
  End Move.

  Lemma replay1_sem t e : NoDup (map fst t) -> forall x, look (replay1 t e) x = freplay1 (look t) e x.
  Proof.
    intros Hnd x. unfold replay1, freplay1. destruct (cls_what (ev_cls e)); try reflexivity.
    - apply look_tput.
    - apply look_tdel.
    - destruct (ev_src e) as [|c s] eqn:Es; [apply look_tput|].
      destruct (ev_dest e) as [|c' d] eqn:Ed; [apply look_tdel|].
      fold (look t (c :: s)). destruct (look t (c :: s)); [now apply look_tmove | apply look_tput].
  Qed.

  Lemma replay1_nodup t e : NoDup (map fst t) -> NoDup (map fst (replay1 t e)).
  Proof.
    intros Hnd. unfold replay1. destruct (cls_what (ev_cls e)); try assumption.
    - now apply nodup_tput.
    - now apply nodup_tdel.
    - destruct (ev_src e) as [|c s]; [now apply nodup_tput|]. destruct (ev_dest e) as [|c' d]; [now apply nodup_tdel|].
      destruct (alookup beqb _ t); [|now apply nodup_tput].
      unfold tmove. apply (nodup_fold (c :: s) (c' :: d)). now apply nodup_tdel, nodup_tdel.
  Qed.

  Lemma freplay1_ext f g e : peq f g -> peq (freplay1 f e) (freplay1 g e).
  Proof.
    intros H x. unfold freplay1. destruct (cls_what (ev_cls e)); try apply H.
    - unfold fput. now rewrite H.
    - unfold fdel. now rewrite H.
    - destruct (ev_src e); [unfold fput; now rewrite H|]. destruct (ev_dest e); [unfold fdel; now rewrite H|].
      rewrite H. destruct (g _); [|unfold fput; now rewrite H].
      unfold fmove, fdel. now rewrite !H.
  Qed.

  Lemma replay_nodup evs : forall t, NoDup (map fst t) -> NoDup (map fst (replay t evs)).
  Proof. induction evs as [|e evs IH]; intros t H; [exact H|]. cbn. apply IH. now apply replay1_nodup. Qed.

  (* a stream all of whose events leave the lookup function g unchanged *)
  Lemma replay_fix g evs : (forall e, In e evs -> peq (freplay1 g e) g) ->
    forall t, NoDup (map fst t) -> peq (look t) g -> peq (look (replay t evs)) g.
  Proof.
    induction evs as [|e evs IH]; intros Hfix t Hnd Hg; [exact Hg|]. cbn [replay fold_left].
    apply IH; [intros; apply Hfix; now right | now apply replay1_nodup|].
    intros x. rewrite (replay1_sem t e Hnd). rewrite (freplay1_ext _ _ e Hg). apply Hfix. now left.
  Qed.
End Replay.

(* ================================================================== the real tree as a lookup function *)
Definition tl (recursive : bool) (root : bytes) (w : world) : pt :=
  fun x => if in_scope recursive root x then option_map f_dir (flookup x (w_fs w)) else None.

Lemma look_tree_of recursive root w x : look (tree_of recursive root w) x = tl recursive root w x.
Proof.
  unfold look, tree_of, tl. induction (w_fs w) as [|e t IH]; cbn [filter map alookup flookup].
  - now destruct (in_scope recursive root x).
  - destruct (in_scope recursive root (f_path e)) eqn:Ee; cbn [map alookup]; destruct (beqb x (f_path e)) eqn:E.
    + apply beqb_eq in E. subst. now rewrite Ee.
    + exact IH.
    + apply beqb_eq in E. subst. rewrite Ee in *. exact IH.
    + exact IH.
Qed.

Lemma nodup_tree_of recursive root w : wf_fs w -> NoDup (map fst (tree_of recursive root w)).
Proof.
  intros W. unfold tree_of. rewrite map_map. cbn [fst]. apply NoDup_map_filter, W.
Qed.

(* the replayed tree t stands for the world w *)
Definition TInv (recursive : bool) (root : bytes) (t : tree) (w : world) : Prop :=
  NoDup (map fst t) /\ peq (look t) (tl recursive root w).

Lemma TInv_tree_eq recursive root t w : TInv recursive root t w ->
  forall x, alookup beqb x t = alookup beqb x (tree_of recursive root w).
Proof. intros [_ H] x. fold (look t x). rewrite H. symmetry. apply look_tree_of. Qed.

Lemma TInv_init recursive root w : wf_fs w -> TInv recursive root (tree_of recursive root w) w.
Proof. intros W. split; [now apply nodup_tree_of | intros x; apply look_tree_of]. Qed.

(* ================================================================== collapse *)
Lemma evclass_eqb_eq a b : evclass_eqb a b = true -> a = b.
Proof. destruct a, b; cbn; congruence. Qed.

Lemma nevent_eqb_eq a b : nevent_eqb a b = true -> a = b.
Proof.
  unfold nevent_eqb. rewrite !andb_true_iff. intros [[[H1 H2] H3] H4].
  apply evclass_eqb_eq in H1. apply beqb_eq in H2, H3. apply Bool.eqb_prop in H4.
  destruct a, b; cbn in *; congruence.
Qed.

Lemma collapse_in e l : In e l <-> In e (collapse l).
Proof.
  induction l as [|a l IH]; [reflexivity|]. cbn [collapse]. destruct l as [|b l'].
  - reflexivity.
  - destruct (nevent_eqb a b) eqn:E.
    + apply nevent_eqb_eq in E. subst b. rewrite <- IH. cbn. tauto.
    + cbn [In] in *. rewrite <- IH. tauto.
Qed.

Lemma collapse_head a c l : collapse l = a :: c -> exists rest, l = a :: rest.
Proof.
  induction l as [|a0 l IH]; [discriminate|]. cbn [collapse]. destruct l as [|b l'].
  - intros H. inversion H. eauto.
  - destruct (nevent_eqb a0 b) eqn:E.
    + apply nevent_eqb_eq in E. subst b. intros H. destruct (IH H) as [rest Hr]. inversion Hr; subst. eauto.
    + intros H. inversion H. eauto.
Qed.

Lemma collapse_nil l : collapse l = [] -> l = [].
Proof.
  induction l as [|a l IH]; [reflexivity|]. cbn [collapse]. destruct l as [|b l']; [discriminate|].
  destruct (nevent_eqb a b); [|discriminate]. intros H. apply IH in H. discriminate.
Qed.

(* what a contract does to the tree: its first event turns g into g', every event leaves g' alone *)
Definition ctr_ok (recursive : bool) (root : bytes) (g g' : pt) (ctr : list nevent) : Prop :=
  match ctr with [] => peq g g' | e0 :: _ => peq (freplay1 recursive root g e0) g' end /\
  (forall e, In e ctr -> peq (freplay1 recursive root g' e) g').

Lemma replay_contract recursive root evs ctr t g g' :
  collapse evs = collapse ctr -> ctr_ok recursive root g g' ctr ->
  NoDup (map fst t) -> peq (look t) g ->
  NoDup (map fst (replay recursive root t evs)) /\ peq (look (replay recursive root t evs)) g'.
Proof.
  intros Hc [H0 Hfix] Hnd Hg. split; [now apply replay_nodup|].
  destruct ctr as [|e0 ctr'].
  - cbn in Hc. apply collapse_nil in Hc. subst evs. intros x. now rewrite Hg.
  - destruct (collapse (e0 :: ctr')) as [|a c] eqn:Ec; [apply collapse_nil in Ec; discriminate|].
    destruct (collapse_head _ _ _ Ec) as [r1 E1]. inversion E1; subst a r1.
    destruct (collapse_head _ _ _ Hc) as [rest ->].
    cbn [replay fold_left]. apply (replay_fix recursive root g').
    + intros e He. apply Hfix. apply (proj2 (collapse_in e (e0 :: ctr'))). rewrite Ec, <- Hc.
      apply (proj1 (collapse_in _ _)). now right.
    + now apply replay1_nodup.
    + intros x. rewrite (replay1_sem _ _ t e0 Hnd). rewrite (freplay1_ext _ _ _ _ e0 Hg). apply H0.
Qed.

(* ================================================================== what each contract does to the real tree *)
Lemma flookup_app x t n :
  flookup x (t ++ [n]) = match flookup x t with Some e => Some e | None => if beqb x (f_path n) then Some n else None end.
Proof.
  induction t as [|e t IH]; cbn [app flookup]; [reflexivity|]. destruct (beqb x (f_path e)); [reflexivity | exact IH].
Qed.

Lemma flookup_fremove x p t : flookup x (fremove p t) = if beqb x p then None else flookup x t.
Proof.
  unfold fremove. induction t as [|e t IH]; cbn [filter flookup]; [now destruct (beqb x p)|].
  destruct (beqb p (f_path e)) eqn:Ep; cbn [negb flookup].
  - apply beqb_eq in Ep. subst p. rewrite IH. now destruct (beqb x (f_path e)).
  - destruct (beqb x (f_path e)) eqn:E; [|exact IH]. apply beqb_eq in E. subst x.
    rewrite ContractProofs.beqb_sym, Ep. reflexivity.
Qed.

Lemma nothing_below_entry w ep : wf_fs w -> In ep (w_fs w) ->
  (f_dir ep = false \/ has_children (f_path ep) (w_fs w) = false) ->
  forall e, In e (w_fs w) -> under (f_path ep) (f_path e) = false.
Proof.
  intros W Hep Hleaf e He. destruct (under (f_path ep) (f_path e)) eqn:E; [|reflexivity]. exfalso.
  destruct Hleaf as [Hf|Hch].
  - destruct (chain w e (f_path ep) ep W He Hep E (or_introl eq_refl)) as (x & Hx & Ex & Dx).
    assert (x = ep) by (apply (path_inj (w_fs w)); [apply W| | |]; assumption). congruence.
  - destruct (chain_child_gen w W _ e (le_n _) He (f_path ep) ep Hep E (or_introl eq_refl)) as (c & Hc1 & Hc2 & _).
    assert (Hf := CoverProofs.has_children_false _ _ Hch _ Hc1).
    apply is_child_np in Hc2; [congruence | now apply (wf_np w W)].
Qed.

Section Sem.
  Variables (recursive full : bool) (root : bytes).
  Let ins := in_scope recursive root.
  Let fr := freplay1 recursive root.
  Let tlw := tl recursive root.

  Lemma fput_id k v (g : pt) : (ins k = true -> g k = Some v) -> peq (fput recursive root k v g) g.
  Proof.
    intros H x. unfold fput. fold ins. destruct (ins k) eqn:E; [|reflexivity]. cbn [andb].
    destruct (beqb x k) eqn:Ex; [|reflexivity]. apply beqb_eq in Ex. subst. symmetry. now apply H.
  Qed.

  Lemma fdel_id p (g : pt) : (forall x, below p x = true -> g x = None) -> peq (fdel p g) g.
  Proof. intros H x. unfold fdel. destruct (below p x) eqn:E; [symmetry; now apply H | reflexivity]. Qed.

  Lemma fr_neutral g c s d sy : match cls_what c with WCreated | WDeleted | WMoved => False | _ => True end ->
    fr g {| ev_cls := c; ev_src := s; ev_dest := d; ev_synth := sy |} = g.
  Proof. unfold fr, freplay1. cbn [ev_cls]. destruct (cls_what c); tauto. Qed.

  Lemma fr_pm g p : fr g (parent_modified p) = g.
  Proof. reflexivity. Qed.

  Lemma tlw_ins w x : ins x = false -> tlw w x = None.
  Proof. unfold tlw, tl. fold ins. now intros ->. Qed.

  (* ---- Touch / Mkdir *)
  Lemma tl_add w p d : flookup p (w_fs w) = None -> forall ino n x,
    tlw {| w_fs := w_fs w ++ [{| f_path := p; f_ino := ino; f_dir := d |}]; w_next_ino := n |} x =
    if beqb x p then (if ins p then Some d else None) else tlw w x.
  Proof.
    intros Hp ino n x. unfold tlw, tl. cbn [w_fs]. fold ins. rewrite flookup_app. cbn [f_path].
    destruct (beqb x p) eqn:E.
    - apply beqb_eq in E. subst x. rewrite Hp. now destruct (ins p).
    - now destruct (flookup x (w_fs w)).
  Qed.

  Lemma ctr_add w p d c : flookup p (w_fs w) = None -> cls_what c = WCreated -> cls_isdir c = d ->
    forall ino n rest,
    (forall e, In e rest -> forall g, fr g e = g) ->
    ctr_ok recursive root (tlw w)
      (tlw {| w_fs := w_fs w ++ [{| f_path := p; f_ino := ino; f_dir := d |}]; w_next_ino := n |})
      (if ins p then mk c p [] :: rest else []).
  Proof.
    intros Hp Hc Hd ino n rest Hrest. set (w' := {| w_fs := _; w_next_ino := n |}).
    assert (Hg' : forall x, tlw w' x = if beqb x p then (if ins p then Some d else None) else tlw w x)
      by (intros; now apply tl_add).
    destruct (ins p) eqn:Ei.
    - assert (H0 : peq (fr (tlw w) (mk c p [])) (tlw w')).
      { intros x. unfold fr, freplay1, mk. cbn [ev_cls ev_src]. rewrite Hc, Hd. unfold fput. fold ins. rewrite Ei, Hg'.
        cbn [andb]. reflexivity. }
      split; [exact H0|]. intros e [<-|He]; [|intros x; now rewrite Hrest].
      unfold fr, freplay1, mk. cbn [ev_cls ev_src]. rewrite Hc, Hd. apply fput_id. intros _. now rewrite Hg', beqb_refl.
    - split; [|intros e []]. intros x. rewrite Hg'. destruct (beqb x p) eqn:E; [|reflexivity].
      apply beqb_eq in E. subst. now apply tlw_ins.
  Qed.

  Lemma ctr_touch w p w' : apply_op w (Touch p) = Some w' ->
    ctr_ok recursive root (tlw w) (tlw w') (contract recursive full root (w_fs w) (Touch p)).
  Proof.
    cbn [apply_op]. destruct (fisdir (dirname p) (w_fs w)); [|discriminate]. destruct (fexists p (w_fs w)) eqn:Ex; [discriminate|].
    cbn. intros H. injection H as <-. unfold fexists in Ex. destruct (flookup p (w_fs w)) eqn:El; [discriminate|].
    apply (ctr_add w p false FileCreated El eq_refl eq_refl).
    intros e [<-|[<-|[<-|[<-|[]]]]] g; reflexivity.
  Qed.

  Lemma ctr_mkdir w p w' : apply_op w (Mkdir p) = Some w' ->
    ctr_ok recursive root (tlw w) (tlw w') (contract recursive full root (w_fs w) (Mkdir p)).
  Proof.
    cbn [apply_op]. destruct (fisdir (dirname p) (w_fs w)); [|discriminate]. destruct (fexists p (w_fs w)) eqn:Ex; [discriminate|].
    cbn. intros H. injection H as <-. unfold fexists in Ex. destruct (flookup p (w_fs w)) eqn:El; [discriminate|].
    apply (ctr_add w p true DirCreated El eq_refl eq_refl).
    intros e [<-|[]] g; reflexivity.
  Qed.

  (* ---- Write / Chmod: the tree does not change, no event of the contract is structural *)
  Lemma ctr_neutral g ctr : (forall e, In e ctr -> forall h, fr h e = h) -> ctr_ok recursive root g g ctr.
  Proof.
    intros H. split; [|intros e He x; now rewrite H].
    destruct ctr as [|e0 c]; [intros x; reflexivity|]. intros x. rewrite H; [reflexivity | now left].
  Qed.

  Lemma ctr_write w p w' : apply_op w (Write p) = Some w' ->
    ctr_ok recursive root (tlw w) (tlw w') (contract recursive full root (w_fs w) (Write p)).
  Proof.
    cbn [apply_op]. destruct (flookup p (w_fs w)) as [e|]; [|discriminate]. destruct (f_dir e); [discriminate|].
    intros H. injection H as <-. apply ctr_neutral. cbn [contract]. destruct (in_scope recursive root p); [|intros e0 []].
    intros e0 [<-|[<-|[<-|[<-|[]]]]] h; reflexivity.
  Qed.

  Lemma ctr_chmod w p w' : apply_op w (Chmod p) = Some w' ->
    ctr_ok recursive root (tlw w) (tlw w') (contract recursive full root (w_fs w) (Chmod p)).
  Proof.
    cbn [apply_op]. destruct (fexists p (w_fs w)); [|discriminate].
    intros H. injection H as <-. apply ctr_neutral. cbn [contract]. destruct (in_scope recursive root p); [|intros e0 []].
    intros e0 [<-|[]] h. destruct (fisdir p (w_fs w)); reflexivity.
  Qed.

  (* ---- Unlink / Rmdir: a leaf disappears *)
  Lemma tl_remove w p n x : tlw {| w_fs := fremove p (w_fs w); w_next_ino := n |} x = if beqb x p then None else tlw w x.
  Proof. unfold tlw, tl. cbn [w_fs]. rewrite flookup_fremove. now destruct (beqb x p), (in_scope recursive root x). Qed.

  Lemma ctr_remove w p ep c rest n : wf_fs w -> flookup p (w_fs w) = Some ep ->
    (f_dir ep = false \/ has_children p (w_fs w) = false) -> cls_what c = WDeleted ->
    (forall e, In e rest -> forall g, fr g e = g) ->
    ctr_ok recursive root (tlw w) (tlw {| w_fs := fremove p (w_fs w); w_next_ino := n |})
           (if ins p then mk c p [] :: rest else []).
  Proof.
    intros W El Hleaf Hc Hrest. destruct (flookup_some _ _ _ El) as [Hep Eep].
    assert (Hbelow : forall x, under p x = true -> tlw w x = None).
    { intros x Hu. unfold tlw, tl. destruct (flookup x (w_fs w)) as [e|] eqn:Ex; [|now destruct (in_scope recursive root x)].
      exfalso. apply flookup_some in Ex as [He Ee]. rewrite <- Eep in Hleaf.
      assert (Hn := nothing_below_entry w ep W Hep Hleaf e He). rewrite Eep, Ee, Hu in Hn. discriminate. }
    set (w' := {| w_fs := _; w_next_ino := n |}).
    assert (Hg' : forall x, tlw w' x = if beqb x p then None else tlw w x) by (intros; apply tl_remove).
    assert (Hdel : peq (fdel p (tlw w)) (tlw w')).
    { intros x. rewrite Hg'. unfold fdel, below. destruct (beqb x p); [reflexivity|]. cbn [orb].
      destruct (under p x) eqn:Eu; [symmetry; now apply Hbelow | reflexivity]. }
    destruct (ins p) eqn:Ei.
    - split.
      + intros x. unfold fr, freplay1, mk. cbn [ev_cls ev_src]. rewrite Hc. apply Hdel.
      + intros e [<-|He]; [|intros x; now rewrite Hrest].
        unfold fr, freplay1, mk. cbn [ev_cls ev_src]. rewrite Hc. apply fdel_id. intros x Hb. rewrite Hg'.
        unfold below in Hb. destruct (beqb x p); [reflexivity|]. cbn in Hb. now apply Hbelow.
    - split; [|intros e []]. intros x. rewrite Hg'. destruct (beqb x p) eqn:E; [|reflexivity].
      apply beqb_eq in E. subst. now apply tlw_ins.
  Qed.

  Lemma ctr_unlink w p w' : wf_fs w -> apply_op w (Unlink p) = Some w' ->
    ctr_ok recursive root (tlw w) (tlw w') (contract recursive full root (w_fs w) (Unlink p)).
  Proof.
    intros W. cbn [apply_op]. destruct (flookup p (w_fs w)) as [ep|] eqn:El; [|discriminate].
    destruct (f_dir ep) eqn:Dp; [discriminate|]. intros H. injection H as <-.
    apply (ctr_remove w p ep FileDeleted [parent_modified p] _ W El (or_introl Dp) eq_refl).
    intros e [<-|[]] g; reflexivity.
  Qed.

  Lemma ctr_rmdir w p w' : wf_fs w -> apply_op w (Rmdir p) = Some w' ->
    ctr_ok recursive root (tlw w) (tlw w') (contract recursive full root (w_fs w) (Rmdir p)).
  Proof.
    intros W. cbn [apply_op]. destruct (flookup p (w_fs w)) as [ep|] eqn:El; [|discriminate].
    destruct (f_dir ep); [|discriminate]. destruct (has_children p (w_fs w)) eqn:Hc; [discriminate|]. cbn.
    intros H. injection H as <-.
    apply (ctr_remove w p ep DirDeleted [parent_modified p] _ W El (or_intror Hc) eq_refl).
    intros e [<-|[]] g; reflexivity.
  Qed.
End Sem.

(* ================================================================== Rename: lookups in the renamed file system *)
Lemma below_refl p : below p p = true.
Proof. unfold below. now rewrite beqb_refl. Qed.

Lemma below_disjoint p q s : p <> q -> under p q = false -> under q p = false ->
  (s = [] \/ exists r, s = sep :: r) -> below q (p ++ s) = false.
Proof.
  intros Hne Hpq Hqp [->|[r ->]]; unfold below.
  - rewrite app_nil_r. apply beqb_neq in Hne. now rewrite Hne, Hqp.
  - rewrite under_disjoint by (try assumption; congruence). rewrite orb_false_r. apply beqb_neq. intros E.
    rewrite <- E, under_app in Hpq. discriminate.
Qed.

Section Frename.
  Variables (p q : bytes) (t1 : fs).
  Hypothesis N1 : NoDup (map f_path t1).
  Hypothesis N' : NoDup (map f_path (frename p q t1)).
  Hypothesis Hq : ~ In q (map f_path t1).
  Hypothesis Hbq : forall e, In e t1 -> under q (f_path e) = false.
  Hypothesis Hne : p <> q.
  Hypothesis Hpq : under p q = false.
  Hypothesis Hqp : under q p = false.

  Lemma rk_cases x : (x = p /\ rk p q x = q) \/ (exists s, x = p ++ sep :: s /\ rk p q x = q ++ sep :: s) \/
                     (x <> p /\ under p x = false /\ rk p q x = x).
  Proof.
    destruct (bytes_eq_dec x p) as [->|Hx]; [left; split; [reflexivity | apply rk_self]|].
    right. destruct (under p x) eqn:Eu.
    - left. apply under_spec in Eu as [r ->]. exists r. split; [reflexivity | apply rk_under].
    - right. repeat split; try assumption. now apply rk_other.
  Qed.

  Lemma in_paths e : In e t1 -> flookup (f_path e) t1 = Some e.
  Proof. now apply flookup_in. Qed.

  Lemma flookup_frename x :
    flookup x (frename p q t1) =
      if below q x then option_map (ren p q) (flookup (p ++ skipn (length q) x) t1)
      else if below p x then None else flookup x t1.
  Proof.
    rewrite CoverProofs.frename_map in *.
    assert (Hsrc : forall e' , flookup x (map (ren p q) t1) = Some e' -> exists e, In e t1 /\ e' = ren p q e /\ rk p q (f_path e) = x).
    { intros e' H. apply flookup_some in H as [He' Ee']. apply in_map_iff in He' as (e & <- & He).
      exists e. rewrite ren_path in Ee'. auto. }
    destruct (below q x) eqn:Bq.
    - destruct (below_split _ _ Bq) as [Ex Hs]. set (s := skipn (length q) x) in *.
      destruct (flookup (p ++ s) t1) as [e|] eqn:El; cbn [option_map].
      + destruct (flookup_some _ _ _ El) as [He Ee].
        assert (Hp' : f_path (ren p q e) = x).
        { rewrite ren_path, Ee, Ex. destruct Hs as [Hs|[r Hs]]; rewrite Hs.
          - now rewrite !app_nil_r, rk_self.
          - apply rk_under. }
        rewrite <- Hp'. apply flookup_in; [exact N' | now apply in_map].
      + destruct (flookup x (map (ren p q) t1)) as [e'|] eqn:El'; [|reflexivity]. exfalso.
        destruct (Hsrc e' eq_refl) as (e & He & _ & Er).
        apply CoverProofs.flookup_none in El. apply El.
        destruct (rk_cases (f_path e)) as [[E1 E2]|[(s' & E1 & E2)|(E1 & E2 & E3)]]; rewrite ?E2, ?E3 in Er.
        * assert (s = []) by (unfold s; rewrite <- Er; apply skipn_all). rewrite H, app_nil_r, <- E1. now apply in_map.
        * assert (s = sep :: s') by (unfold s; rewrite <- Er; apply skipn_app_length). rewrite H, <- E1. now apply in_map.
        * exfalso. unfold below in Bq. apply orb_true_iff in Bq as [Bq|Bq].
          -- apply beqb_eq in Bq. apply Hq. rewrite <- Bq, <- Er. now apply in_map.
          -- rewrite <- Er, Hbq in Bq by assumption. discriminate.
    - assert (Hnq : forall e, In e t1 -> rk p q (f_path e) = x -> f_path e = x /\ f_path e <> p /\ under p (f_path e) = false).
      { intros e He Er. destruct (rk_cases (f_path e)) as [[E1 E2]|[(s' & E1 & E2)|(E1 & E2 & E3)]]; rewrite ?E2, ?E3 in Er.
        - rewrite <- Er, below_refl in Bq. discriminate.
        - rewrite <- Er in Bq. unfold below in Bq. rewrite under_app, orb_true_r in Bq. discriminate.
        - auto. }
      destruct (below p x) eqn:Bp.
      + destruct (flookup x (map (ren p q) t1)) as [e'|] eqn:El'; [|reflexivity]. exfalso.
        destruct (Hsrc e' eq_refl) as (e & He & _ & Er). destruct (Hnq e He Er) as (E1 & E2 & E3).
        unfold below in Bp. rewrite <- E1 in Bp. apply beqb_neq in E2. rewrite E2, E3 in Bp. discriminate.
      + destruct (flookup x t1) as [e|] eqn:El.
        * destruct (flookup_some _ _ _ El) as [He Ee].
          assert (Hr : ren p q e = e).
          { unfold ren. rewrite Ee. unfold below in Bp. apply orb_false_iff in Bp as [B1 B2]. now rewrite B1, B2. }
          rewrite <- Ee. rewrite <- Hr at 2. rewrite <- Hr at 1. apply flookup_in; [exact N' | now apply in_map].
        * destruct (flookup x (map (ren p q) t1)) as [e'|] eqn:El'; [|reflexivity]. exfalso.
          destruct (Hsrc e' eq_refl) as (e & He & _ & Er). destruct (Hnq e He Er) as (E1 & _).
          apply CoverProofs.flookup_none in El. apply El. rewrite <- E1. now apply in_map.
  Qed.
End Frename.

(* the descendants listed by os.walk are entries of the file system, with their kinds *)
Lemma desc_unfold rel ds fs :
  desc rel (Node ds fs) = map (fun d : bytes * SubEvents.tree => (KDir, rel ++ [fst d])) ds ++
                          map (fun f => (KFile, rel ++ [f])) fs ++
                          flat_map (fun ns : bytes * SubEvents.tree => desc (rel ++ [fst ns]) (snd ns)) ds.
Proof.
  cbn [desc]. do 2 f_equal. induction ds as [|[n sub] ds IH]; [reflexivity|]. cbn [flat_map fst snd]. now rewrite IH.
Qed.

Lemma desc_content_sound w : wf_fs w -> forall fuel d base k rel,
  In (k, rel) (desc base (content_fuel fuel (w_fs w) d)) ->
  exists rel', rel = base ++ rel' /\ rel' <> [] /\
    exists e, In e (w_fs w) /\ f_path e = d ++ relsuffix rel' /\ f_dir e = kdir k.
Proof.
  intros W. induction fuel as [|fuel IH]; intros d base k rel Hin; [cbn in Hin; contradiction|].
  cbn [content_fuel] in Hin. rewrite desc_unfold in Hin.
  assert (Hchild : forall c, In c (w_fs w) -> is_child d (f_path c) = true ->
            f_path c = d ++ relsuffix [basename (f_path c)]).
  { intros c Hc Hch. assert (Np := wf_np w W c Hc). apply is_child_np in Hch; [|exact Np].
    rewrite relsuffix_one. rewrite <- Hch. now apply npath_parts. }
  rewrite !in_app_iff in Hin. destruct Hin as [Hin|[Hin|Hin]].
  - rewrite map_map in Hin. apply in_map_iff in Hin as (c & E & Hc). cbn [fst] in E. inversion E; subst k rel.
    apply filter_In in Hc as [Hc Hf]. apply andb_true_iff in Hf as [Hch Hd].
    exists [basename (f_path c)]. split; [reflexivity|]. split; [discriminate|]. exists c. auto.
  - rewrite map_map in Hin. apply in_map_iff in Hin as (c & E & Hc). inversion E; subst k rel.
    apply filter_In in Hc as [Hc Hf]. apply andb_true_iff in Hf as [Hch Hd]. apply negb_true_iff in Hd.
    exists [basename (f_path c)]. split; [reflexivity|]. split; [discriminate|]. exists c. auto.
  - apply in_flat_map in Hin as (ns & Hns & Hin). apply in_map_iff in Hns as (c & <- & Hc). cbn [fst snd] in Hin.
    apply filter_In in Hc as [Hc Hf]. apply andb_true_iff in Hf as [Hch Hd].
    destruct (IH _ _ _ _ Hin) as (rel' & -> & Hne & e & He & Ee & De).
    exists (basename (f_path c) :: rel'). split; [now rewrite <- app_assoc|]. split; [discriminate|].
    exists e. split; [exact He|]. split; [|exact De].
    rewrite Ee, (Hchild c Hc Hch) at 1. change (basename (f_path c) :: rel') with ([basename (f_path c)] ++ rel').
    now rewrite relsuffix_app, app_assoc.
Qed.

Definition fdl (t : fs) (y : bytes) : option bool := option_map f_dir (flookup y t).

(* everything the replay lemmas need to know about an applicable Rename *)
Lemma rename_look w p q w' : wf_fs w -> npath p -> npath q -> apply_op w (Rename p q) = Some w' ->
  exists ep, flookup p (w_fs w) = Some ep /\ p <> q /\ under p q = false /\ under q p = false /\
    (forall e, In e (w_fs w) -> under q (f_path e) = false) /\
    (fisdir q (w_fs w) = true -> f_dir ep = true) /\
    forall x, fdl (w_fs w') x =
      let F := fun y => if beqb y q then None else fdl (w_fs w) y in
      if below q x then F (p ++ skipn (length q) x) else if below p x then None else F x.
Proof.
  intros W Np Nq Ha. assert (W' : wf_fs w') by exact (wf_apply_op w (Rename p q) w' W (conj Np Nq) Ha).
  destruct (rename_inv w p q w' W Np Nq Ha) as (ep & t1 & Elp & Hne & Hupq & Edq & -> & Hbelow & Hq1).
  destruct (flookup_some _ _ _ Elp) as [Hep Eep].
  assert (Hqp : under q p = false) by (rewrite <- Eep; now apply Hbelow).
  exists ep. repeat split; try assumption.
  { unfold fisdir. destruct Hq1 as [[-> _]|(v & -> & _ & [[_ Hv]|(Hd & _)])]; [discriminate | congruence | auto]. }
  assert (Ht1 : forall y, flookup y t1 = if beqb y q then None else flookup y (w_fs w)).
  { intros y. destruct Hq1 as [[Hn ->]|(v & _ & -> & _)]; [|apply flookup_fremove].
    destruct (beqb y q) eqn:E; [|reflexivity]. apply beqb_eq in E. now subst. }
  assert (N1 : NoDup (map f_path t1)).
  { destruct Hq1 as [[_ ->]|(v & _ & -> & _)]; [apply W | apply NoDup_map_filter, W]. }
  assert (Hq : ~ In q (map f_path t1)).
  { apply CoverProofs.flookup_none. rewrite Ht1. now rewrite beqb_refl. }
  assert (Hbq : forall e, In e t1 -> under q (f_path e) = false).
  { intros e He. apply Hbelow. destruct Hq1 as [[_ ->]|(v & _ & -> & _)]; [assumption | now apply fremove_in in He]. }
  intros x. unfold fdl. cbn [w_fs]. rewrite (flookup_frename p q t1 (wf_paths _ W') Hq Hbq).
  cbv zeta. destruct (below q x).
  - rewrite Ht1. destruct (beqb (p ++ skipn (length q) x) q); [reflexivity|].
    destruct (flookup (p ++ skipn (length q) x) (w_fs w)) as [e|]; [|reflexivity]. cbn. now rewrite ren_dir.
  - destruct (below p x); [reflexivity|]. rewrite Ht1. now destruct (beqb x q).
Qed.

Section RenSem.
  Variables (recursive full : bool) (root : bytes).
  Let ins := in_scope recursive root.
  Let fr := freplay1 recursive root.
  Let tlw := tl recursive root.

  Lemma tlw_fdl w x : tlw w x = if ins x then fdl (w_fs w) x else None.
  Proof. reflexivity. Qed.

  Lemma cls_what_moved d : cls_what (moved_cls d) = WMoved.   Proof. now destruct d. Qed.
  Lemma cls_what_deleted d : cls_what (deleted_cls d) = WDeleted. Proof. now destruct d. Qed.
  Lemma cls_what_created d : cls_what (created_cls d) = WCreated. Proof. now destruct d. Qed.

  Lemma fr_moved g c s d sy : cls_what c = WMoved -> s <> [] -> d <> [] ->
    fr g {| ev_cls := c; ev_src := s; ev_dest := d; ev_synth := sy |} =
    match g s with None => fput recursive root d (cls_isdir c) g | Some _ => fmove recursive root s d g end.
  Proof.
    intros Hc Hs Hd. unfold fr, freplay1. cbn [ev_cls ev_src ev_dest]. rewrite Hc.
    destruct s; [contradiction|]. destruct d; [contradiction|]. reflexivity.
  Qed.

  (* ---- a file renamed: inside, out (= deleted), in (= created), neither *)
  Lemma ctr_rename_file w p q w' : wf_fs w -> npath p -> npath q -> apply_op w (Rename p q) = Some w' ->
    fisdir p (w_fs w) = false ->
    ctr_ok recursive root (tlw w) (tlw w') (contract recursive full root (w_fs w) (Rename p q)).
  Proof.
    intros W Np Nq Ha Fp.
    destruct (rename_look w p q w' W Np Nq Ha) as (ep & Elp & Hne & Hpq & Hqp & Hbelow & Hqd & Hl).
    destruct (flookup_some _ _ _ Elp) as [Hep Eep].
    assert (Dep : f_dir ep = false) by (unfold fisdir in Fp; now rewrite Elp in Fp).
    assert (Fq : fisdir q (w_fs w) = false) by (destruct (fisdir q (w_fs w)); [specialize (Hqd eq_refl); congruence | reflexivity]).
    assert (Gp := npath_gpath _ Np). assert (Gq := npath_gpath _ Nq).
    assert (Hup : forall x, under p x = true -> fdl (w_fs w) x = None).
    { intros x Hu. unfold fdl. destruct (flookup x (w_fs w)) as [e|] eqn:Ex; [|reflexivity]. exfalso.
      apply flookup_some in Ex as [He Ee].
      assert (Hn := nothing_below_entry w ep W Hep (or_introl Dep) e He). rewrite Eep, Ee, Hu in Hn. discriminate. }
    assert (Huq : forall x, under q x = true -> fdl (w_fs w) x = None).
    { intros x Hu. unfold fdl. destruct (flookup x (w_fs w)) as [e|] eqn:Ex; [|reflexivity]. exfalso.
      apply flookup_some in Ex as [He Ee]. specialize (Hbelow e He). rewrite Ee, Hu in Hbelow. discriminate. }
    assert (Bpq : beqb p q = false) by now apply beqb_neq.
    assert (Bqp : beqb q p = false) by (apply beqb_neq; congruence).
    (* the renamed tree, pointwise *)
    assert (Hg' : forall x, fdl (w_fs w') x =
              if beqb x q then Some false else if beqb x p then None else fdl (w_fs w) x).
    { intros x. rewrite Hl. cbv zeta. unfold below.
      destruct (beqb x q) eqn:E1.
      - apply beqb_eq in E1. subst x. cbn [orb]. rewrite skipn_all, app_nil_r, Bpq. unfold fdl. rewrite Elp. cbn [option_map]. now rewrite Dep.
      - cbn [orb]. destruct (under q x) eqn:E2.
        + apply under_spec in E2 as [r ->]. rewrite skipn_app_length.
          assert (beqb (p ++ sep :: r) q = false).
          { apply beqb_neq. intros E. rewrite <- E, under_app in Hpq. discriminate. }
          rewrite H, Hup by apply under_app. destruct (beqb (q ++ sep :: r) p) eqn:E3.
          * apply beqb_eq in E3. rewrite <- E3, under_app in Hqp. discriminate.
          * symmetry. apply Huq, under_app.
        + destruct (beqb x p) eqn:E3; [reflexivity|]. cbn [orb].
          destruct (under p x) eqn:E4; [symmetry; now apply Hup | reflexivity]. }
    cbn [contract]. rewrite Fp, Fq. cbn [andb]. rewrite andb_false_r. cbn [app].
    fold ins. destruct (ins p) eqn:Ip, (ins q) eqn:Iq; cbn [andb].
    - (* inside *)
      split.
      + intros x. cbn [moved_cls]. unfold mk. rewrite (fr_moved _ FileMoved p q false eq_refl (proj1 Gp) (proj1 Gq)).
        rewrite (tlw_fdl w p). fold ins. rewrite Ip. unfold fdl at 1. rewrite Elp. cbn [option_map].
        unfold fmove, fdel. fold ins. rewrite !tlw_fdl, Hg'. unfold below.
        destruct (beqb x q) eqn:E1.
        * apply beqb_eq in E1. subst x. cbn [orb]. rewrite Iq. cbn [andb]. rewrite skipn_all, app_nil_r.
          rewrite Bpq, Hqp. cbn [orb]. rewrite ?tlw_fdl. fold ins. rewrite Ip. unfold fdl. rewrite Elp. cbn [option_map]. now rewrite Dep.
        * cbn [orb]. destruct (under q x) eqn:E2.
          -- apply under_spec in E2 as [r ->]. rewrite skipn_app_length.
             assert (E3 : beqb (q ++ sep :: r) p = false).
             { apply beqb_neq. intros E. rewrite <- E, under_app in Hqp. discriminate. }
             rewrite E3. rewrite (Huq (q ++ sep :: r)) by apply under_app.
             destruct (ins (q ++ sep :: r)); cbn [andb].
             ++ assert (E4 : beqb (p ++ sep :: r) q = false).
                { apply beqb_neq. intros E. rewrite <- E, under_app in Hpq. discriminate. }
                rewrite E4, under_disjoint by (try assumption; congruence). cbn [orb].
                rewrite ?tlw_fdl, (Hup (p ++ sep :: r)) by apply under_app. now destruct (ins (p ++ sep :: r)).
             ++ now destruct (false || under p (q ++ sep :: r)).
          -- cbn [andb]. destruct (beqb x p) eqn:E3; cbn [orb]; [now destruct (ins x)|].
             destruct (under p x) eqn:E4; [rewrite Hup by assumption; now destruct (ins x) | reflexivity].
      + assert (Hid : peq (fr (tlw w') (mk FileMoved p q)) (tlw w')).
        { unfold mk. rewrite (fr_moved _ FileMoved p q false eq_refl (proj1 Gp) (proj1 Gq)).
          rewrite (tlw_fdl w' p), Hg', Bpq, beqb_refl. replace (if ins p then None else None) with (@None bool) by now destruct (ins p).
          apply fput_id. intros _. rewrite tlw_fdl, Hg', beqb_refl. fold ins. now rewrite Iq. }
        intros e [<-|[<-|[<-|[]]]]; [exact Hid | intros x; reflexivity | intros x; reflexivity].
    - (* out: deleted *)
      assert (Hdel : peq (fdel p (tlw w)) (tlw w')).
      { intros x. unfold fdel, below. rewrite !tlw_fdl, Hg'. destruct (beqb x p) eqn:E3; cbn [orb].
        - apply beqb_eq in E3. subst x. rewrite Bpq. now destruct (ins p).
        - destruct (under p x) eqn:E4.
          + rewrite Hup by assumption. now destruct (beqb x q) eqn:E1; [apply beqb_eq in E1; subst; fold ins; rewrite Iq | destruct (ins x)].
          + destruct (beqb x q) eqn:E1; [|reflexivity]. apply beqb_eq in E1. subst. fold ins. now rewrite Iq. }
      assert (Hdid : peq (fdel p (tlw w')) (tlw w')).
      { apply fdel_id. intros x Hb. rewrite tlw_fdl, Hg'. unfold below in Hb.
        destruct (beqb x q) eqn:E1; [apply beqb_eq in E1; subst; fold ins; now rewrite Iq|].
        destruct (beqb x p); [now destruct (ins x)|]. cbn in Hb. rewrite Hup by assumption. now destruct (ins x). }
      assert (He0 : forall g, fr g (if full then mk (moved_cls false) p [] else mk (deleted_cls false) p []) = fdel p g).
      { intros g. destruct full; unfold fr, freplay1, mk; cbn [ev_cls ev_src ev_dest moved_cls deleted_cls];
          [|reflexivity]. destruct p; [destruct Gp; contradiction | reflexivity]. }
      split; [intros x; rewrite He0; apply Hdel|].
      intros e [<-|[<-|[]]]; [intros x; rewrite He0; apply Hdid | intros x; reflexivity].
    - (* in: created *)
      assert (He0 : forall g, fr g (if full then mk (moved_cls false) [] q else mk (created_cls false) q []) = fput recursive root q false g).
      { intros g. destruct full; reflexivity. }
      split.
      + intros x. rewrite He0. unfold fput. fold ins. rewrite Iq. cbn [andb]. rewrite !tlw_fdl, Hg'.
        destruct (beqb x q) eqn:E1; [apply beqb_eq in E1; subst; now rewrite Iq|].
        destruct (beqb x p) eqn:E3; [|reflexivity]. apply beqb_eq in E3. subst. now rewrite Ip.
      + intros e [<-|[<-|[]]]; [|intros x; reflexivity]. intros x. rewrite He0.
        apply fput_id. intros _. rewrite tlw_fdl, Hg', beqb_refl. fold ins. now rewrite Iq.
    - split; [|intros e []]. intros x. rewrite !tlw_fdl, Hg'.
      destruct (beqb x q) eqn:E1; [apply beqb_eq in E1; subst; fold ins; now rewrite Iq|].
      destruct (beqb x p) eqn:E3; [|reflexivity]. apply beqb_eq in E3. subst. fold ins. now rewrite Ip.
  Qed.
End RenSem.

Section RenDir.
  Variables (full : bool) (root : bytes).
  Let ins := in_scope true root.
  Let fr := freplay1 true root.
  Let tlw := tl true root.

  Lemma ins_rec x : ins x = under root x.
  Proof. unfold ins, in_scope. cbn [orb]. apply andb_true_r. Qed.

  Lemma ins_below p s : ins p = true -> (s = [] \/ exists r, s = sep :: r) -> ins (p ++ s) = true.
  Proof.
    rewrite !ins_rec. intros H [->|[r ->]]; [now rewrite app_nil_r|]. eapply under_trans; [exact H | apply under_app].
  Qed.

  Lemma below_false_neq q k : below q k = false -> beqb k q = false.
  Proof. unfold below. intros H. now apply orb_false_iff in H as [H _]. Qed.

  Lemma relsuffix_form rel : rel <> [] -> exists r, relsuffix rel = sep :: r.
  Proof. destruct rel as [|n rel]; [contradiction|]. intros _. unfold relsuffix. cbn. eauto. Qed.

  (* a directory renamed inside the tree of a recursive watch: Moved + one synthetic Moved per descendant *)
  Lemma ctr_rename_dir_inside w p q w' : wf_fs w -> npath p -> npath q -> apply_op w (Rename p q) = Some w' ->
    fisdir p (w_fs w) = true -> ins p = true -> ins q = true ->
    ctr_ok true root (tlw w) (tlw w') (contract true full root (w_fs w) (Rename p q)).
  Proof.
    intros W Np Nq Ha Fp Ip Iq.
    destruct (rename_look w p q w' W Np Nq Ha) as (ep & Elp & Hne & Hpq & Hqp & Hbelow & Hqd & Hl).
    assert (Dep : f_dir ep = true) by (unfold fisdir in Fp; now rewrite Elp in Fp).
    assert (Gp := npath_gpath _ Np). assert (Gq := npath_gpath _ Nq).
    assert (Bpq : beqb p q = false) by now apply beqb_neq.
    assert (Hg : forall x, tlw w x = if ins x then fdl (w_fs w) x else None) by reflexivity.
    assert (Hg' : forall x, tlw w' x = if ins x then fdl (w_fs w') x else None) by reflexivity.
    assert (Hgp : tlw w p = Some true).
    { rewrite Hg, Ip. unfold fdl. rewrite Elp. cbn. now rewrite Dep. }
    assert (Hg'p : forall s, (exists r, s = [] \/ s = sep :: r) -> tlw w' (p ++ s) = None).
    { intros s [r Hs]. rewrite Hg', Hl. cbv zeta.
      assert (Hs' : s = [] \/ exists r, s = sep :: r) by (destruct Hs; eauto).
      rewrite (below_disjoint p q s Hne Hpq Hqp Hs'), (below_app p s Hs'). now destruct (ins (p ++ s)). }
    assert (Hg'q : forall s, (s = [] \/ exists r, s = sep :: r) -> ins (q ++ s) = true ->
               tlw w' (q ++ s) = fdl (w_fs w) (p ++ s)).
    { intros s Hs Hi. rewrite Hg', Hi, Hl. cbv zeta. rewrite (below_app q s Hs), skipn_app_length.
      now rewrite (below_false_neq q (p ++ s) (below_disjoint p q s Hne Hpq Hqp Hs)). }
    cbn [contract]. rewrite Fp. fold ins. rewrite Ip, Iq. cbn [andb moved_cls].
    split.
    - intros x. unfold mk. rewrite (fr_moved true root _ DirMoved p q false eq_refl (proj1 Gp) (proj1 Gq)).
      fold tlw. rewrite Hgp. unfold fmove, fdel. fold ins. rewrite Hg', Hl. cbv zeta.
      destruct (below q x) eqn:Bq.
      + destruct (below_split _ _ Bq) as [Ex Hs]. set (s := skipn (length q) x) in *.
        destruct (ins x) eqn:Ix; cbn [andb].
        * rewrite (below_disjoint p q s Hne Hpq Hqp Hs), Hg, (ins_below p s Ip Hs).
          rewrite (below_false_neq q (p ++ s) (below_disjoint p q s Hne Hpq Hqp Hs)).
          now destruct (fdl (w_fs w) (p ++ s)).
        * now destruct (below p x).
      + cbn [andb]. rewrite Hg, (below_false_neq q x Bq). now destruct (below p x), (ins x).
    - assert (Hid0 : peq (fr (tlw w') (mk DirMoved p q)) (tlw w')).
      { unfold mk. rewrite (fr_moved true root _ DirMoved p q false eq_refl (proj1 Gp) (proj1 Gq)).
        fold tlw. rewrite <- (app_nil_r p) at 1. rewrite Hg'p by (exists []; now left).
        apply fput_id. fold ins. intros _. rewrite <- (app_nil_r q) at 1. rewrite Hg'q by (rewrite ?app_nil_r; auto).
        rewrite app_nil_r. unfold fdl. rewrite Elp. cbn. now rewrite Dep. }
      intros e [<-|[<-|[<-|He]]]; [exact Hid0 | intros x; reflexivity | intros x; reflexivity|].
      apply in_app_iff in He as [He|He].
      + unfold synth_moved in He. apply in_map_iff in He as ([k rel] & <- & Hin). cbn [fst snd].
        unfold content in Hin. rewrite Fp in Hin.
        destruct (desc_content_sound w W _ _ _ _ _ Hin) as (rel' & E & Hne' & e & He & Ee & De). cbn in E. subst rel'.
        destruct (relsuffix_form rel Hne') as [r Hr]. rewrite Hr in *.
        rewrite (fr_moved true root _ (moved_cls (kdir k)) _ _ true (cls_what_moved _));
          [|destruct p; [destruct Gp; contradiction | discriminate] | destruct q; [destruct Gq; contradiction | discriminate]].
        fold tlw. rewrite Hg'p by (exists r; now right). rewrite cls_isdir_moved.
        apply fput_id. fold ins. intros Hi. rewrite Hg'q by eauto.
        unfold fdl. rewrite <- Ee, (flookup_in _ e (wf_paths w W) He). cbn. now rewrite De.
      + revert He. destruct (fisdir q (w_fs w) && true); [|intros []]. intros [<-|[]]. intros x. reflexivity.
  Qed.
End RenDir.

(* ================================================================== from RSync to Contract.cover *)
Lemma watched_dir_scope C d : watched_dir (c_recursive C) (c_root C) d = true <-> scope C d.
Proof.
  unfold watched_dir, scope. destruct (c_recursive C); cbn [andb].
  - rewrite orb_true_iff, beqb_eq. tauto.
  - rewrite orb_false_r. apply beqb_eq.
Qed.

Lemma cover_dir C w k r d : RSync C w k r -> c_mask C = WATCHDOG_ALL -> fisdir d (w_fs w) = true ->
  cover C r k (w_fs w) d.
Proof.
  intros [W Hr I Cv Hq Hpd] Hm Hd. destruct (fisdir_in _ _ Hd) as (de & Hde & Ede & Dde).
  assert (Eino : ino_of (w_fs w) d = f_ino de).
  { unfold ino_of. rewrite <- Ede. now rewrite (flookup_in _ de (wf_paths w W) Hde). }
  unfold cover. rewrite Eino. destruct (watched_dir (c_recursive C) (c_root C) d) eqn:Ew.
  - apply watched_dir_scope in Ew. rewrite <- Ede in Ew. destruct (Cv de Hde Dde Ew) as (kw & Cw & Cp & Cf).
    exists kw. destruct (watch_of_ino_some _ _ _ Cw) as [Hk _]. rewrite (wi_mask _ _ _ _ I kw Hk), <- Ede. auto.
  - apply (not_scope_unwatched C w k r de W I Hde). rewrite Ede. intros Hs. apply watched_dir_scope in Hs. congruence.
Qed.

Lemma cover_parent C w k r p ep : RSync C w k r -> c_mask C = WATCHDOG_ALL -> flookup p (w_fs w) = Some ep -> npath p ->
  cover C r k (w_fs w) (dirname p).
Proof.
  intros S Hm El Np. destruct (fisdir (dirname p) (w_fs w)) eqn:Ed; [now apply cover_dir|].
  destruct S as [W Hr I Cv Hq Hpd]. destruct (flookup_some _ _ _ El) as [Hep Eep].
  assert (Hnd : ~ isdir_in (dirname p) (w_fs w)).
  { intros H. apply (in_fisdir _ _ (wf_paths w W)) in H. congruence. }
  unfold cover. destruct (watched_dir (c_recursive C) (c_root C) (dirname p)) eqn:Ew.
  - exfalso. apply watched_dir_scope in Ew. destruct Hr as (er & Her & Eer & Der).
    assert (Hu : under (c_root C) (dirname p) = true \/ dirname p = c_root C).
    { unfold scope in Ew. destruct (c_recursive C); [destruct Ew; auto | auto]. }
    destruct Hu as [Hu|Hu].
    + apply Hnd. rewrite <- Eep. apply (wf_parent w W ep er Hep Her). rewrite Eep, Eer.
      eapply under_trans; [exact Hu | now apply under_dirname].
    + apply Hnd. exists er. rewrite Hu. auto.
  - destruct (watch_of_ino k (ino_of (w_fs w) (dirname p))) as [kw|] eqn:Ek; [|reflexivity]. exfalso.
    apply watch_of_ino_some in Ek as [Hk Ei]. destruct (wi_exact _ _ _ _ I kw Hk) as (e & He & De & _ & Ie & _).
    unfold ino_of in Ei. destruct (flookup (dirname p) (w_fs w)) as [f|] eqn:Ef.
    + destruct (flookup_some _ _ _ Ef) as [Hf Efp]. assert (e = f) by (apply (ino_inj w); try assumption; congruence).
      subst f. apply Hnd. exists e. auto.
    + assert (H0 := wf_fresh w W e He). lia.
Qed.

Lemma no_children_absent w p : wf_fs w -> npath p -> fisdir (dirname p) (w_fs w) = true -> flookup p (w_fs w) = None ->
  has_children p (w_fs w) = false.
Proof.
  intros W Np Hd Hn. destruct (fisdir_in _ _ Hd) as (de & Hde & Ede & _).
  unfold has_children. destruct (existsb _ _) eqn:E; [|reflexivity]. exfalso.
  apply existsb_exists in E as (e & He & Hc). apply is_child_np in Hc; [|now apply (wf_np w W)].
  assert (Hu : under p (f_path e) = true) by (rewrite <- Hc; apply under_dirname; now apply (wf_np w W)).
  rewrite (nothing_below w p de W Hde) in Hu; [discriminate | rewrite Ede; now apply under_dirname | | exact He].
  left. intros (x & Hx & Ex & _). apply CoverProofs.flookup_none in Hn. apply Hn. rewrite <- Ex. now apply in_map.
Qed.

Lemma npath_wf_path p : npath p -> wf_path p.
Proof. intros (d & n & -> & [_ Hs] & Hn). exists d, n. auto. Qed.

(* ================================================================== the one-operation replay law *)
(* the operations of C02's covered_op; Chmod must not be applied to the root itself *)
Definition c01_op0 (C : cfg) (w : world) (o : op) : Prop :=
  covered_op C w o /\
  match o with
  | Chmod p => p <> c_root C
  | Rename p q => fisdir p (w_fs w) = true ->                    (* a directory: renamed inside the tree to a fresh name *)
                  scope C p /\ c_recursive C = true /\ flookup q (w_fs w) = None
  | _ => True
  end.

Lemma delivers_covered C full w k r o w' : RSync C w k r -> c_mask C = WATCHDOG_ALL -> c01_op0 C w o ->
  apply_op w o = Some w' -> delivers C full w k r o.
Proof.
  intros S Hm [Ho Hch] Ha. assert (Hq := rs_queue _ _ _ _ S). assert (Hpd := rs_pend _ _ _ _ S). assert (W := rs_wf _ _ _ _ S).
  destruct Ho as [o Hqo Hn|p Hn|p Hn Hr|p q ep Np Nq El De Ed|p q ep Np Nq Hrec El De Sp Hpr Sq Elq
                  |p q ep Np Nq Hrec Hfix El De Sp Hpr Sq Elq|p q ep v Np Nq Hrec El De Sp Hpr Sq Hqr Elq Dv
                  |p q ep Np Nq El De Hpr Hqr Hupr Hpl|p q ep v Np Nq Hrec Hfix El De Sp Hpr Sq Hqr Elq Dv].
  9:{ exfalso. destruct Hch as [Sp' _]; [unfold fisdir; now rewrite El | contradiction]. }
  8:{ exfalso. destruct Hch as (Sp & Hrec & _); [unfold fisdir; now rewrite El|]. destruct Hpl as [Hf|[Hs _]]; [congruence | contradiction]. }
  7:{ exfalso. destruct Hch as (_ & _ & Hn); [unfold fisdir; now rewrite El | congruence]. }
  6:{ exfalso. destruct Hch as [Sp' _]; [unfold fisdir; now rewrite El | contradiction]. }
  - destruct o as [p|p|p|p|p|p|p q]; try contradiction; cbn [op_np] in Hn;
      destruct Hn as (d & n & -> & [Hd Hs] & Hv); assert (Np : npath (d ++ sep :: n)) by (exists d, n; repeat split; assumption);
      assert (Edn := dirname_np d n (conj Hd Hs) Hv).
    + apply (contract_touch C full w k r Hq Hpd d n w'); try assumption. apply cover_dir; try assumption.
      cbn [apply_op] in Ha. rewrite Edn in Ha. destruct (fisdir d (w_fs w)); [reflexivity | discriminate].
    + apply (contract_write C full w k r Hq Hpd d n w'); try assumption. cbn [apply_op] in Ha.
      destruct (flookup (d ++ sep :: n) (w_fs w)) as [e|] eqn:El; [|discriminate].
      rewrite <- Edn. eapply cover_parent; eassumption.
    + cbn [apply_op] in Ha. unfold fexists in Ha. destruct (flookup (d ++ sep :: n) (w_fs w)) as [e|] eqn:El; [|discriminate].
      assert (Cd : cover C r k (w_fs w) d) by (rewrite <- Edn; eapply cover_parent; eassumption).
      destruct (fisdir (d ++ sep :: n) (w_fs w)) eqn:Ef.
      * apply (contract_chmod_dir C full w k r Hq Hpd d n w'); try assumption.
        -- now apply cover_dir.
        -- cbn [apply_op]. unfold fexists. now rewrite El.
      * apply (contract_chmod_file C full w k r Hq Hpd d n w'); try assumption. cbn [apply_op]. unfold fexists. now rewrite El.
    + apply (contract_unlink C full w k r Hq Hpd d n w'); try assumption. cbn [apply_op] in Ha.
      destruct (flookup (d ++ sep :: n) (w_fs w)) as [e|] eqn:El; [|discriminate].
      rewrite <- Edn. eapply cover_parent; eassumption.
  - destruct Hn as (d & n & -> & [Hd Hs] & Hv). assert (Np : npath (d ++ sep :: n)) by (exists d, n; repeat split; assumption).
    assert (Edn := dirname_np d n (conj Hd Hs) Hv). assert (Ha' := Ha). cbn [apply_op] in Ha'. rewrite Edn in Ha'.
    destruct (fisdir d (w_fs w)) eqn:Fd; [|discriminate]. destruct (fexists (d ++ sep :: n) (w_fs w)) eqn:Fx; [discriminate|].
    apply (contract_mkdir C full w k r Hq Hpd d n w'); try assumption; [now apply cover_dir|].
    apply no_children_absent; try assumption; [now rewrite Edn|].
    unfold fexists in Fx. now destruct (flookup (d ++ sep :: n) (w_fs w)).
  - destruct Hn as (d & n & -> & [Hd Hs] & Hv). assert (Np : npath (d ++ sep :: n)) by (exists d, n; repeat split; assumption).
    assert (Edn := dirname_np d n (conj Hd Hs) Hv). assert (Ha' := Ha). cbn [apply_op] in Ha'.
    destruct (flookup (d ++ sep :: n) (w_fs w)) as [e|] eqn:El; [|discriminate]. destruct (f_dir e) eqn:De; [|discriminate].
    apply (contract_rmdir C full w k r Hq Hpd d n w'); try assumption.
    + rewrite <- Edn. eapply cover_parent; eassumption.
    + apply cover_dir; try assumption. unfold fisdir. now rewrite El.
  - destruct (rename_inv w p q w' W Np Nq Ha) as (ep' & t1 & Elp & Hne & Hupq & Edq & _ & Hbelow & Hq1).
    assert (ep' = ep) by congruence. subst ep'.
    destruct Np as (dp & np & -> & [Hdp Hsp] & Hvp). destruct Nq as (dq & nq & -> & [Hdq Hsq] & Hvq).
    rewrite (dirname_np dq nq (conj Hdq Hsq) Hvq) in Edq. rewrite (dirname_np dp np (conj Hdp Hsp) Hvp) in Ed.
    apply (contract_rename_file C full w k r Hq Hpd dp np dq nq w'); try assumption; try (now apply cover_dir).
    + unfold fisdir. now rewrite El.
    + unfold fisdir. destruct Hq1 as [[-> _]|(v & -> & _ & [[_ Hv]|(Hd & _)])]; [reflexivity | exact Hv | congruence].
  - destruct (rename_inv w p q w' W Np Nq Ha) as (ep' & t1 & Elp & Hne & Hupq & Edq & _ & Hbelow & Hq1).
    assert (Cp : cover C r k (w_fs w) (dirname p)) by (eapply cover_parent; eassumption).
    assert (Npp := Np). assert (Nqq := Nq).
    destruct Np as (dp & np & -> & [Hdp Hsp] & Hvp). destruct Nq as (dq & nq & -> & [Hdq Hsq] & Hvq).
    rewrite (dirname_np dq nq (conj Hdq Hsq) Hvq) in Edq. rewrite (dirname_np dp np (conj Hdp Hsp) Hvp) in Cp.
    apply (contract_rename_dir C full w k r Hq Hpd dp np dq nq w'); try assumption; try (now apply cover_dir).
    + unfold fisdir. now rewrite El.
    + unfold fexists. now rewrite Elq.
    + intros e He. apply npath_wf_path. now apply (wf_np w W).
Qed.

Lemma ctr_ok_covered C full w o w' : wf_fs w -> c01_op0 C w o -> apply_op w o = Some w' ->
  ctr_ok (c_recursive C) (c_root C) (tl (c_recursive C) (c_root C) w) (tl (c_recursive C) (c_root C) w')
         (contract (c_recursive C) full (c_root C) (w_fs w) o).
Proof.
  intros W [Ho Hch] Ha.
  destruct Ho as [o Hqo Hn|p Hn|p Hn Hr|p q ep Np Nq El De Ed|p q ep Np Nq Hrec El De Sp Hpr Sq Elq
                  |p q ep Np Nq Hrec Hfix El De Sp Hpr Sq Elq|p q ep v Np Nq Hrec El De Sp Hpr Sq Hqr Elq Dv
                  |p q ep Np Nq El De Hpr Hqr Hupr Hpl|p q ep v Np Nq Hrec Hfix El De Sp Hpr Sq Hqr Elq Dv].
  9:{ exfalso. destruct Hch as [Sp' _]; [unfold fisdir; now rewrite El | contradiction]. }
  8:{ exfalso. destruct Hch as (Sp & Hrec & _); [unfold fisdir; now rewrite El|]. destruct Hpl as [Hf|[Hs _]]; [congruence | contradiction]. }
  7:{ exfalso. destruct Hch as (_ & _ & Hn); [unfold fisdir; now rewrite El | congruence]. }
  6:{ exfalso. destruct Hch as [Sp' _]; [unfold fisdir; now rewrite El | contradiction]. }
  - destruct o as [p|p|p|p|p|p|p q]; try contradiction.
    + now apply ctr_touch.
    + now apply ctr_write.
    + now apply ctr_chmod.
    + now apply ctr_unlink.
  - now apply ctr_mkdir.
  - now apply ctr_rmdir.
  - apply ctr_rename_file; try assumption. unfold fisdir. now rewrite El.
  - rewrite Hrec. 
    assert (Hqr : q <> c_root C).
    { intros E. unfold scope in Sp. rewrite Hrec in Sp. destruct Sp as [Sp|Sp]; [contradiction|].
      destruct (rename_look w p q w' W Np Nq Ha) as (_ & _ & _ & _ & Hqp & _). rewrite E, Sp in Hqp. discriminate. }
    apply ctr_rename_dir_inside; try assumption.
    + unfold fisdir. now rewrite El.
    + unfold in_scope. cbn [orb]. rewrite andb_true_r. unfold scope in Sp. rewrite Hrec in Sp. destruct Sp; [contradiction | assumption].
    + unfold in_scope. cbn [orb]. rewrite andb_true_r. unfold scope in Sq. rewrite Hrec in Sq. destruct Sq; [contradiction | assumption].
Qed.

Definition delivered (C : cfg) (full : bool) (w' : world) (raws : list raw) : list nevent :=
  emit_all full (c_recursive C) (c_root C) (content (w_fs w')) (group_batch C raws).


(* ================================================================== a directory moved into the tree *)
(* os.walk lists EVERY entry below the directory (the converse of desc_content_sound) *)
Definition kof (b : bool) : kind := if b then KDir else KFile.

Lemma desc_content_complete w : wf_fs w -> forall fuel d de base e, In de (w_fs w) -> f_path de = d ->
  length (filter (fun x => under d (f_path x)) (w_fs w)) < fuel ->
  In e (w_fs w) -> under d (f_path e) = true ->
  exists rel', rel' <> [] /\ f_path e = d ++ relsuffix rel' /\
               In (kof (f_dir e), base ++ rel') (desc base (content_fuel fuel (w_fs w) d)).
Proof.
  intros W. induction fuel as [|fuel IH]; intros d de base e Hde Ede Hk He Ue; [lia|].
  cbn [content_fuel]. rewrite desc_unfold.
  destruct (chain_child_gen w W _ e (le_n _) He d de Hde Ue (or_introl (eq_sym Ede))) as (c & Hc & Ec & Hce).
  assert (Nc := wf_np w W c Hc).
  assert (Hch : is_child d (f_path c) = true) by now apply is_child_np.
  assert (Hcp : f_path c = d ++ relsuffix [basename (f_path c)]).
  { rewrite relsuffix_one. rewrite <- Ec. now apply npath_parts. }
  destruct Hce as [->|Hce].
  - exists [basename (f_path e)]. split; [discriminate|]. split; [exact Hcp|]. rewrite !in_app_iff.
    destruct (f_dir e) eqn:De; cbn [kof].
    + left. rewrite map_map. apply in_map_iff. exists e. cbn [fst]. split; [reflexivity|]. apply filter_In. now rewrite Hch, De.
    + right. left. rewrite map_map. apply in_map_iff. exists e. split; [reflexivity|]. apply filter_In. now rewrite Hch, De.
  - assert (Dc : f_dir c = true).
    { assert (Hx : isdir_in (f_path c) (w_fs w)) by (apply (chain w e (f_path c) c W He Hc Hce); now left).
      destruct Hx as (c' & Hc' & Ec' & Dc'). assert (c' = c) by (apply (path_inj (w_fs w)); [apply W| | |]; assumption). congruence. }
    assert (Ucd : under d (f_path c) = true) by (rewrite <- Ec; now apply under_dirname).
    assert (Hlt : length (filter (fun x => under (f_path c) (f_path x)) (w_fs w)) < fuel).
    { assert (H := filter_length_lt (fun x => under (f_path c) (f_path x)) (fun x => under d (f_path x)) (w_fs w) c).
      cbv beta in H. specialize (H (fun x Hx => under_trans _ _ _ Ucd Hx) Hc (under_irrefl _) Ucd). lia. }
    destruct (IH (f_path c) c (base ++ [basename (f_path c)]) e Hc eq_refl Hlt He Hce) as (rel' & Hne & Ee & Hin).
    exists (basename (f_path c) :: rel'). split; [discriminate|]. split.
    + rewrite Ee, Hcp at 1. change (basename (f_path c) :: rel') with ([basename (f_path c)] ++ rel').
      now rewrite relsuffix_app, app_assoc.
    + rewrite !in_app_iff. right. right. apply in_flat_map.
      exists (basename (f_path c), content_fuel fuel (w_fs w) (f_path c)). split.
      * apply in_map_iff. exists c. split; [reflexivity|]. apply filter_In. now rewrite Hch, Dc.
      * cbn [fst snd]. rewrite <- app_assoc in Hin. exact Hin.
Qed.

Lemma kdir_kof b : kdir (kof b) = b. Proof. now destruct b. Qed.

(* the listing of a directory of the file system: exactly the entries below it, with their kinds *)
Lemma content_listing w q : wf_fs w -> fisdir q (w_fs w) = true -> forall x v,
  In (x, v) (map (fun d : kind * list bytes => (q ++ relsuffix (snd d), kdir (fst d))) (desc [] (content (w_fs w) q))) <->
  exists e, In e (w_fs w) /\ f_path e = x /\ f_dir e = v /\ under q x = true.
Proof.
  intros W Hq x v. unfold content. rewrite Hq. split.
  - intros Hin. apply in_map_iff in Hin as ([k rel] & E & Hin). cbn [fst snd] in E. injection E as <- <-.
    destruct (desc_content_sound w W _ _ _ _ _ Hin) as (rel' & E & Hne & e & He & Ee & De). cbn [app] in E. subst rel'.
    exists e. split; [exact He|]. split; [exact Ee|]. split; [exact De|].
    destruct (relsuffix_form rel Hne) as [s ->]. apply under_app.
  - intros (e & He & <- & <- & Ue). apply fisdir_in in Hq as (qe & Hqe & Eqe & _).
    assert (Hlt : length (filter (fun y => under q (f_path y)) (w_fs w)) < length (w_fs w)).
    { assert (H := filter_length_lt (fun y => under q (f_path y)) (fun _ => true) (w_fs w) qe (fun _ _ => eq_refl) Hqe).
      cbv beta in H. rewrite Eqe in H. specialize (H (under_irrefl q) eq_refl).
      assert (E : filter (fun _ : fent => true) (w_fs w) = w_fs w) by (clear; induction (w_fs w) as [|a l IHl]; cbn; congruence).
      now rewrite E in H. }
    destruct (desc_content_complete w W (length (w_fs w)) q qe [] e Hqe Eqe Hlt He Ue) as (rel' & Hne & Ee & Hin).
    apply in_map_iff. exists (kof (f_dir e), rel'). cbn [fst snd app] in *. split; [now rewrite Ee, kdir_kof | exact Hin].
Qed.

Section InSem.
  Variables (recursive full : bool) (root : bytes).
  Let ins := in_scope recursive root.
  Let fr := freplay1 recursive root.
  Let tlw := tl recursive root.

  Definition fputs (L : list (bytes * bool)) (g : pt) : pt :=
    fold_left (fun f kv => fput recursive root (fst kv) (snd kv) f) L g.

  Lemma fputs_noins L : forall g x, ins x = false -> fputs L g x = g x.
  Proof.
    induction L as [|[k v] L IH]; intros g x Hx; cbn [fputs fold_left]; [reflexivity|]. fold (fputs L).
    rewrite IH by exact Hx. unfold fput. cbn [fst snd]. destruct (beqb x k) eqn:E; [|now rewrite andb_false_r].
    apply beqb_eq in E. subst k. fold ins. now rewrite Hx.
  Qed.

  Lemma fputs_other L : forall g x, (forall v, ~ In (x, v) L) -> fputs L g x = g x.
  Proof.
    induction L as [|[k v] L IH]; intros g x Hx; cbn [fputs fold_left]; [reflexivity|]. fold (fputs L).
    rewrite IH by (intros v0 H; apply (Hx v0); now right). unfold fput. cbn [fst snd].
    destruct (beqb x k) eqn:E; [|now rewrite andb_false_r]. apply beqb_eq in E. subst k. exfalso. apply (Hx v). now left.
  Qed.

  Lemma fputs_hit L : forall g x v0, ins x = true -> (forall v, In (x, v) L -> v = v0) ->
    (exists v, In (x, v) L) \/ g x = Some v0 -> fputs L g x = Some v0.
  Proof.
    induction L as [|[k v] L IH]; intros g x v0 Hx Hv Hor; cbn [fputs fold_left].
    - destruct Hor as [[v' []]|H]; exact H.
    - fold (fputs L). apply IH; [exact Hx | intros v' H; apply Hv; now right|].
      destruct Hor as [[v' [E|H]]|H].
      + injection E as -> ->. right. unfold fput. cbn [fst snd]. fold ins. now rewrite Hx, beqb_refl, (Hv v' (or_introl eq_refl)).
      + left. eauto.
      + right. unfold fput. cbn [fst snd]. fold ins. destruct (ins k && beqb x k) eqn:E; [|exact H].
        apply andb_true_iff in E as [_ E]. apply beqb_eq in E. subst k. now rewrite (Hv v (or_introl eq_refl)).
  Qed.

  Lemma fput_ext k v f g : peq f g -> peq (fput recursive root k v f) (fput recursive root k v g).
  Proof. intros H x. unfold fput. now rewrite H. Qed.

  Lemma fputs_ext L : forall f g, peq f g -> peq (fputs L f) (fputs L g).
  Proof. induction L as [|[k v] L IH]; intros f g H; cbn [fputs fold_left]; [exact H|]. apply IH. now apply fput_ext. Qed.

  Definition freplays (g : pt) (evs : list nevent) : pt := fold_left fr evs g.

  Lemma replay_sem_list evs : forall t g, NoDup (map fst t) -> peq (look t) g ->
    peq (look (replay recursive root t evs)) (freplays g evs).
  Proof.
    induction evs as [|e evs IH]; intros t g Hn Hg; cbn [replay fold_left freplays]; [exact Hg|].
    apply IH; [now apply replay1_nodup|]. intros x. rewrite (replay1_sem _ _ t e Hn). now apply freplay1_ext.
  Qed.

  Definition mkC (synth : bool) (kv : bytes * bool) : nevent :=
    {| ev_cls := created_cls (snd kv); ev_src := fst kv; ev_dest := []; ev_synth := synth |}.

  Lemma fr_mkC g sy kv : fr g (mkC sy kv) = fput recursive root (fst kv) (snd kv) g.
  Proof. unfold fr, freplay1, mkC. cbn [ev_cls ev_src]. destruct (snd kv); reflexivity. Qed.

  Lemma freplays_created sy L : forall g, freplays g (map (mkC sy) L) = fputs L g.
  Proof. induction L as [|kv L IH]; intros g; cbn [map freplays fold_left fputs]; [reflexivity|]. rewrite fr_mkC. apply IH. Qed.

  (* the events of a directory moved in: DirCreated(q) [full emitter: DirMoved(None, q)], the parent's DirModified, one
     synthetic created event per descendant *)
  Definition movein_events (q : bytes) (T : SubEvents.tree) : list nevent :=
    (if full then mk (moved_cls true) [] q else mk (created_cls true) q []) :: parent_modified q :: sub_created q T.

  Lemma freplays_movein g q T : q <> [] -> last_is_sep q = false -> wf_tree T = true ->
    freplays g (movein_events q T) =
    fputs ((q, true) :: map (fun d : kind * list bytes => (q ++ relsuffix (snd d), kdir (fst d))) (desc [] T)) g.
  Proof.
    intros H0 Hs Hwf. unfold movein_events, freplays. cbn [fold_left].
    assert (E1 : fr g (if full then mk (moved_cls true) [] q else mk (created_cls true) q []) = fput recursive root q true g).
    { destruct full; unfold fr, freplay1; cbn; [destruct q; [contradiction | reflexivity] | reflexivity]. }
    assert (E2 : forall h, fr h (parent_modified q) = h) by (intros; apply fr_pm).
    rewrite E1, E2. rewrite (sub_created_synth_eq q T H0 Hs Hwf). unfold synth_created.
    match goal with |- _ = fputs (_ :: ?L) g => change (fputs ((q, true) :: L) g) with (fputs L (fput recursive root q true g)) end.
    rewrite <- (freplays_created true). unfold freplays. f_equal.
    rewrite map_map. apply map_ext. intros [k rel]. unfold mkC. cbn. now destruct k.
  Qed.

  (* what these events do to the tree *)
  Lemma movein_sem w p q w' ep : wf_fs w -> npath p -> npath q -> apply_op w (Rename p q) = Some w' ->
    flookup p (w_fs w) = Some ep -> f_dir ep = true ->
    (forall x, ins x = true -> below p x = false) -> ins q = true ->
    peq (fputs ((q, true) :: map (fun d : kind * list bytes => (q ++ relsuffix (snd d), kdir (fst d)))
                                 (desc [] (content (w_fs w') q))) (tlw w)) (tlw w').
  Proof.
    intros W Np Nq Ha El De Hp Hq x.
    assert (W' : wf_fs w') by exact (wf_apply_op w (Rename p q) w' W (conj Np Nq) Ha).
    destruct (rename_look w p q w' W Np Nq Ha) as (ep' & El' & Hne & Hupq & Huqp & Hbq & _ & Hfd).
    assert (ep' = ep) by congruence. subst ep'.
    assert (Fq' : fdl (w_fs w') q = Some true).
    { rewrite Hfd. cbv zeta. rewrite below_refl, skipn_all, app_nil_r. apply beqb_neq in Hne. rewrite Hne. unfold fdl. now rewrite El, <- De. }
    assert (Dq' : fisdir q (w_fs w') = true).
    { unfold fdl in Fq'. unfold fisdir. destruct (flookup q (w_fs w')) as [e|]; [|discriminate]. cbn in Fq'. congruence. }
    set (L := (q, true) :: _). unfold tlw. rewrite !tlw_fdl. fold ins.
    destruct (ins x) eqn:Ix; [|now rewrite fputs_noins, tlw_fdl; fold ins; rewrite ?Ix].
    assert (HL : forall v, In (x, v) L <-> (x = q /\ v = true) \/
                   exists e, In e (w_fs w') /\ f_path e = x /\ f_dir e = v /\ under q x = true).
    { intros v. unfold L. cbn [In]. rewrite (content_listing w' q W' Dq' x v). split; (intros [H|H]; [left|right; exact H]).
      - now injection H as <- <-.
      - destruct H as [-> ->]. reflexivity. }
    destruct (bytes_eq_dec x q) as [->|Hxq].
    - rewrite Fq'. apply fputs_hit; [exact Ix| |left; exists true; apply HL; now left].
      intros v Hv. apply HL in Hv as [[_ ->]|(e & _ & _ & _ & U)]; [reflexivity | now rewrite under_irrefl in U].
    - destruct (under q x) eqn:Ux.
      + unfold fdl at 1. destruct (flookup x (w_fs w')) as [e'|] eqn:Ex.
        * destruct (flookup_some _ _ _ Ex) as [He' Ee']. cbn [option_map]. apply fputs_hit; [exact Ix| |].
          -- intros v Hv. apply HL in Hv as [[E _]|(e & He & Ee & <- & _)]; [contradiction|].
             f_equal. apply (path_inj (w_fs w')); [apply W'| | |]; congruence.
          -- left. exists (f_dir e'). apply HL. right. exists e'. auto.
        * cbn [option_map]. rewrite fputs_other.
          -- rewrite tlw_fdl. fold ins. rewrite Ix. unfold fdl. destruct (flookup x (w_fs w)) as [e|] eqn:E0; [|reflexivity].
             destruct (flookup_some _ _ _ E0) as [He Ee]. rewrite <- Ee, (Hbq e He) in Ux. discriminate.
          -- intros v Hv. apply HL in Hv as [[E _]|(e & He & Ee & _)]; [contradiction|].
             rewrite <- Ee, (flookup_in _ e (wf_paths _ W') He) in Ex. discriminate.
      + rewrite fputs_other.
        * rewrite tlw_fdl. fold ins. rewrite Ix, Hfd. cbv zeta. unfold below at 1. apply beqb_neq in Hxq. rewrite Hxq, Ux. cbn [orb].
          now rewrite (Hp x Ix).
        * intros v Hv. apply HL in Hv as [[E _]|(e & _ & _ & _ & U)]; [contradiction | congruence].
  Qed.
End InSem.

Lemma delivered_movein C full w' wd c q : c_recursive C = true ->
  delivered C full w' [{| r_wd := wd; r_mask := N.lor IN_MOVED_TO IN_ISDIR; r_cookie := c; r_name := basename q; r_path := q |}]
  = movein_events full q (content (w_fs w') q).
Proof.
  intros Hrec. unfold delivered, group_batch, group_go, movein_events.
  change (nkind_of C {| r_wd := wd; r_mask := N.lor IN_MOVED_TO IN_ISDIR; r_cookie := c; r_name := basename q; r_path := q |}) with (KTo c).
  cbn [pair_in_batch app filter put_item].
  change (nkind_of C {| r_wd := wd; r_mask := N.lor IN_MOVED_TO IN_ISDIR; r_cookie := c; r_name := basename q; r_path := q |}) with (KTo c).
  cbn [emit_all emit]. unfold emit_single. cbn [r_mask r_path].
  change (Emitter.is_moved_to (N.lor IN_MOVED_TO IN_ISDIR)) with true.
  change (Emitter.is_directory (N.lor IN_MOVED_TO IN_ISDIR)) with true. rewrite Hrec. cbn [andb]. cbv iota beta.
  now rewrite app_nil_r.
Qed.

(* One directory moved into the tree from outside (to a fresh name), one read, grouping, emission: the reader is synchronised
   again and the replayed tree has the arrived sub-tree *)
Theorem replay_step_in C full w k r p q ep w' t : c_faults C = [] -> c_mask C = WATCHDOG_ALL -> RSync C w k r ->
  npath p -> npath q -> c_recursive C = true -> c_fix_movein C = true ->
  flookup p (w_fs w) = Some ep -> f_dir ep = true -> ~ scope C p -> under p (c_root C) = false -> scope C q ->
  flookup q (w_fs w) = None -> apply_op w (Rename p q) = Some w' -> TInv (c_recursive C) (c_root C) t w ->
  let k1 := kernel_op k (w_fs w) (Rename p q) in
  exists r' k' raws,
    read_batch C (w_fs w') (r, drainq k1, []) (k_queue k1) = Done (r', k', raws) /\ RSync C w' k' r' /\
    deliver_one C full w k r (Rename p q) = Some (delivered C full w' raws) /\
    TInv (c_recursive C) (c_root C) (replay (c_recursive C) (c_root C) t (delivered C full w' raws)) w'.
Proof.
  intros Hf Hm S Np Nq Hrec Hfix El De Sp Hpr Sq Elq Ha [Tn Tg] k1.
  assert (M : mask_ok C) by (unfold mask_ok; rewrite Hm; repeat split; vm_compute; discriminate).
  destruct M as (M1 & M2 & M3).
  destruct (step_rename_dir_in_ev C Hf w k r p q w' ep S Np Nq Hrec Hfix M2 M3 Ha El De Sp Hpr Sq Elq) as (r' & k' & wd & Hrd & S').
  fold k1 in Hrd. eexists r', k', _. split; [exact Hrd|]. split; [exact S'|]. split.
  { unfold deliver_one. rewrite Ha. change (kdrained (kernel_op k (w_fs w) (Rename p q))) with (drainq k1). fold k1. now rewrite Hrd. }
  assert (W := rs_wf _ _ _ _ S). assert (W' := rs_wf _ _ _ _ S').
  split; [now apply replay_nodup|].
  rewrite (delivered_movein C full w' wd (k_next_cookie k) q Hrec).
  assert (Hq0 : q <> [] /\ last_is_sep q = false).
  { destruct Nq as (d & n & -> & _ & Hv). split; [now destruct d | now apply child_last_sep]. }
  assert (Hwf : wf_tree (content (w_fs w') q) = true).
  { apply content_wf. intros e He. apply npath_wf_path. exact (wf_np w' W' e He). }
  intros x. rewrite (replay_sem_list (c_recursive C) (c_root C) _ t (tl (c_recursive C) (c_root C) w) Tn Tg x).
  rewrite (freplays_movein (c_recursive C) full (c_root C) _ q _ (proj1 Hq0) (proj2 Hq0) Hwf).
  apply (movein_sem (c_recursive C) (c_root C) w p q w' ep W Np Nq Ha El De).
  - intros y Hy. unfold in_scope in Hy. rewrite Hrec in Hy. cbn [orb] in Hy. rewrite andb_true_r in Hy.
    assert (Sy : scope C y) by (unfold scope; rewrite Hrec; now right).
    destruct (scope_not_below C p y Hrec Sp Hpr Sy) as [E1 E2]. unfold below. apply beqb_neq in E1. now rewrite E1, E2.
  - unfold in_scope. rewrite Hrec. cbn [orb]. rewrite andb_true_r. unfold scope in Sq. rewrite Hrec in Sq.
    destruct Sq as [->|Sq]; [|exact Sq]. exfalso. destruct (rs_root _ _ _ _ S) as (er & Her & Eer & _).
    apply CoverProofs.flookup_none in Elq. apply Elq. rewrite <- Eer. now apply in_map.
Qed.

(* ---------------------------------------------------------------- ... over an empty directory of the tree *)
Definition neutral_ev (e : nevent) : Prop :=
  match cls_what (ev_cls e) with WCreated | WDeleted | WMoved => False | _ => True end.

Lemma freplays_neutral recursive root evs : Forall neutral_ev evs -> forall g, freplays recursive root g evs = g.
Proof.
  induction 1 as [|e evs He _ IH]; intros g; cbn [freplays fold_left]; [reflexivity|]. fold (freplays recursive root).
  destruct e as [c s d sy]. unfold neutral_ev in He. cbn [ev_cls] in He. rewrite (fr_neutral recursive root g c s d sy He). apply IH.
Qed.

Lemma freplays_app recursive root g a b :
  freplays recursive root g (a ++ b) = freplays recursive root (freplays recursive root g a) b.
Proof. unfold freplays. apply fold_left_app. Qed.

Lemma group_go_noto C b : (forall e c, In e b -> nkind_of C e <> KTo c) -> forall g, group_go C b g = g ++ map Single b.
Proof.
  induction b as [|e b IH]; intros H g; cbn [group_go map]; [now rewrite app_nil_r|].
  assert (H' : forall e0 c, In e0 b -> nkind_of C e0 <> KTo c) by (intros; apply H; now right).
  destruct (nkind_of C e) eqn:Ek; try (rewrite IH by exact H'; now rewrite <- app_assoc).
  exfalso. exact (H e cookie (or_introl eq_refl) Ek).
Qed.

(* records about a replaced (non-root) directory produce events that leave the tree alone *)
Definition victim_raw (C : cfg) (q : bytes) (e : raw) : Prop :=
  (r_mask e = N.lor IN_ATTRIB IN_ISDIR \/ r_mask e = IN_DELETE_SELF \/ r_mask e = IN_IGNORED) /\ r_path e = q.

Lemma emit_all_victims C full rec ct q its : q <> c_root C ->
  Forall (fun it => exists e, it = Single e /\ victim_raw C q e) its ->
  Forall neutral_ev (emit_all full rec (c_root C) ct its).
Proof.
  intros Hq. induction 1 as [|it its (e & -> & [Hm Hp]) _ IH]; cbn [emit_all]; [constructor|].
  assert (E : emit full rec (c_root C) ct (Single e) = ([mk (modified_cls true) q []], false) \/
              emit full rec (c_root C) ct (Single e) = ([], false)).
  { cbn [emit]. unfold emit_single. rewrite Hp. apply beqb_neq in Hq. destruct Hm as [-> | [-> | ->]].
    - left. reflexivity.
    - right. cbn. rewrite Hq. destruct full; reflexivity.
    - right. destruct full; reflexivity. }
  destruct E as [-> | ->]; cbn [app]; [constructor; [exact I | exact IH] | exact IH].
Qed.

Theorem replay_step_in_over C full w k r p q ep v w' t : c_faults C = [] -> c_mask C = WATCHDOG_ALL -> RSync C w k r ->
  npath p -> npath q -> c_recursive C = true -> c_fix_movein C = true ->
  flookup p (w_fs w) = Some ep -> f_dir ep = true -> ~ scope C p -> under p (c_root C) = false -> scope C q -> q <> c_root C ->
  flookup q (w_fs w) = Some v -> f_dir v = true -> apply_op w (Rename p q) = Some w' -> TInv (c_recursive C) (c_root C) t w ->
  let k1 := kernel_op k (w_fs w) (Rename p q) in
  exists r' k' raws,
    read_batch C (w_fs w') (r, drainq k1, []) (k_queue k1) = Done (r', k', raws) /\ RSync C w' k' r' /\
    deliver_one C full w k r (Rename p q) = Some (delivered C full w' raws) /\
    TInv (c_recursive C) (c_root C) (replay (c_recursive C) (c_root C) t (delivered C full w' raws)) w'.
Proof.
  intros Hf Hm S Np Nq Hrec Hfix El De Sp Hpr Sq Hqr Elq Dv Ha [Tn Tg] k1.
  assert (M : mask_ok C) by (unfold mask_ok; rewrite Hm; repeat split; vm_compute; discriminate).
  destruct M as (M1 & M2 & M3).
  destruct (step_rename_dir_in_over_ev C Hf w k r p q w' ep v S Np Nq Hrec Hfix M2 M3 Ha El De Sp Hpr Sq Hqr Elq Dv)
    as (r' & k' & wd & rest & Hrd & S' & Hrest).
  fold k1 in Hrd. eexists r', k', _. split; [exact Hrd|]. split; [exact S'|]. split.
  { unfold deliver_one. rewrite Ha. change (kdrained (kernel_op k (w_fs w) (Rename p q))) with (drainq k1). fold k1. now rewrite Hrd. }
  assert (W := rs_wf _ _ _ _ S). assert (W' := rs_wf _ _ _ _ S').
  split; [now apply replay_nodup|].
  set (a := {| r_wd := wd; r_mask := N.lor IN_MOVED_TO IN_ISDIR; r_cookie := k_next_cookie k; r_name := basename q; r_path := q |}).
  assert (Hv : Forall (victim_raw C q) rest).
  { eapply Forall_impl; [|exact Hrest]. intros e [[[H|H]|H] Ep]; split; auto. }
  (* the delivered stream: the move-in events, then events that leave the tree alone *)
  assert (Hdel : exists tail, delivered C full w' (a :: rest) = movein_events full q (content (w_fs w') q) ++ tail /\ Forall neutral_ev tail).
  { unfold delivered, group_batch. cbn [group_go]. change (nkind_of C a) with (KTo (k_next_cookie k)). cbn [pair_in_batch app].
    rewrite group_go_noto.
    2:{ intros e c He. rewrite Forall_forall in Hv. destruct (Hv e He) as [Hm' _]. unfold nkind_of.
        destruct Hm' as [-> | [-> | ->]]; cbn; discriminate. }
    cbn [app filter put_item]. change (nkind_of C a) with (KTo (k_next_cookie k)). cbn [emit_all emit]. unfold emit_single.
    cbn [r_mask r_path a]. change (Emitter.is_moved_to (N.lor IN_MOVED_TO IN_ISDIR)) with true.
    change (Emitter.is_directory (N.lor IN_MOVED_TO IN_ISDIR)) with true. rewrite Hrec. cbn [andb]. cbv iota beta.
    eexists. split; [unfold movein_events; rewrite <- app_comm_cons; reflexivity|].
    apply (emit_all_victims C full _ _ q _ Hqr). apply Forall_forall. intros it Hit. apply filter_In in Hit as [Hit _].
    apply in_map_iff in Hit as (e & <- & He). exists e. split; [reflexivity|]. rewrite Forall_forall in Hv. now apply Hv. }
  destruct Hdel as (tail & -> & Hn).
  assert (Hq0 : q <> [] /\ last_is_sep q = false).
  { destruct Nq as (d & n & -> & _ & Hvn). split; [now destruct d | now apply child_last_sep]. }
  assert (Hwf : wf_tree (content (w_fs w') q) = true).
  { apply content_wf. intros e He. apply npath_wf_path. exact (wf_np w' W' e He). }
  intros x. rewrite (replay_sem_list (c_recursive C) (c_root C) _ t (tl (c_recursive C) (c_root C) w) Tn Tg x).
  rewrite freplays_app. rewrite (freplays_neutral _ _ tail Hn).
  rewrite (freplays_movein (c_recursive C) full (c_root C) _ q _ (proj1 Hq0) (proj2 Hq0) Hwf).
  apply (movein_sem (c_recursive C) (c_root C) w p q w' ep W Np Nq Ha El De).
  - intros y Hy. unfold in_scope in Hy. rewrite Hrec in Hy. cbn [orb] in Hy. rewrite andb_true_r in Hy.
    assert (Sy : scope C y) by (unfold scope; rewrite Hrec; now right).
    destruct (scope_not_below C p y Hrec Sp Hpr Sy) as [E1 E2]. unfold below. apply beqb_neq in E1. now rewrite E1, E2.
  - unfold in_scope. rewrite Hrec. cbn [orb]. rewrite andb_true_r. unfold scope in Sq. rewrite Hrec in Sq.
    destruct Sq as [->|Sq]; [contradiction | exact Sq].
Qed.

(* the operations of the replay law: those whose events are C03's contract (c01_op0), and a directory moved into the tree *)
Definition c01_in (C : cfg) (w : world) (o : op) : Prop :=
  match o with
  | Rename p q => exists ep, npath p /\ npath q /\ c_recursive C = true /\ c_fix_movein C = true /\
                    flookup p (w_fs w) = Some ep /\ f_dir ep = true /\ ~ scope C p /\ under p (c_root C) = false /\
                    scope C q /\ flookup q (w_fs w) = None
  | _ => False
  end.

Definition c01_op (C : cfg) (w : world) (o : op) : Prop := c01_op0 C w o \/ c01_in C w o.

Lemma c01_op_covered C w o : c01_op C w o -> covered_op C w o.
Proof.
  intros [[H _]|H]; [exact H|]. destruct o as [p|p|p|p|p|p|p q]; try contradiction.
  destruct H as (ep & Np & Nq & Hrec & Hfix & El & De & Sp & Hpr & Sq & Elq). eapply co_rename_dir_in; eassumption.
Qed.

(* One operation, one read of the whole kernel queue, grouping (a MOVED_FROM/MOVED_TO pair of one cookie is one item),
   emission: the reader is synchronised again and the replayed tree follows the real tree. *)
Theorem replay_step C full w k r o w' t : c_faults C = [] -> c_mask C = WATCHDOG_ALL ->
  RSync C w k r -> c01_op C w o -> apply_op w o = Some w' -> TInv (c_recursive C) (c_root C) t w ->
  let k1 := kernel_op k (w_fs w) o in
  exists r' k' raws,
    read_batch C (w_fs w') (r, drainq k1, []) (k_queue k1) = Done (r', k', raws) /\ RSync C w' k' r' /\
    deliver_one C full w k r o = Some (delivered C full w' raws) /\
    TInv (c_recursive C) (c_root C) (replay (c_recursive C) (c_root C) t (delivered C full w' raws)) w'.
Proof.
  intros Hf Hm S Ho Ha T k1. destruct Ho as [Ho|Hin].
  2:{ destruct o as [p|p|p|p|p|p|p q]; try contradiction.
      destruct Hin as (ep & Np & Nq & Hrec & Hfix & El & De & Sp & Hpr & Sq & Elq).
      exact (replay_step_in C full w k r p q ep w' t Hf Hm S Np Nq Hrec Hfix El De Sp Hpr Sq Elq Ha T). }
  destruct T as [Tn Tg].
  assert (M : mask_ok C) by (unfold mask_ok; rewrite Hm; repeat split; vm_compute; discriminate).
  destruct (cover_step C Hf w k r o w' M S (proj1 Ho) Ha) as (r' & k' & raws & Hrd & S').
  destruct (delivers_covered C full w k r o w' S Hm Ho Ha) as (evs & Hdel & Hcol).
  assert (Hev : evs = delivered C full w' raws).
  { unfold deliver_one in Hdel. rewrite Ha in Hdel.
    change (kdrained (kernel_op k (w_fs w) o)) with (drainq (kernel_op k (w_fs w) o)) in Hdel.
    subst k1. rewrite Hrd in Hdel. now injection Hdel as <-. }
  exists r', k', raws. split; [exact Hrd|]. split; [exact S'|]. split; [now rewrite <- Hev|].
  rewrite <- Hev. unfold TInv.
  apply (replay_contract (c_recursive C) (c_root C) evs _ t (tl (c_recursive C) (c_root C) w)
                         (tl (c_recursive C) (c_root C) w') Hcol); try assumption.
  apply ctr_ok_covered; try assumption. apply S.
Qed.

(* ================================================================== sequential histories *)
(* op; read the whole kernel queue; group; emit - repeated.  The accumulated stream is [out]. *)
Fixpoint drun (C : cfg) (full : bool) (w : world) (k : kst) (r : rstate) (ops : list op) (out : list nevent)
  : option (world * kst * rstate * list nevent) :=
  match ops with
  | [] => Some (w, k, r, out)
  | o :: ops' =>
    match apply_op w o with
    | None => drun C full w k r ops' out
    | Some w' => let k1 := kernel_op k (w_fs w) o in
                 match read_batch C (w_fs w') (r, drainq k1, []) (k_queue k1) with
                 | Done (r', k', raws) => drun C full w' k' r' ops' (out ++ delivered C full w' raws)
                 | Crash _ => None
                 end
    end
  end.

Fixpoint ops_c01 (C : cfg) (w : world) (ops : list op) : Prop :=
  match ops with
  | [] => True
  | o :: ops' => match apply_op w o with
                 | None => ops_c01 C w ops'
                 | Some w' => c01_op C w o /\ ops_c01 C w' ops'
                 end
  end.

Theorem replay_sequential C full : c_faults C = [] -> c_mask C = WATCHDOG_ALL ->
  forall ops w k r t0 out, RSync C w k r ->
  TInv (c_recursive C) (c_root C) (replay (c_recursive C) (c_root C) t0 out) w -> ops_c01 C w ops ->
  exists w' k' r' out', drun C full w k r ops out = Some (w', k', r', out') /\ RSync C w' k' r' /\
    TInv (c_recursive C) (c_root C) (replay (c_recursive C) (c_root C) t0 out') w'.
Proof.
  intros Hf Hm. induction ops as [|o ops IH]; intros w k r t0 out S T Hc; cbn [drun ops_c01] in *.
  - eauto 8.
  - destruct (apply_op w o) as [w'|] eqn:Ea; [|now apply IH].
    destruct Hc as [Ho Hc].
    destruct (replay_step C full w k r o w' _ Hf Hm S Ho Ea T) as (r' & k' & raws & -> & S' & _ & T').
    apply IH; try assumption. unfold replay in *. now rewrite fold_left_app.
Qed.

Theorem replay_from_start C full ops w : c_faults C = [] -> c_mask C = WATCHDOG_ALL -> wf_fs w ->
  fisdir (c_root C) (w_fs w) = true -> ops_c01 C w ops ->
  exists r0 k0 w' k' r' out, construct C kinit (w_fs w) = Some (r0, k0) /\
    drun C full w k0 r0 ops [] = Some (w', k', r', out) /\
    forall x, alookup beqb x (replay (c_recursive C) (c_root C) (tree_of (c_recursive C) (c_root C) w) out)
            = alookup beqb x (tree_of (c_recursive C) (c_root C) w').
Proof.
  intros Hf Hm W Hroot Hc. destruct (construct_cover C Hf w W Hroot) as (r0 & k0 & Hcons & I & Cv & Hq & _ & Hp0).
  assert (S : RSync C w k0 r0) by (constructor; try assumption; now apply fisdir_in).
  destruct (replay_sequential C full Hf Hm ops w k0 r0 (tree_of (c_recursive C) (c_root C) w) [] S (TInv_init _ _ w W) Hc)
    as (w' & k' & r' & out & Hrun & _ & T).
  exists r0, k0, w', k', r', out. split; [exact Hcons|]. split; [exact Hrun|]. now apply TInv_tree_eq.
Qed.

(* ================================================================== vocabulary of the full statements (Pipeline level) *)
Require Import WD.Model.DelayQueue WD.Model.Grouping WD.Model.Pipeline.

(* drain: read everything, then emit / let time pass until the delay queue is empty *)
Fixpoint pump (P : pcfg) (fuel : nat) (s : pstate) : outcome pstate :=
  match fuel with
  | O => Done s
  | S f =>
    match DelayQueue.q (fst (p_buf s)) with
    | [] => Done s
    | _ => match pstep P s AEmit with
           | Crash c => Crash c
           | Done (s1, OSkip) =>
             match pstep P s (ATick (pc_delay P)) with
             | Done (s2, _) => pump P f s2
             | Crash c => Crash c
             end
           | Done (s1, _) => pump P f s1
           end
    end
  end.

Definition drain (P : pcfg) (fuel : nat) (s : pstate) : outcome pstate :=
  match pstep P s (ARead (length (k_queue (p_k s)))) with
  | Crash c => Crash c
  | Done (s1, _) => pump P fuel s1
  end.

(* op; drain; op; drain; ... *)
Fixpoint seq_run (P : pcfg) (fuel : nat) (s : pstate) (ops : list op) : outcome pstate :=
  match ops with
  | [] => Done s
  | o :: ops' =>
    match pstep P s (AOp o) with
    | Crash c => Crash c
    | Done (s1, _) => match drain P fuel s1 with
                      | Crash c => Crash c
                      | Done s2 => seq_run P fuel s2 ops'
                      end
    end
  end.

(* a computable comparison of two trees as finite maps *)
Definition tree_sub (a b : tree) : bool :=
  forallb (fun kv => match alookup beqb (fst kv) b with Some v => Bool.eqb v (snd kv) | None => false end) a.
Definition same_tree (a b : tree) : bool := tree_sub a b && tree_sub b a.

Lemma ops_c01_cons C w o ops w' : apply_op w o = Some w' -> c01_op C w o -> ops_c01 C w' ops -> ops_c01 C w (o :: ops).
Proof. intros Ha Ho Hc. cbn [ops_c01]. rewrite Ha. now split. Qed.
