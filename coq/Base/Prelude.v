(* Shared prelude: imports, byte strings, association-list maps.
   Style: stdlib only, models are total computable functions. *)
From Coq Require Export List NArith ZArith Bool Arith Lia.
From Coq Require Export ZifyBool ZifyNat ZifyN.
Export ListNotations.

(* A byte string / code-unit string.  For `bytes` every element is < 256, for
   `str` every element is a code point; no model depends on the bound. *)
Definition bytes := list N.

Fixpoint beqb (a b : bytes) : bool :=
  match a, b with
  | [], [] => true
  | x :: a', y :: b' => N.eqb x y && beqb a' b'
  | _, _ => false
  end.

Lemma beqb_eq a b : beqb a b = true <-> a = b.
Proof.
  revert b; induction a as [|x a IH]; intros [|y b]; simpl; split; intros H;
    try reflexivity; try discriminate.
  - apply andb_true_iff in H as [H1 H2]. apply N.eqb_eq in H1. apply IH in H2. congruence.
  - inversion H; subst. rewrite N.eqb_refl. simpl. apply IH. reflexivity.
Qed.

Lemma beqb_refl a : beqb a a = true.
Proof. apply beqb_eq. reflexivity. Qed.

Lemma beqb_neq a b : beqb a b = false <-> a <> b.
Proof.
  split.
  - intros H E. apply beqb_eq in E. congruence.
  - intros H. destruct (beqb a b) eqn:E; [apply beqb_eq in E; contradiction | reflexivity].
Qed.

Lemma bytes_eq_dec (a b : bytes) : {a = b} + {a <> b}.
Proof. decide equality. apply N.eq_dec. Defined.

(* Association lists keyed by an arbitrary type with a boolean equality. *)
Section Assoc.
  Context {K V : Type} (keq : K -> K -> bool).

  Fixpoint alookup (k : K) (m : list (K * V)) : option V :=
    match m with
    | [] => None
    | (k', v) :: m' => if keq k k' then Some v else alookup k m'
    end.

  Fixpoint aremove (k : K) (m : list (K * V)) : list (K * V) :=
    match m with
    | [] => []
    | (k', v) :: m' => if keq k k' then aremove k m' else (k', v) :: aremove k m'
    end.

  (* Python dict assignment: replace in place if present, else append. *)
  Fixpoint aset (k : K) (v : V) (m : list (K * V)) : list (K * V) :=
    match m with
    | [] => [(k, v)]
    | (k', v') :: m' => if keq k k' then (k', v) :: m' else (k', v') :: aset k v m'
    end.

  Definition amem (k : K) (m : list (K * V)) : bool :=
    match alookup k m with Some _ => true | None => false end.
End Assoc.

Definition sep : N := 47.   (* "/" *)
