"""Deterministic scheduler: watchdog's threads run as real threads, but exactly one holds the baton.

`install()` imports the watchdog modules (and `queue`) while `sys.modules['threading']` and
`sys.modules['time']` are replaced by twins whose Lock/RLock/Condition/Event/Thread and
time/monotonic/sleep are scheduler-aware; afterwards the real modules are restored, so only watchdog
and queue.Queue are bound to the twins.  No source file of /repo is changed.

Every primitive operation is a *yield point*: the thread publishes a label and a readiness predicate
and hands the baton to the driver (`Scheduler.run`), which picks the next thread from the ready set
according to a *chooser* (explicit choice list for replay/enumeration, seeded random otherwise),
advances the virtual clock to the earliest deadline when nothing is ready, and reports a deadlock when
nothing is ready and no timer is pending.
"""
from __future__ import annotations

import importlib
import random
import sys
import threading as _rt
import time as _rtime
import types

# stdlib modules that must keep the REAL threading/time: import them before the swap
import collections, contextlib, ctypes, dataclasses, functools, logging, os, pathlib, re, select, signal  # noqa: E401,F401
import string, struct, subprocess, errno, stat as _stat, heapq, weakref, warnings, traceback, typing  # noqa: E401,F401

CUR: "Scheduler | None" = None
_TLS = _rt.local()

WATCHDOG_MODULES = [
    "watchdog.utils", "watchdog.utils.bricks", "watchdog.utils.delayed_queue", "watchdog.utils.event_debouncer",
    "watchdog.utils.process_watcher", "watchdog.events", "watchdog.observers.api", "watchdog.observers.inotify_c",
    "watchdog.observers.inotify_buffer", "watchdog.observers.inotify", "watchdog.observers.polling",
    "watchdog.tricks",
]


class ThreadKilled(BaseException):
    pass


class Deadlock(Exception):
    def __init__(self, blocked):
        super().__init__("deadlock: " + ", ".join(f"{n} waits for {l}" for n, l in blocked))
        self.blocked = blocked


class TState:
    def __init__(self, sched, name, role):
        self.sched = sched
        self.name = name
        self.role = role            # "client" (test program) or "lib" (started by watchdog)
        self.go = _rt.Semaphore(0)
        self.done = False
        self.started = False
        self.pred = lambda: True
        self.deadline = None
        self.label = "start"
        self.exc = None
        self.real = None
        self.steps = 0

    def ready(self):
        if self.done or not self.started:
            return False
        if self.pred():
            return True
        return self.deadline is not None and self.sched.clock >= self.deadline


class Scheduler:
    def __init__(self, chooser=None, max_steps=20000, tick_prob=0.0, drain_steps=0):
        self.threads: list[TState] = []
        self.back = _rt.Semaphore(0)
        self.clock = 1000.0
        self.chooser = chooser or FirstChooser()
        self.trace: list[tuple] = []       # (thread name, label) per scheduling step / clock advance
        self.timeline: list[tuple] = []    # trace entries and log entries (name, "@log", ...) in one sequence
        self.events: list[tuple] = []      # program-level log (sched.log)
        self.current: TState | None = None
        self.killed = False
        self.max_steps = max_steps
        self.steps = 0
        self.deadlock = None
        self.livelock = False
        self.choices: list[tuple] = []     # (ready names, chosen name) per decision
        self.names: dict[str, int] = {}
        self.alive_after: list[str] = []
        self.blocked_after: list[tuple] = []
        self.drain_steps = drain_steps     # after the clients finished, keep running READY library threads this many steps
        global CUR
        CUR = self

    # ---- identity
    def me(self) -> TState | None:
        # thread-local, not ident-based: the OS re-uses idents of finished threads
        t = getattr(_TLS, "ts", None)
        if t is not None and t.sched is self and not t.done:
            return t
        return None

    def unique(self, base):
        n = self.names.get(base, 0)
        self.names[base] = n + 1
        return base if n == 0 else f"{base}#{n}"

    # ---- thread side
    def yield_point(self, label, pred=None, deadline=None):
        """Called by a managed thread: block until the driver schedules it again (pred true or deadline reached)."""
        t = self.me()
        if t is None:
            # unmanaged (driver/set-up) thread: must not block
            if pred is not None and not pred():
                raise RuntimeError(f"unmanaged thread would block at {label}")
            return True
        if self.killed:
            raise ThreadKilled()
        t.label = label
        t.pred = pred or (lambda: True)
        t.deadline = deadline
        self.back.release()
        t.go.acquire()
        if self.killed:
            raise ThreadKilled()
        ok = t.pred()
        t.pred = lambda: True
        t.deadline = None
        return ok

    def log(self, *ev):
        t = self.me()
        name = t.name if t else "main"
        self.events.append((name,) + ev)
        self.timeline.append((name, "@log") + ev)

    # ---- spawning
    def spawn(self, name, fn, role="client"):
        t = TState(self, self.unique(name), role)

        def boot():
            _TLS.ts = t
            t.go.acquire()
            try:
                if not self.killed:
                    fn()
            except ThreadKilled:
                pass
            except BaseException as e:  # noqa: BLE001
                t.exc = e
                self.events.append((t.name, "uncaught", type(e).__name__, str(e)[:200]))
            finally:
                t.done = True
                self.back.release()

        t.real = _rt.Thread(target=boot, name=t.name, daemon=True)
        self.threads.append(t)
        t.real.start()
        t.started = True
        return t

    # ---- driver
    def run(self):
        """Drive all threads until every client thread is done (or deadlock / step limit)."""
        global CUR
        CUR = self
        try:
            drained = 0
            while True:
                clients = [t for t in self.threads if t.role == "client"]
                clients_done = all(t.done for t in clients)
                ready = [t for t in self.threads if t.ready()]
                if clients_done:
                    # fairness: let library threads that can run do so (no clock advance), up to drain_steps
                    if not ready or drained >= self.drain_steps:
                        break
                    drained += 1
                timers = [t.deadline for t in self.threads if not t.done and t.started and t.deadline is not None
                          and not t.ready()]
                if not ready:
                    if clients_done:
                        break
                    if timers:
                        self.clock = min(timers)
                        self.trace.append(("<clock>", f"advance to {self.clock - 1000.0:.3f}"))
                        self.timeline.append(self.trace[-1])
                        continue
                    blocked = [(t.name, t.label) for t in self.threads if not t.done and t.started]
                    self.deadlock = Deadlock(blocked)
                    break
                if self.steps >= self.max_steps:
                    self.livelock = True
                    break
                opts = [t.name for t in ready]
                can_tick = bool(timers) and not clients_done
                pick = self.chooser.choose(self, ready, can_tick)
                if pick is None:        # advance the clock although somebody could run
                    self.clock = min(timers)
                    self.choices.append((opts, "<tick>"))
                    self.trace.append(("<clock>", f"advance to {self.clock - 1000.0:.3f}"))
                    self.timeline.append(self.trace[-1])
                    continue
                self.choices.append((opts, pick.name))
                self.steps += 1
                pick.steps += 1
                self.trace.append((pick.name, pick.label))
                self.timeline.append(self.trace[-1])
                self.current = pick
                pick.go.release()
                self.back.acquire()
        finally:
            self.alive_after = [t.name for t in self.threads if not t.done and t.started]
            # blocked with no time-out pending (a thread in a timed wait/sleep is not blocked forever)
            self.blocked_after = [(t.name, t.label) for t in self.threads
                                  if not t.done and t.started and not t.ready() and t.deadline is None]
            self.kill()
            CUR = None
        return self

    def kill(self):
        self.killed = True
        for t in self.threads:
            if not t.done:
                t.go.release()
        for t in self.threads:
            if t.real is not None:
                t.real.join(timeout=5)

    def uncaught(self):
        return [(t.name, t.exc) for t in self.threads if t.exc is not None]


# ---------------------------------------------------------------- choosers
class FirstChooser:
    """Non-preemptive: keep running the current thread while it is ready, else the first ready one."""

    def choose(self, s, ready, can_tick):
        if s.current in ready:
            return s.current
        return ready[0]


class RandomChooser:
    def __init__(self, seed, switch_prob=0.3, tick_prob=0.05):
        self.r = random.Random(seed)
        self.switch_prob = switch_prob
        self.tick_prob = tick_prob

    def choose(self, s, ready, can_tick):
        if can_tick and self.r.random() < self.tick_prob:
            return None
        if s.current in ready and self.r.random() >= self.switch_prob:
            return s.current
        return self.r.choice(ready)


class ReplayChooser:
    """Follow an explicit list of thread names ('<tick>' = advance clock); afterwards non-preemptive."""

    def __init__(self, names):
        self.names = list(names)
        self.i = 0
        self.diverged = False

    def choose(self, s, ready, can_tick):
        if self.i < len(self.names):
            n = self.names[self.i]
            self.i += 1
            if n == "<tick>":
                if can_tick:
                    return None
                self.diverged = True
            else:
                for t in ready:
                    if t.name == n:
                        return t
                self.diverged = True
        if s.current in ready:
            return s.current
        return ready[0]


def explore(run_once, preemption_bound=2, max_runs=5000, allow_ticks=False):
    """Stateless exhaustive exploration of schedules with at most `preemption_bound` pre-emptions.

    run_once(chooser) -> Scheduler (after .run()).  Yields each finished Scheduler.
    A pre-emption = choosing a thread other than the current one while the current one is ready.
    """
    stack = [([], 0)]
    seen = set()
    runs = 0
    while stack and runs < max_runs:
        prefix, used = stack.pop()
        key = tuple(prefix)
        if key in seen:
            continue
        seen.add(key)
        s = run_once(ReplayChooser(prefix))
        runs += 1
        yield s
        # branch on every decision at or after the prefix
        cur = None
        names = []
        pre = 0
        for i, (opts, chosen) in enumerate(s.choices):
            if i >= len(prefix):
                for alt in opts:
                    if alt == chosen:
                        continue
                    cost = 1 if (cur in opts and alt != cur) else 0
                    if pre + cost <= preemption_bound:
                        stack.append((names + [alt], pre + cost))
            if chosen != "<tick>":
                if cur in opts and chosen != cur:
                    pre += 1
                cur = chosen
            names.append(chosen)


# ---------------------------------------------------------------- primitive twins
YIELD_AFTER_RELEASE = False     # opt-in (obsprog sets it for the observer checks); see Lock._after_release

def _sched() -> Scheduler:
    if CUR is None:
        raise RuntimeError("no scheduler active")
    return CUR


class Lock:
    _kind = "Lock"

    def __init__(self):
        self.owner = None
        self.count = 0
        self.name = None

    def _free_for(self, t):
        return self.owner is None

    def acquire(self, blocking=True, timeout=-1):
        s = CUR
        if s is None or s.killed:
            self.owner = "none"
            self.count += 1
            return True
        t = s.me()
        if not blocking:
            s.yield_point(f"{self._kind}.try_acquire")
            if self._free_for(t):
                self._take(t)
                return True
            return False
        dl = None if timeout is None or timeout < 0 else s.clock + timeout
        ok = s.yield_point(f"{self._kind}.acquire", lambda: self._free_for(t), dl)
        if ok:
            self._take(t)
            return True
        return False

    def _take(self, t):
        self.owner = t if t is not None else "main"
        self.count = 1

    def release(self):
        if self.owner is None:
            raise RuntimeError("release unlocked lock")
        self.owner = None
        self.count = 0
        self._after_release()

    def _after_release(self):
        """A scheduling point right after a lock became free: code that runs between a release and the thread's next
        synchronisation operation (state updated outside the critical section) can be overtaken by the other threads."""
        s = CUR
        if YIELD_AFTER_RELEASE and self.count == 0 and s is not None and not s.killed and s.me() is not None:
            s.yield_point(f"{self._kind}.released")

    def locked(self):
        return self.owner is not None

    __enter__ = acquire

    def __exit__(self, *a):
        self.release()

    # Condition support
    def _release_save(self):
        st = (self.owner, self.count)
        self.owner = None
        self.count = 0
        return st

    def _acquire_restore(self, st):
        self.owner, self.count = st

    def _is_owned(self):
        return self.owner is not None


class RLock(Lock):
    _kind = "RLock"

    def _ident(self, t):
        return t if t is not None else "main"

    def _free_for(self, t):
        return self.owner is None or self.owner is self._ident(t) or self.owner == self._ident(t)

    def _take(self, t):
        if self.owner is None:
            self.owner = self._ident(t)
            self.count = 1
        else:
            self.count += 1

    def release(self):
        s = CUR
        if self.owner is None:
            raise RuntimeError("cannot release un-acquired lock")
        if s is not None and not s.killed:
            t = s.me()
            if self.owner != self._ident(t):
                raise RuntimeError("cannot release un-acquired lock")
        self.count -= 1
        if self.count == 0:
            self.owner = None
        self._after_release()

    def _is_owned(self):
        s = CUR
        t = s.me() if s else None
        return self.owner == self._ident(t)


class Condition:
    def __init__(self, lock=None):
        self._lock = lock if lock is not None else RLock()
        self.acquire = self._lock.acquire
        self.release = self._lock.release
        self._waiters: list[dict] = []

    def __enter__(self):
        return self._lock.__enter__()

    def __exit__(self, *a):
        return self._lock.__exit__(*a)

    def wait(self, timeout=None):
        s = _sched()
        if not self._lock._is_owned():
            raise RuntimeError("cannot wait on un-acquired lock")
        t = s.me()
        w = {"notified": False}
        self._waiters.append(w)
        st = self._lock._release_save()
        dl = None if timeout is None else s.clock + timeout
        try:
            s.yield_point("Condition.wait", lambda: w["notified"], dl)
        finally:
            if w in self._waiters:
                self._waiters.remove(w)
            # re-acquire the lock (separate blocking step)
            if not s.killed:
                s.yield_point("Condition.reacquire", lambda: self._lock.owner is None)
            self._lock._acquire_restore(st)
        return w["notified"]

    def wait_for(self, predicate, timeout=None):
        s = _sched()
        end = None if timeout is None else s.clock + timeout
        r = predicate()
        while not r:
            if end is not None:
                left = end - s.clock
                if left <= 0:
                    break
                self.wait(left)
            else:
                self.wait()
            r = predicate()
        return r

    def notify(self, n=1):
        if not self._lock._is_owned():
            raise RuntimeError("cannot notify on un-acquired lock")
        k = 0
        for w in list(self._waiters):
            if k >= n:
                break
            if not w["notified"]:
                w["notified"] = True
                self._waiters.remove(w)
                k += 1

    def notify_all(self):
        self.notify(len(self._waiters))

    notifyAll = notify_all


class Event:
    def __init__(self):
        self._flag = False

    def is_set(self):
        s = CUR
        if s is not None and not s.killed and s.me() is not None:
            s.yield_point("Event.is_set")
        return self._flag

    isSet = is_set

    def set(self):
        s = CUR
        if s is not None and not s.killed and s.me() is not None:
            s.yield_point("Event.set")
        self._flag = True

    def clear(self):
        self._flag = False

    def wait(self, timeout=None):
        s = _sched()
        if self._flag and s.me() is None:
            return True
        dl = None if timeout is None else s.clock + timeout
        s.yield_point("Event.wait", lambda: self._flag, dl)
        return self._flag


class Thread:
    """Twin of threading.Thread (subclassable; run() override or target=)."""

    def __init__(self, group=None, target=None, name=None, args=(), kwargs=None, *, daemon=None):
        self._target = target
        self._args = args
        self._kwargs = kwargs or {}
        self._name = name or type(self).__name__
        self.daemon = bool(daemon)
        self._ts: TState | None = None
        self._started = False

    @property
    def name(self):
        return self._ts.name if self._ts else self._name

    @name.setter
    def name(self, v):
        self._name = v

    def getName(self):
        return self.name

    def setDaemon(self, d):
        self.daemon = d

    @property
    def ident(self):
        return id(self) if self._started else None

    def run(self):
        if self._target:
            self._target(*self._args, **self._kwargs)

    def start(self):
        s = _sched()
        if self._started:
            raise RuntimeError("threads can only be started once")
        self._started = True
        me = s.me()
        self._ts = s.spawn(self._name, self.run, role="lib")
        self._ts.obj = self
        if me is not None:
            s.yield_point("Thread.start")

    def is_alive(self):
        return self._started and self._ts is not None and not self._ts.done

    isAlive = is_alive

    def join(self, timeout=None):
        s = _sched()
        if not self._started:
            raise RuntimeError("cannot join thread before it is started")
        me = s.me()
        if me is not None and me is self._ts:
            raise RuntimeError("cannot join current thread")
        dl = None if timeout is None else s.clock + timeout
        s.yield_point(f"Thread.join({self.name})", lambda: self._ts.done, dl)


def _time():
    return CUR.clock if CUR is not None else _rtime.time()


def _sleep(d):
    s = CUR
    if s is None or s.killed or s.me() is None:
        return
    s.yield_point(f"sleep({d:.3f})", lambda: False, s.clock + max(0.0, d))


def _current_thread():
    s = CUR
    t = s.me() if s else None
    return getattr(t, "obj", None) or _rt.current_thread()


def make_twins():
    th = types.ModuleType("threading")
    th.__dict__.update({k: v for k, v in _rt.__dict__.items() if not k.startswith("__")})
    th.Lock = Lock
    th.RLock = RLock
    th.Condition = Condition
    th.Event = Event
    th.Thread = Thread
    th.current_thread = _current_thread
    th.get_ident = lambda: id(_current_thread())
    tm = types.ModuleType("time")
    tm.__dict__.update({k: v for k, v in _rtime.__dict__.items() if not k.startswith("__")})
    tm.time = _time
    tm.monotonic = _time
    tm.sleep = _sleep
    return th, tm


_installed = False


def install(extra_modules=()):
    """Import watchdog (and queue) bound to the scheduler twins. Idempotent."""
    global _installed
    if _installed:
        return
    th, tm = make_twins()
    saved = {k: sys.modules.get(k) for k in ("threading", "time", "queue")}
    for k in list(sys.modules):
        if k == "watchdog" or k.startswith("watchdog."):
            del sys.modules[k]
    sys.modules["threading"] = th
    sys.modules["time"] = tm
    sys.modules.pop("queue", None)
    try:
        importlib.import_module("queue")
        for m in list(WATCHDOG_MODULES) + list(extra_modules):
            importlib.import_module(m)
    finally:
        sys.modules["threading"] = saved["threading"]
        sys.modules["time"] = saved["time"]
        # keep the shimmed queue only inside watchdog: restore the real one for everybody else
        shim_queue = sys.modules.get("queue")
        if saved["queue"] is not None:
            sys.modules["queue"] = saved["queue"]
        else:
            sys.modules.pop("queue", None)
    _installed = True
    return shim_queue


class YieldAttr:
    """Data descriptor installed by the harness on a class attribute: every read/write is a yield point."""

    def __init__(self, name, default=None):
        self.name = name
        self.slot = "_ys_" + name
        self.default = default

    def __get__(self, obj, typ=None):
        if obj is None:
            return self
        s = CUR
        if s is not None and not s.killed and s.me() is not None:
            s.yield_point(f"read {self.name}")
        return obj.__dict__.get(self.slot, self.default)

    def __set__(self, obj, v):
        s = CUR
        if s is not None and not s.killed and s.me() is not None:
            s.yield_point(f"write {self.name}")
        obj.__dict__[self.slot] = v
