(* Proofs about the registry model (Model/Registry.v): the repaired statement order
   (f2 = f2b = true) refines the simple map; the pinned order does not. *)
Require Import WD.Base.Prelude WD.Model.Registry.
From Coq Require Import Permutation.

(* ------------------------------------------------------------------ equalities *)
Lemma weqb_eq a b : weqb a b = true <-> a = b.
Proof.
  destruct a as [[p r] f], b as [[p' r'] f']; simpl.
  rewrite !andb_true_iff, !N.eqb_eq, Bool.eqb_true_iff. split.
  - intros [[-> ->] ->]; reflexivity.
  - intros H; inversion H; auto.
Qed.

Lemma weqb_refl a : weqb a a = true.
Proof. apply weqb_eq; reflexivity. Qed.

Lemma weqb_neq a b : weqb a b = false <-> a <> b.
Proof.
  split.
  - intros H E. apply weqb_eq in E. congruence.
  - intros H. destruct (weqb a b) eqn:E; [apply weqb_eq in E; contradiction | reflexivity].
Qed.

Lemma weqb_sym a b : weqb a b = weqb b a.
Proof.
  destruct (weqb a b) eqn:E.
  - apply weqb_eq in E; subst. symmetry; apply weqb_refl.
  - symmetry. apply weqb_neq. apply weqb_neq in E. congruence.
Qed.

Ltac wcase a b :=
  let E := fresh "E" in
  destruct (weqb a b) eqn:E; [apply weqb_eq in E; try subst | pose proof (proj1 (weqb_neq _ _) E)].

(* ------------------------------------------------------------------ list sets *)
Section MemB.
  Context {A : Type} (eqb : A -> A -> bool) (eqb_ok : forall a b, eqb a b = true <-> a = b).

  Lemma memb_In x l : memb eqb x l = true <-> In x l.
  Proof.
    induction l as [|y l IH]; simpl; [split; [discriminate | tauto]|].
    rewrite orb_true_iff, IH, eqb_ok. split; intros [H|H]; auto.
  Qed.

  Lemma memb_not_In x l : memb eqb x l = false <-> ~ In x l.
  Proof.
    rewrite <- memb_In. destruct (memb eqb x l); split; intros; congruence.
  Qed.

  Lemma set_del_In x y l : In y (set_del eqb x l) <-> In y l /\ y <> x.
  Proof.
    unfold set_del. rewrite filter_In. split; intros [H1 H2]; split; auto.
    - intros ->. rewrite (proj2 (eqb_ok x x) eq_refl) in H2. discriminate.
    - destruct (eqb x y) eqn:E; [apply eqb_ok in E; congruence | reflexivity].
  Qed.

  Lemma set_add_In x y l : In y (set_add eqb x l) <-> In y l \/ y = x.
  Proof.
    unfold set_add. destruct (memb eqb x l) eqn:E.
    - apply memb_In in E. split; [auto | intros [H| ->]; auto].
    - rewrite in_app_iff. simpl. split; intros [H|H]; auto. destruct H; auto. contradiction.
  Qed.
End MemB.

Definition memN_In := @memb_In N N.eqb N.eqb_eq.
Definition memW_In := @memb_In watch weqb weqb_eq.
Definition memI_In := @memb_In nat Nat.eqb Nat.eqb_eq.

(* ------------------------------------------------------------------ association lists keyed by watches *)
Section AL.
  Context {V : Type}.
  Implicit Types m : list (watch * V).

  Lemma alookup_aset_same w v m : alookup weqb w (aset weqb w v m) = Some v.
  Proof.
    induction m as [|[k x] m IH]; simpl.
    - rewrite weqb_refl; reflexivity.
    - destruct (weqb w k) eqn:E; simpl; rewrite E; auto.
  Qed.

  Lemma alookup_aset_other w w' v m : w <> w' -> alookup weqb w' (aset weqb w v m) = alookup weqb w' m.
  Proof.
    intros N. induction m as [|[k x] m IH]; simpl.
    - apply weqb_neq in N. rewrite weqb_sym, N. reflexivity.
    - destruct (weqb w k) eqn:E; simpl.
      + apply weqb_eq in E; subst. apply not_eq_sym in N. apply weqb_neq in N. rewrite N. reflexivity.
      + destruct (weqb w' k); auto.
  Qed.

  Lemma alookup_aremove_same w m : alookup weqb w (aremove weqb w m) = None.
  Proof.
    induction m as [|[k x] m IH]; simpl; auto.
    destruct (weqb w k) eqn:E; simpl; [|rewrite E]; auto.
  Qed.

  Lemma alookup_aremove_other w w' m : w <> w' -> alookup weqb w' (aremove weqb w m) = alookup weqb w' m.
  Proof.
    intros N. induction m as [|[k x] m IH]; simpl; auto.
    destruct (weqb w k) eqn:E; simpl.
    - apply weqb_eq in E; subst. apply not_eq_sym in N. apply weqb_neq in N. rewrite N. auto.
    - destruct (weqb w' k); auto.
  Qed.

  Lemma alookup_app w m m' :
    alookup weqb w (m ++ m') = match alookup weqb w m with Some v => Some v | None => alookup weqb w m' end.
  Proof.
    induction m as [|[k x] m IH]; simpl; auto. destruct (weqb w k); auto.
  Qed.

  Lemma aset_absent w v m : amem weqb w m = false -> aset weqb w v m = m ++ [(w, v)].
  Proof.
    unfold amem. induction m as [|[k x] m IH]; simpl; auto.
    destruct (weqb w k) eqn:E; [discriminate|]. intros H. rewrite IH; auto.
  Qed.
End AL.

(* lists of the shape [(key x, g x) | x <- l] *)
Section Keyed.
  Context {A V : Type} (key : A -> watch) (g : A -> V).
  Let kv := fun x => (key x, g x).

  Lemma amem_keyed w l : amem weqb w (map kv l) = memb weqb w (map key l).
  Proof.
    unfold amem. induction l as [|x l IH]; simpl; auto.
    destruct (weqb w (key x)); simpl; auto.
  Qed.

  Lemma alookup_keyed w l v :
    alookup weqb w (map kv l) = Some v -> exists x, In x l /\ key x = w /\ v = g x.
  Proof.
    induction l as [|x l IH]; simpl; [discriminate|].
    wcase w (key x).
    - intros H; inversion H. exists x; auto.
    - intros H1. destruct (IH H1) as (y & ? & ? & ?). exists y; auto.
  Qed.

  Lemma aremove_keyed w l :
    aremove weqb w (map kv l) = map kv (filter (fun x => negb (weqb w (key x))) l).
  Proof.
    induction l as [|x l IH]; simpl; auto.
    destruct (weqb w (key x)); simpl; rewrite IH; auto.
  Qed.

  Lemma set_del_keyed w l :
    set_del weqb w (map key l) = map key (filter (fun x => negb (weqb w (key x))) l).
  Proof.
    unfold set_del. induction l as [|x l IH]; simpl; auto.
    destruct (weqb w (key x)); simpl; rewrite IH; auto.
  Qed.
End Keyed.

Lemma NoDup_map_inj {A B} (f : A -> B) l x y :
  NoDup (map f l) -> In x l -> In y l -> f x = f y -> x = y.
Proof.
  induction l as [|a l IH]; simpl; [tauto|].
  intros ND Hx Hy E. inversion ND as [|? ? Hn ND']; subst.
  destruct Hx as [-> |Hx], Hy as [-> |Hy]; auto.
  - exfalso. apply Hn. rewrite E. apply in_map; auto.
  - exfalso. apply Hn. rewrite <- E. apply in_map; auto.
Qed.

Lemma NoDup_map_filter {A B} (f : A -> B) p l : NoDup (map f l) -> NoDup (map f (filter p l)).
Proof.
  induction l as [|a l IH]; simpl; auto. intros ND. inversion ND as [|? ? Hn ND']; subst.
  destruct (p a); simpl; auto. constructor; auto.
  intros H. apply Hn. apply in_map_iff in H as (x & E & Hx). apply filter_In in Hx as [Hx _].
  rewrite <- E. apply in_map; auto.
Qed.

(* ------------------------------------------------------------------ hget *)
Lemma hget_aset_same m w l : hget (aset weqb w l m) w = l.
Proof. unfold hget. rewrite alookup_aset_same. reflexivity. Qed.

Lemma hget_aset_other m w w' l : w <> w' -> hget (aset weqb w l m) w' = hget m w'.
Proof. intros N. unfold hget. rewrite alookup_aset_other; auto. Qed.

Lemma hget_aset m w l w' : hget (aset weqb w l m) w' = hs_set (hget m) w l w'.
Proof.
  unfold hs_set. wcase w w'.
  - apply hget_aset_same.
  - apply hget_aset_other; auto.
Qed.

Lemma hget_aremove m w w' : hget (aremove weqb w m) w' = hs_set (hget m) w [] w'.
Proof.
  unfold hs_set, hget. wcase w w'.
  - rewrite alookup_aremove_same. reflexivity.
  - rewrite alookup_aremove_other; auto.
Qed.

Lemma hget_app_empty m w w' : hget (m ++ [(w, [])]) w' = hget m w'.
Proof.
  unfold hget. rewrite alookup_app. destruct (alookup weqb w' m); auto.
  simpl. destruct (weqb w' w); auto.
Qed.

Lemma amem_aset_keep {V} (m : list (watch * V)) w v w' : amem weqb w' m = true -> amem weqb w' (aset weqb w v m) = true.
Proof.
  unfold amem. intros H. destruct (weqb_eq w w') as [_ X]. wcase w w'.
  - rewrite alookup_aset_same. reflexivity.
  - rewrite alookup_aset_other; auto.
Qed.

Lemma amem_aset_same {V} (m : list (watch * V)) w v : amem weqb w (aset weqb w v m) = true.
Proof. unfold amem. rewrite alookup_aset_same. reflexivity. Qed.

(* ------------------------------------------------------------------ pick *)
Lemma filter_split_perm {A} (p : A -> bool) l :
  Permutation (filter p l ++ filter (fun x => negb (p x)) l) l.
Proof.
  induction l as [|a l IH]; simpl; auto.
  destruct (p a); simpl.
  - constructor; auto.
  - apply Permutation_sym. apply Permutation_cons_app. apply Permutation_sym. auto.
Qed.

Lemma pick_perm {A} (key : A -> watch) ord : forall l, Permutation (pick key ord l) l.
Proof.
  induction ord as [|w ord IH]; intros l; simpl; auto.
  eapply Permutation_trans; [|apply (filter_split_perm (fun x => weqb w (key x)))].
  apply Permutation_app_head. apply IH.
Qed.

Lemma pick_map {A B} (f : A -> B) (key : B -> watch) ord :
  forall l, pick key ord (map f l) = map f (pick (fun x => key (f x)) ord l).
Proof.
  assert (F : forall (p : B -> bool) l, filter p (map f l) = map f (filter (fun x => p (f x)) l)).
  { intros p l. induction l as [|a l IH]; simpl; auto. destruct (p (f a)); simpl; rewrite IH; auto. }
  induction ord as [|w ord IH]; intros l; simpl; auto.
  rewrite map_app, !F, IH. reflexivity.
Qed.

Lemma NoDup_snoc {A} (l : list A) x : NoDup l -> ~ In x l -> NoDup (l ++ [x]).
Proof.
  intros ND Hn. induction l as [|a l IH]; simpl.
  - constructor; auto.
  - inversion ND; subst. constructor.
    + rewrite in_app_iff. simpl. intros [H|[H|[]]]; [contradiction | subst; apply Hn; left; auto].
    + apply IH; auto. intros H; apply Hn; right; auto.
Qed.

(* ------------------------------------------------------------------ the registry invariant *)
Definition kv_efw (e : emitter) : watch * emitter := (ewatch e, e).
Definition keep_w (w : watch) (e : emitter) : bool := negb (weqb w (ewatch e)).
Definition alive_bit (st0 : list nat) (e : emitter) : watch * bool := (ewatch e, memb Nat.eqb (eid e) st0).

Record Inv (s : st) : Prop := mkInv {
  I_efw : efw s = map kv_efw (emitters s);
  I_watches : watches s = map ewatch (emitters s);
  I_nodup_w : NoDup (map ewatch (emitters s));
  I_ids : forall e, In e (emitters s) -> eid e < next s;
  I_nodup_id : NoDup (map eid (emitters s));
  I_started : forall i, In i (started s) -> i < next s;
  I_handlers : forall e, In e (emitters s) -> amem weqb (ewatch e) (handlers s) = true
}.

Lemma Inv_init : Inv init.
Proof. constructor; simpl; auto; try constructor; try tauto. Qed.

Lemma obs_emitters_eq s : obs_emitters s = map (alive_bit (started s)) (emitters s).
Proof. reflexivity. Qed.

Lemma amem_efw_obs s w : Inv s -> amem weqb w (efw s) = amem weqb w (obs_emitters s).
Proof.
  intros I. rewrite (I_efw _ I), obs_emitters_eq. unfold kv_efw, alive_bit.
  rewrite (amem_keyed ewatch (fun e => e)), (amem_keyed ewatch (fun e => memb Nat.eqb (eid e) (started s))).
  reflexivity.
Qed.

Lemma amem_efw_watches s w : Inv s -> amem weqb w (efw s) = memb weqb w (watches s).
Proof.
  intros I. rewrite (I_efw _ I), (I_watches _ I). unfold kv_efw.
  apply (amem_keyed ewatch (fun e => e)).
Qed.

(* the state after the watch w has been de-scheduled *)
Definition dropped (s : st) (w : watch) : st :=
  mk (set_del weqb w (watches s)) (aremove weqb w (handlers s)) (filter (keep_w w) (emitters s))
     (aremove weqb w (efw s)) (started s) (next s) (thr_started s) (stopped s).

Lemma id_filter_watch_filter s e : Inv s -> In e (emitters s) ->
  filter (fun x => negb (Nat.eqb (eid e) (eid x))) (emitters s) = filter (keep_w (ewatch e)) (emitters s).
Proof.
  intros I He. apply filter_ext_in. intros x Hx. unfold keep_w. f_equal.
  destruct (Nat.eqb (eid e) (eid x)) eqn:E1.
  - apply Nat.eqb_eq in E1. assert (e = x) by (eapply NoDup_map_inj; eauto using I_nodup_id). subst.
    symmetry; apply weqb_refl.
  - symmetry. apply weqb_neq. intros E2.
    assert (e = x) by (eapply NoDup_map_inj; eauto using I_nodup_w). subst.
    rewrite Nat.eqb_refl in E1. discriminate.
Qed.

Lemma remove_emitter_ok s e : Inv s -> In e (emitters s) ->
  forall hm, remove_emitter (set_handlers s hm) e =
    (mk (watches s) hm (filter (keep_w (ewatch e)) (emitters s)) (aremove weqb (ewatch e) (efw s))
        (started s) (next s) (thr_started s) (stopped s), Ok).
Proof.
  intros I He hm. unfold remove_emitter, adel. simpl.
  assert (M : amem weqb (ewatch e) (efw s) = true).
  { rewrite amem_efw_watches, (I_watches _ I); auto. apply memW_In. apply in_map; auto. }
  rewrite M. simpl.
  assert (M2 : memb Nat.eqb (eid e) (map eid (emitters s)) = true) by (apply memI_In; apply in_map; auto).
  rewrite M2. unfold set_emitters, set_efw; simpl. rewrite id_filter_watch_filter; auto.
Qed.

Lemma set_handlers_self s : set_handlers s (handlers s) = s.
Proof. destruct s; reflexivity. Qed.

Lemma dropped_Inv s w : Inv s -> Inv (dropped s w).
Proof.
  intros I. constructor; simpl.
  - rewrite (I_efw _ I). unfold kv_efw. apply (aremove_keyed ewatch (fun e => e)).
  - rewrite (I_watches _ I). apply set_del_keyed.
  - apply NoDup_map_filter. apply I.
  - intros e He. apply filter_In in He as [He _]. apply I; auto.
  - apply NoDup_map_filter. apply I.
  - apply I.
  - intros e He. apply filter_In in He as [He K]. unfold keep_w in K.
    apply negb_true_iff in K. apply weqb_neq in K.
    unfold amem. rewrite alookup_aremove_other; auto. apply (I_handlers _ I e He).
Qed.

Lemma dropped_abs s w : spec_eq (abs (dropped s w)) (spec_drop (abs s) w).
Proof.
  unfold spec_eq, abs, spec_drop; simpl. repeat split.
  - rewrite !obs_emitters_eq. simpl. unfold alive_bit.
    symmetry. apply (aremove_keyed ewatch (fun e => memb Nat.eqb (eid e) (started s))).
  - intros w'. apply hget_aremove.
Qed.

Lemma start_failed_ok s e x : Inv s -> In e (emitters s) ->
  start_failed true s e x = (dropped s (ewatch e), Raised x).
Proof.
  intros I He. unfold start_failed.
  rewrite <- (set_handlers_self s) at 1. rewrite remove_emitter_ok; auto.
Qed.

Lemma do_unschedule_ok s w : Inv s ->
  do_unschedule s w = if amem weqb w (efw s) then (dropped s w, Ok) else (s, Raised EKeyWatch).
Proof.
  intros I. unfold do_unschedule, amem.
  destruct (alookup weqb w (efw s)) as [e|] eqn:E; auto.
  rewrite (I_efw _ I) in E. apply (alookup_keyed ewatch (fun e => e)) in E as (x & Hx & Hw & ->). subst w.
  unfold adel. rewrite (I_handlers _ I x Hx).
  rewrite remove_emitter_ok; auto. simpl.
  assert (M : memb weqb (ewatch x) (watches s) = true).
  { rewrite (I_watches _ I). apply memW_In. apply in_map; auto. }
  rewrite M. reflexivity.
Qed.

(* ------------------------------------------------------------------ schedule of a new watch *)
Definition with_new (s : st) (h : handler) (w : watch) (b : bool) : st :=
  mk (watches s ++ [w]) (aset weqb w (set_add N.eqb h (hget (handlers s) w)) (handlers s))
     (emitters s ++ [(next s, w)]) (efw s ++ [(w, (next s, w))])
     (if b then next s :: started s else started s) (S (next s)) (thr_started s) (stopped s).

Lemma old_alive_bit s (b : bool) e : Inv s -> In e (emitters s) ->
  alive_bit (if b then next s :: started s else started s) e = alive_bit (started s) e.
Proof.
  intros I He. destruct b; auto. unfold alive_bit. simpl.
  pose proof (I_ids _ I e He) as L. destruct (Nat.eqb (eid e) (next s)) eqn:E; auto.
  apply Nat.eqb_eq in E. lia.
Qed.

Lemma with_new_Inv s h w b : Inv s -> amem weqb w (efw s) = false -> Inv (with_new s h w b).
Proof.
  intros I Hn.
  assert (Hw : ~ In w (map ewatch (emitters s))).
  { rewrite amem_efw_watches, (I_watches _ I) in Hn; auto.
    apply (memb_not_In weqb weqb_eq) in Hn. auto. }
  constructor; simpl.
  - rewrite map_app, (I_efw _ I). reflexivity.
  - rewrite map_app, (I_watches _ I). reflexivity.
  - rewrite map_app. simpl. apply NoDup_snoc; auto. apply I.
  - intros e He. apply in_app_iff in He as [He|[<-|[]]].
    + pose proof (I_ids _ I e He). lia.
    + simpl. lia.
  - rewrite map_app. simpl. apply NoDup_snoc; [apply I|].
    intros H. apply in_map_iff in H as (e & E & He). pose proof (I_ids _ I e He). lia.
  - intros i Hi. destruct b.
    + destruct Hi as [<-|Hi]; [lia|]. pose proof (I_started _ I i Hi). lia.
    + pose proof (I_started _ I i Hi). lia.
  - intros e He. apply in_app_iff in He as [He|[<-|[]]].
    + apply amem_aset_keep. apply I; auto.
    + simpl. apply amem_aset_same.
Qed.

Lemma with_new_abs s h w b : Inv s -> (b = false -> True) ->
  spec_eq (abs (with_new s h w b))
    (mkspec (obs_emitters s ++ [(w, b)]) (hs_set (hget (handlers s)) w (set_add N.eqb h (hget (handlers s) w)))
            (thr_started s) (stopped s)).
Proof.
  intros I _. unfold spec_eq, abs; simpl. repeat split.
  - rewrite !obs_emitters_eq. simpl. rewrite map_app. f_equal.
    + apply map_ext_in. intros e He. apply old_alive_bit; auto.
    + simpl. unfold alive_bit; simpl. f_equal. f_equal. destruct b; simpl.
      * rewrite Nat.eqb_refl. reflexivity.
      * apply (memb_not_In Nat.eqb Nat.eqb_eq). intros H. pose proof (I_started _ I _ H). lia.
  - intros w'. apply hget_aset.
Qed.

Lemma do_schedule_new s h w flt : Inv s -> amem weqb w (efw s) = false ->
  do_schedule true s h w flt =
    if is_ctor flt then (s, Raised ECtor)
    else if alive s && is_start flt 0 then (set_next s (S (next s)), Raised EStart)
    else (with_new s h w (alive s), Ok).
Proof.
  intros I Hn. unfold do_schedule. rewrite Hn.
  destruct (is_ctor flt); auto.
  assert (Hw : memb weqb w (watches s) = false) by (rewrite <- amem_efw_watches; auto).
  assert (A : alive (set_next s (S (next s))) = alive s) by reflexivity. rewrite A.
  destruct (alive s) eqn:Al; simpl.
  - destruct (is_start flt 0); auto.
    unfold add_emitter, mark_started, add_handler, with_new, set_add; simpl. rewrite Hw.
    rewrite aset_absent; auto.
  - unfold add_emitter, add_handler, with_new, set_add; simpl. rewrite Hw.
    rewrite aset_absent; auto.
Qed.

Lemma do_schedule_old s h w flt : Inv s -> amem weqb w (efw s) = true ->
  do_schedule true s h w flt = (set_watches (add_handler s h w) (watches s), Ok).
Proof.
  intros I Hn. unfold do_schedule. rewrite Hn.
  assert (Hw : memb weqb w (watches s) = true) by (rewrite <- amem_efw_watches; auto).
  unfold set_add. simpl. rewrite Hw. reflexivity.
Qed.

Lemma add_handler_Inv s h w ws : Inv s -> ws = watches s -> Inv (set_watches (add_handler s h w) ws).
Proof.
  intros I ->. constructor; simpl; try apply I.
  intros e He. apply amem_aset_keep. apply I; auto.
Qed.

Lemma add_handler_abs s h w ws :
  spec_eq (abs (set_watches (add_handler s h w) ws))
    (mkspec (obs_emitters s) (hs_set (hget (handlers s)) w (set_add N.eqb h (hget (handlers s) w)))
            (thr_started s) (stopped s)).
Proof.
  unfold spec_eq, abs; simpl. repeat split. intros w'. apply hget_aset.
Qed.

(* ------------------------------------------------------------------ start() *)
Lemma spec_eq_refl t : spec_eq t t.
Proof. unfold spec_eq; auto. Qed.

Lemma spec_eq_sym a b : spec_eq a b -> spec_eq b a.
Proof. unfold spec_eq; intros (?&?&?&?); repeat split; auto. Qed.

Lemma spec_eq_trans a b c : spec_eq a b -> spec_eq b c -> spec_eq a c.
Proof.
  unfold spec_eq; intros (?&Ha&?&?) (?&Hb&?&?); repeat split; try congruence.
Qed.

Lemma mark_started_Inv s e : Inv s -> In e (emitters s) -> Inv (mark_started s e).
Proof.
  intros I He. constructor; simpl; try apply I.
  intros i [<-|Hi]; [apply I; auto | apply I; auto].
Qed.

Lemma mark_started_obs s e : Inv s -> In e (emitters s) ->
  obs_emitters (mark_started s e) =
  map (fun x => if weqb (ewatch e) (fst x) then (fst x, true) else x) (obs_emitters s).
Proof.
  intros I He. rewrite !obs_emitters_eq. simpl. rewrite map_map. apply map_ext_in.
  intros x Hx. unfold alive_bit; simpl.
  wcase (ewatch e) (ewatch x).
  - assert (e = x) by (eapply NoDup_map_inj; eauto using I_nodup_w). subst.
    rewrite Nat.eqb_refl. reflexivity.
  - destruct (Nat.eqb (eid x) (eid e)) eqn:E1; auto.
    apply Nat.eqb_eq in E1. assert (x = e) by (eapply NoDup_map_inj; eauto using I_nodup_id). subst.
    congruence.
Qed.

Lemma start_loop_sim : forall order k s flt,
  Inv s -> incl order (emitters s) -> NoDup (map eid order) ->
  forall s' r t' r', start_loop true order k s flt = (s', r) ->
  spec_start_loop (map (alive_bit (started s)) order) k (abs s) flt = (t', r') ->
  Inv s' /\ r = r' /\ spec_eq (abs s') t'.
Proof.
  induction order as [|e rest IH]; intros k s flt I Hin ND s' r t' r' H1 H2; simpl in *.
  - destruct (thr_started s) eqn:T; inversion H1; inversion H2; subst; clear H1 H2.
    + split; [auto|split; [auto|apply spec_eq_refl]].
    + split; [constructor; simpl; apply I|split; [auto|apply spec_eq_refl]].
  - assert (He : In e (emitters s)) by (apply Hin; left; auto).
    destruct (is_start flt k).
    + rewrite start_failed_ok in H1; auto. inversion H1; inversion H2; subst.
      split; [apply dropped_Inv; auto|]. split; auto. apply dropped_abs.
    + destruct (memb Nat.eqb (eid e) (started s)) eqn:M.
      * rewrite start_failed_ok in H1; auto. inversion H1; inversion H2; subst.
        split; [apply dropped_Inv; auto|]. split; auto. apply dropped_abs.
      * inversion ND as [|? ? Hn ND']; subst.
        eapply (IH (S k) (mark_started s e) flt); eauto.
        -- apply mark_started_Inv; auto.
        -- intros x Hx. simpl. apply Hin. right; auto.
        -- rewrite <- H2. f_equal.
           ++ apply map_ext_in. intros x Hx. unfold alive_bit; simpl.
              destruct (Nat.eqb (eid x) (eid e)) eqn:E1; auto.
              apply Nat.eqb_eq in E1. exfalso. apply Hn. rewrite <- E1. apply in_map; auto.
           ++ unfold abs. simpl. f_equal. apply mark_started_obs; auto.
Qed.

Lemma start_sim s ord flt : Inv s ->
  forall s' r t' r', start_loop true (pick ewatch ord (emitters s)) 0 s flt = (s', r) ->
  spec_start_loop (pick fst ord (obs_emitters s)) 0 (abs s) flt = (t', r') ->
  Inv s' /\ r = r' /\ spec_eq (abs s') t'.
Proof.
  intros I s' r t' r' H1 H2.
  eapply start_loop_sim; eauto.
  - intros x Hx. eapply Permutation_in; [apply pick_perm | exact Hx].
  - eapply Permutation_NoDup; [apply Permutation_sym; apply Permutation_map; apply pick_perm | apply I].
  - rewrite <- H2. rewrite obs_emitters_eq, pick_map. reflexivity.
Qed.

(* ------------------------------------------------------------------ one call: forward simulation *)
Lemma amem_app_keep {V} (m m' : list (watch * V)) w : amem weqb w m = true -> amem weqb w (m ++ m') = true.
Proof. unfold amem. rewrite alookup_app. destruct (alookup weqb w m); auto; discriminate. Qed.

Lemma step_sim_abs s cf : Inv s ->
  forall s' r t' r', step true true s cf = (s', r) -> spec_step (abs s) cf = (t', r') ->
  Inv s' /\ r = r' /\ spec_eq (abs s') t'.
Proof.
  intros I s' r t' r' H1 H2. destruct cf as [c flt]. destruct c as [h w|h w|h w|w| |ord|]; simpl in H1, H2.
  - (* schedule *)
    rewrite <- (amem_efw_obs s w I) in H2.
    destruct (amem weqb w (efw s)) eqn:M.
    + rewrite do_schedule_old in H1; auto. inversion H1; inversion H2; subst.
      split; [apply add_handler_Inv; auto|]. split; auto. apply add_handler_abs.
    + rewrite do_schedule_new in H1; auto.
      destruct (is_ctor flt).
      * inversion H1; inversion H2; subst. split; auto. split; auto. apply spec_eq_refl.
      * change (spec_alive (abs s)) with (alive s) in H2.
        destruct (alive s && is_start flt 0).
        -- inversion H1; inversion H2; subst. split; [constructor; simpl; try apply I|].
           ++ intros e He. pose proof (I_ids _ I e He). lia.
           ++ intros i Hi. pose proof (I_started _ I i Hi). lia.
           ++ split; auto. apply spec_eq_refl.
        -- inversion H1; inversion H2; subst. split; [apply with_new_Inv; auto|]. split; auto.
           apply with_new_abs; auto.
  - (* add_handler *)
    inversion H1; inversion H2; subst.
    replace (add_handler s h w) with (set_watches (add_handler s h w) (watches s)) by reflexivity.
    split; [apply add_handler_Inv; auto|]. split; auto. apply add_handler_abs.
  - (* remove_handler *)
    unfold do_remove_handler in H1. unfold hget in H2.
    destruct (alookup weqb w (handlers s)) as [l|] eqn:E.
    + destruct (memb N.eqb h l); inversion H1; inversion H2; subst.
      * split; [constructor; simpl; try apply I|].
        -- intros e He. apply amem_aset_keep. apply I; auto.
        -- split; auto. unfold spec_eq, abs; simpl. repeat split. intros w'.
           rewrite hget_aset. reflexivity.
      * split; auto. split; auto. apply spec_eq_refl.
    + simpl in H2. inversion H1; inversion H2; subst.
      split; [constructor; simpl; try apply I|].
      * intros e He. apply amem_app_keep. apply I; auto.
      * split; auto. unfold spec_eq, abs; simpl. repeat split. intros w'. apply hget_app_empty.
  - (* unschedule *)
    rewrite do_unschedule_ok in H1; auto.
    rewrite <- (amem_efw_obs s w I) in H2.
    destruct (amem weqb w (efw s)); inversion H1; inversion H2; subst.
    + split; [apply dropped_Inv; auto|]. split; auto. apply dropped_abs.
    + split; auto. split; auto. apply spec_eq_refl.
  - (* unschedule_all *)
    inversion H1; inversion H2; subst.
    split; [constructor; simpl; auto; try constructor; try tauto; apply I|].
    split; auto. unfold spec_eq, abs; simpl. auto.
  - (* start *)
    change (t_started (abs s)) with (thr_started s) in H2.
    destruct (thr_started s).
    + inversion H1; inversion H2; subst. split; auto. split; auto. apply spec_eq_refl.
    + eapply start_sim; eauto.
  - (* stop *)
    inversion H1; inversion H2; subst.
    split; [constructor; simpl; auto; try constructor; try tauto; apply I|].
    split; auto. unfold spec_eq, abs; simpl. auto.
Qed.

(* ------------------------------------------------------------------ the spec respects spec_eq *)
Lemma spec_start_loop_morph : forall order k t1 t2 flt, spec_eq t1 t2 ->
  forall a r b r', spec_start_loop order k t1 flt = (a, r) -> spec_start_loop order k t2 flt = (b, r') ->
  r = r' /\ spec_eq a b.
Proof.
  induction order as [|[w al] rest IH]; intros k t1 t2 flt E a r b r' H1 H2; simpl in *.
  - destruct E as (Es & Eh & Et & Ep). rewrite <- Et in H2.
    destruct (t_started t1) eqn:T; inversion H1; inversion H2; subst; split; auto; unfold spec_eq; simpl;
      repeat split; auto; congruence.
  - assert (D : spec_eq (spec_drop t1 w) (spec_drop t2 w)).
    { destruct E as (Es & Eh & Et & Ep). unfold spec_eq, spec_drop; simpl. rewrite Es. repeat split; auto.
      intros w'. unfold hs_set. destruct (weqb w w'); auto. }
    destruct (is_start flt k); [inversion H1; inversion H2; subst; auto|].
    destruct al; [inversion H1; inversion H2; subst; auto|].
    eapply IH; [|exact H1|exact H2].
    destruct E as (Es & Eh & Et & Ep). unfold spec_eq; simpl. rewrite Es. auto.
Qed.

Lemma spec_step_morph t1 t2 cf : spec_eq t1 t2 ->
  forall a r b r', spec_step t1 cf = (a, r) -> spec_step t2 cf = (b, r') -> r = r' /\ spec_eq a b.
Proof.
  intros E a r b r' H1 H2. destruct cf as [c flt].
  pose proof E as (Es & Eh & Et & Ep).
  assert (Al : spec_alive t1 = spec_alive t2) by (unfold spec_alive; congruence).
  destruct c as [h w|h w|h w|w| |ord|]; simpl in H1, H2.
  - rewrite <- Es, <- Al, <- Eh in H2.
    assert (X : forall l1 l2, l1 = l2 ->
      spec_eq (mkspec l1 (hs_set (hs t1) w (set_add N.eqb h (hs t1 w))) (t_started t1) (t_stopped t1))
              (mkspec l2 (hs_set (hs t2) w (set_add N.eqb h (hs t1 w))) (t_started t2) (t_stopped t2))).
    { intros l1 l2 ->. unfold spec_eq; simpl. repeat split; auto. intros w'. unfold hs_set. destruct (weqb w w'); auto. }
    destruct (amem weqb w (sched t1)); [inversion H1; inversion H2; subst; split; auto|].
    destruct (is_ctor flt); [inversion H1; inversion H2; subst; split; auto|].
    destruct (spec_alive t1 && is_start flt 0); inversion H1; inversion H2; subst; split; auto.
  - rewrite <- Eh in H2. inversion H1; inversion H2; subst. split; auto.
    unfold spec_eq; simpl. repeat split; auto. intros w'. unfold hs_set. destruct (weqb w w'); auto.
  - rewrite <- Eh in H2. destruct (memb N.eqb h (hs t1 w)); inversion H1; inversion H2; subst; split; auto.
    unfold spec_eq; simpl. repeat split; auto. intros w'. unfold hs_set. destruct (weqb w w'); auto.
  - rewrite <- Es in H2. destruct (amem weqb w (sched t1)); inversion H1; inversion H2; subst; split; auto.
    unfold spec_eq, spec_drop; simpl. rewrite Es. repeat split; auto.
    intros w'. unfold hs_set. destruct (weqb w w'); auto.
  - inversion H1; inversion H2; subst. split; auto. unfold spec_eq; simpl; auto.
  - rewrite <- Es, <- Et in H2. destruct (t_started t1).
    + inversion H1; inversion H2; subst. split; auto.
    + eapply spec_start_loop_morph; eauto.
  - inversion H1; inversion H2; subst. split; auto. unfold spec_eq; simpl; auto.
Qed.

(* ------------------------------------------------------------------ refinement over whole runs *)
Lemma refines_from : forall cs s t, Inv s -> spec_eq (abs s) t ->
  forall s' rs t' rs', run_from true true s cs = (s', rs) -> spec_run_from t cs = (t', rs') ->
  Inv s' /\ rs = rs' /\ spec_eq (abs s') t'.
Proof.
  induction cs as [|cf cs IH]; intros s t I E s' rs t' rs' H1 H2; simpl in *.
  - inversion H1; inversion H2; subst. auto.
  - destruct (step true true s cf) as [s1 r1] eqn:S1.
    destruct (spec_step t cf) as [t1 q1] eqn:T1.
    destruct (run_from true true s1 cs) as [s2 rs2] eqn:R1.
    destruct (spec_run_from t1 cs) as [t2 qs2] eqn:R2.
    inversion H1; inversion H2; subst.
    destruct (spec_step (abs s) cf) as [t0 q0] eqn:T0.
    destruct (step_sim_abs s cf I _ _ _ _ S1 T0) as (I1 & Er & E1).
    destruct (spec_step_morph _ _ cf E _ _ _ _ T0 T1) as (Eq & E2).
    destruct (IH s1 t1 I1 (spec_eq_trans _ _ _ E1 E2) _ _ _ _ R1 R2) as (I2 & Ers & E3).
    split; auto. split; auto. congruence.
Qed.

Theorem refines : forall cs,
  snd (run_impl true true cs) = snd (run_spec cs) /\
  spec_eq (abs (fst (run_impl true true cs))) (fst (run_spec cs)).
Proof.
  intros cs. unfold run_impl, run_spec.
  destruct (run_from true true init cs) as [s rs] eqn:R1.
  destruct (spec_run_from spec_init cs) as [t qs] eqn:R2.
  assert (E0 : spec_eq (abs init) spec_init) by (unfold spec_eq, abs; simpl; auto).
  destruct (refines_from cs init spec_init Inv_init E0 _ _ _ _ R1 R2) as (_ & ? & ?); auto.
Qed.

Lemma reach_Inv cs : Inv (fst (run_impl true true cs)).
Proof.
  unfold run_impl.
  destruct (run_from true true init cs) as [s rs] eqn:R1.
  destruct (spec_run_from spec_init cs) as [t qs] eqn:R2.
  assert (E0 : spec_eq (abs init) spec_init) by (unfold spec_eq, abs; simpl; auto).
  destruct (refines_from cs init spec_init Inv_init E0 _ _ _ _ R1 R2) as (? & _ & _); auto.
Qed.

(* ------------------------------------------------------------------ consequences *)
(* reachable states of the repaired machine *)
Definition reachable (s : st) : Prop := exists cs, s = fst (run_impl true true cs).

Lemma reachable_Inv s : reachable s -> Inv s.
Proof. intros [cs ->]. apply reach_Inv. Qed.

(* emitters = one per distinct scheduled watch key, in all four collections *)
Lemma emitters_exact cs :
  let s := fst (run_impl true true cs) in
  let t := fst (run_spec cs) in
  map ewatch (emitters s) = map fst (sched t) /\
  NoDup (map ewatch (emitters s)) /\
  watches s = map ewatch (emitters s) /\
  efw s = map (fun e => (ewatch e, e)) (emitters s) /\
  (forall w, In w (map fst (sched t)) -> alookup weqb w (handlers s) <> None).
Proof.
  intros s t. pose proof (reach_Inv cs) as I. destruct (refines cs) as (_ & Es & _).
  fold s in I, Es. fold t in Es. simpl in Es.
  assert (M : map ewatch (emitters s) = map fst (sched t)).
  { rewrite <- Es, obs_emitters_eq, map_map. reflexivity. }
  repeat split; try apply I; auto.
  intros w Hw. rewrite <- M in Hw. apply in_map_iff in Hw as (e & <- & He).
  pose proof (I_handlers _ I e He) as A. unfold amem in A.
  destruct (alookup weqb (ewatch e) (handlers s)); congruence.
Qed.

(* equal watches share one emitter: scheduling an already scheduled watch creates nothing,
   cannot fail, and every reported emitter has a different key *)
Lemma share_one_emitter s h w flt : reachable s -> In w (map ewatch (emitters s)) ->
  exists s', step true true s (Schedule h w, flt) = (s', Ok) /\
    emitters s' = emitters s /\ efw s' = efw s /\ started s' = started s /\
    NoDup (map ewatch (emitters s')).
Proof.
  intros R Hw. pose proof (reachable_Inv s R) as I. simpl.
  rewrite do_schedule_old; auto.
  - eexists; split; [reflexivity|]. simpl. repeat split; auto. apply I.
  - rewrite amem_efw_watches, (I_watches _ I); auto. apply memW_In; auto.
Qed.

(* unscheduling one watch does not affect another *)
Lemma unschedule_independent s w s' r : reachable s -> step true true s (Unschedule w, NoFault) = (s', r) ->
  forall w', w' <> w ->
    hget (handlers s') w' = hget (handlers s) w' /\
    (forall e, ewatch e = w' -> (In e (emitters s') <-> In e (emitters s))) /\
    alookup weqb w' (efw s') = alookup weqb w' (efw s) /\
    (In w' (watches s') <-> In w' (watches s)) /\
    started s' = started s.
Proof.
  intros R H w' N. pose proof (reachable_Inv s R) as I. simpl in H.
  rewrite do_unschedule_ok in H; auto.
  destruct (amem weqb w (efw s)); inversion H; subst; clear H.
  - simpl. repeat split.
    + rewrite hget_aremove. unfold hs_set. apply not_eq_sym in N. apply weqb_neq in N. rewrite N. reflexivity.
    + intros He. apply filter_In in He. tauto.
    + intros He. apply filter_In. split; auto. unfold keep_w. rewrite H.
      apply negb_true_iff. apply weqb_neq. auto.
    + apply alookup_aremove_other; auto.
    + intros Hx. apply (set_del_In weqb weqb_eq) in Hx. tauto.
    + intros Hx. apply (set_del_In weqb weqb_eq). auto.
  - repeat split; auto.
Qed.

(* a schedule() that raises is the identity on everything the public API shows *)
Lemma failed_schedule_identity s h w flt s' e :
  step true true s (Schedule h w, flt) = (s', Raised e) ->
  abs s' = abs s /\ watches s' = watches s /\ handlers s' = handlers s /\ emitters s' = emitters s /\
  efw s' = efw s /\ started s' = started s.
Proof.
  simpl. unfold do_schedule.
  destruct (amem weqb w (efw s)); [intros H; inversion H|].
  destruct (is_ctor flt); [intros H; inversion H; subst; repeat split; auto|].
  destruct (alive (set_next s (S (next s)))).
  - destruct (is_start flt 0); intros H; inversion H; subst. repeat split; auto.
  - intros H; inversion H.
Qed.

(* never an internal KeyError: the four collections never get out of step *)
Lemma spec_start_loop_no_internal : forall order k t flt t' r,
  spec_start_loop order k t flt = (t', r) -> r <> Raised EKeyInternal.
Proof.
  induction order as [|[w a] l IHl]; intros k t flt t' r; simpl.
  - destruct (t_started t); intros S; inversion S; discriminate.
  - destruct (is_start flt k); [intros S; inversion S; discriminate|].
    destruct a; [intros S; inversion S; discriminate|]. apply IHl.
Qed.

Lemma no_internal_error cs : ~ In (Raised EKeyInternal) (snd (run_impl true true cs)).
Proof.
  destruct (refines cs) as (-> & _). unfold run_spec. generalize spec_init.
  induction cs as [|cf cs IH]; intros t; simpl; auto.
  destruct (spec_step t cf) as [t1 r] eqn:S. destruct (spec_run_from t1 cs) as [t2 rs] eqn:R.
  simpl. intros [H|H].
  - subst r. destruct cf as [c flt]. destruct c; simpl in S.
    + destruct (amem weqb w (sched t)); [inversion S|]. destruct (is_ctor flt); [inversion S|].
      destruct (spec_alive t && is_start flt 0); inversion S.
    + inversion S.
    + destruct (memb N.eqb h (hs t w)); inversion S.
    + destruct (amem weqb w (sched t)); inversion S.
    + inversion S.
    + destruct (t_started t); [inversion S|]. apply spec_start_loop_no_internal in S. congruence.
    + inversion S.
  - specialize (IH t1). rewrite R in IH. auto.
Qed.

(* --- no delivery after a failed schedule: on the spec, then transported by the refinement *)
Definition is_add (h : handler) (w : watch) (c : call) : bool :=
  match c with
  | Schedule h' w' | AddHandler h' w' => N.eqb h h' && weqb w w'
  | _ => false
  end.

(* no call of [cs] that adds (h, w) succeeded *)
Fixpoint no_successful_add (h : handler) (w : watch) (cs : list (call * fault)) (rs : list result) : Prop :=
  match cs, rs with
  | (c, _) :: cs', r :: rs' => (is_add h w c = true -> r <> Ok) /\ no_successful_add h w cs' rs'
  | _, _ => True
  end.

Lemma spec_start_loop_hs h w : forall order k t flt t' r,
  spec_start_loop order k t flt = (t', r) -> In h (hs t' w) -> In h (hs t w).
Proof.
  induction order as [|[w0 a] rest IH]; intros k t flt t' r H Hin; simpl in H.
  - destruct (t_started t); inversion H; subst; auto.
  - assert (D : In h (hs (spec_drop t w0) w) -> In h (hs t w)).
    { unfold spec_drop, hs_set; simpl. destruct (weqb w0 w); simpl; tauto. }
    destruct (is_start flt k); [inversion H; subst; auto|].
    destruct a; [inversion H; subst; auto|].
    apply IH in H; auto.
Qed.

Lemma spec_step_hs h w t c flt t' r :
  spec_step t (c, flt) = (t', r) -> In h (hs t' w) -> In h (hs t w) \/ (is_add h w c = true /\ r = Ok).
Proof.
  intros H Hin. destruct c as [h0 w0|h0 w0|h0 w0|w0| |ord|]; simpl in H.
  - assert (X : In h (hs_set (hs t) w0 (set_add N.eqb h0 (hs t w0)) w) ->
                       In h (hs t w) \/ (N.eqb h h0 && weqb w w0 = true /\ Ok = Ok)).
    { unfold hs_set. wcase w0 w; auto. intros Hi. apply (set_add_In N.eqb N.eqb_eq) in Hi as [Hi| ->]; auto.
      right. rewrite N.eqb_refl, weqb_refl. auto. }
    destruct (amem weqb w0 (sched t)); [inversion H; subst; simpl in *; apply X; auto|].
    destruct (is_ctor flt); [inversion H; subst; auto|].
    destruct (spec_alive t && is_start flt 0); inversion H; subst; auto.
  - inversion H; subst. simpl in *. unfold hs_set in Hin. wcase w0 w; auto.
    apply (set_add_In N.eqb N.eqb_eq) in Hin as [Hi| ->]; auto.
    right. rewrite N.eqb_refl, weqb_refl. auto.
  - destruct (memb N.eqb h0 (hs t w0)); inversion H; subst; auto. simpl in *.
    unfold hs_set in Hin. wcase w0 w; auto. apply (set_del_In N.eqb N.eqb_eq) in Hin. tauto.
  - destruct (amem weqb w0 (sched t)); inversion H; subst; auto.
    unfold spec_drop, hs_set in Hin; simpl in Hin. destruct (weqb w0 w); simpl in *; tauto.
  - inversion H; subst. simpl in Hin. tauto.
  - destruct (t_started t); [inversion H; subst; auto|]. left. eapply spec_start_loop_hs; eauto.
  - inversion H; subst. simpl in Hin. tauto.
Qed.

Lemma spec_no_add_absent h w : forall cs t t' rs,
  spec_run_from t cs = (t', rs) -> ~ In h (hs t w) -> no_successful_add h w cs rs -> ~ In h (hs t' w).
Proof.
  induction cs as [|cf cs IH]; intros t t' rs H Hn NA; simpl in H.
  - inversion H; subst; auto.
  - destruct (spec_step t cf) as [t1 r] eqn:S. destruct (spec_run_from t1 cs) as [t2 rs2] eqn:R.
    inversion H; subst. destruct cf as [c flt]. simpl in NA. destruct NA as [NA1 NA2].
    eapply IH; eauto. intros Hin. destruct (spec_step_hs _ _ _ _ _ _ _ S Hin) as [?|[A B]]; auto.
    exact (NA1 A B).
Qed.

Lemma run_from_app f2 f2b : forall cs1 cs2 s,
  run_from f2 f2b s (cs1 ++ cs2) =
  let (s1, r1) := run_from f2 f2b s cs1 in let (s2, r2) := run_from f2 f2b s1 cs2 in (s2, r1 ++ r2).
Proof.
  induction cs1 as [|cf cs1 IH]; intros cs2 s; simpl.
  - destruct (run_from f2 f2b s cs2); reflexivity.
  - destruct (step f2 f2b s cf) as [s1 r]. rewrite IH.
    destruct (run_from f2 f2b s1 cs1) as [s2 r1]. destruct (run_from f2 f2b s2 cs2). reflexivity.
Qed.

Lemma reachable_step s cf : reachable s -> reachable (fst (step true true s cf)).
Proof.
  intros [cs ->]. exists (cs ++ [cf]). unfold run_impl. rewrite run_from_app.
  destruct (run_from true true init cs) as [s1 r1]. simpl.
  destruct (step true true s1 cf). reflexivity.
Qed.

(* The statement "after a schedule() that raised, its handler receives nothing unless a later
   successful call adds it again", for either variant of the code *)
Definition failed_schedule_no_delivery_stmt (f2 f2b : bool) : Prop :=
  forall pre h w flt post s1 e s2 rs,
    let s0 := fst (run_impl f2 f2b pre) in
    ~ In h (hget (handlers s0) w) ->
    step f2 f2b s0 (Schedule h w, flt) = (s1, Raised e) ->
    run_from f2 f2b s1 post = (s2, rs) ->
    no_successful_add h w post rs ->
    ~ In h (hget (handlers s2) w) /\ forall l, In (w, l) (receivers s2) -> ~ In h l.

Lemma failed_schedule_no_delivery : failed_schedule_no_delivery_stmt true true.
Proof.
  intros pre h w flt post s1 e s2 rs s0 Hn S R NA.
  assert (I0 : Inv s0) by apply reach_Inv.
  destruct (spec_step (abs s0) (Schedule h w, flt)) as [t0 q0] eqn:T0.
  destruct (step_sim_abs s0 _ I0 _ _ _ _ S T0) as (I1 & _ & _).
  destruct (failed_schedule_identity _ _ _ _ _ _ S) as (_ & _ & Eh & _).
  destruct (spec_run_from (abs s1) post) as [t' rs'] eqn:R2.
  destruct (refines_from post s1 (abs s1) I1 (spec_eq_refl _) _ _ _ _ R R2) as (_ & Ers & (_ & E & _)).
  subst rs'.
  assert (X : ~ In h (hget (handlers s2) w)).
  { simpl in E. rewrite E. eapply spec_no_add_absent; eauto. simpl. rewrite Eh. auto. }
  split; auto.
  intros l Hl. unfold receivers in Hl. apply in_map_iff in Hl as (x & Ex & _). inversion Ex; subst. auto.
Qed.

(* The pinned statement order (handler registered before the emitter exists) breaks it *)
Lemma pinned_failed_schedule_refuted :
  exists pre h w flt post s1 e s2 rs l,
    let s0 := fst (run_impl false false pre) in
    ~ In h (hget (handlers s0) w) /\
    step false false s0 (Schedule h w, flt) = (s1, Raised e) /\
    run_from false false s1 post = (s2, rs) /\
    no_successful_add h w post rs /\
    In (w, l) (receivers s2) /\ In h l.
Proof.
  pose (w := (1%N, false, 0%N)).
  exists [], 1%N, w, FailCtor, [(Schedule 2%N w, NoFault)].
  exists (fst (step false false init (Schedule 1%N w, FailCtor))), ECtor.
  exists (fst (run_from false false (fst (step false false init (Schedule 1%N w, FailCtor))) [(Schedule 2%N w, NoFault)])).
  exists [Ok], [1%N; 2%N].
  vm_compute. repeat split; auto. intros H; discriminate.
Qed.

(* The pinned start(): the emitter of the failing watch is dropped, its handlers are kept and
   are served again when the watch is scheduled for another handler; the map says otherwise *)
Lemma pinned_failed_start_refuted :
  exists cs w h,
    snd (run_impl true false cs) = snd (run_spec cs) /\
    In (w, [h; 2%N]) (receivers (fst (run_impl true false cs))) /\
    hs (fst (run_spec cs)) w = [2%N] /\ h <> 2%N /\
    (exists w', In w' (watches (fst (run_impl true false (firstn 2 cs)))) /\
                ~ In w' (map ewatch (emitters (fst (run_impl true false (firstn 2 cs)))))).
Proof.
  pose (w := (1%N, false, 0%N)).
  exists [(Schedule 1%N w, NoFault); (Start [], FailStart 0); (Schedule 2%N w, NoFault)], w, 1%N.
  vm_compute. repeat split; auto; try discriminate.
  exists w. split; auto.
Qed.

(* start() on an observer whose thread was ever started is refused up front and changes nothing *)
Lemma second_start_identity s ord flt : thr_started s = true ->
  step true true s (Start ord, flt) = (s, Raised EAlready).
Proof. intros H. simpl. rewrite H. reflexivity. Qed.
