(* Minimal s-expressions: atoms are tokens without blanks or parentheses. *)
type t = A of string | L of t list

let parse (s : string) : t =
  let n = Stdlib.String.length s in
  let pos = ref 0 in
  let rec skip () = if !pos < n && (s.[!pos] = ' ' || s.[!pos] = '\t' || s.[!pos] = '\n' || s.[!pos] = '\r') then (incr pos; skip ()) in
  let rec item () =
    skip ();
    if !pos >= n then failwith "sexp: eof"
    else if s.[!pos] = '(' then begin
      incr pos;
      let acc = ref [] in
      let rec loop () =
        skip ();
        if !pos >= n then failwith "sexp: unclosed"
        else if s.[!pos] = ')' then incr pos
        else (acc := item () :: !acc; loop ()) in
      loop ();
      L (Stdlib.List.rev !acc)
    end else begin
      let st = !pos in
      while !pos < n && not (s.[!pos] = ' ' || s.[!pos] = '(' || s.[!pos] = ')' || s.[!pos] = '\n' || s.[!pos] = '\t' || s.[!pos] = '\r') do incr pos done;
      A (Stdlib.String.sub s st (!pos - st))
    end in
  item ()

let rec to_buf b = function
  | A a -> Buffer.add_string b a
  | L l ->
    Buffer.add_char b '(';
    Stdlib.List.iteri (fun i x -> if i > 0 then Buffer.add_char b ' '; to_buf b x) l;
    Buffer.add_char b ')'

let to_string x = let b = Buffer.create 256 in to_buf b x; Buffer.contents b
