(* C19 - Event paths keep the caller's path type and the entry's exact name, all backends.
   Only statements; every proof is `exact <lemma>`. *)
Require Import WD.Base.Prelude WD.Base.BStr WD.Model.SubEvents WD.Model.Emitter WD.Model.PathTypes
               WD.Proofs.PathProofs.

(* ------------------------------------------------------------------ NAME law: path algebra *)
(* The parent of root/rel/n is root/rel - for every root that is non-empty and does not end in '/', and all valid
   entry names (non-empty, no '/', no NUL; any other byte, decodable or not). *)
Theorem C19_dirname : forall root, root <> [] -> last_is_sep root = false ->
  forall rel n, forallb valid_name rel = true -> valid_name n = true ->
  dirname (root ++ relsuffix (rel ++ [n])) = root ++ relsuffix rel.
Proof. exact dirname_rooted. Qed.
Print Assumptions C19_dirname.

(* ------------------------------------------------------------------ NAME law: the emitter *)
(* For an item whose raw paths are rooted and content trees with valid names, every path of every event of one
   queue_events() call - real, parent-directory and synthetic alike - is empty or rooted.  The single exception is
   DirModifiedEvent(dirname(root)), which arises only from an item that is about the root itself ([r_path = root]) in
   one of the branches that report the parent directory. *)
Theorem C19_event_paths : forall root, root <> [] -> last_is_sep root = false ->
  forall full rec wp content it,
  (forall r, In r (item_raws it) -> rooted root (r_path r)) ->
  (forall p, wf_tree (content p) = true) ->
  forall e, In e (fst (emit full rec wp content it)) ->
    ev_ok root e \/ (e = parent_modified root /\ exists r, In r (item_raws it) /\ r_path r = root).
Proof. exact emit_paths. Qed.
Print Assumptions C19_event_paths.

Theorem C19_event_paths_below : forall root, root <> [] -> last_is_sep root = false ->
  forall full rec wp content it,
  (forall r, In r (item_raws it) -> below root (r_path r)) ->
  (forall p, wf_tree (content p) = true) ->
  forall e, In e (fst (emit full rec wp content it)) -> ev_ok root e.
Proof. exact emit_paths_below. Qed.
Print Assumptions C19_event_paths_below.
