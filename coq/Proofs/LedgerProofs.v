(* Proofs about Model/Ledger.v: with the repaired code the ledger returns to its previous value
   after any failed construction and after any completed stop; with the pinned code it does not. *)
Require Import WD.Base.Prelude WD.Model.CloseProto WD.Model.Ledger WD.Proofs.CloseProtoProofs.

Lemma ledger_eq (a b : ledger) : nfd a = nfd b -> nthr a = nthr b -> a = b.
Proof. destruct a, b; simpl; intros; subst; reflexivity. Qed.

Lemma sub_add k L : sub_fds k (add_fds k L) = L.
Proof. apply ledger_eq; unfold held, b2n; simpl; lia. Qed.

(* Inotify.__init__ either raises with the ledger untouched or holds exactly three descriptors *)
Lemma inotify_new_fixed fs n L :
  match inotify_new true fs n L with
  | (Raised _, L') => L' = L
  | (Built h, L') => L' = add_fds 3 L /\ held h = 3
  end.
Proof.
  unfold inotify_new, on_failure.
  destruct (fault_at fs 0) as [e|].
  - destruct (raises e); [reflexivity|].
    destruct (fault_at fs 1); simpl; apply ledger_eq; unfold held, b2n; simpl; lia.
  - destruct (fault_at fs 1).
    + apply ledger_eq; unfold held, b2n; simpl; lia.
    + destruct (add_watches fs 0 n []).
      * split; [apply ledger_eq; unfold held, b2n; simpl; lia | reflexivity].
      * apply ledger_eq; unfold held, b2n; simpl; lia.
Qed.

Lemma ledger_failed fs n L x L' :
  emitter_start true fs n L = (Raised x, L') -> L' = L.
Proof.
  unfold emitter_start. pose proof (inotify_new_fixed fs n L) as H.
  destruct (inotify_new true fs n L) as [[h|y] L1]; intros E; inversion E. congruence.
Qed.

Lemma ledger_stopped fs n L h L' wd tr s :
  emitter_start true fs n L = (Built h, L') ->
  run (step repaired) (Ok (init repaired wd)) tr = Some (Ok s) ->
  reader_done s = true -> close_returned s = true ->
  teardown s L' = L.
Proof.
  unfold emitter_start. pose proof (inotify_new_fixed fs n L) as H.
  destruct (inotify_new true fs n L) as [[h1|y] L1]; intros E; inversion E.
  destruct H as [HL1 _]. subst L1 L' h1. intros Hrun Hr Hc.
  assert (Hreach : reachable repaired wd (Ok s)) by (exists tr; exact Hrun).
  pose proof (proto_no_leak _ _ Hreach Hr Hc) as Hall.
  destruct (proto_cnt _ _ _ Hreach) as (H1 & H2 & H3).
  unfold all_closed in Hall.
  destruct (fi s), (fr s), (fw s); try discriminate Hall.
  unfold teardown. apply ledger_eq; unfold held, b2n; simpl; lia.
Qed.

Lemma completed_spec x s : completed x = Some s ->
  x = Some (Ok s) /\ reader_done s = true /\ close_returned s = true.
Proof.
  unfold completed. destruct x as [[s0|b]|]; try discriminate.
  destruct (reader_done s0) eqn:E1, (close_returned s0) eqn:E2; simpl; try discriminate.
  intros E; inversion E; subst. auto.
Qed.

Lemma ledger_cycle c L L' : run_cycle true c L = Some L' -> L' = L.
Proof.
  destruct c as [fs n tr]. unfold run_cycle.
  destruct (emitter_start true fs n L) as [[h|x] L1] eqn:E.
  - simpl proto_variant.
    destruct (completed (run (step repaired) (Ok (init repaired true)) tr)) as [s|] eqn:Ec; [|discriminate].
    apply completed_spec in Ec as (Hrun & Hr & Hc).
    intros E2; inversion E2; subst. eapply ledger_stopped; eauto.
  - intros E2; inversion E2; subst. eapply ledger_failed; eauto.
Qed.

Lemma ledger_cycles cs : forall L L', run_cycles true cs L = Some L' -> L' = L.
Proof.
  induction cs as [|c cs IH]; intros L L' H; simpl in H.
  - inversion H; reflexivity.
  - destruct (run_cycle true c L) as [L1|] eqn:E; [|discriminate].
    apply ledger_cycle in E; subst. apply IH; exact H.
Qed.

(* EACCES: no exception; the watch descriptor -1 is stored and construction goes on *)
Lemma eacces_is_silent L :
  emitter_start true [None; None; Some EACCES; None; Some EACCES] 3 L
  = (Built {| h_i := true; h_r := true; h_w := true; h_wds := [-1; 2; -1]%Z |}, add_thr 2 (add_fds 2 (add_fds 1 L))).
Proof. reflexivity. Qed.

(* ---------------------------------------------------------------- the pinned code is refuted (F4a) *)
Definition failed_schedule : cycle := Watch [None; None; Some ENOENT] 1 [].

Lemma ledger_refuted_pinned :
  exists cs L L', run_cycles false cs L = Some L' /\ nfd L' = nfd L + 60 /\ nthr L' = nthr L.
Proof.
  exists (repeat failed_schedule 20), {| nfd := 3; nthr := 2 |}. eexists. vm_compute. repeat split.
Qed.

(* every failing kernel call of the pinned construction leaks what was allocated before it *)
Lemma ledger_pinned_leaks :
  snd (emitter_start false [None; Some EMFILE] 3 {| nfd := 0; nthr := 0 |}) = {| nfd := 1; nthr := 0 |} /\
  snd (emitter_start false [None; None; None; None; Some ENOSPC] 3 {| nfd := 0; nthr := 0 |}) = {| nfd := 3; nthr := 0 |} /\
  snd (emitter_start false [Some EACCES] 3 {| nfd := 0; nthr := 0 |}) = {| nfd := 2; nthr := 0 |}.
Proof. vm_compute. repeat split. Qed.

(* non-vacuity: a completed watch cycle and failed ones, repaired code *)
Lemma ledger_nonvacuous :
  run_cycles true [failed_schedule; Watch [] 3 handover_run; Watch [None; Some EMFILE] 3 [];
                   Watch [None; None; Some EACCES] 3 direct_run; Watch [Some EACCES] 2 []]
             {| nfd := 3; nthr := 2 |} = Some {| nfd := 3; nthr := 2 |}.
Proof. vm_compute. reflexivity. Qed.
