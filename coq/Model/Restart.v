(* Model of watchdog.tricks.AutoRestartTrick's stop/start/restart protocol over a process table
   (DESIGN.md Group T, C18).  Definitions only.

   Threads:  T  - the triggering thread: the observer's dispatch thread calling on_any_event ->
                  _restart_process (debounce interval 0), or the EventDebouncer thread running its
                  callback (interval > 0); one trigger at a time (label [Trigger]).
             W i - the ProcessWatcher started for child i (restart_on_command_exit): polls the child,
                  on exit checks its stopped flag and calls _restart_process.
             M  - the thread calling stop().
   Shared:   process, process_watcher, _is_process_stopping, _is_trick_stopping, the lock
             _stopping_lock, the process table [children] (true = alive), the clock.
   Every constructor of [rpc] is one atomic section between two yield points of the real code:
   the locked test-and-set of a flag is one section; an unlocked attribute read/write, a signal, a
   poll, a Popen are sections of their own.
   [serial = false] : the pinned code - _restart_process takes no lock.
   [serial = true ] : the repaired code - _restart_process runs inside `with self._stopping_lock`
                      (re-entrant, so the nested `with` in _stop_process is a no-op for the holder).
   Children: [Exit i] (environment) lets an alive child die at any time - by itself, or some time
   after the stop signal, or never; SIGKILL kills at once.  kill_process on a dead child raises
   OSError (ProcessLookupError), which _stop_process swallows. *)
Require Import WD.Base.Prelude WD.Base.Lts.

Inductive tid := TT | TW (i : nat) | TM.

Definition tid_eqb (a b : tid) : bool :=
  match a, b with
  | TT, TT | TM, TM => true
  | TW i, TW j => Nat.eqb i j
  | _, _ => false
  end.

(* program counter inside _restart_process (R..), _stop_process (P..), _start_process (S..) *)
Inductive rpc :=
| RLock          (* serial only: `with self._stopping_lock:` *)
| RCheck         (* if self._is_trick_stopping: return *)
| PEnter         (* with lock: if _is_process_stopping: return; _is_process_stopping = True *)
| PWatcher       (* if self.process_watcher is not None: .stop(); self.process_watcher = None *)
| PSignal        (* if self.process is not None: kill_process(pid, stop_signal) *)
| PWait (p : nat) (kill_time : N)   (* poll loop on child p until it is dead or kill_time: then SIGKILL *)
| PClear         (* self.process = None *)
| PLeave         (* finally: _is_process_stopping = False *)
| SCheck         (* _start_process: if self._is_trick_stopping: return *)
| SSpawn         (* self.process = Popen(...) *)
| SWatcher (c : nat) (* self.process_watcher = ProcessWatcher(process c, ...); .start() *)
| RUnlock        (* restart_count += 1; serial: release the lock *)
| RDone.

(* ProcessWatcher.run():  WPoll = `self.popen_obj.poll()` (does not look at the stop flag);
   WWait = `self.stopped_event.wait(timeout=0.1)` (returns on the flag, else times out and polls again);
   WNoticed = the child is dead: `if not self.stopped_event.is_set() and callback` - the flag is read AGAIN;
   each is a separate step: there is no lock around them, stop() of the watcher can fall in between. *)
Inductive wpc := WPoll | WWait | WNoticed | WRestart (r : rpc) | WDone.
Inductive mpc :=
| MIdle | MFlag (* with lock: if _is_trick_stopping: return; set *) | MCapture (* process_watcher = self.process_watcher *)
| MStop (w : option nat) (r : rpc) (* self._stop_process(); w = the captured watcher *)
| MJoin (w : option nat) (* join the captured watcher *) | MReturned.

Record watcher := mkw { w_child : nat; w_pc : wpc; w_stopped : bool }.

Record state := mk {
  clock : N;
  children : list bool;                 (* process table: child i alive? *)
  process : option nat;
  process_watcher : option nat;
  proc_stopping : bool;
  trick_stopping : bool;
  lock : option tid;                    (* holder of _stopping_lock across a serialised restart *)
  tpc : option rpc;                     (* T: None = idle *)
  watchers : list watcher;              (* watcher i watches child (w_child) ; index in this list = its id *)
  mpcs : mpc;
  spawns : nat;                         (* ghost *)
  admitted : nat;                       (* ghost: _restart_process calls that found _is_trick_stopping unset (RCheck) *)
  max_alive : nat                       (* ghost: maximum number of children alive at a Spawn *)
}.

Inductive label := Trigger | TStep | WStep (i : nat) | StopCall | MStep | Exit (i : nat) | Tick (d : N).

Definition count_alive (l : list bool) : nat := length (filter (fun b => b) l).
Definition alive_children (s : state) : nat := count_alive (children s).

Fixpoint set_nth {A} (n : nat) (x : A) (l : list A) : list A :=
  match n, l with
  | _, [] => []
  | O, _ :: t => x :: t
  | S k, h :: t => h :: set_nth k x t
  end.

Definition child_alive (s : state) (i : nat) : bool := nth i (children s) false.

Section Variant.
  Variable serial : bool.
  Variable restart_on_exit : bool.
  Variable kill_after : N.

  (* start(): the first child (and its watcher) exists before any trigger / stop is issued *)
  Definition init_state : state :=
    mk 0 [true] (Some 0%nat) (if restart_on_exit then Some 0%nat else None) false false None None
       (if restart_on_exit then [mkw 0 WPoll false] else []) MIdle 1 0 1.

  Definition upd (s : state) ch pr pw ps ts lk sp td :=
    mk (clock s) ch pr pw ps ts lk (tpc s) (watchers s) (mpcs s) sp td
       (Nat.max (max_alive s) (count_alive ch)).

  Definition stop_watcher (ws : list watcher) (i : nat) : list watcher :=
    match nth_error ws i with
    | Some w => set_nth i (mkw (w_child w) (w_pc w) true) ws
    | None => ws
    end.

  Definition lock_free_for (s : state) (t : tid) : bool :=
    match lock s with None => true | Some o => tid_eqb o t end.

  (* One section of _restart_process run by thread [t]; returns the new shared state and next pc
     ([None] = not enabled: blocked on the lock or in the poll loop's sleep). *)
  Definition rstep (t : tid) (s : state) (r : rpc) : option (state * rpc) :=
    let same := fun r' => Some (s, r') in
    match r with
    | RLock =>
        if serial
        then match lock s with
             | None => Some (upd s (children s) (process s) (process_watcher s) (proc_stopping s) (trick_stopping s)
                                 (Some t) (spawns s) (admitted s), RCheck)
             | Some _ => None
             end
        else same RCheck
    | RCheck => if trick_stopping s then same RUnlock
                else Some (upd s (children s) (process s) (process_watcher s) (proc_stopping s) (trick_stopping s)
                               (lock s) (spawns s) (S (admitted s)), PEnter)
    | PEnter =>
        if lock_free_for s t
        then if proc_stopping s then same SCheck     (* early return of _stop_process; caller goes on *)
             else Some (upd s (children s) (process s) (process_watcher s) true (trick_stopping s) (lock s)
                            (spawns s) (admitted s), PWatcher)
        else None
    | PWatcher =>
        match process_watcher s with
        | Some w => Some (mk (clock s) (children s) (process s) None (proc_stopping s) (trick_stopping s) (lock s)
                             (tpc s) (stop_watcher (watchers s) w) (mpcs s) (spawns s) (admitted s) (max_alive s),
                          PSignal)
        | None => same PSignal
        end
    | PSignal =>
        match process s with
        | None => same PLeave
        | Some p => if child_alive s p then same (PWait p (clock s + kill_after)) else same PClear
        end
    | PWait p kt =>
        if negb (child_alive s p) then same PClear
        else if N.leb kt (clock s)
             then Some (upd s (set_nth p false (children s)) (process s) (process_watcher s) (proc_stopping s)
                            (trick_stopping s) (lock s) (spawns s) (admitted s), PClear)   (* SIGKILL *)
             else None
    | PClear => Some (upd s (children s) None (process_watcher s) (proc_stopping s) (trick_stopping s) (lock s)
                          (spawns s) (admitted s), PLeave)
    | PLeave => Some (upd s (children s) (process s) (process_watcher s) false (trick_stopping s) (lock s)
                          (spawns s) (admitted s), SCheck)
    | SCheck => if trick_stopping s then same RUnlock else same SSpawn
    | SSpawn =>
        let c := length (children s) in
        Some (upd s (children s ++ [true]) (Some c) (process_watcher s) (proc_stopping s) (trick_stopping s) (lock s)
                  (S (spawns s)) (admitted s),
              if restart_on_exit then SWatcher c else RUnlock)
    | SWatcher c =>
        let w := length (watchers s) in
        Some (mk (clock s) (children s) (process s) (Some w) (proc_stopping s) (trick_stopping s) (lock s)
                 (tpc s) (watchers s ++ [mkw c WPoll false]) (mpcs s) (spawns s) (admitted s) (max_alive s),
              RUnlock)
    | RUnlock =>
        Some (upd s (children s) (process s) (process_watcher s) (proc_stopping s) (trick_stopping s)
                  (if serial then (if lock_free_for s t then None else lock s) else lock s)
                  (spawns s) (admitted s), RDone)
    | RDone => None
    end.

  Definition set_tpc (s : state) (p : option rpc) : state :=
    mk (clock s) (children s) (process s) (process_watcher s) (proc_stopping s) (trick_stopping s) (lock s)
       p (watchers s) (mpcs s) (spawns s) (admitted s) (max_alive s).
  Definition set_wpc (s : state) (i : nat) (p : wpc) : state :=
    match nth_error (watchers s) i with
    | Some w => mk (clock s) (children s) (process s) (process_watcher s) (proc_stopping s) (trick_stopping s) (lock s)
                   (tpc s) (set_nth i (mkw (w_child w) p (w_stopped w)) (watchers s)) (mpcs s) (spawns s)
                   (admitted s) (max_alive s)
    | None => s
    end.
  Definition set_mpc (s : state) (p : mpc) : state :=
    mk (clock s) (children s) (process s) (process_watcher s) (proc_stopping s) (trick_stopping s) (lock s)
       (tpc s) (watchers s) p (spawns s) (admitted s) (max_alive s).

  Definition rs_step (s : state) (l : label) : option state :=
    match l with
    | Trigger => match tpc s with None => Some (set_tpc s (Some RLock)) | Some _ => None end
    | TStep =>
        match tpc s with
        | Some RDone => Some (set_tpc s None)
        | Some r => match rstep TT s r with Some (s', r') => Some (set_tpc s' (Some r')) | None => None end
        | None => None
        end
    | WStep i =>
        match nth_error (watchers s) i with
        | None => None
        | Some w =>
            match w_pc w with
            | WPoll => if child_alive s (w_child w) then Some (set_wpc s i WWait) else Some (set_wpc s i WNoticed)
            | WWait => if w_stopped w then Some (set_wpc s i WDone) else Some (set_wpc s i WPoll)
            | WNoticed => if w_stopped w then Some (set_wpc s i WDone) else Some (set_wpc s i (WRestart RLock))
            | WRestart RDone => Some (set_wpc s i WDone)
            | WRestart r => match rstep (TW i) s r with
                            | Some (s', r') => Some (set_wpc s' i (WRestart r'))
                            | None => None
                            end
            | WDone => None
            end
        end
    | StopCall => match mpcs s with MIdle => Some (set_mpc s MFlag) | _ => None end
    | MStep =>
        match mpcs s with
        | MFlag =>
            if lock_free_for s TM
            then if trick_stopping s then Some (set_mpc s MReturned)
                 else Some (set_mpc (upd s (children s) (process s) (process_watcher s) (proc_stopping s) true (lock s)
                                         (spawns s) (admitted s)) MCapture)
            else None
        | MCapture => Some (set_mpc s (MStop (process_watcher s) PEnter))
        | MStop w SCheck => Some (set_mpc s (MJoin w))        (* _stop_process returned *)
        | MStop w r => match rstep TM s r with Some (s', r') => Some (set_mpc s' (MStop w r')) | None => None end
        | MJoin None => Some (set_mpc s MReturned)
        | MJoin (Some i) =>
            match nth_error (watchers s) i with
            | Some w => match w_pc w with WDone => Some (set_mpc s MReturned) | _ => None end
            | None => Some (set_mpc s MReturned)
            end
        | MIdle | MReturned => None
        end
    | Exit i => if child_alive s i
                then Some (upd s (set_nth i false (children s)) (process s) (process_watcher s) (proc_stopping s)
                               (trick_stopping s) (lock s) (spawns s) (admitted s))
                else None
    | Tick d => Some (mk (clock s + d) (children s) (process s) (process_watcher s) (proc_stopping s) (trick_stopping s)
                         (lock s) (tpc s) (watchers s) (mpcs s) (spawns s) (admitted s) (max_alive s))
    end.

  Definition restart_lts : lts := {| St := state; Lbl := label; init := init_state; step := rs_step |}.

  Definition watcher_done (s : state) (i : nat) : bool :=
    match nth_error (watchers s) i with
    | Some w => match w_pc w with WDone => true | _ => false end
    | None => true
    end.
  (* a watcher that is neither finished nor already told to stop *)
  Definition watcher_live (w : watcher) : bool :=
    match w_pc w with WDone => false | _ => negb (w_stopped w) end.
End Variant.

(* ---- a watcher WITHOUT the second look at its stop flag (kept for a refutation) ----
   The flag is tested only in the loop head / wait (WWait); when poll() then reports the child dead the
   termination callback runs at once.  This is the shape of `while self.should_keep_running(): if poll() is
   not None: break; wait(0.1)` followed by an unguarded callback. *)
Definition rs_step_norecheck (serial restart_on_exit : bool) (kill_after : N) (s : state) (l : label) : option state :=
  match l with
  | WStep i =>
      match nth_error (watchers s) i with
      | Some w =>
          match w_pc w with
          | WPoll => if child_alive s (w_child w) then Some (set_wpc s i WWait)
                     else Some (set_wpc s i (WRestart RLock))
          | _ => rs_step serial restart_on_exit kill_after s l
          end
      | None => None
      end
  | _ => rs_step serial restart_on_exit kill_after s l
  end.

Definition restart_lts_norecheck (serial restart_on_exit : bool) (kill_after : N) : lts :=
  {| St := state; Lbl := label; init := init_state restart_on_exit;
     step := rs_step_norecheck serial restart_on_exit kill_after |}.

Fixpoint count_trigger (tr : list label) : nat :=
  match tr with [] => O | Trigger :: t => S (count_trigger t) | _ :: t => count_trigger t end.

(* ---- views used by the statements about the repaired protocol ---- *)
(* where thread t currently is inside _restart_process / _stop_process (None: not inside) *)
Definition wr (w : watcher) : option rpc := match w_pc w with WRestart r => Some r | _ => None end.
Definition rp (s : state) (t : tid) : option rpc :=
  match t with
  | TT => tpc s
  | TW i => match nth_error (watchers s) i with Some w => wr w | None => None end
  | TM => match mpcs s with MStop _ r => Some r | _ => None end
  end.
(* admitted (passed `if self._is_trick_stopping: return`) but not yet at/after Popen *)
Definition prespawn (r : rpc) : bool :=
  match r with PEnter | PWatcher | PSignal | PWait _ _ | PClear | PLeave | SCheck | SSpawn => true | _ => false end.
(* the admitted _restart_process call, if any, of the thread holding the lock that has not reached Popen yet: 0 or 1 *)
Definition pending (s : state) : nat :=
  match lock s with
  | Some t => match rp s t with Some r => if prespawn r then 1 else 0 | None => 0 end
  | None => 0
  end%nat.
