(* C04 - Queued events reach each registered handler exactly once, in order, no one else.
   Statements only; every proof is `exact <lemma>`.  All statements quantify over every reachable
   state = every label list = every interleaving of dispatcher, emitter and API threads, re-entrant
   calls from callbacks included, for both variants of start() (fixed = false: pinned code). *)
Require Import WD.Base.Prelude WD.Model.Observer WD.Proofs.ObserverProofs WD.Proofs.ObserverInv WD.Proofs.ObserverRet
  WD.Proofs.ObserverDisp WD.Proofs.ObserverExamples.

(* FIFO per watch: what was dequeued so far, followed by what is still queued, is exactly what the
   emitters of that watch enqueued, in order. *)
Theorem C04_fifo : forall s, reachable s -> forall w,
  queued w s = dequeued w s ++ queue_of w (queue s).
Proof. exact fifo. Qed.
Print Assumptions C04_fifo.

(* A put is dropped only when the event equals SkipRepeatsQueue._last_item (the model's [qlast]), and in every
   reachable state _last_item, if not None, is the last, still undelivered, element of the queue.
   (The hypothesis [reachable s] is new: the skip test is now on the modelled _last_item field, whose relation
   to the queue is an invariant, not a definition - the marker's identity test in _get can reset _last_item
   while another marker is still queued.) *)
Theorem C04_coalesce_only_identical_last : forall s, reachable s -> forall e ev s', step s (LESkip e ev) = Some s' ->
  exists m, get_em s e = Some m /\ qlast s = Some (QEv ev (ew m)) /\
            last_is (queue s) (QEv ev (ew m)) = true /\ queue s' = queue s.
Proof. exact skip_justified. Qed.
Print Assumptions C04_coalesce_only_identical_last.

Theorem C04_last_item_is_last_queued : forall s, reachable s -> forall x, qlast s = Some x -> last_is (queue s) x = true.
Proof. exact QlastInv_reachable. Qed.
Print Assumptions C04_last_item_is_last_queued.

(* A handler is called only by the dispatcher's turn instruction, only with the event in dispatch and
   its watch, only if it is in the snapshot taken for this event and has not had its turn, and only if
   it is registered for that watch at that moment; its turn is then consumed (at most once per dispatch). *)
Theorem C04_callback_justified : forall s t i k inp s' h w e x,
  exec s t i k inp = Some s' -> glog s' = GCb h w e :: x :: glog s ->
  i = DTurns /\ dcur s = Some (e, w) /\ memN h (dtodo s) = true /\
  memN h (hset w (handlers s)) = true /\ dtodo s' = remN h (dtodo s) /\ x = GTurn h.
Proof. exact exec_callback. Qed.
Print Assumptions C04_callback_justified.

(* In every run, at every callback (h,w,e) the last registration event of (h,w) before it is an add:
   a handler never receives an event of a watch it is not registered for at that moment. *)
Theorem C04_never_foreign : forall s, reachable s ->
  forall l2 h w e l1, glog s = l2 ++ GCb h w e :: l1 -> reg l1 h w = true.
Proof. exact callbacks_registered. Qed.
Print Assumptions C04_never_foreign.

(* FULL STATEMENT.  [dl (glog s)] reads the log as the list of dispatches, newest first: event, watch, the
   snapshot of the handler set taken under the lock, and the turns given so far, each with the flag
   "the handler was registered for the watch at that moment" (computed from the registration events of
   the log, not from the callbacks).  In every reachable state, for every handler h and watch w:
   what h received for w is exactly, in order, the dequeued events of w in whose dispatch h had its turn
   while registered; and the dequeued events of w are the dispatches of w (with C04_fifo: the queued
   events of w, in order). *)
Theorem C04_full : forall s, reachable s -> forall h w,
  delivered h w s = map re (filter (sel h w) (rev (dl (glog s)))) /\
  dequeued w s = map re (filter (selw w) (rev (dl (glog s)))).
Proof. exact delivered_is_filtered_dequeued. Qed.
Print Assumptions C04_full.

(* Exactly once: every dispatch in the log except possibly the one in progress is complete - each handler
   of its snapshot had exactly one turn (NoDup) and nobody else had one; a dispatch ends (the dispatcher
   is back at an idle position) only when it is complete; the one in progress has served a duplicate-free
   subset of its snapshot. *)
Theorem C04_exactly_once : forall s, reachable s ->
  match dl (glog s) with
  | [] => True
  | r :: ds =>
      Forall complete ds /\ NoDup (map fst (rturns r)) /\
      (forall hs, rsnap r = Some hs -> forall h, In h (map fst (rturns r)) -> In h hs) /\
      (idle_pos (after_d (dcont s)) -> complete r)
  end.
Proof. exact dispatches_well_formed. Qed.
Print Assumptions C04_exactly_once.

(* A handler is called only by the dispatcher thread and only while it holds the observer lock
   (so nobody else can change the handler sets during a dispatch). *)
Theorem C04_callback_under_lock : forall s t i k inp s' h w e x, reachable s -> cont s t = i :: k ->
  exec s t i k inp = Some s' -> glog s' = GCb h w e :: x :: glog s ->
  t = TD /\ exists n, lock s = Some (TD, S n).
Proof. exact callback_under_lock. Qed.
Print Assumptions C04_callback_under_lock.

Example C04_nonvacuous :
  option_map (fun s => (delivered 1%N 2%N s, queued 2%N s, dequeued 2%N s, queue s, dl (glog s))) (run init tr_deliver)
  = Some ([7], [7], [7], [], [{| re := 7; rw := 2; rsnap := Some [1]; rturns := [(1, true)] |}])%N.
Proof. vm_compute. reflexivity. Qed.

(* The emitter's read of _last_item and its enqueue are separate steps (LECheck, then LESkip / LEPut): a
   dispatcher get in between is a behaviour of the model. *)
Example C04_get_between_read_and_enqueue :
  option_map (fun s => (queue s, qlast s, step s (LESkip 0%nat 7%N),
                        option_map (fun s' => (queue s', qlast s')) (step s (LEPut 0%nat 7%N))))
             (run init tr_get_between_read_and_put)
  = Some ([], None, None, Some ([QEv 7 2], Some (QEv 7 2)))%N.
Proof. vm_compute. reflexivity. Qed.
