(* C03 - every delivered event is justified and correctly typed; single operations meet their contract.
   Only statements; every proof is `exact <lemma>`.  Definitions: Model/Contract.v (contract, deliver_one, cover, justified,
   sound_along); proofs: Proofs/ContractProofs.v, TieProofs.v, MoveOutProofs.v, ReplaceProofs.v, SoundSeqProofs.v, SoundPipeProofs.v.
   PROVED: the shape laws of emit; the per-operation contract for every operation kind from covered / synchronised states
   (the C03_contract_ theorems); deliver_one = one Pipeline block (C03_pipeline_tie); and on the Pipeline model, for block histories (one
   operation, the whole kernel queue read, the pairing delay, everything emitted) of the class ops_x3 from pinit - covered
   operations, directory move-ins, move-outs and what follows them, a directory renamed over an empty directory of the tree -
   COMPLETENESS (the stream is the per-operation contracts, block by block up to collapse: C03_contract_sequential) and
   SOUNDNESS (sound_along holds: C03_sound_pipeline_sequential).  The pinned refutations (F10, F10e) and their _repaired twins.
   The same with PARTIAL READS: every block's records split arbitrarily between several ARead steps (C03_contract_cuts,
   C03_sound_pipeline_cuts), and with LOOSE TIMING after the reads: any ticks and queue_events calls before the final delay
   (C03_contract_loose).  No operation, tick or queue_events call between the reads of a block.
   BURSTS of FILE-LEVEL operations (several operations before a read; no directory created, removed or renamed): the stream
   is the per-operation contracts and every event is justified, at the read_batch / delivered level (C03_burst_files_contract,
   C03_burst_files_sound) and on the Pipeline model with cut reads and loose timing (C03_burst_files_pipeline); side condition:
   no record coalesced by the kernel across an operation border.
   STATED ONLY: C03_sound_full_current - soundness over ALL interleavings: bursts that contain directory operations, operations
   or ticks / queue_events between the reads of a block. *)
Require Import WD.Base.Prelude WD.Base.BStr WD.Model.SubEvents WD.Model.Emitter WD.Model.Fs WD.Model.Reader
               WD.Model.DelayQueue WD.Model.Grouping WD.Model.Pipeline WD.Model.Contract.
Require Import WD.Proofs.ContractProofs WD.Proofs.TieProofs WD.Proofs.MoveOutProofs WD.Proofs.CoverProofs WD.Proofs.ReplaceProofs
               WD.Proofs.CoverOutProofs WD.Proofs.ReplayProofs WD.Proofs.ReplayOutProofs WD.Proofs.SoundSeqProofs
               WD.Proofs.ReplayPipeProofs WD.Proofs.SoundPipeProofs
               WD.Proofs.CutsProofs WD.Proofs.CutsPipeProofs WD.Proofs.SoundCutsProofs WD.Proofs.SoundLooseProofs
               WD.Proofs.BurstProofs.

(* ================================================================== soundness: shape of what [emit] produces *)
(* Hold for every item, every configuration, every content oracle - no hypothesis. *)

(* A non-synthetic event is DirModified(dirname p) for a path p the item names, or its File/Dir flavour is
   `is_directory` of the raw event it was made from (for a pair: of the MOVED_FROM half). *)
Theorem C03_flavour : forall full rec root ct it e,
  In e (fst (emit full rec root ct it)) -> ev_synth e = false ->
  (exists p, In p (item_paths it) /\ e = parent_modified p) \/
  cls_isdir (ev_cls e) = is_directory (r_mask (item_head it)).
Proof. exact emit_flavour. Qed.
Print Assumptions C03_flavour.

(* is_synthetic only for the events of generate_sub_moved_events / generate_sub_created_events: only with a
   recursive watch, only for a directory pair / a directory MOVED_TO, and then (C14) the event names a real
   descendant [rel] of the directory found under the new name: dest = new/rel and src = old/rel - the same
   relative path under the old name. *)
Theorem C03_synthetic_only_descendants : forall full rec root ct it e,
  In e (fst (emit full rec root ct it)) -> ev_synth e = true ->
  rec = true /\ is_directory (r_mask (item_head it)) = true /\
  ((exists f t, it = Pair f t /\
      (r_path f <> [] -> r_path t <> [] -> last_is_sep (r_path t) = false ->
       wf_tree (ct (r_path t)) = true ->
       exists k rel, In (k, rel) (desc [] (ct (r_path t))) /\
         e = {| ev_cls := moved_cls (kdir k); ev_src := r_path f ++ relsuffix rel;
                ev_dest := r_path t ++ relsuffix rel; ev_synth := true |})) \/
   (exists r, it = Single r /\ is_moved_to (r_mask r) = true /\
      (r_path r <> [] -> last_is_sep (r_path r) = false -> wf_tree (ct (r_path r)) = true ->
       exists k rel, In (k, rel) (desc [] (ct (r_path r))) /\
         e = {| ev_cls := created_cls (kdir k); ev_src := r_path r ++ relsuffix rel;
                ev_dest := []; ev_synth := true |}))).
Proof. exact emit_synthetic. Qed.
Print Assumptions C03_synthetic_only_descendants.

(* The moved event made from a pair carries the paths of its two halves ... *)
Theorem C03_moved_pair_paths : forall full rec root ct f t e,
  In e (fst (emit full rec root ct (Pair f t))) -> ev_synth e = false -> cls_what (ev_cls e) = WMoved ->
  ev_src e = r_path f /\ ev_dest e = r_path t /\ cls_isdir (ev_cls e) = is_directory (r_mask f).
Proof. exact emit_pair_paths. Qed.
Print Assumptions C03_moved_pair_paths.

(* ... and the two halves of a pair made by the grouping of one batch are one kernel rename: same cookie. *)
Theorem C03_moved_pair_cookie : forall C b f t,
  In (Pair f t) (group_batch C b) ->
  r_cookie f = r_cookie t /\ is_moved_from (r_mask f) = true /\ is_moved_to (r_mask t) = true.
Proof. exact group_batch_pair_cookie. Qed.
Print Assumptions C03_moved_pair_cookie.

(* A DirModified event is never synthetic, has no dest, and names dirname of a path of the item - or the item's
   own path when the raw event is IN_ATTRIB/IN_MODIFY about a directory. *)
Theorem C03_parent_modified : forall full rec root ct it e,
  In e (fst (emit full rec root ct it)) -> ev_cls e = DirModified ->
  ev_synth e = false /\ ev_dest e = [] /\
  ((exists p, In p (item_paths it) /\ ev_src e = dirname p) \/
   (exists r, it = Single r /\ ev_src e = r_path r /\ is_directory (r_mask r) = true)).
Proof. exact emit_dir_modified. Qed.
Print Assumptions C03_parent_modified.

(* ================================================================== completeness, one operation issued alone *)
(* For every configuration (recursive or not, full emitter or not, pinned or repaired reader), every world and
   every reader/kernel state with an empty kernel queue and no directory IN_MOVED_FROM pending ([pend r = None]:
   every quiescent state except right after a directory was moved out) in which the watch bookkeeping covers the directories
   the operation touches ([cover]: a directory inside the scope has a kernel watch with the full mask whose
   descriptor maps to its path in _path_for_wd/_wd_for_path, a directory outside has none): what the kernel
   queues, read in one batch, grouped and emitted equals the contract after collapsing adjacent duplicates.
   The entry is written parent ++ "/" ++ name with a valid name. *)

Theorem C03_contract_touch : forall C full w k r, k_queue k = [] -> pend r = None ->
  forall d n w', d <> [] -> last_is_sep d = false -> valid_name n = true ->
  cover C r k (w_fs w) d ->
  apply_op w (Touch (d ++ sep :: n)) = Some w' ->
  exists evs, deliver_one C full w k r (Touch (d ++ sep :: n)) = Some evs /\
    collapse evs = collapse (contract (c_recursive C) full (c_root C) (w_fs w) (Touch (d ++ sep :: n))).
Proof. exact contract_touch. Qed.
Print Assumptions C03_contract_touch.

Theorem C03_contract_write : forall C full w k r, k_queue k = [] -> pend r = None ->
  forall d n w', d <> [] -> last_is_sep d = false -> valid_name n = true ->
  cover C r k (w_fs w) d ->
  apply_op w (Write (d ++ sep :: n)) = Some w' ->
  exists evs, deliver_one C full w k r (Write (d ++ sep :: n)) = Some evs /\
    collapse evs = collapse (contract (c_recursive C) full (c_root C) (w_fs w) (Write (d ++ sep :: n))).
Proof. exact contract_write. Qed.
Print Assumptions C03_contract_write.

Theorem C03_contract_chmod_file : forall C full w k r, k_queue k = [] -> pend r = None ->
  forall d n w', d <> [] -> last_is_sep d = false -> valid_name n = true ->
  cover C r k (w_fs w) d ->
  fisdir (d ++ sep :: n) (w_fs w) = false ->
  apply_op w (Chmod (d ++ sep :: n)) = Some w' ->
  exists evs, deliver_one C full w k r (Chmod (d ++ sep :: n)) = Some evs /\
    collapse evs = collapse (contract (c_recursive C) full (c_root C) (w_fs w) (Chmod (d ++ sep :: n))).
Proof. exact contract_chmod_file. Qed.
Print Assumptions C03_contract_chmod_file.

(* a directory other than the watched root (chmod of the root itself is reported as DirModified(root), which
   neither this contract nor the Python one describes: the root is not "in scope") *)
Theorem C03_contract_chmod_dir : forall C full w k r, k_queue k = [] -> pend r = None ->
  forall d n w', d <> [] -> last_is_sep d = false -> valid_name n = true ->
  cover C r k (w_fs w) d -> cover C r k (w_fs w) (d ++ sep :: n) ->
  d ++ sep :: n <> c_root C ->
  fisdir (d ++ sep :: n) (w_fs w) = true ->
  apply_op w (Chmod (d ++ sep :: n)) = Some w' ->
  exists evs, deliver_one C full w k r (Chmod (d ++ sep :: n)) = Some evs /\
    collapse evs = collapse (contract (c_recursive C) full (c_root C) (w_fs w) (Chmod (d ++ sep :: n))).
Proof. exact contract_chmod_dir. Qed.
Print Assumptions C03_contract_chmod_dir.

Theorem C03_contract_unlink : forall C full w k r, k_queue k = [] -> pend r = None ->
  forall d n w', d <> [] -> last_is_sep d = false -> valid_name n = true ->
  cover C r k (w_fs w) d ->
  apply_op w (Unlink (d ++ sep :: n)) = Some w' ->
  exists evs, deliver_one C full w k r (Unlink (d ++ sep :: n)) = Some evs /\
    collapse evs = collapse (contract (c_recursive C) full (c_root C) (w_fs w) (Unlink (d ++ sep :: n))).
Proof. exact contract_unlink. Qed.
Print Assumptions C03_contract_unlink.

(* mkdir; `has_children p = false`: no entry of the tree lies directly under the not yet existing path
   (part of the well-formedness of a tree) *)
Theorem C03_contract_mkdir : forall C full w k r, k_queue k = [] -> pend r = None ->
  forall d n w', d <> [] -> last_is_sep d = false -> valid_name n = true ->
  cover C r k (w_fs w) d ->
  has_children (d ++ sep :: n) (w_fs w) = false ->
  apply_op w (Mkdir (d ++ sep :: n)) = Some w' ->
  exists evs, deliver_one C full w k r (Mkdir (d ++ sep :: n)) = Some evs /\
    collapse evs = collapse (contract (c_recursive C) full (c_root C) (w_fs w) (Mkdir (d ++ sep :: n))).
Proof. exact contract_mkdir. Qed.
Print Assumptions C03_contract_mkdir.

(* rmdir of a directory other than the watched root (that case is C07_root_deleted) *)
Theorem C03_contract_rmdir : forall C full w k r, k_queue k = [] -> pend r = None ->
  forall d n w', d <> [] -> last_is_sep d = false -> valid_name n = true ->
  cover C r k (w_fs w) d -> cover C r k (w_fs w) (d ++ sep :: n) ->
  d ++ sep :: n <> c_root C ->
  apply_op w (Rmdir (d ++ sep :: n)) = Some w' ->
  exists evs, deliver_one C full w k r (Rmdir (d ++ sep :: n)) = Some evs /\
    collapse evs = collapse (contract (c_recursive C) full (c_root C) (w_fs w) (Rmdir (d ++ sep :: n))).
Proof. exact contract_rmdir. Qed.
Print Assumptions C03_contract_rmdir.

(* rename of a file: inside the scope, out of it, into it, between two places outside; the target is absent or
   a file that is replaced *)
Theorem C03_contract_rename_file : forall C full w k r, k_queue k = [] -> pend r = None ->
  forall dp np dq nq w',
  dp <> [] -> last_is_sep dp = false -> valid_name np = true ->
  dq <> [] -> last_is_sep dq = false -> valid_name nq = true ->
  cover C r k (w_fs w) dp -> cover C r k (w_fs w) dq ->
  fisdir (dp ++ sep :: np) (w_fs w) = false -> fisdir (dq ++ sep :: nq) (w_fs w) = false ->
  apply_op w (Rename (dp ++ sep :: np) (dq ++ sep :: nq)) = Some w' ->
  exists evs, deliver_one C full w k r (Rename (dp ++ sep :: np) (dq ++ sep :: nq)) = Some evs /\
    collapse evs = collapse (contract (c_recursive C) full (c_root C) (w_fs w)
                                      (Rename (dp ++ sep :: np) (dq ++ sep :: nq))).
Proof. exact contract_rename_file. Qed.
Print Assumptions C03_contract_rename_file.

(* rename of a directory onto a name that does not exist: inside the scope (moved + both parents modified + one
   synthetic moved per descendant in os.walk order, by C14), out of it, into it (created + synthetic created per
   descendant).  Two facts about the tree are hypotheses: os.walk under the new name afterwards finds what it found
   under the old name before, and the names found are valid file names. *)
Theorem C03_contract_rename_dir_tree : forall C full w k r, k_queue k = [] -> pend r = None ->
  forall dp np dq nq w',
  dp <> [] -> last_is_sep dp = false -> valid_name np = true ->
  dq <> [] -> last_is_sep dq = false -> valid_name nq = true ->
  cover C r k (w_fs w) dp -> cover C r k (w_fs w) dq ->
  fisdir (dp ++ sep :: np) (w_fs w) = true -> fisdir (dq ++ sep :: nq) (w_fs w) = false ->
  content (w_fs w') (dq ++ sep :: nq) = content (w_fs w) (dp ++ sep :: np) ->
  wf_tree (content (w_fs w) (dp ++ sep :: np)) = true ->
  apply_op w (Rename (dp ++ sep :: np) (dq ++ sep :: nq)) = Some w' ->
  exists evs, deliver_one C full w k r (Rename (dp ++ sep :: np) (dq ++ sep :: nq)) = Some evs /\
    collapse evs = collapse (contract (c_recursive C) full (c_root C) (w_fs w)
                                      (Rename (dp ++ sep :: np) (dq ++ sep :: nq))).
Proof. exact contract_rename_dir_tree. Qed.
Print Assumptions C03_contract_rename_dir_tree.

(* The same from well-formedness of the tree: every entry's path is parent ++ "/" ++ valid name, the target does
   not exist and nothing lies under it. *)
Theorem C03_contract_rename_dir : forall C full w k r, k_queue k = [] -> pend r = None ->
  forall dp np dq nq w',
  dp <> [] -> last_is_sep dp = false -> valid_name np = true ->
  dq <> [] -> last_is_sep dq = false -> valid_name nq = true ->
  cover C r k (w_fs w) dp -> cover C r k (w_fs w) dq ->
  fisdir (dp ++ sep :: np) (w_fs w) = true -> fexists (dq ++ sep :: nq) (w_fs w) = false ->
  (forall e, In e (w_fs w) -> wf_path (f_path e)) ->
  (forall e, In e (w_fs w) -> under (dq ++ sep :: nq) (f_path e) = false) ->
  apply_op w (Rename (dp ++ sep :: np) (dq ++ sep :: nq)) = Some w' ->
  exists evs, deliver_one C full w k r (Rename (dp ++ sep :: np) (dq ++ sep :: nq)) = Some evs /\
    collapse evs = collapse (contract (c_recursive C) full (c_root C) (w_fs w)
                                      (Rename (dp ++ sep :: np) (dq ++ sep :: nq))).
Proof. exact contract_rename_dir. Qed.
Print Assumptions C03_contract_rename_dir.

(* A directory of the tree renamed over an EMPTY directory of the tree (recursive watch; both names inside the scope, so the
   replaced directory has a watch of its own): moved + both parents modified + one synthetic moved per descendant +
   DirModified(q) made from the kernel's IN_ATTRIB on the replaced directory (its IN_DELETE_SELF and IN_IGNORED produce
   nothing).  The victim's three records are read AFTER the reader has re-keyed its tables for the move, so local [cover]
   facts do not suffice: the hypothesis is c02p's synchronisation invariant [RSync] (well-formed tree, tables and kernel
   watches in bijection with the directories in scope, kernel queue empty, nothing pending), and the watch-state side is
   c02p's rename_dir_rekey (C02_step_rename_dir_over).  That os.walk under the new name finds what it found under the old
   name is no longer a hypothesis (C03_rename_dir_content). *)
Theorem C03_contract_rename_dir_replacing : forall C full w k r p q w' ep v,
  RSync C w k r -> npath p -> npath q -> c_recursive C = true -> c_mask C = WATCHDOG_ALL ->
  apply_op w (Rename p q) = Some w' ->
  flookup p (w_fs w) = Some ep -> f_dir ep = true -> scope C p -> p <> c_root C -> scope C q -> q <> c_root C ->
  flookup q (w_fs w) = Some v -> f_dir v = true ->
  exists evs, deliver_one C full w k r (Rename p q) = Some evs /\
    collapse evs = collapse (contract (c_recursive C) full (c_root C) (w_fs w) (Rename p q)).
Proof. exact contract_rename_dir_over. Qed.
Print Assumptions C03_contract_rename_dir_replacing.

(* In a well-formed world ([wf_fs]: unique normalised paths and inodes, parent-closed) every successful rename of a
   directory - onto a free name or over an empty directory - moves the sub-tree as it is: os.walk under the new name
   finds what it found under the old name (same names, same order).  [content]'s fuel, the number of entries, is more
   than enough for every sub-tree, [fremove] of the replaced directory touches nothing below p, [frename] is a map. *)
Theorem C03_rename_dir_content : forall w p q w', wf_fs w -> npath p -> npath q ->
  apply_op w (Rename p q) = Some w' -> fisdir p (w_fs w) = true ->
  content (w_fs w') q = content (w_fs w) p.
Proof. exact rename_dir_content. Qed.
Print Assumptions C03_rename_dir_content.

(* C03_contract_rename_dir_tree without its two tree hypotheses: a directory renamed onto a free name in a well-formed
   world - inside the scope, out of it, into it. *)
Theorem C03_contract_rename_dir_wf : forall C full w k r p q w',
  k_queue k = [] -> pend r = None -> wf_fs w -> npath p -> npath q ->
  cover C r k (w_fs w) (dirname p) -> cover C r k (w_fs w) (dirname q) ->
  fisdir p (w_fs w) = true -> fisdir q (w_fs w) = false ->
  apply_op w (Rename p q) = Some w' ->
  exists evs, deliver_one C full w k r (Rename p q) = Some evs /\
    collapse evs = collapse (contract (c_recursive C) full (c_root C) (w_fs w) (Rename p q)).
Proof. exact contract_rename_dir_wf. Qed.
Print Assumptions C03_contract_rename_dir_wf.

(* The other case of a directory replacing an empty directory: the replaced directory has no watch of its own (non-recursive
   watch, or the target lies outside the scope) - the kernel reports nothing about it and the operation meets the contract
   of a rename onto a free name; local [cover] hypotheses, well-formed world. *)
Theorem C03_contract_rename_dir_replacing_unwatched : forall C full w k r p q w',
  k_queue k = [] -> pend r = None -> wf_fs w -> npath p -> npath q ->
  cover C r k (w_fs w) (dirname p) -> cover C r k (w_fs w) (dirname q) ->
  fisdir p (w_fs w) = true -> fisdir q (w_fs w) = true ->
  watch_of_ino k (ino_of (w_fs w) q) = None ->
  (c_recursive C = false \/ in_scope (c_recursive C) (c_root C) q = false) ->
  apply_op w (Rename p q) = Some w' ->
  exists evs, deliver_one C full w k r (Rename p q) = Some evs /\
    collapse evs = collapse (contract (c_recursive C) full (c_root C) (w_fs w) (Rename p q)).
Proof. exact contract_rename_dir_over_unwatched_wf. Qed.
Print Assumptions C03_contract_rename_dir_replacing_unwatched.

(* ================================================================== history-level soundness *)
(* Every event queued along any history of the pipeline model is justified by an operation executed before it. *)
Definition C03_sound_full : Prop :=
  forall P w s0 h, pc_filter P = None -> c_mask (pc_reader P) = WATCHDOG_ALL ->
    pinit P w = Some s0 -> sound_along P s0 [] h = true.

(* FALSE of the code BEFORE the repair of F10 (c_fix_moveout = false; the reader repairs F1, F9, F14 switched on;
   c_fix_relabel is irrelevant for this history): a directory moved out of the tree keeps its kernel watch and its stale in-tree path;
   `mkdir R/d; drain; mv R/d O/d; drain; touch O/d/g; drain` delivers FileCreated(R/d/g). *)
Theorem C03_sound_refuted_phantom :
  exists P w s0 h, pc_filter P = None /\ c_mask (pc_reader P) = WATCHDOG_ALL /\
    c_fix_ignored (pc_reader P) = true /\ c_fix_movein (pc_reader P) = true /\ c_fix_simulate (pc_reader P) = true /\
    c_fix_moveout (pc_reader P) = false /\
    pinit P w = Some s0 /\ sound_along P s0 [] h = false.
Proof. exact sound_refuted_phantom. Qed.
Print Assumptions C03_sound_refuted_phantom.

Theorem C03_sound_full_refuted : ~ C03_sound_full.
Proof. exact sound_full_false. Qed.
Print Assumptions C03_sound_full_refuted.

(* the witness, spelled out: the event names a path that does not exist; the file was created outside the tree *)
Theorem C03_phantom_delivered :
  exists s0 s obs, pinit ph_cfg ph_world = Some s0 /\ prun ph_cfg s0 ph_history [] = Done (s, obs) /\
    In (mk FileCreated ph_Rdg []) (p_out s) /\ fexists ph_Rdg (w_fs (p_world s)) = false /\
    fexists ph_Odg (w_fs (p_world s)) = true.
Proof. exact phantom_delivered. Qed.
Print Assumptions C03_phantom_delivered.

(* ================================================================== a directory that has left the tree (repair of F10) *)
(* All for the current code: c_fix_moveout = true.  [tgt p q]: q is p or below p. *)

(* A record the kernel delivers for a descriptor the reader does not (any longer) know produces no event, whatever is
   pending, and the descriptor stays unknown (pinned code: KeyError). *)
Theorem C03_forgotten_descriptor_no_event : forall C, c_fix_moveout C = true -> forall t r k acc e,
  alookup N.eqb (k_wd e) (pfw r) = None ->
  exists r' k', read_one C t (r, k, acc) e = Done (r', k', acc) /\ alookup N.eqb (k_wd e) (pfw r') = None.
Proof. exact read_one_forgotten. Qed.
Print Assumptions C03_forgotten_descriptor_no_event.

(* The loop head on the first record after a directory IN_MOVED_FROM that is not its IN_MOVED_TO arriving on a descriptor
   the reader knows (so: anything else, also the IN_MOVED_TO delivered through a forgotten descriptor): the key, the
   descriptor entry and the kernel watch of the directory and of everything below it are gone. *)
Theorem C03_moveout_forgets : forall C, c_fix_moveout C = true -> forall r k e c p r0 k0,
  pend r = Some (c, p) -> is_moved_to (k_mask e) && N.eqb (k_cookie e) c && amem N.eqb (k_wd e) (pfw r) = false ->
  settle_pending C r k e = (r0, k0) ->
  forall q wd, tgt p q = true -> alookup beqb q (wfp r) = Some wd -> alookup N.eqb wd (pfw r) = Some q ->
    alookup beqb q (wfp r0) = None /\ alookup N.eqb wd (pfw r0) = None /\ has_wd k0 wd = false.
Proof. exact moveout_forgets. Qed.
Print Assumptions C03_moveout_forgets.

(* No phantom events, from the first record processed after the IN_MOVED_FROM on: with consistent, normalised tables,
   the IN_MOVED_FROM of directory p pending and the next record not p's IN_MOVED_TO on a known descriptor (the directory
   has left the tree), any batch of records that are quiet (everything but IN_MOVED_TO and IN_CREATE|IN_ISDIR, which can
   legitimately re-create the name) or arrive on descriptors the reader does not know yields no raw event with a path
   below p and leaves no descriptor recorded at or below p.  No side condition about forgotten descriptors is left:
   p's own IN_MOVED_TO delivered through a forgotten descriptor is such a first record. *)
Theorem C03_no_phantom_after_moveout : forall C t r k acc c p e b r' k' acc',
  c_fix_moveout C = true -> consistent r -> pfw_norm r -> pend r = Some (c, p) ->
  is_moved_to (k_mask e) && N.eqb (k_cookie e) c && amem N.eqb (k_wd e) (pfw r) = false ->
  Forall (quiet_or_unknown r) (e :: b) ->
  read_batch C t (r, k, acc) (e :: b) = Done (r', k', acc') ->
  clean p r' /\ exists new, acc' = acc ++ new /\ Forall (fun ev => under p (r_path ev) = false) new.
Proof. exact no_phantom_after_moveout. Qed.
Print Assumptions C03_no_phantom_after_moveout.

(* ... and it stays so over any further batches of such records ([r0]: any earlier state bounding the descriptor table) *)
Theorem C03_no_phantom_clean : forall C, c_fix_moveout C = true -> forall p t r0 b r k acc r' k' acc',
  clean p r -> (forall wd q, alookup N.eqb wd (pfw r) = Some q -> alookup N.eqb wd (pfw r0) = Some q) ->
  Forall (quiet_or_unknown r0) b -> read_batch C t (r, k, acc) b = Done (r', k', acc') ->
  clean p r' /\ (forall wd q, alookup N.eqb wd (pfw r') = Some q -> alookup N.eqb wd (pfw r0) = Some q) /\
  exists new, acc' = acc ++ new /\ Forall (fun ev => under p (r_path ev) = false) new.
Proof. exact batch_no_phantom. Qed.
Print Assumptions C03_no_phantom_clean.

(* The history that refutes soundness of the pinned code, on the current code: sound; no event below /R/d; the watch of d
   is gone from _wd_for_path, _path_for_wd and the kernel. *)
Theorem C03_phantom_repaired :
  exists s0 s obs, pinit fx_cfg ph_world = Some s0 /\ prun fx_cfg s0 ph_history [] = Done (s, obs) /\
    sound_along fx_cfg s0 [] ph_history = true /\
    forallb (fun ev => negb (under ph_Rd (ev_src ev))) (p_out s) = true /\
    wfp (p_r s) = [(ph_R, 1%N)] /\ pfw (p_r s) = [(1%N, ph_R)] /\ pend (p_r s) = None /\
    has_wd (p_k s) 2 = false.
Proof. exact phantom_repaired. Qed.
Print Assumptions C03_phantom_repaired.

(* Two directories leave the tree in one burst, the second INTO the first (mv R/a O/x; mv R/b O/x/b read in one batch): the
   second IN_MOVED_TO arrives through R/a's still existing watch, a descriptor the reader has just forgotten.  The first
   version of the repair (candidate cleared on any IN_MOVED_TO with the cookie - not expressible with the flags) then kept
   R/b's watch and delivered mkdir O/x/b/z as DirCreated(R/b/z); found by this check's thorough tier, regression case
   corpus/C03/f10-nested-moveout.json.  Current code: sound, no event below /R/a or /R/b, both sub-trees forgotten. *)
Theorem C03_nested_moveout_repaired :
  exists s0 s obs, pinit fx_cfg ph_world = Some s0 /\ prun fx_cfg s0 gap_history [] = Done (s, obs) /\
    sound_along fx_cfg s0 [] gap_history = true /\
    forallb (fun ev => negb (under gap_Ra (ev_src ev)) && negb (under gap_Rb (ev_src ev))) (p_out s) = true /\
    wfp (p_r s) = [(ph_R, 1%N)] /\ pfw (p_r s) = [(1%N, ph_R)] /\ pend (p_r s) = None /\
    has_wd (p_k s) 2 = false /\ has_wd (p_k s) 3 = false.
Proof. exact nested_moveout_repaired. Qed.
Print Assumptions C03_nested_moveout_repaired.

(* F10e: mkdir R/c; mv R/c R/b; mkdir R/c back to back, drain, mv R/b R/c/c; mkdir R/c/b.  The name of a directory that was
   renamed before its first read is re-used before that read; inotify_add_watch("R/c") then returns the descriptor of
   whatever is at R/c now.  Code BEFORE the repair of F10e (c_fix_relabel = false, every other reader repair on): a stale key
   stays, a later rename drags the wrong watch, and mkdir R/c/b is delivered as DirCreated(R/c/c/b), a path that never
   existed. *)
Theorem C03_sound_pinned_refuted_f10e :
  c_fix_relabel (pc_reader f10e_cfg) = false /\
  exists s0 s obs, pinit f10e_cfg ph_world = Some s0 /\ prun f10e_cfg s0 f10e_history [] = Done (s, obs) /\
    In (mk DirCreated e_Rccb []) (p_out s) /\ fexists e_Rccb (w_fs (p_world s)) = false /\
    fexists e_Rcb (w_fs (p_world s)) = true /\
    sound_along f10e_cfg s0 [] f10e_history = false.
Proof. exact sound_pinned_refuted_f10e. Qed.
Print Assumptions C03_sound_pinned_refuted_f10e.

(* The same history on the current code (all repairs on): sound; every event names a path that existed (DirCreated(R/c/b) is
   delivered); the final tables are inverse to each other and record every kernel watch under the present path of its inode. *)
Theorem C03_f10e_repaired :
  exists s0 s obs, pinit fx_cfg ph_world = Some s0 /\ prun fx_cfg s0 f10e_history [] = Done (s, obs) /\
    sound_along fx_cfg s0 [] f10e_history = true /\
    forallb (fun ev => known_path (ev_src ev) && known_path (ev_dest ev)) (p_out s) = true /\
    In (mk DirCreated e_Rcb []) (p_out s) /\
    wfp (p_r s) = [(ph_R, 1%N); (e_Rc, 2%N); (e_Rcc, 3%N); (e_Rcb, 4%N)] /\
    pfw (p_r s) = [(1%N, ph_R); (2%N, e_Rc); (3%N, e_Rcc); (4%N, e_Rcb)] /\
    consistent (p_r s) /\
    forallb (fun kw => match alookup N.eqb (kw_wd kw) (pfw (p_r s)) with
                       | Some q => N.eqb (ino_of (w_fs (p_world s)) q) (kw_ino kw) && fisdir q (w_fs (p_world s))
                       | None => false end) (k_watches (p_k s)) = true.
Proof. exact f10e_repaired. Qed.
Print Assumptions C03_f10e_repaired.

(* History-level soundness of the current code (all five reader repairs on): stated, NOT proved.  Nothing refutes it any
   more: F10, its nested variant and F10e are repaired (the three _repaired theorems above), and the thorough tier of this
   check finds no unjustified event on the patched observer.  Its sequential instance is proved, also on the Pipeline model
   (C03_sound_pipeline_sequential: block histories of the class ops_x3 from pinit); what is left are the interleavings -
   bursts of operations before a read, partial reads, the pairing delay not elapsed between read and emit. *)
Definition C03_sound_full_current : Prop :=
  forall P w s0 h, pc_filter P = None -> c_mask (pc_reader P) = WATCHDOG_ALL ->
    c_fix_ignored (pc_reader P) = true -> c_fix_movein (pc_reader P) = true -> c_fix_simulate (pc_reader P) = true ->
    c_fix_relabel (pc_reader P) = true -> c_fix_moveout (pc_reader P) = true ->
    pinit P w = Some s0 -> sound_along P s0 [] h = true.

(* ================================================================== soundness along sequential histories *)
(* Every event of a contract is justified by that very operation (executable [justified], the mirror of
   pipeprops.justified): path in scope, kind, flavour, moved src/dest of one entry, synthetic only for descendants of the
   moved/arrived directory; the DirModified made from the IN_ATTRIB of a directory that is replaced by a rename is explained
   by that rename.  For every operation with normalised paths. *)
Theorem C03_contract_justified : forall rec full root t o, op_np o ->
  forall e, In e (contract rec full root t o) -> justified rec root [oprec_of t o] e = true.
Proof. exact contract_justified. Qed.
Print Assumptions C03_contract_justified.

(* Every block (one operation, everything read, grouped, emitted) of a history of c02p's class ops_x1 - covered operations,
   directory move-ins, directory move-outs and what follows them - delivers exactly the operation's contract, from every
   state of the invariant GS (synchronised up to junk / right after a directory left the tree). *)
Theorem C03_block_contract : forall C full, c_faults C = [] -> c_fix_moveout C = true -> c_mask C = WATCHDOG_ALL ->
  forall w k r hot o w', GS C w k r hot -> step_ok1 C w hot o -> apply_op w o = Some w' ->
  let k1 := kernel_op k (w_fs w) o in
  exists r' k' raws, read_batch C (w_fs w') (r, drainq k1, []) (k_queue k1) = Done (r', k', raws) /\
    GS C w' k' r' (hot_next C w hot o) /\
    collapse (delivered C full w' raws) = collapse (contract (c_recursive C) full (c_root C) (w_fs w) o).
Proof. exact gs_contract_step. Qed.
Print Assumptions C03_block_contract.

(* The sequential instance of C03_sound_full_current: along every ops_x1 history run block-wise ([srun]: op; read the whole
   kernel queue; group; emit; every delivered event must be [justified] by the operations executed so far), from every GS
   state, no unjustified event is ever delivered.  Full mask, no add_watch faults, the move-out repair on; the other flags
   as the operation classes require them (c_fix_movein for move-ins). *)
Theorem C03_sound_sequential : forall C full, c_faults C = [] -> c_fix_moveout C = true -> c_mask C = WATCHDOG_ALL ->
  forall ops w k r hot recs, GS C w k r hot -> ops_x1 C w hot ops -> srun C full w k r ops recs = Some true.
Proof. exact sound_sequential_x. Qed.
Print Assumptions C03_sound_sequential.

(* ... in particular from Inotify.__init__ on any well-formed world *)
Theorem C03_sound_sequential_from_start : forall C full, c_faults C = [] -> c_fix_moveout C = true -> c_mask C = WATCHDOG_ALL ->
  forall ops w, wf_fs w -> fisdir (c_root C) (w_fs w) = true -> ops_x1 C w None ops ->
  exists r0 k0, construct C kinit (w_fs w) = Some (r0, k0) /\ srun C full w k0 r0 ops [] = Some true.
Proof. exact sound_from_start_x. Qed.
Print Assumptions C03_sound_sequential_from_start.

(* ================================================================== sequential histories on the Pipeline model *)
(* ops_x3: c02p's class ops_x1 (covered operations, directory move-ins, directory move-outs and the operation that follows
   one) plus, from a state with nothing pending, a directory of the tree renamed over an empty directory of the tree
   (c3_over).  Every block of such a history delivers the operation's contract, from every GS state. *)
Theorem C03_block_contract_x3 : forall C full, c_faults C = [] -> c_fix_moveout C = true -> c_mask C = WATCHDOG_ALL ->
  forall w k r hot o w', GS C w k r hot -> step_ok3 C w hot o -> apply_op w o = Some w' ->
  let k1 := kernel_op k (w_fs w) o in
  exists r' k' raws, read_batch C (w_fs w') (r, drainq k1, []) (k_queue k1) = Done (r', k', raws) /\
    GS C w' k' r' (hot_next C w hot o) /\ Forall (rsafe C) raws /\
    collapse (delivered C full w' raws) = collapse (contract (c_recursive C) full (c_root C) (w_fs w) o).
Proof. exact gs_contract_step3. Qed.
Print Assumptions C03_block_contract_x3.

(* Block histories on the Pipeline model ([block_hist_x]: per operation AOp; ARead of the whole kernel queue; ATick of the
   pairing delay; AEmit until the buffer is empty - an operation whose system call fails is a lone AOp): from every state
   whose pipeline is idle and whose reader is in GS ([PSx]), an ops_x3 history has a block history that runs without crash,
   along which [sound_along] holds (every event queued by an AEmit is justified by the operations executed before it), and
   whose stream is, block by block, the contract of the operation up to collapse. *)
Theorem C03_blocks_sound : forall P, let C := pc_reader P in
  c_faults C = [] -> c_fix_moveout C = true -> c_mask C = WATCHDOG_ALL -> pc_filter P = None ->
  forall ops s hot recs, PSx P s hot -> ops_x3 C (p_world s) hot ops ->
  exists h s' obs hot' chunks, block_hist_x P s ops h /\ prun P s h [] = Done (s', obs) /\ PSx P s' hot' /\
    sound_along P s recs h = true /\
    p_out s' = p_out s ++ concat chunks /\
    Forall2 (fun ch ct => collapse ch = collapse ct) chunks (contracts_of C (pc_full P) (p_world s) ops).
Proof. exact blocks_sound. Qed.
Print Assumptions C03_blocks_sound.

(* From pinit on any well-formed world: SOUNDNESS ... *)
Theorem C03_sound_pipeline_sequential : forall P ops w s0, let C := pc_reader P in
  c_faults C = [] -> c_fix_moveout C = true -> c_mask C = WATCHDOG_ALL -> pc_filter P = None -> wf_fs w ->
  fisdir (c_root C) (w_fs w) = true -> pinit P w = Some s0 -> ops_x3 C w None ops ->
  exists h s' obs, block_hist_x P s0 ops h /\ prun P s0 h [] = Done (s', obs) /\ sound_along P s0 [] h = true.
Proof. exact sound_pipeline_sequential. Qed.
Print Assumptions C03_sound_pipeline_sequential.

(* ... and COMPLETENESS: the delivered stream is the concatenation of the per-operation contracts, block by block up to
   collapse of adjacent duplicates. *)
Theorem C03_contract_sequential : forall P ops w s0, let C := pc_reader P in
  c_faults C = [] -> c_fix_moveout C = true -> c_mask C = WATCHDOG_ALL -> pc_filter P = None -> wf_fs w ->
  fisdir (c_root C) (w_fs w) = true -> pinit P w = Some s0 -> ops_x3 C w None ops ->
  exists h s' obs chunks, block_hist_x P s0 ops h /\ prun P s0 h [] = Done (s', obs) /\
    sound_along P s0 [] h = true /\
    p_out s' = concat chunks /\
    Forall2 (fun ch ct => collapse ch = collapse ct) chunks (contracts_of C (pc_full P) w ops).
Proof. exact sound_pipeline_from_start. Qed.
Print Assumptions C03_contract_sequential.

(* ================================================================== partial reads *)
(* c02p's cut histories ([cut_hist P ct]): per operation AOp; ARead n1; ...; ARead nk; ATick of the pairing delay; AEmit until
   the buffer is empty, where the cutter [ct] chooses in every state how the records of the next operation are split between
   reads - any split that adds up to the kernel queue ([sum_cutter]), also between the two halves of a rename.  Excluded by
   the shape: an operation or a tick BETWEEN the reads of a block (a tick there can let a lone IN_MOVED_FROM leave the buffer
   before its IN_MOVED_TO is read: the stream is then deleted + created, not the contract).  Class: ops_x3. *)
Theorem C03_blocks_sound_cuts : forall P ct, let C := pc_reader P in
  c_faults C = [] -> c_fix_moveout C = true -> c_mask C = WATCHDOG_ALL -> pc_filter P = None -> sum_cutter P ct ->
  forall ops s hot recs, PSx P s hot -> ops_x3 C (p_world s) hot ops ->
  exists h s' obs hot' chunks, cut_hist P ct s ops h /\ prun P s h [] = Done (s', obs) /\ PSx P s' hot' /\
    sound_along P s recs h = true /\
    p_out s' = p_out s ++ concat chunks /\
    Forall2 (fun ch ct0 => collapse ch = collapse ct0) chunks (contracts_of C (pc_full P) (p_world s) ops).
Proof. exact blocks_sound_cuts. Qed.
Print Assumptions C03_blocks_sound_cuts.

Theorem C03_sound_pipeline_cuts : forall P ct ops w s0, let C := pc_reader P in
  c_faults C = [] -> c_fix_moveout C = true -> c_mask C = WATCHDOG_ALL -> pc_filter P = None -> sum_cutter P ct -> wf_fs w ->
  fisdir (c_root C) (w_fs w) = true -> pinit P w = Some s0 -> ops_x3 C w None ops ->
  exists h s' obs, cut_hist P ct s0 ops h /\ prun P s0 h [] = Done (s', obs) /\ sound_along P s0 [] h = true.
Proof. exact sound_pipeline_cuts. Qed.
Print Assumptions C03_sound_pipeline_cuts.

Theorem C03_contract_cuts : forall P ct ops w s0, let C := pc_reader P in
  c_faults C = [] -> c_fix_moveout C = true -> c_mask C = WATCHDOG_ALL -> pc_filter P = None -> sum_cutter P ct -> wf_fs w ->
  fisdir (c_root C) (w_fs w) = true -> pinit P w = Some s0 -> ops_x3 C w None ops ->
  exists h s' obs chunks, cut_hist P ct s0 ops h /\ prun P s0 h [] = Done (s', obs) /\
    sound_along P s0 [] h = true /\
    p_out s' = concat chunks /\
    Forall2 (fun ch ct0 => collapse ch = collapse ct0) chunks (contracts_of C (pc_full P) w ops).
Proof. exact contract_pipeline_cuts. Qed.
Print Assumptions C03_contract_cuts.

(* ================================================================== the pairing delay *)
(* Between the last read of a block and the final "ATick delay; AEmit ..." ANY sequence of ATick and AEmit steps may happen
   ([loose_history]: AOp; the cut reads; L; ATick delay; AEmit x nit with L chosen by the timer [lt]): the delay in several
   parts, queue_events called before the delay of a lone IN_MOVED_FROM has elapsed (nothing is delivered: the state is
   unchanged), items delivered early.  Stream, soundness and completeness are those of the one-read block.  Still excluded by
   the shape: a tick or queue_events call BETWEEN the reads of a block, and operations before the block is drained. *)
Theorem C03_blocks_sound_loose : forall P ct lt, let C := pc_reader P in
  c_faults C = [] -> c_fix_moveout C = true -> c_mask C = WATCHDOG_ALL -> pc_filter P = None ->
  sum_cutter P ct -> loose_timer lt ->
  forall ops s hot recs, PSx P s hot -> ops_x3 C (p_world s) hot ops ->
  exists h s' obs hot' chunks, loose_hist P ct lt s ops h /\ prun P s h [] = Done (s', obs) /\ PSx P s' hot' /\
    sound_along P s recs h = true /\
    p_out s' = p_out s ++ concat chunks /\
    Forall2 (fun ch ct0 => collapse ch = collapse ct0) chunks (contracts_of C (pc_full P) (p_world s) ops).
Proof. exact blocks_sound_loose. Qed.
Print Assumptions C03_blocks_sound_loose.

Theorem C03_contract_loose : forall P ct lt ops w s0, let C := pc_reader P in
  c_faults C = [] -> c_fix_moveout C = true -> c_mask C = WATCHDOG_ALL -> pc_filter P = None ->
  sum_cutter P ct -> loose_timer lt -> wf_fs w ->
  fisdir (c_root C) (w_fs w) = true -> pinit P w = Some s0 -> ops_x3 C w None ops ->
  exists h s' obs chunks, loose_hist P ct lt s0 ops h /\ prun P s0 h [] = Done (s', obs) /\
    sound_along P s0 [] h = true /\
    p_out s' = concat chunks /\
    Forall2 (fun ch ct0 => collapse ch = collapse ct0) chunks (contracts_of C (pc_full P) w ops).
Proof. exact contract_pipeline_loose. Qed.
Print Assumptions C03_contract_loose.

(* ================================================================== bursts of file-level operations *)
(* Several operations applied back to back before anything is read.  Class ([burst_ok]): operations of c02p's sequential
   class that are FILE-LEVEL ([file_op]): touch, write, chmod of a file, unlink, rename of a file (inside the tree, in, out,
   replacing a file) - nothing that creates, removes or renames a directory.  From a synchronised state (RSync), with
   [burst_end] the kernel and world after the burst and [seq_qs] the kernel queues the operations produce one at a time:
   if the kernel coalesced no record across an operation border (hypothesis: the burst's queue is the concatenation of the
   per-operation queues; the kernel drops a record identical to the last unread one - among file-level operations only
   `chmod f; chmod f` does that), then reading the whole queue leaves the reader synchronised, and the delivered stream is,
   chunk by chunk, the contract of each operation taken at the file-system state in which it ran, up to collapse.
   Why: records about files are translated independently of the file system and the kernel state at read time
   (read_batch_file), cookies of later renames are larger (no pairing across operations), file items are emitted without
   looking at the tree. *)
Theorem C03_burst_files_contract : forall C full, c_faults C = [] -> c_fix_moveout C = true -> c_mask C = WATCHDOG_ALL ->
  forall w k r ops, RSync C w k r -> burst_ok C w ops ->
  let KB := fst (burst_end k w ops) in let wn := snd (burst_end k w ops) in
  k_queue KB = concat (seq_qs k w ops) ->
  exists r' raws chunks,
    read_batch C (w_fs wn) (r, drainq KB, []) (k_queue KB) = Done (r', drainq KB, raws) /\
    RSync C wn (drainq KB) r' /\
    delivered C full wn raws = concat chunks /\
    Forall2 (fun ch ct0 => collapse ch = collapse ct0) chunks (contracts_of C full w ops).
Proof. exact burst_files_contract. Qed.
Print Assumptions C03_burst_files_contract.

(* ... and every delivered event is justified by an operation of the burst ([burst_recs]: what the oracle records about
   each operation, at the state in which it ran). *)
Theorem C03_burst_files_sound : forall C full, c_faults C = [] -> c_fix_moveout C = true -> c_mask C = WATCHDOG_ALL ->
  forall w k r ops, RSync C w k r -> burst_ok C w ops ->
  let KB := fst (burst_end k w ops) in let wn := snd (burst_end k w ops) in
  k_queue KB = concat (seq_qs k w ops) ->
  exists r' raws, read_batch C (w_fs wn) (r, drainq KB, []) (k_queue KB) = Done (r', drainq KB, raws) /\
    forallb (justified (c_recursive C) (c_root C) (burst_recs w ops)) (delivered C full wn raws) = true.
Proof. exact burst_files_sound. Qed.
Print Assumptions C03_burst_files_sound.

(* The same on the Pipeline model: [burst_hist P ops cuts L nit] = the operations back to back (AOp ...), then the reads of
   the whole kernel queue cut arbitrarily (ARead n1 ... nk, the cuts add up), any ticks / queue_events calls [L], the pairing
   delay, queue_events until the buffer is empty.  From a state whose reader is synchronised (RSync) and whose buffer is
   idle: the history runs, sound_along holds along it, the stream is the per-operation contracts chunk by chunk, and the
   final state is again synchronised and idle. *)
Theorem C03_burst_files_pipeline : forall P, pc_filter P = None -> let C := pc_reader P in
  c_faults C = [] -> c_fix_moveout C = true -> c_mask C = WATCHDOG_ALL ->
  forall s ops cuts L recs,
  RSync C (p_world s) (p_k s) (p_r s) -> buffer_idle (p_buf s) -> p_stopped s = false ->
  (forall id, In id (map fst (p_tbl s)) -> (id < p_next s)%N) ->
  burst_ok C (p_world s) ops ->
  let KB := fst (burst_end (p_k s) (p_world s) ops) in let wn := snd (burst_end (p_k s) (p_world s) ops) in
  k_queue KB = concat (seq_qs (p_k s) (p_world s) ops) ->
  CutsPipeProofs.sum cuts = length (k_queue KB) -> Forall tick_or_emit L ->
  exists nit s' obs chunks, prun P s (burst_hist P ops cuts L nit) [] = Done (s', obs) /\
    sound_along P s recs (burst_hist P ops cuts L nit) = true /\
    p_out s' = p_out s ++ concat chunks /\
    Forall2 (fun ch ct0 => collapse ch = collapse ct0) chunks (contracts_of C (pc_full P) (p_world s) ops) /\
    p_world s' = wn /\ RSync C wn (p_k s') (p_r s') /\ buffer_idle (p_buf s') /\ p_stopped s' = false /\
    (forall id, In id (map fst (p_tbl s')) -> (id < p_next s')%N).
Proof. exact burst_pipeline. Qed.
Print Assumptions C03_burst_files_pipeline.

(* records about files: the outcome of a read does not depend on the file system, the kernel state or the accumulator *)
Theorem C03_read_batch_file : forall C b, Forall nondir b -> forall r t1 k1 acc1 r' k1' out1, pend r = None ->
  read_batch C t1 (r, k1, acc1) b = Done (r', k1', out1) ->
  k1' = k1 /\ pend r' = None /\ exists ev, out1 = acc1 ++ ev /\
    Forall (fun x => exists e, In e b /\ of_rec e x) ev /\
    forall t2 k2 acc2, read_batch C t2 (r, k2, acc2) b = Done (r', k2, acc2 ++ ev).
Proof. exact read_batch_file. Qed.
Print Assumptions C03_read_batch_file.

(* ================================================================== tie to the Pipeline model *)
(* [deliver_one] is what the Pipeline model (validated in lock-step against the real observer) delivers for
   AOp o; ARead (whole kernel queue); ATick delay; AEmit x nit, from any state whose buffer is idle (nothing queued,
   nothing being grouped, consumer outside get(), not closed), whose emitter has not stopped, whose kernel queue is
   empty and whose event-id table is consistent: the events appended to p_out are exactly [deliver_one]'s list.
   No event filter. *)
Theorem C03_pipeline_tie : forall P s o evs,
  pc_filter P = None -> buffer_idle (p_buf s) -> p_stopped s = false -> k_queue (p_k s) = [] ->
  (forall id, In id (map fst (p_tbl s)) -> (id < p_next s)%N) ->
  deliver_one (pc_reader P) (pc_full P) (p_world s) (p_k s) (p_r s) o = Some evs ->
  exists nit s' obs, prun P s (tie_history P s o nit) [] = Done (s', obs) /\ p_out s' = p_out s ++ evs.
Proof. exact pipeline_tie_holds. Qed.
Print Assumptions C03_pipeline_tie.

(* ================================================================== non-vacuity *)
(* World: /R (watched), /O (outside); /R/d dir, /R/d/f file, /R/d/e empty dir, /R/x file, /O/y file, /O/z dir, /O/z/g.
   State: right after Inotify.__init__.  [ex_ok rec full ds o l]: the kernel queue is empty, [cover] holds for the
   directories [ds], the operation applies, [deliver_one] returns exactly [l], and [l] meets the contract. *)
Example C03_contract_touch_nonvacuous :
  let p := ex_sl ex_Rd 97 in
  ex_ok true false [ex_Rd] (Touch p)
        [mk FileCreated p []; parent_modified p; mk FileOpened p []; mk FileClosed p []; parent_modified p].
Proof. vm_compute. repeat split; try discriminate. repeat constructor; eexists; repeat split. Qed.

Example C03_contract_touch_out_of_scope_nonvacuous :      (* non-recursive watch, /R/d is not watched *)
  ex_ok false false [ex_Rd] (Touch (ex_sl ex_Rd 97)) [].
Proof. vm_compute. repeat split; try discriminate. repeat constructor. Qed.

Example C03_contract_write_nonvacuous :
  ex_ok true false [ex_Rd] (Write ex_Rdf)
        [mk FileOpened ex_Rdf []; mk FileModified ex_Rdf []; mk FileClosed ex_Rdf []; parent_modified ex_Rdf].
Proof. vm_compute. repeat split; try discriminate. repeat constructor; eexists; repeat split. Qed.

Example C03_contract_chmod_file_nonvacuous :
  ex_ok true true [ex_Rd] (Chmod ex_Rdf) [mk FileModified ex_Rdf []].
Proof. vm_compute. repeat split; try discriminate. repeat constructor; eexists; repeat split. Qed.

Example C03_contract_chmod_dir_nonvacuous :                (* two identical events, one per watch *)
  ex_ok true false [ex_R; ex_Rd] (Chmod ex_Rd) [mk DirModified ex_Rd []; mk DirModified ex_Rd []].
Proof. vm_compute. repeat split; try discriminate. repeat constructor; eexists; repeat split. Qed.

Example C03_contract_chmod_dir_flat_nonvacuous :           (* non-recursive: only the root's watch sees it *)
  ex_ok false false [ex_R; ex_Rd] (Chmod ex_Rd) [mk DirModified ex_Rd []].
Proof. vm_compute. repeat split; try discriminate. repeat constructor; eexists; repeat split. Qed.

Example C03_contract_unlink_nonvacuous :
  ex_ok true false [ex_R] (Unlink ex_Rx) [mk FileDeleted ex_Rx []; parent_modified ex_Rx].
Proof. vm_compute. repeat split; try discriminate. repeat constructor; eexists; repeat split. Qed.

Example C03_contract_mkdir_nonvacuous :
  let p := ex_sl ex_Rd 109 in
  has_children p ex_fs = false /\
  ex_ok true false [ex_Rd] (Mkdir p) [mk DirCreated p []; parent_modified p].
Proof. vm_compute. repeat split; try discriminate. repeat constructor; eexists; repeat split. Qed.

Example C03_contract_rmdir_nonvacuous :
  ex_ok true false [ex_Rd; ex_Rde] (Rmdir ex_Rde) [mk DirDeleted ex_Rde []; parent_modified ex_Rde].
Proof. vm_compute. repeat split; try discriminate. repeat constructor; eexists; repeat split. Qed.

Example C03_contract_rename_file_replacing_nonvacuous :    (* /R/d/f -> /R/x, which exists *)
  ex_ok true false [ex_Rd; ex_R] (Rename ex_Rdf ex_Rx)
        [mk FileMoved ex_Rdf ex_Rx; parent_modified ex_Rdf; parent_modified ex_Rx].
Proof. vm_compute. repeat split; try discriminate. repeat constructor; eexists; repeat split. Qed.

Example C03_contract_rename_file_out_nonvacuous :
  let q := ex_sl ex_O 120 in
  ex_ok true false [ex_R; ex_O] (Rename ex_Rx q) [mk FileDeleted ex_Rx []; parent_modified ex_Rx] /\
  ex_ok true true [ex_R; ex_O] (Rename ex_Rx q) [mk FileMoved ex_Rx []; parent_modified ex_Rx].
Proof. vm_compute. repeat split; try discriminate; repeat constructor; eexists; repeat split. Qed.

Example C03_contract_rename_file_in_nonvacuous :
  let q := ex_sl ex_Rd 121 in
  ex_ok true false [ex_O; ex_Rd] (Rename ex_Oy q) [mk FileCreated q []; parent_modified q] /\
  ex_ok true true [ex_O; ex_Rd] (Rename ex_Oy q) [mk FileMoved [] q; parent_modified q].
Proof. vm_compute. repeat split; try discriminate; repeat constructor; eexists; repeat split. Qed.

Example C03_contract_rename_dir_inside_nonvacuous :        (* /R/d -> /R/n, descendants e (dir) and f (file) *)
  let q := ex_sl ex_R 110 in
  content (frename ex_Rd q ex_fs) q = content ex_fs ex_Rd /\ wf_tree (content ex_fs ex_Rd) = true /\
  ex_ok true false [ex_R] (Rename ex_Rd q)
        [mk DirMoved ex_Rd q; parent_modified ex_Rd; parent_modified q;
         {| ev_cls := DirMoved; ev_src := ex_Rde; ev_dest := ex_sl q 101; ev_synth := true |};
         {| ev_cls := FileMoved; ev_src := ex_Rdf; ev_dest := ex_sl q 102; ev_synth := true |}].
Proof. vm_compute. repeat split; try discriminate. repeat constructor; eexists; repeat split. Qed.

Example C03_contract_rename_dir_out_nonvacuous :
  let q := ex_sl ex_O 100 in
  ex_ok true false [ex_R; ex_O] (Rename ex_Rd q) [mk DirDeleted ex_Rd []; parent_modified ex_Rd] /\
  ex_ok true true [ex_R; ex_O] (Rename ex_Rd q) [mk DirMoved ex_Rd []; parent_modified ex_Rd].
Proof. vm_compute. repeat split; try discriminate; repeat constructor; eexists; repeat split. Qed.

Example C03_contract_rename_dir_in_nonvacuous :            (* /O/z -> /R/d/z, descendant g (file) *)
  let q := ex_sl ex_Rd 122 in
  content (frename ex_Oz q ex_fs) q = content ex_fs ex_Oz /\ wf_tree (content ex_fs ex_Oz) = true /\
  ex_ok true false [ex_O; ex_Rd] (Rename ex_Oz q)
        [mk DirCreated q []; parent_modified q;
         {| ev_cls := FileCreated; ev_src := ex_sl q 103; ev_dest := []; ev_synth := true |}].
Proof. vm_compute. repeat split; try discriminate. repeat constructor; eexists; repeat split. Qed.

Example C03_contract_rename_dir_wf_nonvacuous :            (* the tree hypotheses of C03_contract_rename_dir *)
  let q := ex_sl ex_R 110 in
  (forall e, In e ex_fs -> wf_path (f_path e)) /\ (forall e, In e ex_fs -> under q (f_path e) = false) /\
  fisdir ex_Rd ex_fs = true /\ fexists q ex_fs = false.
Proof.
  split; [apply wf_fsb_sound; vm_compute; reflexivity|].
  split; [apply not_under_sound; vm_compute; reflexivity|]. split; vm_compute; reflexivity.
Qed.

(* the directory-replacing rename from outside (the replaced directory is watched, the moved one is not) on the example world:
   /O/z -> /R/d/e, an empty directory; the victim's IN_ATTRIB shows up as DirModified(/R/d/e) *)
Example C03_contract_rename_dir_replacing_example :
  ex_ok true false [ex_O; ex_Rd; ex_Oz; ex_Rde] (Rename ex_Oz ex_Rde)
        [mk DirCreated ex_Rde []; parent_modified ex_Rde;
         {| ev_cls := FileCreated; ev_src := ex_sl ex_Rde 103; ev_dest := []; ev_synth := true |};
         mk DirModified ex_Rde []].
Proof. vm_compute. repeat split; try discriminate. repeat constructor; eexists; repeat split. Qed.

(* C03_pipeline_tie on the example world, by computation: for each of the 15 operations of [ex_ops] that applies, the Pipeline
   run AOp; ARead; ATick; AEmit x6 from the initial state appends exactly [deliver_one]'s list to p_out -
   recursive and non-recursive watch, normal and full emitter *)
Example C03_pipeline_tie_examples :
  ex_tie true false = true /\ ex_tie true true = true /\ ex_tie false false = true /\ ex_tie false true = true.
Proof. vm_compute. repeat split. Qed.

(* the hypotheses of C03_moveout_forgets / C03_no_phantom_after_moveout on the model state right after
   `mkdir R/d; drain; mv R/d O/d; read; touch O/d/g`: the candidate (1, /R/d) is pending, the tables are consistent and
   normalised, the kernel queue holds the three records of the touch on d's still existing watch (descriptor 2) -
   reading them yields no raw event at all and removes d's watch *)
Example C03_moveout_nonvacuous :
  exists s e b, mo_state = Some s /\ k_queue (p_k s) = e :: b /\
    pend (p_r s) = Some (1%N, ph_Rd) /\ consistent (p_r s) /\ pfw_norm (p_r s) /\
    is_moved_to (k_mask e) && N.eqb (k_cookie e) 1 && amem N.eqb (k_wd e) (pfw (p_r s)) = false /\ Forall quiet (e :: b) /\ length b = 2%nat /\
    alookup beqb ph_Rd (wfp (p_r s)) = Some 2%N /\ alookup N.eqb 2%N (pfw (p_r s)) = Some ph_Rd /\ has_wd (p_k s) 2 = true /\
    exists r' k', read_batch (pc_reader fx_cfg) (w_fs (p_world s)) (p_r s, p_k s, []) (e :: b) = Done (r', k', []) /\
                  wfp r' = [(ph_R, 1%N)] /\ has_wd k' 2 = false.
Proof. exact moveout_nonvacuous. Qed.

(* C03_contract_rename_dir_replacing: world /s/R (watched, recursive), /s/O, /s/R/d (directory), /s/R/d/f (file), /s/R/e (empty
   directory); state right after Inotify.__init__ (RSync by C02_construct_cover); mv /s/R/d /s/R/e delivers DirMoved, both
   parents modified, the synthetic FileMoved(/s/R/d/f -> /s/R/e/f) and DirModified(/s/R/e) - by [deliver_one] and by the
   Pipeline model run AOp; ARead; ATick; AEmit x4 *)
Example C03_contract_rename_dir_replacing_nonvacuous :
  exists r k w',
    construct (cfgx true true) kinit (w_fs rp_world) = Some (r, k) /\ RSync (cfgx true true) rp_world k r /\
    npath rp_d /\ npath rp_e /\ scope (cfgx true true) rp_d /\ scope (cfgx true true) rp_e /\
    apply_op rp_world (Rename rp_d rp_e) = Some w' /\
    fisdir rp_d (w_fs rp_world) = true /\ fisdir rp_e (w_fs rp_world) = true /\
    content (w_fs w') rp_e = content (w_fs rp_world) rp_d /\
    deliver_one (cfgx true true) false rp_world k r (Rename rp_d rp_e) = Some rp_events /\
    collapse rp_events = collapse (contract true false pR (w_fs rp_world) (Rename rp_d rp_e)) /\
    exists s0 s obs, pinit (Px true) rp_world = Some s0 /\
      prun (Px true) s0 (tie_history (Px true) s0 (Rename rp_d rp_e) 4) [] = Done (s, obs) /\ p_out s = rp_events.
Proof. exact replace_nonvacuous. Qed.

(* C03_contract_rename_dir_replacing_unwatched (and C03_rename_dir_content with fremove): the world of the previous example
   plus the empty directory /s/O/z outside the scope; mv /s/R/d /s/O/z is a move-out: DirDeleted + parent modified *)
Example C03_contract_rename_dir_replacing_unwatched_nonvacuous :
  exists r k w',
    construct (cfgx true true) kinit (w_fs rp_world2) = Some (r, k) /\ k_queue k = [] /\ pend r = None /\
    wf_fs rp_world2 /\ npath rp_d /\ npath rp_z /\
    cover (cfgx true true) r k (w_fs rp_world2) (dirname rp_d) /\ cover (cfgx true true) r k (w_fs rp_world2) (dirname rp_z) /\
    fisdir rp_d (w_fs rp_world2) = true /\ fisdir rp_z (w_fs rp_world2) = true /\
    watch_of_ino k (ino_of (w_fs rp_world2) rp_z) = None /\ in_scope true pR rp_z = false /\
    apply_op rp_world2 (Rename rp_d rp_z) = Some w' /\
    deliver_one (cfgx true true) false rp_world2 k r (Rename rp_d rp_z) = Some [mk DirDeleted rp_d []; parent_modified rp_d] /\
    contract true false pR (w_fs rp_world2) (Rename rp_d rp_z) = [mk DirDeleted rp_d []; parent_modified rp_d].
Proof. exact replace_unwatched_nonvacuous. Qed.

(* C03_contract_rename_dir_wf: in the world of C03_contract_rename_dir_replacing_nonvacuous, /s/R/d -> /s/R/n (free name) *)
Example C03_contract_rename_dir_wf_fs_nonvacuous :
  let q := sub pR 110 in
  exists r k, construct (cfgx true true) kinit (w_fs rp_world) = Some (r, k) /\ k_queue k = [] /\ pend r = None /\
  wf_fs rp_world /\ npath rp_d /\ npath q /\
  cover (cfgx true true) r k (w_fs rp_world) (dirname rp_d) /\ cover (cfgx true true) r k (w_fs rp_world) (dirname q) /\
  fisdir rp_d (w_fs rp_world) = true /\ fisdir q (w_fs rp_world) = false /\
  apply_op rp_world (Rename rp_d q) <> None /\
  deliver_one (cfgx true true) false rp_world k r (Rename rp_d q) =
    Some [mk DirMoved rp_d q; parent_modified rp_d; parent_modified q;
          {| ev_cls := FileMoved; ev_src := rp_df; ev_dest := sub q 102; ev_synth := true |}].
Proof.
  eexists; eexists. split; [vm_compute; reflexivity|]. split; [reflexivity|]. split; [reflexivity|].
  split; [exact rp_world_wf|]. split; [apply npath_sub; [split; [discriminate | reflexivity] | reflexivity]|].
  split; [apply npath_sub; [split; [discriminate | reflexivity] | reflexivity]|].
  split; [vm_compute; eexists; repeat split|]. split; [vm_compute; eexists; repeat split|].
  repeat split; vm_compute; congruence.
Qed.

(* C03_sound_sequential on the former phantom history: mkdir R/b; mv R/b O/x (the directory leaves the tree); mkdir R/b (the
   name is re-created while the move-out candidate is pending); mv R/b R/a; touch O/x/g (the operation that used to
   produce the phantom event).  The history is in ops_x1; [srun] says sound; the stream has 9 events, none below /s/O;
   and the Pipeline model run block-wise (AOp; ARead; ATick; AEmit x4 per operation) passes [sound_along]. *)
Example C03_sound_sequential_nonvacuous :
  ops_x1 (cfgo true) w0 None phx_ops /\
  (exists r0 k0, construct (cfgo true) kinit (w_fs w0) = Some (r0, k0) /\
    srun (cfgo true) false w0 k0 r0 phx_ops [] = Some true /\
    exists w' k' r' out, drun (cfgo true) false w0 k0 r0 phx_ops [] = Some (w', k', r', out) /\
      length out = 9%nat /\ forallb (fun e => negb (under pO (ev_src e))) out = true) /\
  (exists s0, pinit phx_P w0 = Some s0 /\ sound_along phx_P s0 [] (block_history phx_ops) = true).
Proof. split; [exact phx_ops_x1 | split; [exact phx_run | exact phx_pipeline]]. Qed.

(* C03_contract_sequential / C03_sound_pipeline_sequential: mkdir R/a; touch R/a/f; mkdir R/b; mv R/a R/b (over the empty
   directory b); mv R/b O/x (leaves the tree); mkdir R/b (name re-created while the candidate is pending); touch O/x/g
   (inside the departed directory) is in ops_x3; with the fixed block shape AOp; ARead 100; ATick 10; AEmit x4 the Pipeline
   model delivers 18 events, sound_along holds, the stream is the concatenation of the seven contracts up to collapse, and
   the replaced directory's DirModified(/s/R/b) is among them. *)
Example C03_pipeline_sequential_nonvacuous :
  ops_x3 (cfgo true) w0 None seq3_ops /\
  exists s0 s obs, pinit phx_P w0 = Some s0 /\ prun phx_P s0 (block_history seq3_ops) [] = Done (s, obs) /\
    sound_along phx_P s0 [] (block_history seq3_ops) = true /\
    collapse (p_out s) = collapse (concat (contracts_of (cfgo true) false w0 seq3_ops)) /\
    length (p_out s) = 18%nat /\ In (mk DirModified (sub pR 98) []) (p_out s).
Proof. split; [exact seq3_ops_x3 | exact seq3_run]. Qed.

(* C03_contract_cuts / C03_sound_pipeline_cuts: the history of C03_pipeline_sequential_nonvacuous with the cutter that reads the
   first record of every operation alone and then the rest (every rename is cut between IN_MOVED_FROM and IN_MOVED_TO): the
   cutter adds up, and the Pipeline model delivers the same 18 events as with one read per operation *)
Example C03_pipeline_cuts_nonvacuous :
  sum_cutter phx_P first_cutter /\ ops_x3 (cfgo true) w0 None seq3_ops /\
  exists s0 s s1, pinit phx_P w0 = Some s0 /\ run_cuts phx_P first_cutter 4 s0 seq3_ops = Some s /\
    run_blocks phx_P 4 s0 seq3_ops = Some s1 /\ p_out s = p_out s1 /\ length (p_out s) = 18%nat /\
    collapse (p_out s) = collapse (concat (contracts_of (cfgo true) false w0 seq3_ops)).
Proof. split; [exact (first_cutter_sum phx_P) | split; [exact seq3_ops_x3 | exact seq3_cuts_run]]. Qed.

(* C03_contract_loose: the history and cutter of C03_pipeline_cuts_nonvacuous with the timer AEmit; ATick 2; AEmit; AEmit;
   ATick 2; AEmit between the reads and the final ATick 5 (queue_events before any time has passed, the delay as 2+2+5):
   the same 18 events *)
Example C03_pipeline_loose_nonvacuous :
  loose_timer early_timer /\ sum_cutter phx_P first_cutter /\
  exists s0 s s1, pinit phx_P w0 = Some s0 /\ run_loose phx_P first_cutter early_timer 4 s0 seq3_ops = Some s /\
    run_blocks phx_P 4 s0 seq3_ops = Some s1 /\ p_out s = p_out s1 /\ length (p_out s) = 18%nat.
Proof. split; [exact early_timer_ok | split; [exact (first_cutter_sum phx_P) | exact seq3_loose_run]]. Qed.

(* C03_burst_files_contract / _sound: world /s/R (watched), /s/O, /s/R/d, /s/R/d/f, /s/R/e; burst touch R/d/a; mv R/d/f R/e/f;
   mv R/d/a O/a; chmod R/e/f; write R/e/f; unlink R/e/f is in the class, its 11 records are not coalesced; on the Pipeline
   model burst_hist with the cuts 2 + 2 + 7 (cutting the first rename between its halves), the delay and 14 queue_events
   calls: sound_along holds, the 17 events are the six contracts up to collapse, FileMoved(R/d/f -> R/e/f) among them *)
Example C03_burst_files_nonvacuous :
  burst_ok (cfgx true true) rp_world burst_ops /\
  exists r k, construct (cfgx true true) kinit (w_fs rp_world) = Some (r, k) /\ RSync (cfgx true true) rp_world k r /\
    k_queue (fst (burst_end k rp_world burst_ops)) = concat (seq_qs k rp_world burst_ops) /\
    length (k_queue (fst (burst_end k rp_world burst_ops))) = 11%nat /\
    exists s0 s obs, pinit (Px true) rp_world = Some s0 /\ prun (Px true) s0 burst_history [] = Done (s, obs) /\
      sound_along (Px true) s0 [] burst_history = true /\
      collapse (p_out s) = collapse (concat (contracts_of (cfgx true true) false rp_world burst_ops)) /\
      In (mk FileMoved rp_df bf_ef) (p_out s) /\ length (p_out s) = 17%nat.
Proof. split; [exact burst_ops_ok | exact burst_example]. Qed.

(* why the side condition of the burst theorems is there: `chmod f; chmod f` back to back - the kernel coalesces the second
   IN_ATTRIB into the first (1 record instead of 2), one FileModified is delivered; chunk by chunk this is not the two
   contracts, up to collapse of the whole stream it is *)
Example C03_burst_coalesce_example :
  exists r k, construct (cfgx true true) kinit (w_fs rp_world) = Some (r, k) /\
    let ops := [Chmod rp_df; Chmod rp_df] in
    burst_ok (cfgx true true) rp_world ops /\
    length (k_queue (fst (burst_end k rp_world ops))) = 1%nat /\ length (concat (seq_qs k rp_world ops)) = 2%nat /\
    exists s0 s obs, pinit (Px true) rp_world = Some s0 /\
      prun (Px true) s0 (burst_hist (Px true) ops [1%nat] [] 2) [] = Done (s, obs) /\
      p_out s = [mk FileModified rp_df []] /\
      collapse (p_out s) = collapse (concat (contracts_of (cfgx true true) false rp_world ops)).
Proof. exact burst_coalesce_example. Qed.

(* ================================================================== a burst that CONTAINS directory operations: an arrival *)
(* `mkdir p; <any sequence of mkdir / touch strictly below p>` ([below_op]; operations that fail are skipped) applied back to
   back from a synchronised state, then one read, grouping, emission (the _recursive_simulate path: one kernel record, the
   rest fabricated by the reader's walk).  SOUNDNESS: every delivered event is justified by an operation record of the burst
   (a created event by the mkdir / touch of that very path, a DirModified by an operation in that directory).
   Contract EQUALITY does NOT hold for this burst, not even up to collapse of the per-operation contracts taken in operation
   order: the stream follows the WALK order, not the order of the operations (all sub-directories of a directory before its
   files, a directory's content after all of its siblings - in the instance below R/d/g is reported before R/d/e/f although it
   was created after it), so the DirModified events of different directories interleave differently; and a touch below p
   contributes only FileCreated + the parent's DirModified - the FileOpened / FileClosed / second DirModified of its contract
   never reach the kernel queue, the directory was not watched when they happened.  What holds instead is
   this soundness statement together with completeness in the form of C01_burst_arrival_replay (every arrived entry has its
   created event).  Hypotheses: recursive watch, p in scope, IN_CREATE in the mask, c_fix_simulate, no injected fault;
   read_batch / delivered level. *)
Require Import WD.Proofs.ReplayProofs WD.Proofs.BurstProofs WD.Proofs.BurstArrivalProofs.

Theorem C03_burst_arrival_sound : forall C full, c_faults C = [] -> c_fix_simulate C = true ->
  forall w k r p rest, RSync C w k r -> npath p -> c_recursive C = true -> scope C p ->
  N.land IN_CREATE (c_mask C) <> 0%N -> Forall (below_op p) rest ->
  forall w1, apply_op w (Mkdir p) = Some w1 ->
  let KB := fst (burst_end k w (Mkdir p :: rest)) in let wn := snd (burst_end k w (Mkdir p :: rest)) in
  exists r' k' raws, read_batch C (w_fs wn) (r, drainq KB, []) (k_queue KB) = Done (r', k', raws) /\ RSync C wn k' r' /\
    forallb (justified (c_recursive C) (c_root C) (burst_recs w (Mkdir p :: rest))) (ReplayProofs.delivered C full wn raws) = true.
Proof. exact arrival_sound. Qed.
Print Assumptions C03_burst_arrival_sound.

(* instance (world w0: /s/R watched and empty): mkdir R/d; mkdir R/d/e; touch R/d/e/f; touch R/d/g, one read: the eight
   delivered events [ba_events] in walk order, each justified by one of the four records *)
Example C03_burst_arrival_nonvacuous :
  exists r0 k0, construct (cfgx true true) kinit (w_fs w0) = Some (r0, k0) /\
    let KB := fst (burst_end k0 w0 (Mkdir ba_d :: ba_rest)) in let wn := snd (burst_end k0 w0 (Mkdir ba_d :: ba_rest)) in
    exists r' k' raws, read_batch (cfgx true true) (w_fs wn) (r0, drainq KB, []) (k_queue KB) = Done (r', k', raws) /\
      ReplayProofs.delivered (cfgx true true) false wn raws = ba_events /\
      forallb (justified true pR (burst_recs w0 (Mkdir ba_d :: ba_rest))) ba_events = true /\
      length (burst_recs w0 (Mkdir ba_d :: ba_rest)) = 4%nat /\
      (forall x, alookup beqb x (replay true pR (tree_of true pR w0) ba_events) = alookup beqb x (tree_of true pR wn)).
Proof. exact arrival_example_stream. Qed.

(* the arrival burst on the Pipeline model: AOp (mkdir p); AOp ... (below p); ARead 1 (the one record); any ticks / queue_events
   calls; the delay; queue_events until the buffer is empty ([burst_hist] with the cut [1]).  The run does not crash, every
   queued event is justified (sound_along), the replay invariant of the accumulated stream is kept, the state is synchronised,
   covered and idle again - so arrival bursts, file-level bursts and single blocks can alternate. *)
Theorem C03_burst_arrival_pipeline : forall P, pc_filter P = None -> let C := pc_reader P in c_faults C = [] -> c_fix_simulate C = true ->
  forall s p rest L recs t0,
  RSync C (p_world s) (p_k s) (p_r s) -> buffer_idle (p_buf s) -> p_stopped s = false ->
  (forall id, In id (map fst (p_tbl s)) -> (id < p_next s)%N) ->
  npath p -> c_recursive C = true -> scope C p -> N.land IN_CREATE (c_mask C) <> 0%N -> Forall (below_op p) rest ->
  forall w1, apply_op (p_world s) (Mkdir p) = Some w1 -> Forall tick_or_emit L ->
  TInv (c_recursive C) (c_root C) (replay (c_recursive C) (c_root C) t0 (p_out s)) (p_world s) ->
  exists nit s' obs, prun P s (burst_hist P (Mkdir p :: rest) [1%nat] L nit) [] = Done (s', obs) /\
    sound_along P s recs (burst_hist P (Mkdir p :: rest) [1%nat] L nit) = true /\
    p_world s' = snd (burst_end (p_k s) (p_world s) (Mkdir p :: rest)) /\
    TInv (c_recursive C) (c_root C) (replay (c_recursive C) (c_root C) t0 (p_out s')) (p_world s') /\
    RSync C (p_world s') (p_k s') (p_r s') /\ Cover C (w_fs (p_world s')) (p_k s') (p_r s') /\
    buffer_idle (p_buf s') /\ p_stopped s' = false /\ (forall id, In id (map fst (p_tbl s')) -> (id < p_next s')%N).
Proof. exact arrival_pipeline. Qed.
Print Assumptions C03_burst_arrival_pipeline.

Example C03_burst_arrival_pipeline_nonvacuous :
  exists s0 s obs, pinit (Px true) w0 = Some s0 /\ prun (Px true) s0 ba_history [] = Done (s, obs) /\
    p_out s = ba_events /\ sound_along (Px true) s0 [] ba_history = true /\ length (k_watches (p_k s)) = 3%nat.
Proof. exact arrival_pipeline_example. Qed.
