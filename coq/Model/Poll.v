(* Model of PollingEmitter (polling.py l.46-114): on_thread_start and one queue_events round.
   Definitions only.  The order of the events inside one of the eight loops is the iteration order
   of a Python list built from a set and is not modelled (the harness sorts inside each block). *)
Require Import WD.Base.Prelude WD.Base.BStr WD.Model.Snapshot WD.Model.Walk.

Inductive ekind :=
  FileDeleted | FileModified | FileCreated | FileMoved | DirDeleted | DirModified | DirCreated | DirMoved.

(* event class, src_path, dest_path (moves only) *)
Inductive event := Ev (k : ekind) (src : path) (dst : option path).

Definition ev_kind (e : event) : ekind := match e with Ev k _ _ => k end.

Definition ev1 (k : ekind) (p : path) : event := Ev k p None.
Definition ev2 (k : ekind) (m : path * path) : event := Ev k (fst m) (Some (snd m)).

(* l.96-114: the eight loops in source order *)
Definition events_of (d : dresult) : list event :=
  map (ev1 FileDeleted) (files_deleted d) ++ map (ev1 FileModified) (files_modified d) ++
  map (ev1 FileCreated) (files_created d) ++ map (ev2 FileMoved) (files_moved d) ++
  map (ev1 DirDeleted) (dirs_deleted d) ++ map (ev1 DirModified) (dirs_modified d) ++
  map (ev1 DirCreated) (dirs_created d) ++ map (ev2 DirMoved) (dirs_moved d).

(* self._snapshot and the stopped flag of the emitter thread *)
Record estate := mkE { prev : snap; stopped : bool }.

(* on_thread_start: the baseline; an exception here ends the thread (None) *)
Definition start (rec : bool) (f : faults) (root : path) (ot : option tree) : option estate :=
  match snapshot_of rec f root ot with
  | Snap s => Some (mkE s false)
  | Raised _ => None
  end.

Inductive pres := PCrash | PStep (evs : list event) (st' : estate).

(* queue_events(timeout) with the stop event not set during the wait *)
Definition poll (rec : bool) (f : faults) (root : path) (ot : option tree) (st : estate) : pres :=
  if stopped st then PStep [] st                                 (* l.77-82 *)
  else
    match snapshot_of rec f root ot with
    | Raised _ => PStep [ev1 DirDeleted root] (mkE (prev st) true)      (* l.88-91 *)
    | Snap new =>
      match diff false (prev st) new with
      | None => PCrash
      | Some d => PStep (events_of d) (mkE new false)            (* l.93-114 *)
      end
    end.

(* ------------------------------------------------------------ specification side *)

(* position of the loop that emits the class, in source order *)
Definition krank (k : ekind) : nat :=
  match k with
  | FileDeleted => 0 | FileModified => 1 | FileCreated => 2 | FileMoved => 3
  | DirDeleted => 4 | DirModified => 5 | DirCreated => 6 | DirMoved => 7
  end.
Definition ev_le (a b : event) : Prop := krank (ev_kind a) <= krank (ev_kind b).

(* An event is justified by the diff [d] of [r] (previous) and [s] (new): it names an entry of the
   matching category, its class is the kind of that entry, its path(s) are the entry's. *)
Definition event_ok (r s : snap) (d : dresult) (e : event) : Prop :=
  match e with
  | Ev FileDeleted p None => In p (d_deleted d) /\ isdir_at r p = Some false
  | Ev DirDeleted p None => In p (d_deleted d) /\ isdir_at r p = Some true
  | Ev FileModified p None => In p (d_modified d) /\ isdir_at r p = Some false
  | Ev DirModified p None => In p (d_modified d) /\ isdir_at r p = Some true
  | Ev FileCreated p None => In p (d_created d) /\ isdir_at s p = Some false
  | Ev DirCreated p None => In p (d_created d) /\ isdir_at s p = Some true
  | Ev FileMoved a (Some b) => In (a, b) (d_moved d) /\ isdir_at r a = Some false
  | Ev DirMoved a (Some b) => In (a, b) (d_moved d) /\ isdir_at r a = Some true
  | _ => False
  end.
