"""C16 - the event queue (SkipRepeatsQueue / EventQueue) drops only true consecutive duplicates.

(a) sequential, exhaustive: every put/get sequence up to length 7 over a 2-value alphabet (fresh objects with equal
    values) on the real queue vs the extracted model (seq_put/seq_get) vs a reference written from the property text;
(b) concurrent: the real queue under the deterministic scheduler, every unlocked `_last_item` access a yield point;
    the linearisation (unlocked reads, appends, pops) is logged from observation points, mapped to the model's labels
    and replayed through the extracted `step` in lock-step;
(c) the oracle, independent of the model: from the logged appends/pops and the public calls reconstruct the queue and
    evaluate the property text;
(d) Python ==/hash of events vs "equal iff same class and same field values" and vs the extracted event_eqb.
"""
from __future__ import annotations

import itertools

from harness import core
from harness.core import Atom, Failure, Mismatch, Result, sx

MANIFEST = dict(
    design_ref="DESIGN.md §6 C16",
    text="Coq theorems C16_fifo, C16_last_item, C16_empty_resets, C16_drops_justified, C16_conservation, C16_exactly_one, "
         "C16_completed_put, C16_out_offered, C16_out_nodup, C16_drained, C16_producer_order over EVERY label list of an LTS of SkipRepeatsQueue "
         "(any number of producers cut at their two unlocked reads of _last_item and the locked append, one consumer; "
         "induction over runs, no bound), the sequential corollaries C16_seq_* and the event equality law C16_event_eq; "
         "the model is tied to /repo on every run: exhaustive sequential comparison, and lock-step replay of the real "
         "queue's linearisation under a deterministic scheduler (random schedules; all schedules with <= 2 pre-emptions "
         "in the thorough tier) through the extracted step function, plus a model-independent oracle of the property text.",
    note="Trusted: Coq kernel; CPython's atomicity of one attribute read/write and of deque.append/popleft; queue.Queue's "
         "mutex/condition protocol runs on the scheduler twins. Correspondence is sampled (quick) / bounded-exhaustive (thorough).",
    technique="Coq proof (invariants of an interleaving LTS, induction over runs) + lock-step differential correspondence via "
              "extracted OCaml model under a deterministic scheduler + independent linearisation oracle",
)

TRUSTED = [
    "modelled, not verified: CPython executes one read or write of the attribute _last_item, deque.append and deque.popleft "
    "atomically; queue.Queue takes its mutex around _put/_get and get() waits while the queue is empty (the scheduler twins of "
    "Lock/Condition implement the documented behaviour; the real queue.Queue code runs on them)",
    "source granularity: a producer is cut at its two unlocked reads of _last_item and at the write of _last_item inside the "
    "locked _put; the consumer at the write/read of _last_item inside the locked _get; the harness makes every access of "
    "_last_item a scheduling point, so a finer interleaving that mattered would show up as a correspondence mismatch",
]
ASSUMPTIONS = [
    "item identities are unique: no object is offered to the queue twice (C16_exactly_one, C16_out_nodup); watchdog's emitters "
    "create a fresh (event, watch) tuple per queue_event call",
    "item equality is an equivalence relation that does not change while the item is queued (events are frozen dataclass "
    "values; the model's `value`)",
    "one consumer (BaseObserver's dispatcher thread); any number of producers",
]

STOP_VALUE = 99


# =============================================================================================== (d) event equality
EVENT_CLASSES = ["FileSystemEvent", "FileSystemMovedEvent", "FileDeletedEvent", "FileModifiedEvent", "FileCreatedEvent",
                 "FileMovedEvent", "FileClosedEvent", "FileClosedNoWriteEvent", "FileOpenedEvent", "DirDeletedEvent",
                 "DirModifiedEvent", "DirCreatedEvent", "DirMovedEvent"]


def path_wire(p):
    return [Atom("s"), [ord(c) for c in p]] if isinstance(p, str) else [Atom("b"), list(p)]


def run_event_eq(ctx, res: Result):
    """All pairs of events from (13 classes: the 11 concrete ones + the two bases) x src x dest x synthetic."""
    import watchdog.events as ev

    classes = [getattr(ev, n) for n in EVENT_CLASSES]
    srcs = ["a", "b", b"a"]
    dests = ["", "c", b"c"]
    specs = [(ci, s, d, y) for ci in range(len(classes)) for s in srcs for d in dests for y in (False, True)]
    # second sweep, fewer classes: spellings that some normalisation would identify (canonically equivalent Unicode,
    # case, trailing separator, "./" prefix, the same bytes as str) - different field values, so different events
    odd = ["caf\u00e9", "cafe\u0301", "caf\u00e9".encode(), "A", "a", "a/", "./a", "\u212b", "\u00c5"]
    few = [EVENT_CLASSES.index(n) for n in ("FileCreatedEvent", "FileMovedEvent", "DirMovedEvent")]
    specs += [(ci, s, d, y) for ci in few for s in odd for d in ["", "caf\u00e9", "cafe\u0301"] for y in (False, True)
              if (ci, s, d, y) not in set(specs)]
    objs = [classes[ci](s, d, is_synthetic=y) for ci, s, d, y in specs]
    # a second, distinct object per spec, so that equal pairs are not identical objects
    objs2 = [classes[ci](s, d, is_synthetic=y) for ci, s, d, y in specs]
    cases, meta = [], []
    n_equal = 0
    for i, (a, sa) in enumerate(zip(objs, specs)):
        for j, (b, sb) in enumerate(zip(objs2, specs)):
            law = type(a) is type(b) and (a.src_path, a.dest_path, a.event_type, a.is_directory, a.is_synthetic) == \
                (b.src_path, b.dest_path, b.event_type, b.is_directory, b.is_synthetic) and \
                type(a.src_path) is type(b.src_path) and type(a.dest_path) is type(b.dest_path)
            got_eq = (a == b)
            got_ne = (a != b)
            res.evaluations += 1
            case = {"part": "event-eq", "a": [EVENT_CLASSES[sa[0]], repr(sa[1]), repr(sa[2]), sa[3]],
                    "b": [EVENT_CLASSES[sb[0]], repr(sb[1]), repr(sb[2]), sb[3]]}
            if got_eq != law or got_ne == got_eq:
                res.failures.append(Failure(
                    what="two events compare equal although class or a field differs" if got_eq else
                         "two events of the same class with the same field values compare unequal",
                    case=case, signature={"part": "event-eq", "law": "eq-iff-same-class-and-fields"},
                    observed=f"== {got_eq}, != {got_ne}", expected=f"== {law}"))
            if got_eq and hash(a) != hash(b):
                res.failures.append(Failure(what="equal events with different hash", case=case,
                                            signature={"part": "event-eq", "law": "hash"},
                                            observed=[hash(a), hash(b)], expected="equal hashes"))
            if got_eq:
                n_equal += 1
                # the queue compares (event, watch) tuples
                if ((a, "w") != (b, "w")) or ((a, "w") == (b, "v")):
                    res.failures.append(Failure(what="(event, watch) tuple equality disagrees with event equality", case=case,
                                                signature={"part": "event-eq", "law": "tuple"}, observed="tuple != / ==",
                                                expected="tuples equal iff components equal"))
            cases.append(sx([Atom("eveq"), [sa[0], path_wire(sa[1]), path_wire(sa[2]), sa[3]],
                             [sb[0], path_wire(sb[1]), path_wire(sb[2]), sb[3]]]))
            meta.append((case, got_eq))
            if i != j and (sa[0] == sb[0] or (sa[1:] == sb[1:])):
                res.nontrivial.add(core.digest(["eveq", sa, sb]))
    res.histograms.setdefault("event_pairs", {})["equal"] = n_equal
    res.histograms["event_pairs"]["unequal"] = len(cases) - n_equal
    outs = core.run_model("skipqueue", cases)
    for o, (case, got_eq) in zip(outs, meta):
        res.traces_validated += 1
        if (o == "1") != got_eq:
            res.mismatches.append(Mismatch(pair="event_eqb", case=case, model=o, impl=got_eq))
    res.samples.append({"part": "event-eq", "pair": meta[len(meta) // 3][0], "python_eq": meta[len(meta) // 3][1]})


# =============================================================================================== (a) sequential
class PlainItem:
    """The item class of SkipRepeatsQueue's docstring."""

    def __init__(self, v):
        self._v = v

    def __eq__(self, o):
        return isinstance(o, PlainItem) and self._v == o._v

    def __ne__(self, o):
        return not self.__eq__(o)

    def __hash__(self):
        return hash(self._v)

    def __repr__(self):
        return f"I{self._v}"


def make_item(flavour, v, mods):
    """A fresh object of value class v (0/1; STOP_VALUE = the dispatcher's stop sentinel)."""
    if v == STOP_VALUE:
        return object()
    if flavour == "plain":
        return PlainItem(v)
    ev, api = mods
    watch = api.ObservedWatch("/w", recursive=True)
    e = ev.FileModifiedEvent("/w/f") if v == 0 else ev.DirModifiedEvent("/w/f") if flavour == "event-class" \
        else ev.FileModifiedEvent("/w/g")
    return (e, watch)


def reference_run(ops, items, eq):
    """The queue the property text describes, dropping exactly the duplicates it permits.
    ops: list of ("put", k) / ("get",); items[k] the object; eq(a, b) their equality. Returns per-op results."""
    waiting, last_enq, res = [], None, []
    for op in ops:
        if op[0] == "put":
            x = op[1]
            if last_enq is not None and last_enq in waiting and eq(items[last_enq], items[x]):
                res.append("D")
            else:
                waiting.append(x)
                last_enq = x
                res.append("A")
        else:
            res.append(("G", waiting.pop(0)) if waiting else "E")
    return res, waiting


def oracle_sequential(ops, items, results, drained, eq):
    """Property text on a sequential history. results[i]: for a get ("G", k) or "E"; puts are judged only by what is
    delivered. drained: items delivered by the final drain. Returns None or (law, detail)."""
    delivered_at = {}
    order = []
    for i, (op, r) in enumerate(zip(ops, results)):
        if op[0] == "get" and r != "E":
            if r[1] is None:
                return "an item was delivered that was never offered", i
            if r[1] in delivered_at:
                return "an item was delivered twice", r[1]
            delivered_at[r[1]] = i
            order.append(r[1])
    for k in drained:
        if k is None:
            return "an item was delivered that was never offered", "drain"
        if k in delivered_at:
            return "an item was delivered twice", k
        delivered_at[k] = len(ops)
        order.append(k)
    offered_at = {op[1]: i for i, op in enumerate(ops) if op[0] == "put"}
    for k in order:
        if k not in offered_at or offered_at[k] > delivered_at[k]:
            return "an item was delivered that was not offered before", k
    if order != sorted(order, key=lambda k: offered_at[k]):
        return "items were not delivered in FIFO order", order
    for i, (op, r) in enumerate(zip(ops, results)):
        if op[0] == "get" and r == "E":
            late = [k for k in order if offered_at[k] < i < delivered_at[k]]
            if late:
                return "get reported an empty queue while an accepted item was waiting", [i, late]
    for k, i in offered_at.items():
        if k in delivered_at:
            continue
        prev = [j for j in order if offered_at[j] < i]
        if not prev:
            return "an item was lost although nothing had been enqueued before it", k
        y = max(prev, key=lambda j: offered_at[j])
        if not eq(items[y], items[k]):
            return "an item was lost although the item enqueued immediately before it is different", [k, y]
        if delivered_at[y] < i:
            return "an item was lost although the equal item enqueued before it had already been taken out", [k, y]
    return None


def run_sequential(ctx, res: Result, max_len: int, only_flavour=None):
    import queue as _q
    import watchdog.events as ev
    import watchdog.observers.api as api
    from watchdog.utils.bricks import SkipRepeatsQueue

    flavours = [("plain", SkipRepeatsQueue), ("event", api.EventQueue), ("event-class", api.EventQueue)]
    if only_flavour:
        flavours = [f for f in flavours if f[0] == only_flavour]
    alphabet = [("put", 0), ("put", 1), ("get",)]
    seqs = []
    for c in ctx.corpus():
        if c.get("part") == "sequential":
            seqs.append([tuple(o) for o in c["ops"]])
    for n in range(0, max_len + 1):
        seqs += [list(p) for p in itertools.product(alphabet, repeat=n)]
    cases, metas = [], []
    for si, seq in enumerate(seqs):
        for flavour, cls in flavours:
            if flavour != "plain" and len(seq) > max_len - 1 and si % 3:
                continue        # the event flavours run a third of the longest sequences
            q = cls()
            items, vals, ops, results = [], [], [], []
            ident = {}
            for op in seq:
                if op[0] == "put":
                    x = make_item(flavour, op[1], (ev, api))
                    k = len(items)
                    items.append(x)
                    vals.append(op[1])
                    ident[id(x)] = k
                    before = q.qsize()
                    q.put(x)
                    ops.append(("put", k))
                    results.append("A" if q.qsize() == before + 1 else "D" if q.qsize() == before else "?")
                else:
                    ops.append(("get",))
                    try:
                        y = q.get_nowait()
                        results.append(("G", ident.get(id(y))))
                    except _q.Empty:
                        results.append("E")
            drained = []
            while True:
                try:
                    drained.append(ident.get(id(q.get_nowait())))
                except _q.Empty:
                    break
            case = {"part": "sequential", "flavour": flavour, "ops": [list(o) if o[0] == "get" else ["put", vals[o[1]]] for o in ops]}
            res.evaluations += 1
            res.hist("sequential_length", len(seq))
            drops = results.count("D")
            if drops or any(r == "E" for r in results):
                res.nontrivial.add(core.digest(case))
            if drops and len(res.samples) < 3 and len(seq) >= 5 and flavour != "plain":
                res.samples.append({**case, "results": [r if isinstance(r, str) else f"got#{r[1]}" for r in results]})
            eq = lambda a, b: a == b  # noqa: E731
            bad = oracle_sequential(ops, items, results, drained, eq)
            if bad:
                res.failures.append(Failure(what="sequential: " + bad[0], case=case,
                                            signature={"part": "sequential", "law": bad[0]},
                                            observed={"results": repr(results), "drained": drained, "detail": repr(bad[1])},
                                            expected="FIFO, and nothing lost except an item equal to the one enqueued "
                                                     "immediately before it while that one is still waiting"))
            ref, ref_wait = reference_run(ops, items, eq)
            if ref != results or ref_wait != drained:
                res.mismatches.append(Mismatch(pair="sequential reference (drops exactly the permitted duplicates)",
                                               case=case, model=repr((ref, ref_wait)), impl=repr((results, drained))))
            cases.append(sx([Atom("seq"), [[Atom("put"), o[1] + 1, vals[o[1]]] if o[0] == "put" else [Atom("get")] for o in ops]]))
            metas.append((case, results, drained))
    outs = core.run_model("skipqueue", cases)
    for o, (case, results, drained) in zip(outs, metas):
        res.traces_validated += 1
        if o and o[0] == "ERR":
            res.mismatches.append(Mismatch(pair="seq_put/seq_get", case=case, model=o, impl=repr(results)))
            continue
        mres = [r if isinstance(r, str) else ("G", int(r[1][0]) - 1) for r in o[0]]
        mqueue = [int(i[0]) - 1 for i in o[1][0]]
        if mres != results or mqueue != drained:
            res.mismatches.append(Mismatch(pair="seq_put/seq_get", case=case, model=repr((mres, mqueue)),
                                           impl=repr((results, drained))))


# =============================================================================================== (b)+(c) concurrent
_OBS = {}


def obs_queue_class():
    """EventQueue (bound to the scheduler twins) with observation points. Nothing of its behaviour is changed."""
    if "cls" in _OBS:
        return _OBS["cls"]
    from harness import detsched as ds
    ds.install()
    from watchdog.observers.api import EventQueue

    class LoggedAttr(ds.YieldAttr):
        def __get__(self, obj, typ=None):
            if obj is None:
                return self
            v = super().__get__(obj, typ)
            s = ds.CUR
            if s is not None and not s.killed:
                t = s.me()
                if t is not None and t.name not in obj.c16_inside:
                    s.log("read", v)          # an unlocked read (same atomic section as the read itself)
            return v

    class ObsQueue(EventQueue):
        if hasattr(EventQueue(), "_last_item"):
            _last_item = LoggedAttr("_last_item")

        def _init(self, maxsize):
            self.c16_inside = set()
            super()._init(maxsize)

        def _put(self, item):
            s = ds.CUR
            t = s.me() if s is not None else None
            name = t.name if t is not None else "main"
            self.c16_inside.add(name)
            try:
                super()._put(item)
            finally:
                self.c16_inside.discard(name)
            if s is not None:
                s.log("append", item)

        def _get(self):
            s = ds.CUR
            t = s.me() if s is not None else None
            name = t.name if t is not None else "main"
            self.c16_inside.add(name)
            try:
                item = super()._get()
            finally:
                self.c16_inside.discard(name)
            if s is not None:
                s.log("pop", item)
            return item

    _OBS["cls"] = ObsQueue
    _OBS["fine"] = "_last_item" in ObsQueue.__dict__
    return ObsQueue


def run_program(prog, chooser):
    """One execution of a program under the scheduler. prog = dict(producers=[[v..]..], mode, flavour)."""
    from harness import detsched as ds
    cls = obs_queue_class()
    import queue as _q
    import watchdog.events as ev
    import watchdog.observers.api as api

    s = ds.Scheduler(chooser, max_steps=4000)
    q = cls()
    nprod = len(prog["producers"])
    items = {}          # id(obj) -> (ident, value)
    keep = []
    counter = [0]
    done = [0]

    def fresh(v):
        x = make_item(prog["flavour"], v, (ev, api))
        counter[0] += 1
        items[id(x)] = (counter[0], v)
        keep.append(x)
        return x

    # all objects are created up front on the driver thread so that identities do not depend on the schedule
    objs = [[fresh(v) for v in vs] for vs in prog["producers"]]
    stop = fresh(STOP_VALUE) if prog["mode"] == "sentinel" else None

    def producer(i):
        def body():
            for x in objs[i]:
                s.log("offer", x)
                q.put(x)
                s.log("ret", x)
            done[0] += 1
            if done[0] == nprod and stop is not None:
                s.log("offer", stop)
                q.put(stop)
                s.log("ret", stop)
        return body

    def consumer():
        while True:
            if prog["mode"] == "sentinel":
                x = q.get()
                s.log("got", x)
                if x is stop:
                    return
            else:
                try:
                    x = q.get(timeout=0.5)
                except _q.Empty:
                    if done[0] == nprod:
                        return
                    continue
                s.log("got", x)

    for i in range(nprod):
        s.spawn(f"p{i}", producer(i))
    s.spawn("cons", consumer)
    s.run()
    return s, items, keep


def adapt(s, items):
    """Scheduler log -> (model labels, expected observations, public outcome, adapter problem)."""
    def key(x):
        return items.get(id(x)) if x is not None else None
    labels, expect, problem = [], [], None
    cur = {}
    got, offered, returned = [], [], []
    for e in s.events:
        t, kind = e[0], e[1]
        x = e[2] if len(e) > 2 else None
        p = int(t[1:]) + 1 if t.startswith("p") else 0
        if kind == "offer":
            cur[t] = [x, 0]
            offered.append(key(x))
        elif kind == "ret":
            cur.pop(t, None)
            returned.append(key(x))
        elif kind == "read":
            if t not in cur:
                problem = problem or f"unlocked read of _last_item by {t} outside put()"
                continue
            c = cur[t]
            if c[1] == 0:
                labels.append([Atom("r1"), p, key(c[0])[0], key(c[0])[1]])
            elif c[1] == 1:
                labels.append([Atom("r2"), p])
            else:
                problem = problem or f"more than two unlocked reads of _last_item in one put() by {t}"
                continue
            c[1] += 1
            k = key(x)
            expect.append(["R"] if x is None else ["R", k] if k else ["R", "?"])
        elif kind == "append":
            labels.append([Atom("put"), p])
            expect.append(["P", key(x) or "?"])
        elif kind == "pop":
            labels.append([Atom("get")])
            expect.append(["G", key(x) or "?"])
        elif kind == "got":
            got.append(key(x))
        elif kind == "uncaught":
            problem = problem or f"uncaught exception in {t}: {e[2:]}"
    return labels, expect, dict(got=got, offered=offered, returned=returned), problem


def oracle_concurrent(s, items):
    """The property text, evaluated on the linearisation of appends and pops and on the public calls.
    Uses neither the model nor the logged reads. Returns None or (law, detail)."""
    def key(x):
        return items.get(id(x))
    waiting, enq = [], []            # reconstructed queue content / everything appended (objects)
    open_puts = {}                   # thread -> [obj, appended?, justified?]
    delivered, offered_ids = [], set()
    lost = []
    for e in s.events:
        t, kind = e[0], e[1]
        x = e[2] if len(e) > 2 else None
        if kind == "offer":
            open_puts[t] = [x, False, False]
            offered_ids.add(id(x))
        elif kind == "append":
            waiting.append(x)
            enq.append(x)
            if t in open_puts and open_puts[t][0] is x:
                open_puts[t][1] = True
            else:
                return "an item was enqueued that no put() in progress had offered", repr(key(x))
        elif kind == "pop":
            if not waiting or waiting[0] is not x:
                return "the consumer took an item that was not at the head of the queue", repr(key(x))
            waiting.pop(0)
        elif kind == "got":
            if id(x) not in offered_ids:
                return "an item was delivered that was never offered", repr(x)
            if any(x is d for d in delivered):
                return "an item was delivered twice", repr(key(x))
            delivered.append(x)
        elif kind == "ret":
            o = open_puts.pop(t, None)
            if o is not None and not o[1] and not o[2]:
                lost.append(o[0])
        # the state after this event is a moment of every put() in progress: is a drop justified now?
        if waiting and enq and waiting[-1] is enq[-1]:
            for o in open_puts.values():
                if not o[1] and o[0] is not enq[-1] and o[0] == enq[-1]:
                    o[2] = True
    if [id(x) for x in delivered] != [id(x) for x in enq[:len(delivered)]]:
        return "items were not delivered in the order in which they were enqueued (FIFO)", \
            [repr([key(x) for x in delivered]), repr([key(x) for x in enq])]
    if lost:
        return "an item was lost although at no moment of its put() an equal item was the most recently enqueued one " \
               "and still waiting", repr([key(x) for x in lost])
    if s.deadlock is not None:
        return "deadlock: the consumer or a producer blocks forever", repr(s.deadlock.blocked)
    if s.livelock:
        return "the run did not terminate within the step limit", s.steps
    if s.uncaught():
        return "uncaught exception in a client thread", repr(s.uncaught())
    if len(delivered) != len(enq):
        return "an enqueued item was never delivered although the consumer ran until everything was done", \
            repr([key(x) for x in enq[len(delivered):]])
    return None


def gen_program(rng, small=False):
    nprod = rng.choice([1, 2, 2, 3, 3])
    prods = []
    for _ in range(nprod):
        n = rng.randint(1, 2 if small else 4)
        if rng.random() < 0.5:       # biased towards equal neighbours
            v = rng.randint(0, 1)
            prods.append([v if rng.random() < 0.75 else 1 - v for _ in range(n)])
        else:
            prods.append([rng.randint(0, 1) for _ in range(n)])
    return dict(producers=prods, mode=rng.choice(["sentinel", "sentinel", "timeout"]),
                flavour=rng.choice(["plain", "event", "event-class"]))


def judge(res: Result, prog, s, items, pending_cases, how):
    """Oracle now; the model comparison is batched (pending_cases)."""
    choices = [c for _, c in s.choices]
    case = {"part": "concurrent", **prog, "choices": choices}
    res.evaluations += 1
    labels, expect, public, problem = adapt(s, items)
    bad = oracle_concurrent(s, items)
    if bad:
        res.failures.append(Failure(what="concurrent: " + bad[0], case=case,
                                    signature={"part": "concurrent", "law": bad[0]}, observed=bad[1],
                                    expected="FIFO; every offered item delivered exactly once or dropped at a moment when an "
                                             "equal item was the most recently enqueued one and still waiting"))
    pending_cases.append((case, labels, expect, public, problem, s.deadlock is None and not s.livelock))
    # statistics
    ndrop = len(public["offered"]) - len(public["got"])
    reads2 = sum(1 for l in labels if l[0].s == "r2")
    res.hist("producers", len(prog["producers"]))
    res.hist("items", sum(len(p) for p in prog["producers"]))
    res.hist("drops_per_run", ndrop)
    res.hist("consumer_mode", prog["mode"])
    res.hist("schedule", how)
    pre = 0
    cur = None
    for opts, ch in s.choices:
        if cur in opts and ch != cur:
            pre += 1
        cur = ch
    res.hist("preemptions", min(pre, 10))
    if ndrop or reads2:
        res.nontrivial.add(core.digest([prog, [[a if not isinstance(a, Atom) else a.s for a in l] for l in labels]]))
    if len([x for x in res.samples if x.get("part") == "concurrent"]) < 2 and ndrop and reads2 >= 2 and len(prog["producers"]) > 1:
        res.samples.append({"part": "concurrent", **prog,
                            "labels": " ".join(sx(l) for l in labels),
                            "delivered": public["got"], "offered": public["offered"]})


def compare_with_model(res: Result, pending_cases):
    cases = [sx([Atom("run"), labels]) for _, labels, _, _, _, _ in pending_cases]
    outs = core.run_model("skipqueue", cases)
    for o, (case, labels, expect, public, problem, complete) in zip(outs, pending_cases):
        res.traces_validated += 1
        pair = "SkipQueue.step (lock-step replay of the real linearisation)"
        if problem:
            res.mismatches.append(Mismatch(pair=pair, case=case, model="-", impl=problem))
            continue
        if o and o[0] == "ERR":
            res.mismatches.append(Mismatch(pair=pair, case=case, model=o, impl="-"))
            continue
        obs, status, st = o
        mobs = [[ob[0]] + [(int(ob[1][0]), int(ob[1][1]))] if len(ob) > 1 else [ob[0]] for ob in obs]
        for i, (m, e) in enumerate(zip(mobs, expect)):
            if m != e:
                res.mismatches.append(Mismatch(pair=pair, case=case, model=f"step {i} {sx(labels[i])}: {m}",
                                               impl=f"step {i}: {e}"))
                break
        else:
            if status != "ok":
                i = int(status[1])
                res.mismatches.append(Mismatch(pair=pair, case=case,
                                               model=f"label {i} {sx(labels[i])} is not enabled in the model (after {[sx(l) for l in labels[:i]]})",
                                               impl=f"the real code did it and observed {expect[i]}"))
                continue
            if not complete:
                continue
            mout = [(int(i[0]), int(i[1])) for i in st[4]]
            mdropped = sorted((int(d[0][0]), int(d[0][1])) for d in st[5])
            got = public["got"]
            lost = sorted(set(public["offered"]) - set(got))
            if mout != got or mdropped != lost or st[2] or st[0]:
                res.mismatches.append(Mismatch(pair=pair, case=case,
                                               model={"out": mout, "dropped": mdropped, "in_flight": st[2], "queue": st[0]},
                                               impl={"delivered": got, "not delivered": lost}))


def small_programs():
    progs = []
    for flavour in ["plain", "event"]:
        for mode in ["sentinel", "timeout"]:
            for prods in [[[0], [0]], [[0, 0], [0]], [[0, 1], [0]], [[0, 0], [0, 0]], [[0, 1], [1, 0]], [[0], [0], [0]],
                          [[0], [1], [0]], [[0, 0, 0]], [[0, 0], [1]]]:
                progs.append(dict(producers=prods, mode=mode, flavour=flavour))
    return progs


def run_concurrent(ctx, res: Result):
    from harness import detsched as ds
    obs_queue_class()
    if not _OBS["fine"]:
        res.notes.append("SkipRepeatsQueue has no attribute _last_item any more: primitive-level yield points only")
    rng = ctx.rng("concurrent")
    pending = []
    for c in ctx.corpus():
        if c.get("part") == "concurrent":
            prog = {k: c[k] for k in ("producers", "mode", "flavour")}
            s, items, keep = run_program(prog, ds.ReplayChooser(c["choices"]))
            judge(res, prog, s, items, pending, "corpus")
    n_random = 1500 if not ctx.thorough else 6000
    for i in range(n_random):
        prog = gen_program(rng)
        s, items, keep = run_program(prog, ds.RandomChooser(rng.getrandbits(32), switch_prob=rng.choice([0.1, 0.3, 0.6]),
                                                            tick_prob=0.02))
        judge(res, prog, s, items, pending, "random")
    if ctx.thorough:
        total, complete, truncated = 0, 0, []
        cap = 4000
        for prog in small_programs():
            def once(ch, prog=prog):
                s, items, keep = run_program(prog, ch)
                s.c16 = (items, keep)
                return s
            n = 0
            for s in ds.explore(once, preemption_bound=2, max_runs=cap):
                judge(res, prog, s, s.c16[0], pending, "exhaustive<=2")
                n += 1
            if n >= cap:
                # the bound-2 space of this program is larger than the cap: cover bound 1 completely as well
                truncated.append(str(prog["producers"]))
                for s in ds.explore(once, preemption_bound=1, max_runs=cap):
                    judge(res, prog, s, s.c16[0], pending, "exhaustive<=1")
                    n += 1
            else:
                complete += 1
            total += n
            res.hist("explored_schedules_per_program", n)
        res.notes.append(f"thorough: {len(small_programs())} small programs, {total} explored schedules; for {complete} programs ALL schedules "
                         f"with <= 2 pre-emptions were run; for the others (producers {sorted(set(truncated))}) the first {cap} schedules with <= 2 "
                         f"pre-emptions and all schedules with <= 1 pre-emption")
    if _OBS["fine"]:
        compare_with_model(res, pending)
    else:
        res.notes.append("lock-step replay skipped (no _last_item to observe); the linearisation oracle ran on every execution")


def run(ctx) -> Result:
    res = Result()
    res.rule = ("(a) every put/get sequence of length <= 7 over 2 values (fresh objects) x item flavours; non-trivial = has a drop "
                "or a get on the empty queue; (b) random programs of 1-3 producers x <= 4 items over 2 values + 1 consumer "
                "(sentinel or timeout loop), one random schedule each (thorough: + all schedules with <= 2 pre-emptions of "
                "small programs); distinct = (program, label sequence); non-trivial = some item dropped or some put needed its "
                "second unlocked read; (d) all ordered pairs of 13 classes x 3 src x 3 dest x 2 synthetic events; non-trivial "
                "= distinct specs sharing the class or all field values")
    run_event_eq(ctx, res)
    n0 = res.evaluations
    run_sequential(ctx, res, 7 if not ctx.thorough else 8)
    res.notes.append(f"(a) exhaustive: all put/get sequences of length <= {7 if not ctx.thorough else 8} over 2 values, {res.evaluations - n0} runs "
                     "(plain items on SkipRepeatsQueue; events differing in path / in class only on EventQueue)")
    run_concurrent(ctx, res)
    minimise(res)
    return res


def case_size(case):
    if isinstance(case, dict) and case.get("part") == "concurrent":
        return (1, sum(len(p) for p in case["producers"]), len(case["choices"]))
    if isinstance(case, dict) and case.get("part") == "sequential":
        return (0, len(case["ops"]), 0)
    return (2, 0, 0)


def minimise(res: Result):
    """Report the smallest failing case first; shrink the schedule of the smallest concurrent failure."""
    res.failures.sort(key=lambda f: case_size(f.case))
    res.mismatches.sort(key=lambda m: case_size(m.case))
    conc = [f for f in res.failures if isinstance(f.case, dict) and f.case.get("part") == "concurrent"]
    if not conc:
        return
    from harness import detsched as ds
    f = conc[0]
    prog = {k: f.case[k] for k in ("producers", "mode", "flavour")}
    law = f.signature["law"]

    def still_fails(choices):
        s, items, keep = run_program(prog, ds.ReplayChooser(choices))
        bad = oracle_concurrent(s, items)
        return bool(bad) and bad[0] == law

    try:
        small = core.shrink_list(f.case["choices"], still_fails, max_rounds=60)
        s, items, keep = run_program(prog, ds.ReplayChooser(small))
        bad = oracle_concurrent(s, items)
        if bad and bad[0] == law:
            f.case = {"part": "concurrent", **prog, "choices": [c for _, c in s.choices]}
            f.observed = bad[1]
            res.failures.sort(key=lambda f: case_size(f.case))
    except Exception as e:  # noqa: BLE001
        res.notes.append(f"schedule shrinking failed: {e!r}")


def replay(ctx, obj) -> int:
    case = obj.get("case") or obj.get("first_disagreement", {}).get("case") or obj
    print("replay case:", case)
    res = Result()
    if isinstance(case, dict) and case.get("part") == "concurrent":
        from harness import detsched as ds
        prog = {k: case[k] for k in ("producers", "mode", "flavour")}
        s, items, keep = run_program(prog, ds.ReplayChooser(case["choices"]))
        pending = []
        judge(res, prog, s, items, pending, "replay")
        compare_with_model(res, pending)
        for e in s.events:
            print("  ", e[0], e[1], *(items.get(id(x), x) for x in e[2:]))
    elif isinstance(case, dict) and case.get("part") == "sequential":
        import types
        c2 = types.SimpleNamespace(corpus=lambda: [case], thorough=False)     # re-run just this sequence
        run_sequential(c2, res, -1, only_flavour=case.get("flavour"))
    else:
        run_event_eq(ctx, res)
        res.failures = [f for f in res.failures if f.case == case] or res.failures
    for f in res.failures:
        print("FAIL:", f.what, "observed", f.observed, "expected", f.expected)
    for m in res.mismatches:
        print("MISMATCH:", m.pair, "model", m.model, "impl", m.impl)
    return 1 if res.failures or res.mismatches else 0
