(* Facts about the flat file-system model, path rendering and replay (C20). *)
Require Import WD.Base.Prelude WD.Base.BStr WD.Model.SubEvents WD.Proofs.SubEventsProofs WD.Model.PlatFs.

Lemma path_ok_split p : path_ok p = true -> p <> [] /\ forallb valid_name p = true.
Proof.
  unfold path_ok. intros H. apply andb_true_iff in H as [H1 H2]. split; [|exact H2].
  destruct p; [discriminate | discriminate].
Qed.

Lemma relstr_cons n p : relstr (n :: p) = n ++ relsuffix p.
Proof.
  revert n; induction p as [|m p IH]; intros n.
  - unfold relsuffix. simpl. now rewrite app_nil_r.
  - change (relstr (n :: m :: p)) with (n ++ sep :: relstr (m :: p)). rewrite IH.
    unfold relsuffix. simpl. reflexivity.
Qed.

(* os.path.join(root, "a/b/c") = root + "/a/b/c" *)
Lemma join_rel root p :
  root <> [] -> last_is_sep root = false -> p <> [] -> forallb valid_name p = true ->
  join root (relstr p) = abspath root p.
Proof.
  intros Hr Hs Hp Hv. destruct p as [|n p]; [contradiction|].
  rewrite relstr_cons. cbn [forallb] in Hv. apply andb_true_iff in Hv as [Hn _].
  unfold abspath, relsuffix. cbn [map concat]. fold (relsuffix p).
  unfold join. destruct n as [|c n]; [discriminate|].
  unfold valid_name in Hn. cbn [forallb] in Hn. apply andb_true_iff in Hn as [Hc _].
  apply andb_true_iff in Hc as [Hc _]. apply negb_true_iff in Hc.
  cbn [app]. rewrite Hc. destruct root; [contradiction|]. rewrite Hs. reflexivity.
Qed.

Lemma path_eqb_eq a b : path_eqb a b = true <-> a = b.
Proof.
  revert b; induction a as [|x a IH]; intros [|y b]; simpl; split; intros H;
    try reflexivity; try discriminate.
  - apply andb_true_iff in H as [H1 H2]. apply beqb_eq in H1. apply IH in H2. congruence.
  - inversion H; subst. rewrite beqb_refl. simpl. now apply IH.
Qed.

Lemma path_eqb_refl a : path_eqb a a = true.
Proof. now apply path_eqb_eq. Qed.

Lemma lookup_app_miss f g p : fs_mem f p = false -> lookup (f ++ g) p = lookup g p.
Proof.
  unfold fs_mem, lookup. induction f as [|e f IH]; simpl; [reflexivity|].
  destruct (path_eqb (e_path e) p); [discriminate | exact IH].
Qed.

Lemma isdir_new_entry f p k i : fs_mem f p = false ->
  fs_isdir (f ++ [Entry p k i]) p = kind_eqb k KDir.
Proof.
  intros H. unfold fs_isdir. rewrite lookup_app_miss by exact H.
  unfold lookup. simpl. now rewrite path_eqb_refl.
Qed.

Lemma isdir_new_head f p k i rest : fs_mem f p = false ->
  fs_isdir (f ++ Entry p k i :: rest) p = kind_eqb k KDir.
Proof.
  intros H. unfold fs_isdir. rewrite lookup_app_miss by exact H.
  unfold lookup. simpl. now rewrite path_eqb_refl.
Qed.

Lemma fresh_not_mem f p i : fresh_at f p i = true -> fs_mem f p = false.
Proof.
  unfold fresh_at. rewrite !andb_true_iff. intros [[[_ H] _] _]. now apply negb_true_iff in H.
Qed.

(* ---------------------------------------------------------------- prefix order on component paths *)
Lemma under_nil_r p : under p [] = true -> p = [].
Proof. destruct p; [reflexivity | discriminate]. Qed.

Lemma under_refl' s : under s s = true.
Proof. induction s as [|x s IH]; simpl; [reflexivity|]. now rewrite beqb_refl. Qed.

Lemma under_app s r : under s (s ++ r) = true.
Proof. induction s as [|x s IH]; simpl; [reflexivity|]. now rewrite beqb_refl. Qed.

Lemma under_split s q : under s q = true -> q = s ++ skipn (length s) q.
Proof.
  revert q; induction s as [|x s IH]; intros q H; [reflexivity|].
  destruct q as [|y q]; [discriminate|]. simpl in H. apply andb_true_iff in H as [H1 H2].
  apply beqb_eq in H1. subst. simpl. f_equal. now apply IH.
Qed.

Lemma under_trans a b c : under a b = true -> under b c = true -> under a c = true.
Proof.
  intros H1 H2. rewrite (under_split _ _ H2), (under_split _ _ H1), <- app_assoc. apply under_app.
Qed.

Lemma under_length s q : under s q = true -> (length s <= length q)%nat.
Proof. intros H. apply under_split in H. rewrite H. rewrite app_length. lia. Qed.

Lemma under_same_length s q : under s q = true -> length s = length q -> q = s.
Proof.
  intros H L. pose proof (under_split _ _ H) as E. rewrite E. 
  assert (skipn (length s) q = []) as -> by (apply skipn_all2; lia). now rewrite app_nil_r.
Qed.

(* two paths neither of which is a prefix of the other have no common extension *)
Lemma incomparable s d : under s d = false -> under d s = false -> forall r r', s ++ r <> d ++ r'.
Proof.
  revert d; induction s as [|x s IH]; intros d H1 H2 r r' E; [discriminate|].
  destruct d as [|y d]; [discriminate|]. simpl in *. inversion E; subst.
  rewrite beqb_refl in *. simpl in *. eapply IH; eauto.
Qed.

Lemma parent_app p r : r <> [] -> parent (p ++ r) = p ++ parent r.
Proof. intros H. unfold parent. now apply removelast_app. Qed.

Lemma parent_length p : p <> [] -> S (length (parent p)) = length p.
Proof.
  intros H. unfold parent. destruct (exists_last H) as (l & a & ->).
  rewrite removelast_last, app_length. simpl. lia.
Qed.

Lemma under_parent p q : under p (parent q) = true -> under p q = true.
Proof.
  destruct q as [|x q]; [auto|]. intros H.
  destruct (exists_last (l := x :: q)) as (l & a & E); [discriminate|].
  rewrite E in *. unfold parent in H. rewrite removelast_last in H.
  rewrite (under_split _ _ H), <- app_assoc. apply under_app.
Qed.

Lemma parent_under q : under (parent q) q = true.
Proof. apply under_parent, under_refl'. Qed.

(* ---------------------------------------------------------------- look-ups *)
Lemma lookup_in f p e : lookup f p = Some e -> In e f /\ e_path e = p.
Proof.
  unfold lookup. intros H. apply find_some in H as [H1 H2]. split; [exact H1 | now apply path_eqb_eq].
Qed.

Lemma lookup_none f p : lookup f p = None -> forall e, In e f -> e_path e <> p.
Proof.
  unfold lookup. intros H e He E. eapply find_none in H; [|exact He]. cbv beta in H.
  rewrite E, path_eqb_refl in H. discriminate.
Qed.

Lemma mem_in f p : fs_mem f p = true -> exists e, In e f /\ e_path e = p.
Proof.
  unfold fs_mem. destruct (lookup f p) as [e|] eqn:E; [|discriminate]. intros _. exists e. now apply lookup_in.
Qed.

Lemma not_mem_in f p : fs_mem f p = false -> forall e, In e f -> e_path e <> p.
Proof. unfold fs_mem. destruct (lookup f p) eqn:E; [discriminate|]. intros _. now apply lookup_none. Qed.

Lemma isdir_mem f p : fs_isdir f p = true -> fs_mem f p = true.
Proof. unfold fs_isdir, fs_mem. destruct (lookup f p); [reflexivity | discriminate]. Qed.

(* ---------------------------------------------------------------- parent-closed trees *)
Definition closed_fs (f : fs) : Prop :=
  forall e, In e f -> e_path e <> [] /\ (parent (e_path e) = [] \/ fs_isdir f (parent (e_path e)) = true).

Lemma wf_closed f : wf_fs f -> closed_fs f.
Proof. intros [_ H]. exact H. Qed.

(* nothing lies below a path that is not in the tree *)
Lemma no_orphans f p : closed_fs f -> p <> [] -> fs_mem f p = false ->
  forall e, In e f -> under p (e_path e) = false.
Proof.
  intros C Hp Hm.
  assert (H : forall n e, In e f -> length (e_path e) = n -> under p (e_path e) = false).
  { induction n as [n IH] using lt_wf_ind. intros e He Hn.
    destruct (under p (e_path e)) eqn:U; [|reflexivity]. exfalso.
    pose proof (under_split _ _ U) as E. set (r := skipn (length p) (e_path e)) in *.
    destruct r as [|x r'] eqn:Er.
    - rewrite app_nil_r in E. eapply not_mem_in; eauto.
    - destruct (C e He) as [Hne Hpar].
      assert (Hpp : parent (e_path e) = p ++ parent (x :: r')) by (rewrite E at 1; apply parent_app; discriminate).
      destruct Hpar as [Hpar|Hpar].
      + rewrite Hpp in Hpar. destruct p; [contradiction | discriminate].
      + apply isdir_mem, mem_in in Hpar as (e' & He' & Ee').
        assert (Hlt : (length (e_path e') < n)%nat).
        { rewrite Ee'. pose proof (parent_length _ Hne). lia. }
        pose proof (IH _ Hlt e' He' eq_refl) as Hu. rewrite Ee', Hpp, under_app in Hu. discriminate. }
  intros e He. eapply H; eauto.
Qed.

(* nothing lies below a path that is not a directory of the tree *)
Lemma below_nondir_leaf f s : closed_fs f -> s <> [] -> fs_isdir f s = false ->
  forall e, In e f -> under s (e_path e) = true -> e_path e = s.
Proof.
  intros C Hs Hd.
  assert (H : forall n e, In e f -> length (e_path e) = n -> under s (e_path e) = true -> e_path e = s).
  { induction n as [n IH] using lt_wf_ind. intros e He Hn U.
    pose proof (under_split _ _ U) as E. set (r := skipn (length s) (e_path e)) in *.
    destruct r as [|x r'] eqn:Er; [now rewrite app_nil_r in E|]. exfalso.
    destruct (C e He) as [Hne Hpar].
    assert (Hpp : parent (e_path e) = s ++ parent (x :: r')) by (rewrite E at 1; apply parent_app; discriminate).
    destruct Hpar as [Hpar|Hpar].
    - rewrite Hpp in Hpar. destruct s; [contradiction | discriminate].
    - pose proof Hpar as Hpar'. apply isdir_mem, mem_in in Hpar as (e' & He' & Ee').
      assert (Hlt : (length (e_path e') < n)%nat).
      { rewrite Ee'. pose proof (parent_length _ Hne). lia. }
      assert (Hu : under s (e_path e') = true) by (rewrite Ee', Hpp; apply under_app).
      pose proof (IH _ Hlt e' He' eq_refl Hu) as Es. rewrite Ee' in Es. rewrite Es in Hpar'. congruence. }
  intros e He. eapply H; eauto.
Qed.
