(* C05 - After unschedule/remove/stop returns, the removed handler is never called again. *)
Require Import WD.Base.Prelude WD.Model.Observer WD.Proofs.ObserverProofs WD.Proofs.ObserverExamples.

(* In every run: if a callback (h,w,_) occurs after a removal event that covers (h,w) - the mutation of
   remove_handler_for_watch (GRemoved), unschedule / a failed start (GRemovedW), unschedule_all / stop
   (GRemovedAll) - then (h,w) was registered again in between.  The log is newest-first.
   The membership re-check before each callback is what makes this hold for re-entrant removals. *)
Theorem C05_no_callback_after_removal : forall s, reachable s ->
  forall l3 h w e l2 r l1, glog s = l3 ++ GCb h w e :: l2 ++ r :: l1 -> covers r h w -> In (GAdded h w) l2.
Proof. exact no_callback_after_removal. Qed.
Print Assumptions C05_no_callback_after_removal.

(* The removal events are issued by the removing calls before their Return (program order of `body`). *)
Theorem C05_removing_calls_remove : forall fx h w,
  In (IRemH h w) (body fx (CRemove h w)) /\ In (IUnsched w) (body fx (CUnschedule w)) /\
  In IClear (body fx CUnscheduleAll) /\ In IClear (body fx CStop).
Proof. exact removing_bodies. Qed.
Print Assumptions C05_removing_calls_remove.

(* A callback needs the handler to be registered now (and the dispatcher to be at a turn). *)
Theorem C05_callback_needs_membership : forall s t i k inp s' h w e x,
  exec s t i k inp = Some s' -> glog s' = GCb h w e :: x :: glog s ->
  i = DTurns /\ dcur s = Some (e, w) /\ memN h (dtodo s) = true /\
  memN h (hset w (handlers s)) = true /\ dtodo s' = remN h (dtodo s) /\ x = GTurn h.
Proof. exact exec_callback. Qed.
Print Assumptions C05_callback_needs_membership.

(* unschedule(w) continues with stop + join of the emitter it removed, before release and Return ... *)
Theorem C05_unschedule_joins : forall s t w k s' e,
  alookup N.eqb w (efw s) = Some e -> amem N.eqb w (handlers s) = true -> memE e (emitters s) = true ->
  exec s t (IUnsched w) k NoIn = Some s' ->
  cont s' t = IEmStop e :: IEmJoin e :: IDelWatch w :: k.
Proof. exact unschedule_joins. Qed.
Print Assumptions C05_unschedule_joins.

(* ... join returns only for an exited (or never started) emitter thread ... *)
Theorem C05_join_means_exited : forall s t e k inp s', exec s t (IEmJoin e) k inp = Some s' ->
  exists m, get_em s e = Some m /\ (em_started m = false \/ em_exited m = true).
Proof. exact join_means_exited. Qed.
Print Assumptions C05_join_means_exited.

(* ... and an exited emitter thread never takes a step again: no later put. *)
Theorem C05_exited_emitter_silent : forall s l e m,
  em_of l = Some e -> get_em s e = Some m -> em_exited m = true -> step s l = None.
Proof. exact exited_no_step. Qed.
Print Assumptions C05_exited_emitter_silent.

(* Full statement in terms of Return labels; what is missing is the (purely structural) invariant that a
   non-raised GRet of a removing call is preceded, after its GCall, by its removal event, and that an
   exited emitter stays exited. *)
Definition C05_full : Prop := forall s, reachable s ->
  forall l3 h w e l2 t c l1, glog s = l3 ++ GCb h w e :: l2 ++ GRet t c false :: l1 ->
    (c = CRemove h w \/ c = CUnschedule w \/ c = CUnscheduleAll \/ c = CStop) -> In (GAdded h w) l2.

Example C05_nonvacuous :
  option_map (fun s => (delivered 1%N 2%N s, dequeued 2%N s, existsb (fun g => match g with GRemoved 1%N 2%N => true | _ => false end) (glog s)))
             (run init tr_remove) = Some ([7], [7; 8], true)%N.
Proof. vm_compute. reflexivity. Qed.
