(* Interleaving semantics (DESIGN.md 4.2): a labelled transition system with a partial,
   deterministic step function.  "For every interleaving" = "for every label list".  *)
Require Import WD.Base.Prelude.

Record lts := { St : Type; Lbl : Type; init : St; step : St -> Lbl -> option St }.

Fixpoint run (M : lts) (s : St M) (tr : list (Lbl M)) : option (St M) :=
  match tr with
  | [] => Some s
  | l :: tr' => match step M s l with Some s' => run M s' tr' | None => None end
  end.

Definition reachable (M : lts) (s : St M) : Prop := exists tr, run M (init M) tr = Some s.

Lemma run_app M s tr1 tr2 :
  run M s (tr1 ++ tr2) = match run M s tr1 with Some s' => run M s' tr2 | None => None end.
Proof.
  revert s; induction tr1 as [|l tr1 IH]; intros s; simpl; [reflexivity|].
  destruct (step M s l); [apply IH | reflexivity].
Qed.

Lemma run_invariant M (Inv : St M -> Prop) :
  (forall s l s', Inv s -> step M s l = Some s' -> Inv s') ->
  forall tr s s', Inv s -> run M s tr = Some s' -> Inv s'.
Proof.
  intros Hs tr; induction tr as [|l tr IH]; intros s s' Hi Hr; simpl in Hr.
  - inversion Hr; subst; assumption.
  - destruct (step M s l) as [s1|] eqn:E; [|discriminate]. eapply IH; [|eassumption]. eapply Hs; eassumption.
Qed.

Lemma invariant_reachable M (Inv : St M -> Prop) :
  Inv (init M) ->
  (forall s l s', Inv s -> step M s l = Some s' -> Inv s') ->
  forall s, reachable M s -> Inv s.
Proof. intros H0 Hs s [tr Hr]. eapply run_invariant; eassumption. Qed.

Lemma reachable_init M : reachable M (init M).
Proof. exists []. reflexivity. Qed.

Lemma reachable_run M s tr s' : reachable M s -> run M s tr = Some s' -> reachable M s'.
Proof. intros [tr0 H0] H. exists (tr0 ++ tr). rewrite run_app, H0. exact H. Qed.

Lemma reachable_step M s l s' : reachable M s -> step M s l = Some s' -> reachable M s'.
Proof. intros R H. apply (reachable_run M s [l] s' R). simpl. rewrite H. reflexivity. Qed.
