"""Histories for the inotify pipeline: generator, executor on the REAL observer (gated, real kernel),
model case construction (extracted Pipeline model) and lock-step comparison.

A history is a list of steps:
  ["op", kind, path(, path2)]   kind in touch|write|chmod|unlink|mkdir|rmdir|rename ; a path is a list of names
                                whose first element is "R" (the watched root) or "O" (a sibling outside it)
  ["read", k] | ["emit"] | ["tick", d] | ["drain"]         (drain = macro expanded at run time)
"""
from __future__ import annotations

import os
import shutil
import threading

from harness import gated
from harness.core import Atom, sx

DELAY_UNITS = 4      # 0.5 s in units of gated.GatedObserver.UNIT (0.125 s)

CLS = {"FileCreatedEvent": "FileCreated", "FileDeletedEvent": "FileDeleted", "FileModifiedEvent": "FileModified",
       "FileMovedEvent": "FileMoved", "FileClosedEvent": "FileClosed", "FileClosedNoWriteEvent": "FileClosedNoWrite",
       "FileOpenedEvent": "FileOpened", "DirCreatedEvent": "DirCreated", "DirDeletedEvent": "DirDeleted",
       "DirModifiedEvent": "DirModified", "DirMovedEvent": "DirMoved"}


def enc(p):
    return os.fsencode(p) if p != "" and p != b"" else b""


def canon_event(e):
    return [CLS[type(e).__name__], enc(e.src_path), enc(e.dest_path), bool(e.is_synthetic)]


def collapse(evs):
    out = []
    for e in evs:
        if not out or out[-1] != e:
            out.append(e)
    return out


def sort_synthetic_runs(evs):
    """os.walk order is the kernel's directory order; compare runs of synthetic events as sorted lists."""
    out, run = [], []
    for e in evs:
        if e[3]:
            run.append(e)
        else:
            out += sorted(run)
            run = []
            out.append(e)
    return out + sorted(run)


class Run:
    """One history executed on the real InotifyObserver."""

    def __init__(self, *, recursive=True, full=False, path_kind="str", init_tree=None, event_filter=None,
                 drop_noise=True, root_spelling="abs", late_at=()):
        self.sc = gated.scratch()
        self.root_spelling = root_spelling
        self._cwd = None
        self.rootp = os.path.join(self.sc, "R")
        self.outp = os.path.join(self.sc, "O")
        os.makedirs(self.rootp)
        os.makedirs(self.outp)
        for path, isdir in (init_tree or []):
            p = self.real(path)
            if isdir:
                os.makedirs(p, exist_ok=True)
            else:
                open(p, "w").close()
        self.recursive, self.full, self.path_kind = recursive, full, path_kind
        self.init_fs = self.listing()
        spelled = self.rootp
        if root_spelling == "rel":
            self._cwd = os.getcwd()
            os.chdir(self.sc)
            spelled = "R"
        elif root_spelling == "trail":
            spelled = self.rootp + "/"
        self.spelled_root = spelled
        self.g = gated.GatedObserver(spelled, recursive=recursive, full=full, path_kind=path_kind,
                                     event_filter=event_filter, drop_noise=drop_noise)
        # late_at: at the n-th inotify_add_watch call (counted from the start of the watch) another process creates a
        # sub-directory in the very directory that is about to be watched - between whatever listing of it the library
        # has done and the moment the kernel starts reporting.  Such runs have no model case (oracles only).
        self.late = []
        for n in late_at:
            self.g.add_watch_hooks[n] = self._late_hook
        for pth, _ in self.init_fs:
            self._register(pth)
        self.shadow = {tuple(os.path.relpath(os.fsdecode(pth), self.sc).split("/")): d for pth, d in self.init_fs}
        self.mirror = []         # (object, put clock units, delayed)
        self.log = []            # executed actions with observations: dicts
        self.skipped = 0
        self.lagged = False
        self._patch_queue()
        self.g.start()
        self.g.read()            # initial directory-scan noise
        self.started_noise = self.g.noise

    def _late_hook(self, path):
        p = os.path.join(os.fsdecode(path), f"late{len(self.late)}")
        try:
            os.mkdir(p)
            self.late.append(p)
        except OSError:
            pass

    def _register(self, p):
        try:
            ino = os.lstat(p).st_ino
        except OSError:
            return
        self.g.ino_order.setdefault(ino, len(self.g.ino_order))
        self.g.ino_order[ino] = len(self.g.ino_order) if False else self.g.ino_order[ino]

    # ---- paths
    def real(self, path):
        return os.path.join(self.sc, *path)

    def listing(self):
        """[(abs path bytes, isdir)] for R, O and everything below, in os.walk order (dirs first)."""
        out = [(os.fsencode(self.rootp), True), (os.fsencode(self.outp), True)]
        for top in (self.rootp, self.outp):
            for r, ds, fs in os.walk(top):
                for d in ds:
                    out.append((os.fsencode(os.path.join(r, d)), True))
                for f in fs:
                    out.append((os.fsencode(os.path.join(r, f)), False))
        return out

    def _shadow_apply(self, kind, p, q):
        sh = self.shadow
        if kind == "touch":
            sh[p] = False
        elif kind == "mkdir":
            sh[p] = True
        elif kind in ("unlink", "rmdir"):
            sh.pop(p, None)
        elif kind == "rename":
            for k in [k for k in sh if k == q or k[:len(q)] == q]:
                del sh[k]
            moved = {k: v for k, v in sh.items() if k == p or k[:len(p)] == p}
            for k in moved:
                del sh[k]
            for k, v in moved.items():
                sh[q + k[len(p):]] = v

    def _next_order(self):
        self._order = getattr(self, "_order", 10 ** 6) + 1
        return self._order

    def units(self):
        return int(round((self.g.vclock.now - 1000.0) / self.g.UNIT))

    # ---- delay-queue mirror (availability of the next item), through wrappers on the public methods
    def _patch_queue(self):
        from watchdog.utils import delayed_queue
        DQ = delayed_queue.DelayedQueue
        me = self
        self._saved = (DQ.put, DQ.remove)
        oput, orem = DQ.put, DQ.remove

        def put(q, element, *, delay=False):
            me.mirror.append((element, me.units(), bool(delay)))
            return oput(q, element, delay=delay)

        def remove(q, predicate):
            r = orem(q, predicate)
            if r is not None:
                for i, (o, _, _) in enumerate(me.mirror):
                    if o is r:
                        del me.mirror[i]
                        break
            return r

        DQ.put, DQ.remove = put, remove

    def available(self):
        if not self.mirror or not self.g._emitter_parked:
            return False
        _, t, delayed = self.mirror[0]
        return (not delayed) or self.units() >= t + DELAY_UNITS

    # ---- actions
    def op(self, kind, path, path2=None):
        p = self.real(path)
        # what the operation is about, captured before it runs (used by the C03 oracle)
        # (from the run's own shadow of the tree: scanning directories here would queue inotify noise)
        pt = tuple(path)
        was_dir = bool(self.shadow.get(pt, False))
        desc = []
        if kind == "rename" and was_dir:
            for k, isd in self.shadow.items():
                if len(k) > len(pt) and k[:len(pt)] == pt:
                    desc.append((os.fsencode("/" + "/".join(k[len(pt):])), isd))
        q_real = self.real(path2) if path2 else None
        replaced = bool(q_real and os.path.lexists(q_real))
        replaced_dir = bool(q_real and os.path.isdir(q_real))
        try:
            if kind == "touch":
                if os.path.lexists(p):
                    raise FileExistsError(p)
                open(p, "x").close()
            elif kind == "write":
                if os.path.isdir(p):
                    raise IsADirectoryError(p)
                with open(p, "r+b") as f:       # existing file only
                    f.seek(0, 2)
                    f.write(b"x")
            elif kind == "chmod":
                os.chmod(p, 0o700 if os.path.isdir(p) else 0o600)
                # a chmod to the same mode still notifies
            elif kind == "unlink":
                os.unlink(p)
            elif kind == "mkdir":
                os.mkdir(p)
            elif kind == "rmdir":
                os.rmdir(p)
            elif kind == "rename":
                q = self.real(path2)
                if p == q:
                    raise FileExistsError(q)      # rename onto itself is a silent no-op: skipped on both sides
                if os.path.isdir(p) and not os.path.isdir(q) and os.path.lexists(q):
                    raise NotADirectoryError(q)
                os.rename(p, q)
            else:
                raise ValueError(kind)
            ok = True
            if kind in ("touch", "mkdir"):
                # a new entry: a recycled inode number must not keep the creation index of a dead entry
                try:
                    self.g.ino_order[os.lstat(p).st_ino] = self._next_order()
                except OSError:
                    pass
        except OSError:
            ok = False
            self.skipped += 1
        if ok:
            self._shadow_apply(kind, pt, tuple(path2) if path2 else None)
        ent = {"a": "op", "kind": kind, "path": path, "path2": path2, "ok": ok,
               "p": os.fsencode(p), "q": os.fsencode(q_real) if q_real else None, "was_dir": was_dir,
               "descendants": desc, "replaced": replaced and ok, "replaced_dir": replaced_dir}
        self.log.append(ent)
        return ok

    def read(self, k=10 ** 6):
        recs = self.g.read(k)
        self.log.append({"a": "read", "k": len(recs) if k >= 10 ** 6 else k, "raw": [list(r) for r in recs],
                         "maps": self.g.reader_maps() if self.g._reader_parked else None})
        return recs

    def emit(self):
        if not self.available():
            return None
        self.mirror.pop(0)
        evs = self.g.emit()
        self.log.append({"a": "emit", "events": [canon_event(e) for e in evs], "objs": evs})
        return evs

    def tick(self, d):
        self.g.tick(d)
        self.log.append({"a": "tick", "d": d})

    def hold_dispatcher(self):
        """From now on the handler blocks: the dispatcher falls behind the emitter, events pile up in the observer's queue
        (model comparison of the per-step events is off for such a run; the oracles see the events once released)."""
        import threading
        self.g.hold_dispatch = threading.Event()
        self.lagged = True

    def release_dispatcher(self):
        evs = self.g.release_dispatch()
        self.log.append({"a": "emit", "events": [canon_event(e) for e in evs], "objs": evs, "late": True})
        return evs

    def drain(self, max_rounds=200):
        for _ in range(max_rounds):
            progressed = False
            while self.g._reader_parked and self.g.pending_bytes() > 0:
                self.read()
                progressed = True
            while self.available():
                self.emit()
                progressed = True
            if self.mirror and self.g._emitter_parked and not self.available():
                self.tick(DELAY_UNITS)
                progressed = True
            if not progressed:
                break

    def execute(self, history):
        for st in history:
            if st[0] == "op":
                self.op(*st[1:])
            elif st[0] == "read":
                self.read(st[1])
            elif st[0] == "emit":
                self.emit()
            elif st[0] == "tick":
                self.tick(st[1])
            elif st[0] == "drain":
                self.drain()
            elif st[0] == "hold":
                self.hold_dispatcher()
            elif st[0] == "release":
                self.drain()
                self.release_dispatcher()
        return self

    def close(self):
        from watchdog.utils import delayed_queue
        try:
            if self.g.hold_dispatch is not None:
                self.g.release_dispatch()
            ok = self.g.stop()
        finally:
            delayed_queue.DelayedQueue.put, delayed_queue.DelayedQueue.remove = self._saved
            if self._cwd:
                os.chdir(self._cwd)
            shutil.rmtree(self.sc, ignore_errors=True)
        return ok

    # ---- model case
    def model_case(self, fixes=(True, True, True, True), faults=()):
        root = os.fsencode(self.rootp)
        cfg = [self.recursive, self.full, DELAY_UNITS, root, Atom("all"), fixes[0], fixes[1], fixes[2], list(faults),
               Atom("none"), fixes[3] if len(fixes) > 3 else True]
        ents = [[p, i + 1, d] for i, (p, d) in enumerate(self.init_fs)]
        acts = []
        for e in self.log:
            if e["a"] == "op":
                a = [Atom(e["kind"]), os.fsencode(self.real(e["path"]))]
                if e["kind"] == "rename":
                    a.append(os.fsencode(self.real(e["path2"])))
                acts.append(a)
            elif e["a"] == "read":
                acts.append([Atom("read"), e["k"]])
            elif e["a"] == "emit":
                acts.append(Atom("emit"))
            elif e["a"] == "tick":
                acts.append([Atom("tick"), e["d"]])
        return sx([cfg, [ents, len(ents) + 1], acts])


def canon_cookies(raws):
    m = {}
    out = []
    for wd, mask, cookie, name in raws:
        if cookie:
            cookie = m.setdefault(cookie, len(m) + 1)
        out.append([wd, mask, cookie, name])
    return out


def compare(run: Run, out):
    """Lock-step comparison of the model's observations with the real run. Returns list of (what, index, model, real)."""
    diffs = []
    if out[0] == "initfail":
        return [("model construction failed", 0, None, None)]
    obs = out[3] if out[0] == "crash" else out[1]
    states = (out[5] if len(out) > 5 else None) if out[0] == "crash" else (out[3] if len(out) > 3 else None)
    real_raw, model_raw = [], []
    for i, e in enumerate(run.log):
        if i >= len(obs):
            if out[0] == "crash":
                diffs.append((f"model crashed at site {out[1]} (KeyError in the reader)", int(out[2]), "Crash", e["a"]))
            break
        o = obs[i]
        if e["a"] == "op":
            mok = (o == "none")
            if mok != e["ok"]:
                diffs.append(("operation applicability", i, o, e))
        elif e["a"] == "read":
            real_raw += [[r[0], r[1], r[2], bytes(r[3])] for r in e["raw"]]
            if isinstance(o, list):
                model_raw += [[int(x[0]), int(x[1]), int(x[2]), bytes.fromhex(x[3][1:])] for x in o[1:]]
            if canon_cookies(model_raw) != canon_cookies(real_raw):
                diffs.append(("raw kernel records handed to the reader", i, canon_cookies(model_raw)[-6:], canon_cookies(real_raw)[-6:]))
                break
            if states is not None and i < len(states) and isinstance(states[i], list) and e.get("maps"):
                m_wfp = {bytes.fromhex(x[0][1:]): int(x[1]) for x in states[i][0]}
                m_pfw = {int(x[0]): bytes.fromhex(x[1][1:]) for x in states[i][1]}
                r_wfp, r_pfw = e["maps"]
                if m_wfp != r_wfp or m_pfw != r_pfw:
                    def dd(a, b):
                        return sorted((k, a.get(k), b.get(k)) for k in set(a) | set(b) if a.get(k) != b.get(k))[:6]
                    diffs.append(("reader book-keeping after the read (_wd_for_path / _path_for_wd; key, model, real)", i,
                                  {"wd_for_path": dd(m_wfp, r_wfp), "path_for_wd": dd(m_pfw, r_pfw)}, None))
                    break
        elif e["a"] == "emit":
            mev = [[x[0], bytes.fromhex(x[1][1:]), bytes.fromhex(x[2][1:]), x[3] == "1"] for x in o[1:]] if isinstance(o, list) else None
            rev = e["events"]
            if mev is None or sort_synthetic_runs(collapse(mev)) != sort_synthetic_runs(collapse(rev)):
                diffs.append(("events queued by one queue_events()", i, mev, rev))
                break
    return diffs


# ------------------------------------------------------------------ generator
NAMES = ["a", "b", "ab"]        # one name is a proper prefix of another (string-prefix vs path-component bugs)


class Shadow:
    """The generator's own view of the tree (paths as tuples), to produce mostly-valid operations."""

    def __init__(self, init=()):
        self.ent = {("R",): True, ("O",): True}
        for p, d in init:
            self.ent[tuple(p)] = d

    def dirs(self, area=None):
        return [p for p, d in self.ent.items() if d and (area is None or p[0] == area)]

    def files(self, area=None):
        return [p for p, d in self.ent.items() if not d and (area is None or p[0] == area)]

    def children(self, p):
        return [q for q in self.ent if len(q) == len(p) + 1 and q[:len(p)] == p]

    def apply(self, kind, p, q=None):
        p = tuple(p)
        if kind in ("touch", "mkdir"):
            if p in self.ent or p[:-1] not in self.ent or not self.ent[p[:-1]]:
                return False
            self.ent[p] = (kind == "mkdir")
        elif kind in ("write",):
            return p in self.ent and not self.ent[p]
        elif kind == "chmod":
            return p in self.ent
        elif kind == "unlink":
            if p not in self.ent or self.ent[p]:
                return False
            del self.ent[p]
        elif kind == "rmdir":
            if p not in self.ent or not self.ent[p] or self.children(p) or len(p) == 1:
                return False
            del self.ent[p]
        elif kind == "rename":
            q = tuple(q)
            if p not in self.ent or len(p) == 1 or q[:len(p)] == p or q[:-1] not in self.ent or not self.ent[q[:-1]]:
                return False
            if q in self.ent:
                if self.ent[p] != self.ent[q] or (self.ent[q] and self.children(q)):
                    return False
                del self.ent[q]
            moved = {k: v for k, v in self.ent.items() if k[:len(p)] == p}
            for k in moved:
                del self.ent[k]
            for k, v in moved.items():
                self.ent[q + k[len(p):]] = v
        return True


def gen_history(rng, n_ops=8, depth=3, paced=True, burst_prob=0.5, outside=True, moved_out_ops=False,
                rename_after_arrival=0.15, names=None):
    """A (mostly valid) operation history.  With `paced`, a drain is inserted before an operation touches a
    directory (its contents, its old or new name) that was created/renamed/moved/removed since the last drain -
    except that a directory may be renamed again right after it arrived (the pacing condition of C01).
    Without `moved_out_ops`, nothing below a directory that has left the tree is touched again (it may move back)."""
    names = names or NAMES
    sh = Shadow()
    hist = []
    hot = set()          # paths involved in directory operations since the last drain
    arrived = None       # a directory that has just arrived (mkdir / move in), eligible for one immediate rename
    left = set()         # directories (now in O) that were in the tree before

    def touches_hot(*paths):
        for p in paths:
            for h in hot:
                if p[:len(h)] == h or h[:len(p)] == p:
                    return True
        return False

    def under_left(p):
        return any(p[:len(l)] == l and len(p) > len(l) for l in left)

    def rand_path(parent_pool):
        par = rng.choice(parent_pool)
        return par + (rng.choice(names),)

    for _ in range(n_ops):
        r = rng.random()
        areas = None if outside else "R"
        dirs = [d for d in sh.dirs(areas) if len(d) < depth + 1 and (moved_out_ops or not (d in left or under_left(d)))]
        files = [f for f in sh.files(areas) if moved_out_ops or not under_left(f)]
        kind, p, q = None, None, None
        if arrived is not None and arrived in sh.ent and rng.random() < rename_after_arrival / 0.15 * 0.5:
            kind, p, q = "rename", arrived, rand_path([d for d in dirs if d[:len(arrived)] != arrived] or [("R",)])
        elif r < 0.22 and dirs:
            kind, p = "touch", rand_path(dirs)
        elif r < 0.32 and files:
            kind, p = rng.choice(["write", "chmod"]), rng.choice(files)
        elif r < 0.42 and files:
            kind, p = "unlink", rng.choice(files)
        elif r < 0.62 and dirs:
            kind, p = "mkdir", rand_path(dirs)
        elif r < 0.70:
            cands = [d for d in dirs if len(d) > 1]
            if cands:
                kind, p = "rmdir", rng.choice(cands)
        elif r < 0.74:
            cands = [d for d in dirs if len(d) > 1]
            if cands:
                kind, p = "chmod", rng.choice(cands)
        else:
            cands = [e for e in sh.ent if len(e) > 1 and (areas is None or e[0] == areas)
                     and (moved_out_ops or not under_left(e))]
            if cands and dirs:
                p = rng.choice(cands)
                kind, q = "rename", rand_path(dirs)
        if kind is None:
            continue
        p = tuple(p)
        q = tuple(q) if q else None
        is_dir_entry = sh.ent.get(p, False)
        isdirop = kind in ("mkdir", "rmdir") or (kind in ("rename", "chmod") and is_dir_entry)
        paths = [p] + ([q] if q else [])
        second_rename = (kind == "rename" and arrived is not None and p == arrived)
        if paced and touches_hot(*paths) and not second_rename:
            hist.append(["drain"])
            hot.clear()
            arrived = None
        if paced and second_rename and touches_hot(q):
            # the new name must not be one of the names involved either
            if any(h != p and (q[:len(h)] == h or h[:len(q)] == q) for h in hot):
                hist.append(["drain"])
                hot.clear()
                arrived = None
        if not sh.apply(kind, p, q):
            if rng.random() < 0.8:
                continue          # keep a few invalid operations (they are skipped on both sides)
            hist.append(["op", kind, list(p)] + ([list(q)] if q else []))
            continue
        hist.append(["op", kind, list(p)] + ([list(q)] if q else []))
        if kind == "rename" and is_dir_entry:
            if q[0] == "O":
                # directories that left the tree keep that status under their new outside name
                left = {(q + l[len(p):]) if l[:len(p)] == p else l for l in left}
                if p[0] == "R":
                    left.add(q)
            else:
                left = {l for l in left if l[:len(p)] != p}
        if isdirop:
            hot.update(paths)
            arrived = None
            if kind == "mkdir" and p[0] == "R":
                arrived = p
            if kind == "rename" and is_dir_entry and q[0] == "R" and p[0] == "O":
                arrived = q
        if rng.random() > burst_prob:
            hist.append(["drain"])
            hot.clear()
            arrived = None
    hist.append(["drain"])
    return hist


def gen_history_leaving(rng, n_ops=10):
    """Directed family for C07: nested directories are built first (drained), then operations concentrate on
    directories leaving the tree, on what they leave behind (their former parents), on re-used names and on the
    moved-out directories themselves (unpaced, bursts)."""
    sh = Shadow()
    hist = []

    def do(kind, p, q=None):
        if sh.apply(kind, tuple(p), tuple(q) if q else None):
            hist.append(["op", kind, list(p)] + ([list(q)] if q else []))
            return True
        return False
    # build a small nested tree
    tops = rng.sample(NAMES, rng.randint(1, 2))
    for t in tops:
        do("mkdir", ("R", t))
        for sub in rng.sample(NAMES, rng.randint(1, 2)):
            do("mkdir", ("R", t, sub))
            if rng.random() < 0.5:
                do("touch", ("R", t, sub, rng.choice(NAMES)))
            if rng.random() < 0.3:
                do("mkdir", ("R", t, sub, rng.choice(NAMES)))
    hist.append(["drain"])
    out_names = iter(["x", "y", "z", "u", "v", "w"] * 3)
    for _ in range(n_ops):
        r = rng.random()
        in_dirs = [d for d in sh.dirs("R") if len(d) > 1]
        out_dirs = [d for d in sh.dirs("O") if len(d) > 1]
        if r < 0.3 and in_dirs:
            d = rng.choice(in_dirs)
            do("rename", d, ("O", next(out_names)))
        elif r < 0.5 and in_dirs:
            # remove (bottom-up) a directory of the tree, e.g. the former parent of something that left
            d = rng.choice(in_dirs)
            below = sorted([e for e in sh.ent if e[:len(d)] == d], key=len, reverse=True)
            for e in below:
                do("rmdir" if sh.ent.get(e) else "unlink", e)
        elif r < 0.62:
            par = rng.choice(sh.dirs("R"))
            do("mkdir", par + (rng.choice(NAMES),))
        elif r < 0.74 and out_dirs:
            d = rng.choice(out_dirs)
            k = rng.random()
            if k < 0.4:
                do("touch", d + (rng.choice(NAMES),))
            elif k < 0.7:
                below = sorted([e for e in sh.ent if e[:len(d)] == d], key=len, reverse=True)
                for e in below:
                    do("rmdir" if sh.ent.get(e) else "unlink", e)
            else:
                do("rename", d, rng.choice(sh.dirs("R")) + (rng.choice(NAMES),))
        elif r < 0.86:
            cands = [e for e in sh.ent if len(e) > 1]
            if cands:
                e = rng.choice(cands)
                do("rename", e, rng.choice(sh.dirs()) + (rng.choice(NAMES),))
        else:
            files = sh.files()
            if files:
                do(rng.choice(["unlink", "chmod", "write"]), rng.choice(files))
        if rng.random() < 0.45:
            hist.append(["drain"])
    hist.append(["drain"])
    return hist


def gen_history_renames(rng, n_renames=4):
    """Directed family for C02/C01: a nested chain of directories (with files) is built, then directories of the tree -
    preferably ancestors of other directories - are renamed several times, moved out and back in; paced (drain after
    every directory operation) so that the pacing condition holds trivially."""
    sh = Shadow()
    hist = []
    fresh = iter(["n%d" % i for i in range(40)])

    def do(kind, p, q=None, drain=True):
        if sh.apply(kind, tuple(p), tuple(q) if q else None):
            hist.append(["op", kind, list(p)] + ([list(q)] if q else []))
            if drain:
                hist.append(["drain"])
            return True
        return False
    depth = rng.randint(2, 3)
    p = ("R",)
    for _ in range(depth):
        p = p + (rng.choice(NAMES),)
        do("mkdir", p, drain=rng.random() < 0.6)
        if rng.random() < 0.5:
            do("mkdir", p[:-1] + (p[-1] + "2",), drain=rng.random() < 0.6)     # a sibling whose name extends this one (d, d2)
        if rng.random() < 0.5:
            do("touch", p + ("f",), drain=False)
        if rng.random() < 0.4:
            do("mkdir", p + (next(fresh),), drain=rng.random() < 0.5)
    hist.append(["drain"])
    for _ in range(n_renames):
        dirs = [d for d in sh.dirs("R") if len(d) > 1]
        if not dirs:
            break
        # prefer directories that have sub-directories
        withsub = [d for d in dirs if any(sh.ent.get(c) for c in sh.children(d))]
        d = rng.choice(withsub or dirs)
        twins = [x for x in dirs if x[:-1] + (x[-1] + "2",) in sh.ent]
        if twins and rng.random() < 0.5:
            d = rng.choice(twins)
        r = rng.random()
        empties = [e for e in dirs if not sh.children(e) and e[:len(d)] != d and d[:len(e)] != e]
        if r < 0.25 and empties:
            # take over the name of an existing empty directory (its late IN_IGNORED must not hurt the newcomer)
            do("rename", d, rng.choice(empties))
        elif r < 0.6:
            do("rename", d, d[:-1] + (next(fresh),))
        elif r < 0.8:
            # to another parent inside the tree
            pars = [x for x in sh.dirs("R") if x[:len(d)] != d]
            do("rename", d, rng.choice(pars) + (next(fresh),))
        else:
            out = ("O", next(fresh))
            if do("rename", d, out):
                do("rename", out, rng.choice(sh.dirs("R")) + (next(fresh),))
        if rng.random() < 0.3:
            # a sibling whose name extends the name of a directory (d, d2)
            dd = rng.choice(dirs)
            if dd in sh.ent:
                do("mkdir", dd[:-1] + (dd[-1] + "2",))
    # some activity in the final tree
    for dd in rng.sample(sh.dirs("R"), min(3, len(sh.dirs("R")))):
        do("touch", dd + ("g",), drain=False)
    hist.append(["drain"])
    return hist


def gen_history_arrivals(rng, n=3, rename_prob=0.8):
    """Directed family: directories WITH content arrive (moved in from outside, or created as a nested burst) and are renamed
    again right away - before the reader/emitter has looked at them (allowed by the pacing condition: 'a directory may be
    renamed again right after it arrived'); the emitter then walks a path that no longer exists."""
    sh = Shadow()
    hist = []
    fresh = iter(["m%d" % i for i in range(40)])

    def do(kind, p, q=None):
        if sh.apply(kind, tuple(p), tuple(q) if q else None):
            hist.append(["op", kind, list(p)] + ([list(q)] if q else []))
            return True
        return False
    for _ in range(n):
        par = rng.choice(sh.dirs("R"))
        a, b = par + (next(fresh),), par + (next(fresh),)
        if rng.random() < 0.6:
            o = ("O", next(fresh))
            do("mkdir", o)
            do("mkdir", o + ("s",))
            do("touch", o + ("f",))
            if rng.random() < 0.5:
                do("touch", o + ("s", "g"))
            hist.append(["drain"])
            do("rename", o, a)
        elif rng.random() < 0.3:
            o = ("O", next(fresh))
            do("mkdir", o)
            hist.append(["drain"])
            do("rename", o, a)               # an empty directory moved in
        else:
            do("mkdir", a)
        renamed = False
        if rng.random() < rename_prob:
            renamed = do("rename", a, b)     # right after it arrived
        cur = b if renamed else a
        if rng.random() < 0.25 and not sh.children(tuple(cur)):
            do("rmdir", cur)                 # ... and gone again before anybody looked (the re-watch fails with ENOENT)
        hist.append(["drain"])
        if rng.random() < 0.5:
            d = b if tuple(b) in sh.ent else a
            do("touch", tuple(d) + ("h",))
            hist.append(["drain"])
    hist.append(["drain"])
    return hist


def gen_history_filechurn(rng, n_ops=10):
    """Directed family: bursts of FILE operations (unlimited by the pacing condition) on very few names in one or two
    directories - create/delete/re-create, create/rename/re-create, replace by rename, move out and back - read by the
    observer in one or few batches."""
    sh = Shadow()
    hist = []

    def do(kind, p, q=None):
        if sh.apply(kind, tuple(p), tuple(q) if q else None):
            hist.append(["op", kind, list(p)] + ([list(q)] if q else []))
            return True
        return False
    dirs = [("R",)]
    if rng.random() < 0.6:
        d = ("R", rng.choice(NAMES))
        do("mkdir", d)
        dirs.append(d)
        hist.append(["drain"])
    names = rng.sample(NAMES, 2)
    for burst in range(rng.randint(1, 3)):
        for _ in range(n_ops):
            d = rng.choice(dirs)
            f = d + (rng.choice(names),)
            r = rng.random()
            if sh.ent.get(f) is None:
                do("touch", f)
            elif sh.ent.get(f):
                continue
            elif r < 0.45:
                do("unlink", f)
            elif r < 0.6:
                do(rng.choice(["write", "chmod"]), f)
            elif r < 0.85:
                do("rename", f, rng.choice(dirs) + (rng.choice(names),))
            else:
                do("rename", f, ("O", rng.choice(names)))
            if rng.random() < 0.08:
                hist.append(["read", rng.randint(1, 3)])
        hist.append(["drain"])
    return hist
