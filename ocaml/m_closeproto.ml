(* C12: CloseProto.replay and Ledger.emitter_start on wire cases.
   (replay <pinned|repaired> <wd 0/1> (label ...))  ->  ((ok fi fr fw ni nr nw closed reading lock pr pc) | (bad kind fd) | ne ...)
   (start <fixed 0/1> (fault ...) ndirs)            ->  (built (wd ...) dfd dthr) | (raised <exn> dfd dthr)      fault = () | (ENOENT) ... *)
open Sexp
open Conv
open CloseProto

let fd_of = function A "i" -> FI | A "r" -> FR | A "w" -> FW | _ -> failwith "fd"
let sx_fd = function FI -> A "i" | FR -> A "r" | FW -> A "w"
let label_of = function
  | A "Rcheck" -> R Check | A "Racq" -> R RAcq | A "Rrel" -> R RRl | A "Rpoll" -> R Poll
  | L [A "Rread"; mk; del] -> R (Read (bool_of mk, bool_of del))
  | L [A "Rclose"; f] -> R (RClose (fd_of f))
  | A "Raddwatch" -> R AddWatch
  | A "Cstop" -> C Stop | A "Cacq" -> C CAcq | A "Crel" -> C CRl
  | L [A "Crm"; ok] -> C (RmWatch (bool_of ok))
  | A "Cwrite" -> C Write
  | L [A "Cclose"; f] -> C (CClose (fd_of f))
  | A "K" -> KReadable
  | _ -> failwith "label"
let variant_of = function A "pinned" -> pinned | A "repaired" -> repaired | _ -> failwith "variant"
let sx_pr = function
  | RTop -> "RTop" | RWant1 -> "RWant1" | RIn1 -> "RIn1" | RPolling -> "RPolling" | RReading -> "RReading"
  | RWant2 -> "RWant2" | RIn2 -> "RIn2" | RC2 -> "RC2" | RC3 -> "RC3" | RRel -> "RRel" | RWant3 -> "RWant3"
  | RIn3 -> "RIn3" | RDone -> "RDone"
let sx_pc = function
  | CIdle -> "CIdle" | CIn -> "CIn" | CRm -> "CRm" | CC2 -> "CC2" | CC3 -> "CC3" | CRel -> "CRel" | CDone -> "CDone"
let sx_lock = function Free -> "free" | HeldR -> "R" | HeldC -> "C"
let sx_state = function
  | Ok s -> L [A "ok"; sx_bool s.fi; sx_bool s.fr; sx_bool s.fw; sx_nat s.ni; sx_nat s.nr; sx_nat s.nw;
               sx_bool s.closed; sx_bool s.reading; A (sx_lock s.lock); A (sx_pr s.pr); A (sx_pc s.pc)]
  | Bad (UseAfterClose (op, f)) -> L [A "bad"; A "use"; sx_nat op; sx_fd f]
  | Bad (DoubleClose f) -> L [A "bad"; A "dclose"; sx_fd f]
let sx_obs = function OState x -> sx_state x | ONotEnabled -> A "ne"

let errno_of = function
  | A "ENOENT" -> Ledger.ENOENT | A "ENOSPC" -> Ledger.ENOSPC | A "EMFILE" -> Ledger.EMFILE | A "EACCES" -> Ledger.EACCES
  | _ -> failwith "errno"
let sx_errno = function
  | Ledger.ENOENT -> "ENOENT" | Ledger.ENOSPC -> "ENOSPC" | Ledger.EMFILE -> "EMFILE" | Ledger.EACCES -> "EACCES"
let base = 100

let run = function
  | L [A "replay"; v; wd; L labels] ->
    let v = variant_of v in
    sx_list sx_obs (replay v (Ok (init v (bool_of wd))) (Stdlib.List.map label_of labels))
  | L [A "start"; fixed; L faults; n] ->
    let fs = Stdlib.List.map (opt_of errno_of) faults in
    let l0 = { Ledger.nfd = nat_of_int base; Ledger.nthr = nat_of_int base } in
    let (o, l) = Ledger.emitter_start (bool_of fixed) fs (nat_of n) l0 in
    let d = [sx_int (int_of_nat l.Ledger.nfd - base); sx_int (int_of_nat l.Ledger.nthr - base)] in
    (match o with
     | Ledger.Built h -> L ([A "built"; sx_list sx_z h.Ledger.h_wds] @ d)
     | Ledger.Raised (Ledger.OSError e) -> L ([A "raised"; A (sx_errno e)] @ d)
     | Ledger.Raised Ledger.ValueError -> L ([A "raised"; A "ValueError"] @ d))
  | _ -> failwith "closeproto: bad case"
