(* The Windows emitter meets the per-operation contract on the simulator's notifications, and the
   contract replays to the tree (C20 part 2). *)
Require Import WD.Base.Prelude WD.Base.BStr WD.Model.SubEvents WD.Proofs.SubEventsProofs.
Require Import WD.Model.PlatFs WD.Proofs.PlatFsProofs WD.Model.WinEmitter.

(* ---------------------------------------------------------------- one step per action *)
Section Steps.
  Variable isdir : bytes -> bool.
  Variable walk : bytes -> tree.
  Variable recursive : bool.
  Variable root : bytes.
  Let step := step isdir walk recursive root.

  Lemma step_old last p : step last (Native A_RENAMED_OLD p) = ([], join root p, false).
  Proof. reflexivity. Qed.

  Lemma step_new last p :
    step last (Native A_RENAMED_NEW p) =
    let src := join root p in
    if isdir src
    then (Moved KDir last src false ::
          (if recursive
           then map (fun x => Moved (fst (fst x)) (snd (fst x)) (snd x) true)
                    (sub_moved_events replace_first last src (walk src))
           else []), last, false)
    else ([Moved KFile last src false], last, false).
  Proof. reflexivity. Qed.

  Lemma step_modified last p :
    step last (Native A_MODIFIED p) = ([Modified (dirkind (isdir (join root p))) (join root p)], last, false).
  Proof. reflexivity. Qed.

  Lemma step_added last p :
    step last (Native A_ADDED p) =
    let src := join root p in
    (Created (dirkind (isdir src)) src false ::
     (if isdir src && recursive
      then map (fun x => Created (fst x) (snd x) true) (sub_created_events src (walk src))
      else []), last, false).
  Proof. reflexivity. Qed.

  Lemma step_removed last p : step last (Native A_REMOVED p) = ([Deleted KFile (join root p)], last, false).
  Proof. reflexivity. Qed.
End Steps.

(* ---------------------------------------------------------------- the contract *)
Section Contract.
  Variable isdir : bytes -> bool.
  Variable walk : bytes -> tree.
  Variable sub : path -> tree.
  Variable recursive : bool.
  Variable root : bytes.

  Hypothesis Hroot : root <> [].
  Hypothesis Hsep : last_is_sep root = false.
  (* the walk oracle lists the tree *)
  Hypothesis Hwalk : forall p, walk (abspath root p) = sub p.
  Hypothesis Hwf : forall p, wf_tree (sub p) = true.

  Lemma sub_created_abs p : p <> [] -> forallb valid_name p = true ->
    map (fun x => Created (fst x) (snd x) true) (sub_created_events (abspath root p) (walk (abspath root p)))
    = map (render root) (map (fun x => ACreated (fst x) (p ++ snd x) true) (desc [] (sub p))).
  Proof.
    intros Hp Hv. rewrite Hwalk.
    rewrite sub_created_correct;
      [| unfold abspath; destruct root; [contradiction | discriminate]
       | now apply last_is_sep_root | apply Hwf].
    rewrite !map_map. apply map_ext. intros [k rel]. cbn [fst snd render expect_created].
    unfold abspath. now rewrite relsuffix_app, app_assoc.
  Qed.

  Lemma sub_moved_abs s d : d <> [] -> forallb valid_name d = true ->
    map (fun x => Moved (fst (fst x)) (snd (fst x)) (snd x) true)
        (sub_moved_events replace_first (abspath root s) (abspath root d) (walk (abspath root d)))
    = map (render root) (map (fun x => AMoved (fst x) (s ++ snd x) (d ++ snd x) true) (desc [] (sub d))).
  Proof.
    intros Hd Hv. rewrite Hwalk.
    rewrite sub_moved_correct;
      [| unfold abspath; destruct root; [contradiction | discriminate]
       | unfold abspath; destruct root; [contradiction | discriminate]
       | now apply last_is_sep_root | apply Hwf].
    rewrite !map_map. apply map_ext. intros [k rel]. cbn [fst snd render expect_moved].
    unfold abspath. now rewrite !relsuffix_app, !app_assoc.
  Qed.

  (* the attribute after the operation's notifications: a rename leaves its old name behind *)
  Definition state_after (last : bytes) (o : op) : bytes :=
    match o with ORename s _ => abspath root s | _ => last end.

  (* the isdir oracle tells the truth about the tree after the operation *)
  Theorem win_contract_ok : forall (before : fs) (o : op) (last : bytes),
    op_names_ok o = true -> op_ok before o = true ->
    let after := apply_op before o in
    (forall p, In p (op_paths o) -> isdir (abspath root p) = fs_isdir after p) ->
    queue_events isdir walk recursive root last (map render_native (win_kernel o))
    = (map (render root) (win_contract sub recursive after o), state_after last o, false).
  Proof.
    intros before o last Hnames Hok after Hisdir'.
    assert (Hisdir : forall p, In p (op_paths o) -> isdir (abspath root p) = fs_isdir after p) by exact Hisdir'.
    clear Hisdir'.
    unfold queue_events.
    destruct o as [p i|p i|p|p|p|p|s d|s|d k i content]; cbn [win_kernel map batch_go]; unfold render_native; cbn [fst snd];
      cbn [op_names_ok] in Hnames.
    - (* create *)
      apply path_ok_split in Hnames as [Hp Hv].
      rewrite step_added. cbv zeta. rewrite join_rel by assumption.
      rewrite Hisdir by (now left). unfold after. cbn [apply_op]. rewrite isdir_new_entry by (apply (fresh_not_mem _ _ _ Hok)).
      reflexivity.
    - (* mkdir *)
      apply path_ok_split in Hnames as [Hp Hv].
      rewrite step_added. cbv zeta. rewrite join_rel by assumption.
      rewrite Hisdir by (cbn; auto). unfold after at 1 2. cbn [apply_op]. rewrite isdir_new_entry by (apply (fresh_not_mem _ _ _ Hok)).
      cbn [kind_eqb dirkind andb win_contract map render app].
      destruct recursive; [|reflexivity].
      rewrite sub_created_abs by assumption. cbn [app orb]. now rewrite app_nil_r.
    - (* write *)
      apply path_ok_split in Hnames as [Hp Hv].
      rewrite step_modified, join_rel by assumption. now rewrite Hisdir by (now left).
    - (* chmod *)
      apply path_ok_split in Hnames as [Hp Hv].
      rewrite step_modified, join_rel by assumption. now rewrite Hisdir by (now left).
    - apply path_ok_split in Hnames as [Hp Hv]. now rewrite step_removed, join_rel by assumption.
    - apply path_ok_split in Hnames as [Hp Hv]. now rewrite step_removed, join_rel by assumption.
    - (* rename inside the tree *)
      apply andb_true_iff in Hnames as [Hs Hd].
      apply path_ok_split in Hs as [Hs Hsv]. apply path_ok_split in Hd as [Hd Hdv].
      rewrite step_old, step_new. cbv zeta. rewrite !join_rel by assumption.
      rewrite Hisdir by (cbn; auto). cbn [win_contract]. destruct (fs_isdir after d); [|reflexivity].
      destruct recursive; [|reflexivity].
      rewrite sub_moved_abs by assumption. cbn [app orb]. now rewrite app_nil_r.
    - apply path_ok_split in Hnames as [Hp Hv]. now rewrite step_removed, join_rel by assumption.
    - (* move in *)
      apply andb_true_iff in Hnames as [Hnames _].
      apply path_ok_split in Hnames as [Hp Hv].
      rewrite step_added. cbv zeta. rewrite join_rel by assumption.
      rewrite Hisdir by (cbn; auto). unfold after at 1 2. cbn [apply_op].
      rewrite isdir_new_head by (cbn [op_ok] in Hok; apply andb_true_iff in Hok as [Hok _];
                                 apply andb_true_iff in Hok as [Hok _];
                                 apply andb_true_iff in Hok as [Hok _]; apply (fresh_not_mem _ _ _ Hok)).
      cbn [win_contract]. destruct k; cbn [kind_eqb dirkind andb map render app]; [reflexivity|].
      destruct recursive; [|reflexivity].
      rewrite sub_created_abs by assumption. cbn [app orb]. now rewrite app_nil_r.
  Qed.
End Contract.

(* ---------------------------------------------------------------- arbitrary cuts of the notification stream *)
Section Cuts.
  Variable isdir : bytes -> bool.
  Variable walk : bytes -> tree.
  Variable recursive : bool.
  Variable root : bytes.
  Let bg := batch_go isdir walk recursive root.

  Lemma batch_go_app : forall a b last,
    bg last (a ++ b) =
    let '(o1, l1, s1) := bg last a in
    let '(o2, l2, s2) := bg l1 b in
    (o1 ++ o2, l2, s1 || s2).
  Proof.
    unfold bg. induction a as [|e a IH]; intros b last.
    - cbn [app batch_go]. destruct (batch_go isdir walk recursive root last b) as [[o2 l2] s2]. reflexivity.
    - cbn [app batch_go]. destruct (step isdir walk recursive root last e) as [[o1 l1] s1].
      rewrite IH. destruct (batch_go isdir walk recursive root l1 a) as [[oa la] sa].
      destruct (batch_go isdir walk recursive root la b) as [[ob lb] sb].
      now rewrite app_assoc, orb_assoc.
  Qed.

  (* however a stream of notifications is cut into reads, the calls of queue_events together queue
     what one call on the whole stream queues, and leave the same state *)
  Theorem queue_events_cuts : forall reads last,
    queue_events_seq isdir walk recursive root last reads
    = queue_events isdir walk recursive root last (concat reads).
  Proof.
    unfold queue_events. induction reads as [|es rest IH]; intros last; [reflexivity|].
    cbn [queue_events_seq concat]. unfold queue_events. fold bg. rewrite batch_go_app. unfold bg.
    destruct (batch_go isdir walk recursive root last es) as [[o1 l1] s1].
    rewrite IH. reflexivity.
  Qed.
End Cuts.

Theorem win_contract_cut_ok :
  forall (isdir : bytes -> bool) (walk : bytes -> tree) (sub : path -> tree) (recursive : bool) (root : bytes),
  root <> [] -> last_is_sep root = false ->
  (forall p, walk (abspath root p) = sub p) -> (forall p, wf_tree (sub p) = true) ->
  forall (before : fs) (o : op) (last : bytes) (reads : list (list native)),
  op_names_ok o = true -> op_ok before o = true ->
  let after := apply_op before o in
  (forall p, In p (op_paths o) -> isdir (abspath root p) = fs_isdir after p) ->
  concat reads = map render_native (win_kernel o) ->
  queue_events_seq isdir walk recursive root last reads
  = (map (render root) (win_contract sub recursive after o), state_after root last o, false).
Proof.
  intros isdir walk sub recursive root Hr Hs Hw Hwf before o last reads Hn Hok after Hi Hc.
  rewrite queue_events_cuts, Hc. now apply win_contract_ok.
Qed.

(* ---------------------------------------------------------------- replaying the contract *)
Lemma under_refl s : under s s = true.
Proof. induction s as [|x s IH]; simpl; [reflexivity|]. now rewrite beqb_refl. Qed.

Lemma filter_view g f :
  view_of (filter (fun e => g (e_path e)) f) = filter (fun x => g (fst x)) (view_of f).
Proof.
  unfold view_of. induction f as [|e f IH]; simpl; [reflexivity|].
  destruct (g (e_path e)); simpl; now rewrite IH.
Qed.

(* the directory the emitter walks for synthetic events *)
Definition target (o : op) : path :=
  match o with OMkdir p _ => p | ORename _ d => d | OMoveIn d _ _ _ => d | _ => [] end.

(* operations on leaves: the renamed entry has nothing below it, an arriving directory is empty *)
Definition leaf_op (before : fs) (o : op) : Prop :=
  match o with
  | ORename s _ => forall e, In e before -> under s (e_path e) = true -> e_path e = s
  | OMoveIn _ _ _ content => content = []
  | _ => True
  end.

Theorem win_replay_leaf sub recursive before o :
  leaf_op before o -> desc [] (sub (target o)) = [] ->
  replay (view_of before) (win_contract sub recursive (apply_op before o) o) = view_of (apply_op before o).
Proof.
  intros Hleaf Hsub.
  destruct o as [p i|p i|p|p|p|p|s d|s|d k i content]; cbn [target] in Hsub; cbn [win_contract apply_op].
  - unfold view_of. now rewrite map_app.
  - rewrite Hsub. cbn [map]. replace (if recursive then [] else []) with (@nil aev) by now destruct recursive.
    unfold view_of. now rewrite map_app.
  - reflexivity.
  - reflexivity.
  - cbn [replay fold_left replay1]. now rewrite (filter_view (fun q => negb (under p q))).
  - cbn [replay fold_left replay1]. now rewrite (filter_view (fun q => negb (under p q))).
  - rewrite Hsub. cbn [map].
    assert (Hev : forall l, (l = [AMoved KDir s d false] \/ l = [AMoved KFile s d false]) ->
              replay (view_of before) l =
              view_of (map (fun e => if under s (e_path e)
                                     then Entry (reprefix s d (e_path e)) (e_kind e) (e_ino e) else e) before)).
    { intros l [-> | ->]; cbn [replay fold_left replay1]; unfold view_of; rewrite !map_map;
        apply map_ext_in; intros e He; cbn [fst snd]; cbn [leaf_op] in Hleaf;
        (destruct (under s (e_path e)) eqn:U;
         [ rewrite (Hleaf e He U), path_eqb_refl; cbn [e_path e_kind]; unfold reprefix;
           now rewrite skipn_all, app_nil_r
         | destruct (path_eqb (e_path e) s) eqn:P; [|reflexivity];
           apply path_eqb_eq in P; rewrite P, under_refl in U; discriminate ]). }
    apply Hev. destruct (fs_isdir _ d); [left | right; reflexivity]. now destruct recursive.
  - cbn [replay fold_left replay1]. now rewrite (filter_view (fun q => negb (under s q))).
  - cbn [leaf_op] in Hleaf. subst content. rewrite Hsub. cbn [map].
    replace (match k with KFile => [] | KDir => if recursive then [] else [] end) with (@nil aev)
      by (destruct k, recursive; reflexivity).
    unfold view_of. now rewrite map_app.
Qed.

(* ---------------------------------------------------------------- findings, as witnesses *)
Local Open Scope N_scope.
Definition r_ : bytes := [47; 114].          (* "/r" *)
Definition na : bytes := [97].  Definition nb : bytes := [98].

(* F11: the removal of a directory is queued with the File flavour *)
Lemma win_removed_flavour_refuted :
  let before := [Entry [na] KDir 5] in
  op_ok before (ORmdir [na]) = true /\ fs_isdir before [na] = true /\
  queue_events (fun _ => false) (fun _ => Node [] []) true r_ [] (map render_native (win_kernel (ORmdir [na])))
  = ([Deleted KFile (abspath r_ [na])], [], false).
Proof. vm_compute. repeat split. Qed.

(* F13 (pinned code): the same two notifications delivered by two reads - the pending old name is
   forgotten; the repaired code (state carried across calls) delivers the moved event with both paths *)
Lemma win_cut_refuted :
  let ns := map render_native (win_kernel (ORename [na] [nb])) in
  let q := queue_events_pinned (fun _ => false) (fun _ => Node [] []) true r_ in
  q ns = ([Moved KFile (abspath r_ [na]) (abspath r_ [nb]) false], false) /\
  fst (q (firstn 1 ns)) ++ fst (q (skipn 1 ns)) = [Moved KFile [] (abspath r_ [nb]) false] /\
  fst (fst (queue_events_seq (fun _ => false) (fun _ => Node [] []) true r_ [] [firstn 1 ns; skipn 1 ns]))
  = [Moved KFile (abspath r_ [na]) (abspath r_ [nb]) false].
Proof. vm_compute. repeat split. Qed.

(* ---------------------------------------------------------------- histories, one operation per batch *)
Section History.
  Variable sub : path -> tree.
  Variable recursive : bool.

  Fixpoint history_events (f : fs) (ops : list op) : list aev :=
    match ops with
    | [] => []
    | o :: r => win_contract sub recursive (apply_op f o) o ++ history_events (apply_op f o) r
    end.

  Fixpoint leaf_history (f : fs) (ops : list op) : Prop :=
    match ops with
    | [] => True
    | o :: r => leaf_op f o /\ desc [] (sub (target o)) = [] /\ leaf_history (apply_op f o) r
    end.

  Theorem win_replay_history_leaf : forall ops f, leaf_history f ops ->
    replay (view_of f) (history_events f ops) = view_of (fold_left apply_op ops f).
  Proof.
    induction ops as [|o r IH]; intros f H; [reflexivity|].
    destruct H as (Hl & Hs & Hr). cbn [history_events fold_left].
    unfold replay. rewrite fold_left_app. fold (replay (view_of f) (win_contract sub recursive (apply_op f o) o)).
    rewrite win_replay_leaf by assumption. apply IH, Hr.
  Qed.
End History.
