(* C20 - Windows and macOS translation layers meet the same contract on well-formed input; the two
   binary buffer codecs round-trip.  Only statements; every proof is `exact <lemma>`. *)
Require Import WD.Base.Prelude WD.Base.Le32.
Require WD.Model.CodecInotify WD.Proofs.CodecInotifyProofs.
Require WD.Model.CodecWin WD.Proofs.CodecWinProofs.

(* ================================================================ the inotify buffer *)
Module Inotify.
Import WD.Model.CodecInotify WD.Proofs.CodecInotifyProofs.

(* For every list of records (any count), each with any name length and any number pad >= 0 of NUL
   padding bytes (so also: empty name with len = 0, non-empty name without any padding), fields in
   the range of their C types and a name that does not end in NUL: Inotify._parse_event_buffer
   yields exactly the records that were encoded. *)
Theorem C20_inotify_roundtrip : forall rs : list (irec * nat),
  valid rs -> decode (encode rs) = Some (map fst rs).
Proof. exact inotify_roundtrip. Qed.
Print Assumptions C20_inotify_roundtrip.

(* The fuel of the model (= len(buffer)) never runs out: [decode] answers on every buffer,
   well-formed or not, so the [Some] above is not an artefact of a totalised definition. *)
Theorem C20_inotify_total : forall buf, decode buf <> None.
Proof. exact decode_total. Qed.
Print Assumptions C20_inotify_total.

(* Every real file name (no NUL byte at all) satisfies the name condition of [valid]. *)
Theorem C20_inotify_names : forall s, no_nul s = true -> ends_nul s = false.
Proof. exact no_nul_ends. Qed.
Print Assumptions C20_inotify_names.

(* The name condition is necessary: a name ending in NUL is cut by rstrip. *)
Theorem C20_inotify_trailing_nul_refuted : exists r p, decode (encode [(r, p)]) <> Some [r].
Proof. exact trailing_nul_refuted. Qed.
Print Assumptions C20_inotify_trailing_nul_refuted.

Example C20_inotify_nonvacuous :
  let rs := [(IRec 1 256 0 [97; 98; 99], 13%nat);            (* kernel style: padded to 16 *)
             (IRec (-1) 16384 0 [], 0%nat);                   (* IN_Q_OVERFLOW: wd = -1, len = 0 *)
             (IRec 2 1073741952 77 [100], 0%nat);             (* non-empty name, no padding at all *)
             (IRec 3 2 0 [], 16%nat)]%N in                    (* empty name, 16 NULs *)
  forallb valid_recb rs = true /\ length (encode rs) = 97%nat /\
  decode (encode rs) = Some (map fst rs).
Proof. vm_compute. repeat split. Qed.
End Inotify.

(* ================================================================ the ReadDirectoryChangesW buffer *)
Module Win.
Import WD.Model.CodecWin WD.Proofs.CodecWinProofs.

(* For every chain of FILE_NOTIFY_INFORMATION entries (any count), each with any name made of
   Unicode scalar values (any length; encoded as UTF-16-LE, surrogate pairs above U+FFFF), any
   padding bytes after the name, NextEntryOffset = entry size and 0 in the last entry, followed by
   arbitrary bytes [junk] (the unused rest of the 64000-byte buffer): winapi._parse_event_buffer
   with the repaired codec ("utf-16-le") returns exactly (Action, name) of every entry. *)
Theorem C20_win_roundtrip : forall (rs : list (wrec * bytes)) (junk : bytes),
  valid rs ->
  parse dec_utf16_le (encode rs ++ junk) (N.of_nat (length (encode rs))) = Ok (map fst rs).
Proof. exact win_roundtrip. Qed.
Print Assumptions C20_win_roundtrip.

(* n_bytes units of fuel are enough on every input. *)
Theorem C20_win_fuel : forall dec buf n, parse dec buf n <> NoFuel.
Proof. exact parse_fuel. Qed.
Print Assumptions C20_win_fuel.

(* The pinned code decodes with "utf-16", which honours a byte-order mark: refuted (finding F8). *)
Theorem C20_win_bom_refuted :
  exists rs, valid rs /\
    parse dec_utf16_bom (encode rs) (N.of_nat (length (encode rs))) <> Ok (map fst rs).
Proof. exact win_bom_refuted. Qed.
Print Assumptions C20_win_bom_refuted.

(* The defect is confined to names whose first character is U+FEFF or U+FFFE. *)
Theorem C20_win_bom_confined : forall s, forallb is_scalar s = true ->
  match s with c :: _ => c <> 65279%N /\ c <> 65534%N | [] => True end ->
  dec_utf16_bom (units_bytes (utf16_units s)) = dec_utf16_le (units_bytes (utf16_units s)).
Proof. exact dec_bom_agrees. Qed.
Print Assumptions C20_win_bom_confined.

Example C20_win_nonvacuous :
  let rs := [(WRec 1 [97; 98; 99], [0; 0]);                   (* "abc", 2 bytes of alignment *)
             (WRec 4 [65279; 97], []);                         (* starts with U+FEFF *)
             (WRec 5 [128512; 233], [7; 7]);                   (* astral character: surrogate pair *)
             (WRec 3 [], [])]%N in                             (* empty name *)
  forallb valid_recb rs = true /\
  parse dec_utf16_le (encode rs ++ [1; 2; 3]%N) (N.of_nat (length (encode rs))) = Ok (map fst rs) /\
  parse dec_utf16_bom (encode rs) (N.of_nat (length (encode rs)))
    = Ok [WRec 1 [97; 98; 99]; WRec 4 [97]; WRec 5 [128512; 233]; WRec 3 []]%N.
Proof. vm_compute. repeat split. Qed.
End Win.

(* ================================================================ the Windows emitter
   Everything about ReadDirectoryChangesW ([win_kernel]) is modelled from the documentation and
   cannot be validated in this sandbox. *)
Require WD.Base.BStr WD.Model.SubEvents WD.Model.PlatFs WD.Model.WinEmitter WD.Proofs.WinEmitterProofs WD.Proofs.WinReplayProofs WD.Proofs.WinFlavourProofs WD.Proofs.PlatFsProofs.
Require Import Coq.Sorting.Permutation.

Module WinEmit.
Import WD.Base.BStr WD.Model.SubEvents WD.Model.PlatFs WD.Proofs.PlatFsProofs WD.Model.WinEmitter WD.Proofs.WinEmitterProofs WD.Proofs.WinReplayProofs WD.Proofs.WinFlavourProofs.

(* Contract.  For every tree, every operation of the alphabet that succeeds in it (names valid, any
   depth), recursive or not: feeding the notifications the simulator renders for that one operation to
   WindowsApiEmitter.queue_events - whose os.path.isdir look-ups answer, on the paths the operation names, according to the tree
   *after* the operation (and os.walk lists that tree) - queues exactly the contract: a rename inside the tree is one moved event with
   both paths, followed (recursive watch, directory) by one synthetic moved event per descendant in
   os.walk order with the same relative path under both names; a move in is one created event (+ one
   synthetic created event per descendant); a move out is one deleted event (of the File flavour: F11);
   nothing else is queued and stop is not requested. *)
Theorem C20_win_contract :
  forall (isdir : bytes -> bool) (walk : bytes -> tree) (sub : path -> tree) (recursive : bool) (root : bytes),
  root <> [] -> last_is_sep root = false ->
  (forall p, walk (abspath root p) = sub p) -> (forall p, wf_tree (sub p) = true) ->
  forall (before : fs) (o : op) (last : bytes), op_names_ok o = true -> op_ok before o = true ->
  let after := apply_op before o in
  (forall p, In p (op_paths o) -> isdir (abspath root p) = fs_isdir after p) ->
  queue_events isdir walk recursive root last (map render_native (win_kernel o))
  = (map (render root) (win_contract sub recursive after o), state_after root last o, false).
Proof. exact win_contract_ok. Qed.
Print Assumptions C20_win_contract.

(* Arbitrary cuts (repaired code, fixes/F13): however the notification stream is cut into reads -
   in particular between RENAMED_OLD_NAME and RENAMED_NEW_NAME - the successive calls of queue_events
   queue together exactly what one call on the whole stream queues and leave the same pending name. *)
Theorem C20_win_cuts :
  forall isdir walk recursive root (reads : list (list native)) (last : bytes),
  queue_events_seq isdir walk recursive root last reads
  = queue_events isdir walk recursive root last (concat reads).
Proof. exact queue_events_cuts. Qed.
Print Assumptions C20_win_cuts.

(* Hence the contract holds for every cut of one operation's notifications. *)
Theorem C20_win_contract_cut :
  forall (isdir : bytes -> bool) (walk : bytes -> tree) (sub : path -> tree) (recursive : bool) (root : bytes),
  root <> [] -> last_is_sep root = false ->
  (forall p, walk (abspath root p) = sub p) -> (forall p, wf_tree (sub p) = true) ->
  forall (before : fs) (o : op) (last : bytes) (reads : list (list native)),
  op_names_ok o = true -> op_ok before o = true ->
  let after := apply_op before o in
  (forall p, In p (op_paths o) -> isdir (abspath root p) = fs_isdir after p) ->
  concat reads = map render_native (win_kernel o) ->
  queue_events_seq isdir walk recursive root last reads
  = (map (render root) (win_contract sub recursive after o), state_after root last o, false).
Proof. exact win_contract_cut_ok. Qed.
Print Assumptions C20_win_contract_cut.

(* Replay, one operation: the walked tree [sub] lists what lies below the target (as a set: os.walk
   order versus the tree's own order); replaying the contract on the view of the tree before gives the
   view after.  Holds for every operation of the alphabet, directories with content included: the
   chain of exact re-keys (the moved event and one synthetic moved event per descendant) equals the
   prefix rename because no destination d/r is a source s/r' (s and d are incomparable: d is not
   below s, and s is not below the fresh name d). *)
Theorem C20_win_replay :
  forall (sub : path -> tree) (before : fs) (o : op),
  wf_fs before -> op_names_ok o = true -> op_ok before o = true ->
  let after := apply_op before o in
  Permutation (map (fun x => (snd x, fst x)) (desc [] (sub (target o)))) (below after (target o)) ->
  Permutation (replay (view_of before) (win_contract sub true after o)) (view_of after).
Proof. exact win_replay_full_wf. Qed.
Print Assumptions C20_win_replay.

(* THE WINDOWS REPLAY LAW IN FULL.  For every history [ops] of the platform fs model executable from a
   well-formed tree [f], rendered by the simulator into one notification stream [win_stream ops], and
   for EVERY cut of that stream into reads (inside a rename pair, across operations, one read for
   everything ...), a recursive watch, any pending old name [last]: the calls of
   WindowsApiEmitter.queue_events, one per read, queue in total exactly the rendered contracts, and
   replaying that normalized stream on the view of [f] reproduces the final tree.
   Hypothesis [win_stream_ok] (WinReplayProofs.v) - it is about the file system, not about the cuts:
   each operation succeeds in the tree of its moment, and whenever the emitter gets to an operation's
   notifications os.path.isdir answers, on the paths that operation names, as right after the
   operation, and os.walk lists below its target what was there right after it (the pacing condition
   of C01; with one operation per read it says only that the oracles tell the truth).
   How F11 enters: the views replayed here are sets of (path, kind); a deleted event removes a path
   whatever its File/Dir flavour, so the law holds although every removed directory is reported as
   FileDeletedEvent.  The flavour law is stated separately, up to exactly that exception:
   C20_win_flavour_F11 below; the exception is real: C20_win_removed_flavour_refuted. *)
Theorem C20_win_replay_full :
  forall (isdir : bytes -> bool) (walk : bytes -> tree) (sub : path -> tree) (root : bytes)
         (ops : list op) (f : fs) (last : bytes) (reads : list (list native)),
  root <> [] -> last_is_sep root = false ->
  (forall p, walk (abspath root p) = sub p) -> (forall p, wf_tree (sub p) = true) ->
  wf_fs f -> win_stream_ok isdir sub root f ops ->
  concat reads = win_stream ops ->
  let es := win_contracts sub true f ops in
  fst (fst (queue_events_seq isdir walk true root last reads)) = map (render root) es /\
  Permutation (replay (view_of f) es) (view_of (fold_left apply_op ops f)).
Proof. exact win_replay_stream_full. Qed.
Print Assumptions C20_win_replay_full.

(* Flavour, up to F11: in the contract of every operation every event carries the kind of the entry it
   names (created / modified / moved-to: in the tree after; deleted: in the tree before), the synthetic
   ones included - with exactly one exception: a deleted event of the File flavour for what was a
   directory (rmdir, directory moved out).  That exception is finding F11 (known_findings.json): the
   API does not say what was removed and the entry can no longer be stat'ed. *)
Theorem C20_win_flavour_F11 :
  forall (sub : path -> tree) (before : fs) (o : op),
  closed_fs before -> op_names_ok o = true -> op_ok before o = true ->
  let after := apply_op before o in
  covers sub after o ->
  forall e, In e (win_contract sub true after o) -> flavour_ok before after e \/ f11_exception before e.
Proof. exact win_flavour. Qed.
Print Assumptions C20_win_flavour_F11.

(* Non-vacuity of [win_stream_ok] with a cut across operations: mkdir a; mv b c (b a file), read as
   [ADDED a; RENAMED_OLD b] [RENAMED_NEW c] and processed when both operations are done (the oracle is
   the final tree: a is a directory, c a file, b is gone). *)
Example C20_win_replay_full_nonvacuous :
  let c_ : bytes := [99%N] in
  let f := [Entry [nb] KFile 7%N] in
  let ops := [OMkdir [na] 5%N; ORename [nb] [c_]] in
  let isdir (p : bytes) := beqb p (abspath r_ [na]) in
  let sub (_ : path) := Node [] [] in
  win_stream_ok isdir sub r_ f ops /\
  queue_events_seq isdir (fun _ => Node [] []) true r_ []
    [firstn 2 (win_stream ops); skipn 2 (win_stream ops)]
  = (map (render r_) [ACreated KDir [na] false; AMoved KFile [nb] [c_] false], abspath r_ [nb], false).
Proof.
  split; [|vm_compute; reflexivity].
  cbn [win_stream_ok]. repeat split; try reflexivity.
  - intros p [<-|[]]. reflexivity.
  - intros _. vm_compute. constructor.
  - intros p [<-|[<-|[]]]; reflexivity.
  - intros _. vm_compute. constructor.
Qed.

(* Histories of any length, one operation per batch ([subs] = what os.walk listed at each step, each
   covering the target of its operation), from any well-formed tree: replaying the whole stream
   reproduces the final tree. *)
Theorem C20_win_replay_history :
  forall (ops : list op) (subs : list (path -> tree)) (f : fs),
  wf_fs f -> history_ok subs f ops ->
  Permutation (replay (view_of f) (win_history subs f ops)) (view_of (fold_left apply_op ops f)).
Proof. exact win_replay_history_wf. Qed.
Print Assumptions C20_win_replay_history.

(* The same at the level of the emitter (recursive watch): over a whole history, one operation at a
   time, each operation's notifications cut into reads in ANY way and the oracles of each moment
   answering for the tree after that operation, what WindowsApiEmitter.queue_events queues in total
   (pending old name carried across calls) is exactly the stream of rendered contracts, and replaying
   it reproduces the final tree. *)
Theorem C20_win_history :
  forall root ops steps f last,
  root <> [] -> last_is_sep root = false -> wf_fs f -> win_steps_ok root steps f ops ->
  let subs := map (fun st => w_sub (fst st)) steps in
  fst (win_run true root steps last) = map (render root) (win_history subs f ops) /\
  Permutation (replay (view_of f) (win_history subs f ops)) (view_of (fold_left apply_op ops f)).
Proof. exact win_emitter_history. Qed.
Print Assumptions C20_win_history.

(* Earlier, weaker form (kept): histories of any length, one operation per batch, in which every renamed entry is a
   leaf (a file or an empty directory) and every arriving directory is empty (so the walked tree has
   no descendants): replaying the contract stream reproduces the tree exactly.  Renames and arrivals of
   directories *with content* are covered by C20_win_contract + C14 (one synthetic event per
   descendant) and by the correspondence oracle on every run, not by this theorem. *)
Theorem C20_win_replay_partial :
  forall (sub : path -> tree) (recursive : bool) (ops : list op) (f : fs),
  leaf_history sub f ops ->
  replay (view_of f) (history_events sub recursive f ops) = view_of (fold_left apply_op ops f).
Proof. exact win_replay_history_leaf. Qed.
Print Assumptions C20_win_replay_partial.

(* F11 (known finding): FILE_ACTION_REMOVED of a directory is queued as FileDeletedEvent. *)
Theorem C20_win_removed_flavour_refuted :
  let before := [Entry [na] KDir 5%N] in
  op_ok before (ORmdir [na]) = true /\ fs_isdir before [na] = true /\
  queue_events (fun _ => false) (fun _ => Node [] []) true r_ [] (map render_native (win_kernel (ORmdir [na])))
  = ([Deleted KFile (abspath r_ [na])], [], false).
Proof. exact win_removed_flavour_refuted. Qed.
Print Assumptions C20_win_removed_flavour_refuted.

(* F13, record of the pinned code (pending name in a local variable, "" at every call): the rename
   pair cut across two calls loses the source path; the repaired code delivers both paths. *)
Theorem C20_win_cut_refuted :
  let ns := map render_native (win_kernel (ORename [na] [nb])) in
  let q := queue_events_pinned (fun _ => false) (fun _ => Node [] []) true r_ in
  q ns = ([Moved KFile (abspath r_ [na]) (abspath r_ [nb]) false], false) /\
  fst (q (firstn 1 ns)) ++ fst (q (skipn 1 ns)) = [Moved KFile [] (abspath r_ [nb]) false] /\
  fst (fst (queue_events_seq (fun _ => false) (fun _ => Node [] []) true r_ [] [firstn 1 ns; skipn 1 ns]))
  = [Moved KFile (abspath r_ [na]) (abspath r_ [nb]) false].
Proof. exact win_cut_refuted. Qed.
Print Assumptions C20_win_cut_refuted.

(* Non-vacuity: a directory with content renamed inside a recursively watched tree. *)
Example C20_win_nonvacuous :
  let c_ : bytes := [99%N] in
  let before := [Entry [na] KDir 1; Entry [na; nb] KDir 2; Entry [na; nb; c_] KFile 3; Entry [na; na] KFile 4]%N in
  let o := ORename [na] [c_] in
  let t := Node [(nb, Node [] [c_])] [na] in
  op_ok before o = true /\ op_names_ok o = true /\ wf_tree t = true /\
  queue_events_seq (fun p => beqb p (abspath r_ [c_])) (fun _ => t) true r_ []
                   [firstn 1 (map render_native (win_kernel o)); skipn 1 (map render_native (win_kernel o))]
  = (map (render r_) [AMoved KDir [na] [c_] false; AMoved KDir [na; nb] [c_; nb] true;
                      AMoved KFile [na; na] [c_; na] true; AMoved KFile [na; nb; c_] [c_; nb; c_] true],
     abspath r_ [na], false).
Proof. vm_compute. repeat split. Qed.
End WinEmit.

(* ================================================================ the FSEvents emitter
   Everything about FSEvents ([fsevents_kernel], coalescing) is modelled from the documentation and the
   comments in fsevents.py; it cannot be validated in this sandbox. *)
Require WD.Model.FsEvents WD.Proofs.FsEventsProofs WD.Proofs.FsContractProofs WD.Proofs.FsReplayProofs WD.Proofs.FsBatchProofs WD.Proofs.FsCutProofs WD.Proofs.PlatFsProofs.

Module Fse.
Import WD.Base.BStr WD.Model.SubEvents WD.Model.PlatFs WD.Model.FsEvents WD.Proofs.FsEventsProofs.
Import WD.Proofs.PlatFsProofs WD.Proofs.WinEmitterProofs WD.Proofs.WinReplayProofs WD.Proofs.FsContractProofs WD.Proofs.FsReplayProofs WD.Proofs.FsBatchProofs WD.Proofs.FsCutProofs.

(* Non-recursive watch: whatever the native batch (any flags, any paths, any coalescing, any cut), the
   _fs_view and the state of the file system, every queued event passed _is_recursive_event ... *)
Theorem C20_fsevents_flat :
  forall stat_ino walk root view evs out v s,
  queue_events stat_ino walk false root view evs = Some (out, v, s) ->
  Forall (fun e => is_recursive_event root e = false) out.
Proof. exact fsevents_flat. Qed.
Print Assumptions C20_fsevents_flat.

(* ... which, for created / deleted / modified events on paths root/n1/.../nk with valid names, means
   k <= 1: the root itself or one of its direct children (posixpath.dirname modelled by BStr.dirname). *)
Theorem C20_fsevents_flat_depth :
  forall root p, root <> [] -> last_is_sep root = false -> forallb valid_name p = true ->
  forall e, (exists k syn, e = Created k (abspath root p) syn) \/ (exists k, e = Deleted k (abspath root p)) \/
            (exists k, e = Modified k (abspath root p)) ->
  is_recursive_event root e = false -> (length p <= 1)%nat.
Proof. exact flat_depth. Qed.
Print Assumptions C20_fsevents_flat_depth.

(* The model's fuel (= len(events)) is enough for every batch. *)
Theorem C20_fsevents_total :
  forall stat_ino walk recursive root view evs, queue_events stat_ino walk recursive root view evs <> None.
Proof. exact fsevents_total. Qed.
Print Assumptions C20_fsevents_total.

(* _fs_view and the created-and-removed branch: whatever the view held before, an event flagged both
   created and removed leaves its inode OUT of the view.  This matters when the creation was processed
   in an earlier batch and the removal repeats the sticky ItemCreated flag (per-item flag coalescing
   across batch cuts): the branch's discard is the only thing that forgets the inode, and without it a
   later item that gets the recycled inode number would be taken for "historic" and its creation
   suppressed (last clause of the example below). *)
Theorem C20_fsevents_created_removed_forgets :
  forall stat_ino walk root view e rest,
  has e F_CREATED = true -> has e F_REMOVED = true ->
  mem (f_ino e) (snd (fst (fst (process stat_ino walk root view e rest)))) = false.
Proof. exact created_removed_forgets. Qed.
Print Assumptions C20_fsevents_created_removed_forgets.

Example C20_fsevents_sticky_created_inode_reuse :
  let a := abspath r_ [na] in let c := abspath r_ [nc] in
  let fl l := fold_left N.lor l 0%N in
  let qe := queue_events (fun _ => None) (fun _ => Node [] []) true r_ in
  qe [] [FNative a 7 (fl [F_CREATED; F_IS_FILE])]
    = Some ([Created KFile a false; Modified KDir r_], [7%N], false) /\
  qe [7%N] [FNative a 7 (fl [F_CREATED; F_MODIFIED; F_REMOVED; F_IS_FILE])]
    = Some ([Modified KFile a; Deleted KFile a; Modified KDir r_], [], false) /\
  qe [] [FNative c 7 (fl [F_CREATED; F_IS_FILE])]
    = Some ([Created KFile c false; Modified KDir r_], [7%N], false) /\
  qe [7%N] [FNative c 7 (fl [F_CREATED; F_IS_FILE])] = Some ([], [7%N], false).
Proof. exact sticky_created_inode_reuse. Qed.

(* A moved event is kept when its *destination* is a direct child: it then names its old place, which
   may be deeper.  The strict reading "no path below the direct children is ever mentioned" is false: *)
Theorem C20_fsevents_flat_strict_refuted :
  is_recursive_event r_ (Moved KFile (abspath r_ [na; nb]) (abspath r_ [nc]) false) = false.
Proof. exact fsevents_flat_strict_refuted. Qed.
Print Assumptions C20_fsevents_flat_strict_refuted.

(* Contract for one operation per batch without coalescing, any operation of the alphabet, any
   tree, recursive or not: given oracles that answer for the tree after the operation and a _fs_view
   that holds only inodes of the current tree, FSEventsEmitter.queue_events queues exactly the
   contract (created / deleted + parent modified; rename inside = one moved event with both paths +
   both parents modified + one synthetic moved event per descendant; move in = created + parent
   modified + synthetic created per descendant; move out = deleted + parent modified), after the
   non-recursive filter, and does not request a stop. *)
Theorem C20_fsevents_contract_full :
  forall stat_ino walk sub recursive root view before o,
  root <> [] -> last_is_sep root = false ->
  (forall p, walk (abspath root p) = sub p) -> (forall p, wf_tree (sub p) = true) ->
  wf_fs before -> op_names_ok o = true -> op_ok before o = true ->
  let after := apply_op before o in
  (forall p, stat_ino (abspath root p) = match lookup after p with Some e => Some (e_ino e) | None => None end) ->
  (forall i, mem i view = true -> ino_used before i = true) ->
  exists v,
    queue_events stat_ino walk recursive root view (map (frender root) (fsevents_kernel before o))
    = Some (filter (keep recursive root) (map (render root) (fse_contract sub before after o)), v, false).
Proof. exact fse_contract_full_wf. Qed.
Print Assumptions C20_fsevents_contract_full.

(* Replay, one operation: replaying the contract of any operation reproduces the tree. *)
Theorem C20_fsevents_replay :
  forall (sub : path -> tree) (before : fs) (o : op),
  wf_fs before -> op_names_ok o = true -> op_ok before o = true ->
  let after := apply_op before o in
  Permutation (map (fun x => (snd x, fst x)) (desc [] (sub (target o)))) (below after (target o)) ->
  Permutation (replay (view_of before) (fse_contract sub before after o)) (view_of after).
Proof. exact fse_replay_full_wf. Qed.
Print Assumptions C20_fsevents_replay.

(* THE FSEVENTS REPLAY LAW, for every history in which the findings F12a-e cannot occur.  A history is
   a list of batches; a batch is a list of operations delivered to ONE call of queue_events (recursive
   watch), coalesced by FSEvents or not, processed with the file system of that moment ([boracle]); the
   _fs_view is carried from call to call.  Hypotheses per batch ([batches_ok], FsBatchProofs.v):
     - [one_rename_per_item] (executable): no item is the subject of two rename-flagged operations
       (rename inside the tree, move in, move out) inside the batch - this is what F12a, F12b, F12c
       violate; it gives the emitter's look-ahead no wrong partner;
     - [batch_sem_ok]: every operation succeeds; at processing time os.stat still finds a moved-in item
       at its path / does not find a moved-out one, and os.walk lists below a renamed or arrived
       directory what was below it right after that operation (violated by F12d: an ancestor renamed
       later in the batch); a created item has an inode number never seen before;
     - a coalesced batch has no two events for the same item at the same path ([distinct_itemsb],
       executable) - F12e is the hoisting that coalescing otherwise causes.
   Then over the whole history the emitter queues exactly the rendered contracts of all operations,
   and replaying them reproduces the final tree. *)
Theorem C20_fsevents_replay_full :
  forall root (bs : list batch) seen view f,
  root <> [] -> last_is_sep root = false -> wf_fs f ->
  batches_ok root bs seen f -> (forall j, mem j view = true -> In j seen) ->
  exists v, batches_run root bs view f = Some (map (render root) (batches_contracts bs f), v) /\
            Permutation (replay (view_of f) (batches_contracts bs f)) (view_of (batches_final bs f)).
Proof. exact fse_batches_wf. Qed.
Print Assumptions C20_fsevents_replay_full.

(* Non-vacuity: two batches - {touch a; mv b c} delivered coalesced, then {mv c <outside>}. *)
Example C20_fsevents_replay_full_nonvacuous :
  let f := [Entry [nb] KFile 7%N] in
  let st (l : list (path * N)) (p : bytes) :=
      match find (fun x => beqb (abspath r_ (fst x)) p) l with Some x => Some (snd x) | None => None end in
  let e := Node [] [] in
  let bs : list batch :=
      [(BOracle (st [([na], 5%N); ([nc], 7%N)]) (fun _ => e) (fun _ => e), [OCreate [na] 5%N; ORename [nb] [nc]], true);
       (BOracle (st [([na], 5%N)]) (fun _ => e) (fun _ => e), [OMoveOut [nc]], false)] in
  one_rename_per_item f [OCreate [na] 5%N; ORename [nb] [nc]] = true /\
  batches_ok r_ bs [7%N] f /\
  batches_run r_ bs [] f = Some (map (render r_) (batches_contracts bs f), [5%N]) /\
  view_of (batches_final bs f) = [([na], KFile)].
Proof.
  split; [reflexivity|]. split; [|split; vm_compute; reflexivity].
  cbn [batches_ok fst snd]. repeat split; try reflexivity; try exact I.
  all: try (intros i [<-|[]] [H|[]]; discriminate); try (intros H; discriminate); try (intros i []);
    try (intros _; vm_compute; constructor).
Qed.

(* Histories of any length, one operation per batch, no coalescing, recursive watch, from any
   well-formed tree and any _fs_view within the inodes seen so far: the events the emitter queues over
   the whole history (its _fs_view carried from call to call) are exactly the rendered contracts, and
   replaying them reproduces the final tree.  [fse_history_ok] spells out the hypotheses per step:
   the operation succeeds, os.stat / os.walk answer for the tree after it, the walked tree covers the
   operation's target, and a created file or directory gets an inode number never seen before. *)
Theorem C20_fsevents_history :
  forall root ops orcs seen view f,
  root <> [] -> last_is_sep root = false -> wf_fs f ->
  fse_history_ok root orcs seen f ops -> (forall j, mem j view = true -> In j seen) ->
  exists v, fse_run true root orcs view f ops = Some (map (render root) (fse_history orcs f ops), v) /\
            Permutation (replay (view_of f) (fse_history orcs f ops)) (view_of (fold_left apply_op ops f)).
Proof. exact fse_history_recursive. Qed.
Print Assumptions C20_fsevents_history.

(* The no-inode-reuse hypothesis of [fse_history_ok] is necessary: mkdir a; touch a/f (inode 9);
   mv a <outside>; touch g (inode 9 again) - only a's inode left the _fs_view, so g's creation is not
   queued at all. *)
Theorem C20_fsevents_inode_reuse_refuted :
  let r_ : bytes := [47; 114]%N in
  let a := [[97]]%N in let af := [[97]; [102]]%N in let g := [[103]]%N in
  let ops := [OMkdir a 5; OCreate af 9; OMoveOut a; OCreate g 9]%N in
  let st (l : list (path * N)) (p : bytes) :=
      match find (fun x => beqb (abspath r_ (fst x)) p) l with Some x => Some (snd x) | None => None end in
  let e := Node [] [] in
  let orcs := [Oracle (st [(a, 5)]) (fun _ => e) (fun _ => e); Oracle (st [(a, 5); (af, 9)]) (fun _ => e) (fun _ => e);
               Oracle (st []) (fun _ => e) (fun _ => e); Oracle (st [(g, 9)]) (fun _ => e) (fun _ => e)]%N in
  exists out v, fse_run true r_ orcs [] [] ops = Some (out, v) /\
    ~ In (Created KFile (abspath r_ g) false) out /\
    view_of (fold_left apply_op ops []) = [(g, KFile)].
Proof. exact fse_inode_reuse_refuted. Qed.
Print Assumptions C20_fsevents_inode_reuse_refuted.

(* A batch cut inside one operation: only a rename has two events.  Delivered by two calls of
   queue_events (oracles of the tree after the rename), the look-ahead finds no partner: the first call
   queues deleted(old) + parent modified, the second created(new) + parent modified + one synthetic
   created event per descendant - no moved event (the "one moved event" clause of the contract is
   lost under such a cut) ... *)
Theorem C20_fsevents_cut_events_partial :
  forall stat_ino walk sub recursive root view (before : fs) s d,
  root <> [] -> last_is_sep root = false ->
  (forall p, walk (abspath root p) = sub p) -> (forall p, wf_tree (sub p) = true) ->
  closed_fs before -> op_names_ok (ORename s d) = true -> op_ok before (ORename s d) = true ->
  let after := apply_op before (ORename s d) in
  (forall p, stat_ino (abspath root p) = match lookup after p with Some e => Some (e_ino e) | None => None end) ->
  forall e, lookup before s = Some e ->
  let natives := map (frender root) (fsevents_kernel before (ORename s d)) in
  exists v1 v2,
    queue_events stat_ino walk recursive root view (firstn 1 natives)
    = Some (filter (keep recursive root) (map (render root) (ADeleted (e_kind e) s :: pmod s)), v1, false) /\
    queue_events stat_ino walk recursive root v1 (skipn 1 natives)
    = Some (filter (keep recursive root)
              (map (render root) (ACreated (e_kind e) d false :: pmod d ++
                                  map (fun x => ACreated (fst x) (d ++ snd x) true) (desc [] (sub d)))), v2, false).
Proof. exact fse_rename_cut_events. Qed.
Print Assumptions C20_fsevents_cut_events_partial.

(* ... but the replay law survives the cut: that stream still reproduces the tree. *)
Theorem C20_fsevents_cut_replay_partial :
  forall (sub : path -> tree) (before : fs) s d e,
  wf_fs before -> op_names_ok (ORename s d) = true -> op_ok before (ORename s d) = true ->
  lookup before s = Some e ->
  let after := apply_op before (ORename s d) in
  covers sub after (ORename s d) ->
  Permutation (replay (view_of before)
                 ((ADeleted (e_kind e) s :: pmod s) ++
                  (ACreated (e_kind e) d false :: pmod d ++
                   map (fun x => ACreated (fst x) (d ++ snd x) true) (desc [] (sub d)))))
              (view_of after).
Proof. exact fse_rename_cut_replay. Qed.
Print Assumptions C20_fsevents_cut_replay_partial.

(* Several operations delivered as ONE batch, arbitrarily many, no coalescing (recursive watch).
   The law holds exactly under [batch_ok] (FsBatchProofs.v), per operation of the batch:
     - it succeeds in the tree of its moment, names valid, a created item has a never-seen inode;
     - [stat_ok]: the path of a one-sided rename (move in / move out) is, when the batch is processed,
       still there with the item's inode / still gone;
     - [no_partner]: the item of a one-sided rename is not flagged renamed again later in the batch;
     - [covers]: os.walk, at processing time, lists below a renamed / arrived directory what was
       below it right after that operation.
   Then one call of queue_events on the whole batch queues the concatenated contracts and replaying
   them reproduces the tree.  The findings F12a-e violate these hypotheses (F12c: no_partner;
   F12d: stat_ok; F12a/b/e: coalescing, excluded here - see C20_fsevents_coalesce_distinct). *)
Theorem C20_fsevents_batch_partial :
  forall stat_ino walk sub root ops seen view f,
  root <> [] -> last_is_sep root = false ->
  (forall p, walk (abspath root p) = sub p) -> (forall p, wf_tree (sub p) = true) ->
  wf_fs f -> batch_ok stat_ino sub root seen f ops -> (forall j, mem j view = true -> In j seen) ->
  exists v, queue_events stat_ino walk true root view (batch_natives root f ops)
            = Some (map (render root) (batch_contracts sub f ops), v, false) /\
            Permutation (replay (view_of f) (batch_contracts sub f ops)) (view_of (fold_left apply_op ops f)).
Proof. exact fse_batch_recursive. Qed.
Print Assumptions C20_fsevents_batch_partial.

(* Coalescing merges events of the same item at the same path; a batch in which no two events share
   (path, inode) is left untouched, so the theorem above applies to it as it stands. *)
Theorem C20_fsevents_coalesce_distinct : forall l, distinct_items l -> coalesce_all l = l.
Proof. exact coalesce_distinct. Qed.
Print Assumptions C20_fsevents_coalesce_distinct.

(* One batch, with the executable hypothesis spelled out: [one_rename_per_item] replaces the look-ahead
   clause of [batch_ok]; the batch may be coalesced when no two of its events share (path, inode). *)
Theorem C20_fsevents_batched :
  forall stat_ino walk sub root ops seen view f natives,
  root <> [] -> last_is_sep root = false ->
  (forall p, walk (abspath root p) = sub p) -> (forall p, wf_tree (sub p) = true) ->
  wf_fs f ->
  one_rename_per_item f ops = true ->
  batch_sem_ok stat_ino sub root seen f ops ->
  (forall j, mem j view = true -> In j seen) ->
  natives = batch_natives root f ops \/
  (distinct_itemsb (batch_natives root f ops) = true /\ natives = coalesce_all (batch_natives root f ops)) ->
  exists v, queue_events stat_ino walk true root view natives
            = Some (map (render root) (batch_contracts sub f ops), v, false) /\
            Permutation (replay (view_of f) (batch_contracts sub f ops)) (view_of (fold_left apply_op ops f)).
Proof. exact fse_batched_one_rename. Qed.
Print Assumptions C20_fsevents_batched.

(* Full law for batches of several operations, coalesced or not, processed when all operations are
   done (the oracles answer for the final tree: os.stat, os.walk covering every directory): for every
   executable history delivered as one batch, the queued events render some stream that replays to
   the final tree.  It is FALSE - proved below - which is the Coq form of the findings F12a-e; the
   law that does hold is C20_fsevents_batch_partial with its hypotheses [batch_ok]. *)
Definition C20_fsevents_batched_full : Prop := fsevents_batched_full.

Theorem C20_fsevents_batched_full_refuted : ~ C20_fsevents_batched_full.
Proof. exact fsevents_batched_full_refuted. Qed.
Print Assumptions C20_fsevents_batched_full_refuted.

(* Non-vacuity of [batch_ok]: touch a; mv b c delivered as one batch. *)
Example C20_fsevents_batch_nonvacuous :
  let f := [Entry [nb] KFile 7%N] in
  let ops := [OCreate [na] 5%N; ORename [nb] [nc]] in
  let stat (p : bytes) := if beqb p (abspath r_ [na]) then Some 5%N else if beqb p (abspath r_ [nc]) then Some 7%N else None in
  let sub (_ : path) := Node [] [] in
  batch_ok stat sub r_ [7%N] f ops /\
  queue_events stat (fun _ => Node [] []) true r_ [] (batch_natives r_ f ops)
  = Some (map (render r_) (batch_contracts sub f ops), [7; 5]%N, false).
Proof.
  split; [|vm_compute; reflexivity].
  cbn [batch_ok]. repeat split; try reflexivity; try exact I.
  - intros i [<-|[]] [H|[]]. discriminate.
  - intros H. discriminate.
  - intros i [].
  - intros _. vm_compute. constructor.
Qed.

(* Several operations in one batch (flags coalesced per item and path): the replay law is false of the
   emitter - F12 (proposed known finding).  mv a b; mv b c arrives as a, b, c all flagged renamed with
   one inode; the emitter pairs a with b and then reports c as created; b is never deleted. *)
Theorem C20_fsevents_batched_refuted :
  let before := [Entry [na] KFile 7%N] in
  let ops := [ORename [na] [nb]; ORename [nb] [nc]] in
  let after := fold_left apply_op ops before in
  let natives := coalesce_all (map (frender r_) (fsevents_kernel before (ORename [na] [nb]) ++
                                               fsevents_kernel (apply_op before (ORename [na] [nb])) (ORename [nb] [nc]))) in
  let stat p := if beqb p (abspath r_ [nc]) then Some 7%N else None in
  exists out v, queue_events stat (fun _ => Node [] []) true r_ [] natives = Some (out, v, false) /\
    out = map (render r_) [AMoved KFile [na] [nb] false; AModified KDir []; AModified KDir [];
                           ACreated KFile [nc] false; AModified KDir []] /\
    replay (view_of before) [AMoved KFile [na] [nb] false; ACreated KFile [nc] false] <> view_of after.
Proof. exact fsevents_batched_refuted. Qed.
Print Assumptions C20_fsevents_batched_refuted.

(* Observation (completeness, not part of the flat law): a non-recursive watch drops the created /
   deleted / moved events of direct child *directories* - only DirModified(root) is queued. *)
Theorem C20_fsevents_nonrec_child_dir_dropped :
  queue_events (fun _ => None) (fun _ => Node [] []) false r_ []
               [frender r_ ([na], 5%N, N.lor F_CREATED F_IS_DIR)] = Some ([Modified KDir r_], [5%N], false).
Proof. exact fsevents_nonrec_child_dir_dropped. Qed.
Print Assumptions C20_fsevents_nonrec_child_dir_dropped.

(* Non-vacuity: a non-recursive watch, one batch with a file created in the root (kept) and a file
   created two levels down (dropped together with its parent-modified event). *)
Example C20_fsevents_nonvacuous :
  queue_events (fun _ => None) (fun _ => Node [] []) false r_ []
    [frender r_ ([na], 5%N, N.lor F_CREATED F_IS_FILE); frender r_ ([nb; nc], 6%N, N.lor F_CREATED F_IS_FILE)]
  = Some ([Created KFile (abspath r_ [na]) false; Modified KDir r_], [6; 5]%N, false).
Proof. vm_compute. reflexivity. Qed.
End Fse.
