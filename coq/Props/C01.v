(* C01 - Replaying the native (inotify) event stream reproduces the real directory tree.
   Only statements; every proof is `exact <lemma>`.
   replay / tree_of / in_scope (Proofs/ReplayProofs.v) are harness/pipeprops.py's replay / scope_listing / in_scope
   as Gallina functions; trees are compared as finite maps (Python dicts).  The invariant the proofs rest on is the
   cover invariant of C02 (RSync, Proofs/CoverProofs.v). *)
Require Import WD.Base.Prelude WD.Base.BStr WD.Model.SubEvents WD.Model.Emitter WD.Model.Fs WD.Model.Reader
               WD.Model.Pipeline WD.Proofs.CoverProofs WD.Proofs.ReplayProofs.

Definition repaired (C : cfg) : Prop :=
  c_faults C = [] /\ c_fix_ignored C = true /\ c_fix_movein C = true /\ c_fix_simulate C = true /\ c_mask C = WATCHDOG_ALL.

Definition quiescent (s : pstate) : Prop :=
  k_queue (p_k s) = [] /\ DelayQueue.q (fst (p_buf s)) = [] /\ buf_ready (p_buf s).

(* FULL statement, sequential layer (DESIGN.md C01 layer 1): every operation is followed by a full drain
   (ARead of the whole kernel queue, then AEmit / ATick until the delay queue is empty). *)
Definition C01_sequential_full : Prop :=
  forall P, repaired (pc_reader P) -> pc_filter P = None ->
  forall w0 s0, wf_fs w0 -> fisdir (c_root (pc_reader P)) (w_fs w0) = true -> pinit P w0 = Some s0 ->
  forall ops, Forall (fun o => op_np o /\ op_keeps_root (pc_reader P) o) ops ->
  forall fuel s, seq_run P fuel s0 ops = Done s -> quiescent s ->
  tree_eq (replay (c_recursive (pc_reader P)) (c_root (pc_reader P))
                  (tree_of (c_recursive (pc_reader P)) (c_root (pc_reader P)) w0) (p_out s))
          (tree_of (c_recursive (pc_reader P)) (c_root (pc_reader P)) (p_world s)).

(* FULL statement (DESIGN.md C01): any history of the gated driver's actions that respects the directory pacing
   condition; [paced] = no operation touches the contents or re-uses a name of a directory that was created, renamed,
   moved or removed since the pipeline was last quiescent (a directory may be renamed again right after it arrived). *)
Definition dir_op_paths (t : fs) (o : op) : list bytes :=
  match o with
  | Mkdir p | Rmdir p => [p]
  | Rename p q => if fisdir p t then [p; q] else []
  | _ => []
  end.
Definition op_paths (o : op) : list bytes :=
  match o with Touch p | Write p | Chmod p | Unlink p | Mkdir p | Rmdir p => [p] | Rename p q => [p; q] end.
Definition touches_hot (hot : list bytes) (o : op) : bool :=
  existsb (fun h => existsb (fun p => under h p || (beqb p h && match o with Rename _ _ => false | _ => true end))
                            (op_paths o)) hot.
Fixpoint paced (P : pcfg) (s : pstate) (hot : list bytes) (h : list action) : Prop :=
  match h with
  | [] => True
  | a :: h' =>
    match pstep P s a with
    | Crash _ => True
    | Done (s', _) =>
      let hot0 := match a with AOp _ => hot | _ => if match DelayQueue.q (fst (p_buf s')), k_queue (p_k s') with [], [] => true | _, _ => false end then [] else hot end in
      match a with
      | AOp o => touches_hot hot o = false /\ paced P s' (dir_op_paths (w_fs (p_world s)) o ++ hot) h'
      | _ => paced P s' hot0 h'
      end
    end
  end.
Definition C01_replay_full : Prop :=
  forall P, repaired (pc_reader P) -> pc_filter P = None ->
  forall w0 s0, wf_fs w0 -> fisdir (c_root (pc_reader P)) (w_fs w0) = true -> pinit P w0 = Some s0 ->
  forall h, paced P s0 [] h ->
  (forall o, In (AOp o) h -> op_np o /\ op_keeps_root (pc_reader P) o) ->
  forall s obs, prun P s0 h [] = Done (s, obs) -> quiescent s ->
  tree_eq (replay (c_recursive (pc_reader P)) (c_root (pc_reader P))
                  (tree_of (c_recursive (pc_reader P)) (c_root (pc_reader P)) w0) (p_out s))
          (tree_of (c_recursive (pc_reader P)) (c_root (pc_reader P)) (p_world s)).

(* PROVED PART (sequential layer, one operation kind, reader + emitter composition instead of the drain through the
   delay queue): from a synchronised state whose replayed stream equals the tree, after Touch of a fresh name in ANY
   directory in scope and one read of the whole kernel queue, the reader is synchronised again and the replay of
   (old stream ++ emit_single of every raw event of the read) IS the new tree.  Extra hypotheses spelled out: the
   operation is a Touch; events are translated one by one (no pairing is involved for a Touch); the delay queue is
   bypassed. *)
Theorem C01_touch_partial : forall C w k r de name w' full content t0 out,
  RSync C w k r -> c_mask C = WATCHDOG_ALL ->
  In de (w_fs w) -> f_dir de = true -> scope C (f_path de) -> valid_name name = true ->
  let p := f_path de ++ sep :: name in
  apply_op w (Touch p) = Some w' ->
  replay (c_recursive C) (c_root C) t0 out = tree_of (c_recursive C) (c_root C) w ->
  let k1 := kernel_op k (w_fs w) (Touch p) in
  exists evs, read_batch C (w_fs w') (r, drainq k1, []) (k_queue k1) = Done (r, drainq k1, evs) /\
    RSync C w' (drainq k1) r /\
    replay (c_recursive C) (c_root C) t0 (out ++ emit_singles C full content evs) = tree_of (c_recursive C) (c_root C) w'.
Proof. exact C01_touch_reader_emitter. Qed.
Print Assumptions C01_touch_partial.

(* the reader's watch state after every proved operation kind is again synchronised (C02_cover_step): the part of the
   C01 invariant `Sync` that does not mention the stream *)
Theorem C01_sync_preserved : forall C, c_faults C = [] -> forall ops, mask_ok C -> forall w k r,
  RSync C w k r -> ops_covered C w ops ->
  exists w' k' r', rrun C w k r ops = Some (w', k', r') /\ RSync C w' k' r'.
Proof. exact cover_sequential. Qed.
Print Assumptions C01_sync_preserved.

(* ---- non-vacuity: the replay function on a concrete stream (created, moved with a sub-tree, deleted) *)
Example C01_replay_example :
  let R := pR in
  replay true R []
    [ mk DirCreated (sub R 97) []; mk FileCreated (sub (sub R 97) 102) []; mk DirModified R [];
      mk DirMoved (sub R 97) (sub R 98);
      {| ev_cls := FileMoved; ev_src := sub (sub R 97) 102; ev_dest := sub (sub R 98) 102; ev_synth := true |};
      mk FileCreated (sub pO 120) [];
      mk FileDeleted (sub (sub R 98) 102) [] ]
  = [(sub R 98, true)].
Proof. vm_compute. reflexivity. Qed.

Example C01_touch_nonvacuous :
  exists r0 k0, construct (cfgx true true) kinit (w_fs w0) = Some (r0, k0) /\
    apply_op w0 (Touch (pR ++ sep :: [102%N])) <> None /\ scope (cfgx true true) pR /\ valid_name [102%N] = true /\
    replay true pR [] [] = tree_of true pR w0.
Proof. eexists _, _. split; [vm_compute; reflexivity|]. repeat split; try (vm_compute; discriminate); try reflexivity. now left. Qed.
