(* wdmodel <model>: one s-expression case per stdin line, one result per stdout line.
   A failing case prints (ERR <msg>) so that line numbers stay aligned. *)
let models : (string * (Sexp.t -> Sexp.t)) list = Models.table

let () =
  let name = Sys.argv.(1) in
  let f = try Stdlib.List.assoc name models with Not_found -> (prerr_endline ("unknown model " ^ name); exit 2) in
  (try
    while true do
      let line = input_line stdin in
      if Stdlib.String.length line > 0 then begin
        let out = try Sexp.to_string (f (Sexp.parse line))
          with Failure m -> "(ERR " ^ (Stdlib.String.map (fun c -> if c = ' ' || c = '(' || c = ')' then '_' else c) m) ^ ")"
             | Stack_overflow -> "(ERR stack_overflow)" in
        print_string out; print_char '\n'
      end
    done
  with End_of_file -> ());
  flush stdout
