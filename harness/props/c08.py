"""C08 - InotifyBuffer: a rename arrives as one paired move; no native event is lost or duplicated.

Correspondence: the real InotifyBuffer (reader thread + DelayedQueue) over a scripted source of read
batches, under the deterministic scheduler + virtual clock, with a consumer thread and an optional
closer; the scheduler trace is mapped to the composite LTS (Grouping.v over DelayQueue.v) and replayed
in lock-step; delivered items and their virtual delivery times must agree.
Oracle: the property text evaluated on the log of the real run.
"""
from __future__ import annotations

from harness import core
from harness.core import Failure, Mismatch, Result

MANIFEST = dict(
    design_ref="DESIGN.md §6 C08",
    text="Coq theorems over EVERY label list of the reader/consumer/closer LTS (any cut of the kernel stream into read "
         "batches, any interleaving at lock granularity, any clock ticks): exactly-once as a multiset equation "
         "(C08_exactly_once, C08_no_double), kernel order via anchors (C08_kernel_order), the pairing law "
         "(C08_pairing) and lone-FROM-not-early (C08_lone_from_not_early), on top of the C17 queue theorems. Tied to "
         "/repo by lock-step replay of real scheduler traces of the real InotifyBuffer through the extracted model.",
    note="Trusted: Coq kernel; scheduler twins for Lock/Condition/Event/Thread/time; Inotify.read_events replaced by a "
         "scripted batch source (the reader's own code is real); native events abstracted to {from c, to c, other, "
         "ignored, delete_self}; the pairing law is stated at the moment the reader processes the second half.",
    technique="Coq proof (composite LTS invariants, Permutation/sortedness arguments) + lock-step trace correspondence under a deterministic scheduler",
)
TRUSTED = ["modelled, not verified: the kernel side (scripted batches), threading primitives and time (scheduler twins)"]
ASSUMPTIONS = ["cookies are unique per rename, FROM precedes TO in the kernel stream; one consumer thread"]


def analyse(prog, s):
    """Collect what the real run did, from its log."""
    from harness import dqprog
    batches = dqprog.number_events(prog)
    kind = {v: k for b in batches for v, k in b}
    ev = s.events
    read_batches = [(e[2], e[3]) for e in ev if e[1] == "read"]
    read = [v for b, _ in read_batches for v in b]
    got = [(e[2], e[3]) for e in ev if e[1] == "got" and e[2] is not None]
    tput = {}
    for e in ev:
        if e[1] == "q.put":
            tput[tuple(e[2])] = e[4]
    # remove calls per read batch, in order
    removes = []
    cur = None
    for e in ev:
        if e[1] == "read":
            cur = []
            removes.append(cur)
        elif e[1] == "q.remove" and cur is not None and e[0] == "InotifyBuffer":
            cur.append((e[2], e[3]))
    return kind, read_batches, read, got, tput, removes


def oracle(prog, s):
    from harness.dqprog import DELAY_UNITS
    bad = []
    kind, read_batches, read, got, tput, removes = analyse(prog, s)
    delivered_flat = []
    for it, t in got:
        delivered_flat += it[1:]
    ev = s.events
    put_items = [tuple(e[2]) for e in ev if e[1] == "q.put"]
    removed_items = [tuple(e[2]) for e in ev if e[1] == "q.remove" and e[2] is not None]
    delivered_items = [tuple(it) for it, _ in got]
    # (A) inside the queue nothing is lost, duplicated or invented: delivered is a sub-sequence of the puts,
    #     and puts = delivered + removed-for-pairing + still queued
    left = list(put_items)
    for it in removed_items + delivered_items:
        if it in left:
            left.remove(it)
        else:
            bad.append(("exactly_once", f"item {list(it)} handed out although it was not (or no longer) in the queue"))
    itp = iter(put_items)
    if not all(any(x == y for y in itp) for x in delivered_items):
        bad.append(("fifo", f"delivery order {delivered_items} is not the put order {put_items}"))
    if len(set(delivered_flat)) != len(delivered_flat):
        bad.append(("exactly_once", f"a native event was handed to the emitter twice: {sorted(delivered_flat)}"))
    closed = any(e[1] == "closed" for e in ev)
    if left and not closed and any(n == "cons" for n, _ in s.blocked_after):
        bad.append(("exactly_once", f"items {left} stay queued while the consumer is blocked (lost wake-up)"))
    # (B) every native event of a completely processed read (markers aside) was put exactly once
    reader_trace = [e for e in s.trace if e[0] == "InotifyBuffer"]
    reader_done = any(t.name == "InotifyBuffer" and t.done for t in s.threads)
    complete = len(read_batches) if (reader_done or (reader_trace and reader_trace[-1][1] == "read_events")) else len(read_batches) - 1
    want = sorted(v for b, _ in read_batches[:max(complete, 0)] for v in b if kind[v][0] != "ign")
    flat_put = [v for it in put_items for v in it[1:]]
    for it in removed_items:
        for v in it[1:]:
            if v in flat_put:
                flat_put.remove(v)
    done_ids = {v for b, _ in read_batches[:max(complete, 0)] for v in b}
    have = sorted(v for v in flat_put if v in done_ids)
    if have != want:
        bad.append(("exactly_once", f"completely processed reads contained {want} but the reader queued {have}"))
    # kernel order: anchors strictly increasing
    prev = 0
    for it, t in got:
        cands = sorted(v for v in it[1:] if v > prev)
        if not cands:
            bad.append(("kernel_order", f"item {it} delivered after position {prev}"))
            break
        prev = cands[0]
    # pairs well-formed
    pairs = {}
    for it, t in got:
        if it[0] == "p":
            f, to = it[1], it[2]
            if kind[f][0] != "from" or kind[to][0] != "to" or kind[f][1] != kind[to][1]:
                bad.append(("pair_wellformed", f"pair {it} is not FROM/TO of one cookie"))
            pairs[f] = to
    singles = {it[1]: t for it, t in got if it[0] == "s"}
    # pairing law
    frm = {kind[v][1]: v for v in read if kind[v][0] == "from"}
    for bi, (b, tread) in enumerate(read_batches):
        unpaired_from = {}
        rem_iter = iter(removes[bi]) if bi < len(removes) else iter(())
        for v in b:
            k = kind[v]
            if k[0] == "from":
                unpaired_from[k[1]] = v
            elif k[0] == "to":
                if k[1] in unpaired_from:
                    f = unpaired_from.pop(k[1])
                    if pairs.get(f) != v and v in delivered_flat:
                        bad.append(("pairing_same_read", f"FROM {f} and TO {v} (cookie {k[1]}) read together but not delivered as a pair"))
                else:
                    r = next(rem_iter, None)
                    f = frm.get(k[1])
                    if f is not None and r is not None and ("s", f) in tput:
                        tau = r[1]
                        if tau < tput[("s", f)] + DELAY_UNITS and pairs.get(f) != v and v in delivered_flat:
                            bad.append(("pairing_within_delay",
                                        f"TO {v} processed at {tau} < put(FROM {f})={tput[('s', f)]}+{DELAY_UNITS} but not delivered as a pair"))
    # lone FROM not early
    for v, t in singles.items():
        if kind[v][0] == "from" and ("s", v) in tput and t < tput[("s", v)] + DELAY_UNITS:
            bad.append(("lone_from_early", f"unmatched FROM {v} put at {tput[('s', v)]} delivered at {t}"))
    if s.deadlock is not None:
        bad.append(("deadlock", str(s.deadlock)))
    for name, exc in s.uncaught():
        bad.append(("uncaught", f"{name}: {exc!r}"))
    if prog.get("close_at_end") and any(n in ("cons", "InotifyBuffer") for n, _ in s.blocked_after):
        bad.append(("close", f"threads still blocked after close(): {s.blocked_after}"))
    return bad


def record(prog, s, res: Result, cases, metas):
    from harness import dqprog
    choices = [c for _, c in s.choices]
    meta = {"program": prog, "schedule": choices}
    kind, read_batches, read, got, tput, removes = analyse(prog, s)
    res.evaluations += 1
    npairs = sum(1 for it, _ in got if it[0] == "p")
    cross = sum(1 for rs in removes for r, _ in rs if r is not None)
    lone = sum(1 for it, _ in got if it[0] == "s" and kind[it[1]][0] == "from")
    res.hist("events", len(kind))
    res.hist("batches", len(read_batches))
    res.hist("pairs_delivered", npairs)
    res.hist("cross_read_pairs", cross)
    res.hist("lone_from", lone)
    res.hist("closed", bool(prog.get("close_at_end")))
    if npairs or lone or cross:
        res.nontrivial.add(core.digest(meta))
    if len(res.samples) < 3 and (cross or lone):
        res.samples.append({"program": prog, "schedule_prefix": choices[:25], "log": [list(e) for e in s.events][:24]})
    for law, detail in oracle(prog, s):
        res.failures.append(Failure(what=f"InotifyBuffer: {law}: {detail}", case=meta,
                                    signature={"component": "InotifyBuffer", "law": law},
                                    observed=[list(e) for e in s.events], expected="see property C08"))
    cases.append(dqprog.buf_case(prog, s))
    metas.append((meta, [[g[0], g[1]] for g in got]))


def compare(res: Result, cases, metas):
    outs = core.run_model("grouping", cases)
    for o, (meta, got) in zip(outs, metas):
        res.traces_validated += 1
        if o[0] != "ok":
            res.mismatches.append(Mismatch("Grouping LTS (step not enabled)", meta, str(o)[:300], got))
            continue
        md = [[[x[0][0]] + [int(v) for v in x[0][1:]], int(x[1])] for x in o[1]]
        if md != got:
            res.mismatches.append(Mismatch("Grouping LTS (delivered items/times)", meta, md, got))


CORPUS = [
    # FROM alone in one read, TO in the next read within the delay
    {"feeder": [["sleep", 0], ["feed", [["from", 1]]], ["sleep", 3], ["feed", [["other"], ["to", 1]]]],
     "final_sleep": 12, "close_at_end": False},
    # TO arrives exactly when the delay has elapsed / just after
    {"feeder": [["sleep", 0], ["feed", [["from", 1]]], ["sleep", 4], ["feed", [["to", 1]]]], "final_sleep": 12,
     "close_at_end": False},
    {"feeder": [["sleep", 0], ["feed", [["from", 1]]], ["sleep", 5], ["feed", [["to", 1]]]], "final_sleep": 12,
     "close_at_end": True},
    # both halves in one read with noise; ignored markers; root removal stops the reader
    {"feeder": [["sleep", 1], ["feed", [["from", 1], ["other"], ["ign", 0], ["to", 1], ["to", 2]]],
                ["sleep", 1], ["feed", [["dself", 1], ["ign", 1]]], ["sleep", 1], ["feed", [["other"]]]],
     "final_sleep": 12, "close_at_end": True},
]


def buffer_campaign(ctx, res: Result, cases, metas, n, corpus=True):
    """The built-in corpus and n random programs under seeded random schedules (also run by the checks of properties whose
    model sits on top of the buffer, e.g. C01)."""
    from harness import detsched as ds
    from harness import dqprog
    rng = ctx.rng("buf")
    k = 0
    for prog in CORPUS + ([c["program"] for c in ctx.corpus() if "program" in c] if corpus else []):
        for seed in range(6):
            k += 1
            record(prog, dqprog.run_buf_program(prog, ds.RandomChooser(7000 + k, tick_prob=0.1)), res, cases, metas)
    for c in (ctx.corpus() if corpus else []):
        if "schedule" in c:
            record(c["program"], dqprog.run_buf_program(c["program"], ds.ReplayChooser(c["schedule"])), res, cases, metas)
    for i in range(n):
        prog = dqprog.gen_buf_program(rng)
        s = dqprog.run_buf_program(prog, ds.RandomChooser(ctx.seed * 100003 + i, tick_prob=0.1))
        record(prog, s, res, cases, metas)


def run(ctx) -> Result:
    from harness import detsched as ds
    from harness import dqprog
    res = Result()
    res.rule = ("native sequences <= 6 events over {from c, to c (with/without partner), other, ignored (root/non-root), "
                "delete_self}, cut into read batches at random points, inter-batch gaps in {0,1,d-1,d,d+1} units, optional "
                "close(); seeded random schedules with clock ticks (quick) / all schedules with <= 2 pre-emptions (thorough, "
                "small sequences); non-trivial = a pair or a lone FROM was delivered or a cross-read remove() succeeded")
    # (runs FIRST: the gated driver needs the real threading module, the scheduler twins are installed afterwards)
    # the reader between the kernel and the buffer: every record read is handed on (real kernel, gated threads, lock-step
    # with the Pipeline model; shared with C01) - arrivals renamed/removed before anybody looked, file churn with read cuts
    from harness import pipe, pipecheck
    prng = ctx.rng("reader")
    pbatch = []
    for i in range(24 if not ctx.thorough else 300):
        hist = pipe.gen_history_arrivals(prng, n=prng.randint(1, 3)) if i % 2 == 0 else pipe.gen_history_filechurn(prng, n_ops=prng.randint(4, 10))
        cfg = pipecheck.CONFIGS[i % len(pipecheck.CONFIGS)]
        run_, case_, stopped_, _ = pipecheck.execute(hist, cfg, None, lambda r: r.drain())
        res.evaluations += 1
        res.hist("reader_level_histories", "arrivals" if i % 2 == 0 else "filechurn")
        meta_ = pipecheck.meta_of(hist, cfg)
        res.failures += pipecheck.thread_failures(run_, stopped_, meta_, "C08")
        if i % 2 == 0:
            # histories without read cuts: both halves of every rename inside the tree are read together, so the rename
            # must arrive as ONE moved event carrying both paths (pairing law at the level of the whole reader)
            import os
            evs_ = [e for ent in run_.log if ent["a"] == "emit" for e in ent["events"]]
            for ent in run_.log:
                if ent["a"] == "op" and ent["ok"] and ent["kind"] == "rename" and ent["path"][0] == "R" and ent["path2"][0] == "R" \
                        and (run_.recursive or (len(ent["path"]) == 2 and len(ent["path2"]) == 2)):
                    if not any(e[0].endswith("Moved") and e[1] == ent["p"] and e[2] == ent["q"] for e in evs_):
                        res.failures.append(Failure(
                            what=f"rename {'/'.join(ent['path'])} -> {'/'.join(ent['path2'])} inside the watched tree, both halves in one "
                                 "read, was not delivered as one moved event", case=meta_,
                            signature={"law": "reader-pairing", "dir": bool(ent["was_dir"])},
                            observed=pipecheck.printable([e for e in evs_ if ent["p"] in (e[1], e[2]) or ent["q"] in (e[1], e[2])]),
                            expected="Moved(src, dest)"))
                        break
        pbatch.append((meta_, run_, case_))
    pipecheck.check_model(res, "C08", pbatch)
    cases, metas = [], []
    buffer_campaign(ctx, res, cases, metas, 400 if not ctx.thorough else 3000)
    if ctx.thorough:
        small = ctx.rng("small")
        total = 0
        for i in range(20):
            prog = dqprog.gen_buf_program(small, max_events=3)
            seen = []

            def once(ch, prog=prog, seen=seen):
                s = dqprog.run_buf_program(prog, ch)
                seen.append(s)
                return s
            for _ in ds.explore(once, preemption_bound=2, max_runs=300):
                pass
            total += len(seen)
            for s in seen:
                record(prog, s, res, cases, metas)
        res.notes.append(f"thorough: all schedules with <= 2 pre-emptions (max 300 per program) of 20 small programs: {total} runs")
    compare(res, cases, metas)
    # below the scripted batch source: the bytes of one read() -> records, however the kernel cut the stream
    # (byte-level model CodecInotify.v, theorems in coq/Props/C20.v; runner shared with C20)
    from harness.props import c20
    c20.run_inotify_codec(ctx, res)
    res.notes.append("byte level: Inotify._parse_event_buffer against CodecInotify.decode (round-trip + malformed buffers), shared with C20")
    return res


def replay(ctx, obj) -> int:
    from harness import detsched as ds
    from harness import dqprog
    case = obj.get("case", obj)
    if isinstance(case, dict) and "history" in case:
        from harness.props import c01
        return c01.replay(ctx, obj)
    if isinstance(case, dict) and case.get("codec") == "inotify" or "program" not in case:
        from harness.props import c20
        return c20.replay(ctx, obj)
    res = Result()
    cases, metas = [], []
    s = dqprog.run_buf_program(case["program"], ds.ReplayChooser(case["schedule"]))
    record(case["program"], s, res, cases, metas)
    compare(res, cases, metas)
    print("program:", case["program"])
    print("log:", s.events)
    for f in res.failures:
        print("FAIL:", f.what)
    for m in res.mismatches:
        print("MISMATCH:", m.pair, "model", m.model, "impl", m.impl)
    return 1 if res.failures or res.mismatches else 0
