(* C11 at the emitter: the class filter commutes with emission, and raw events that a filtered watch
   does not ask the kernel for contribute nothing the filter would have accepted. *)
Require Import WD.Base.Prelude WD.Base.BStr WD.Model.SubEvents WD.Model.Emitter WD.Model.MaskTable.
Require Import WD.Proofs.MaskTableProofs.

Definition acc (F : option (list evbase)) (e : nevent) : bool := accepts F (ev_cls e).

(* ------------------------------------------------------------------ the filter commutes *)
Lemma queue_filter F l : flat_map (queue_event F) l = filter (acc F) l.
Proof.
  induction l as [|e l IH]; simpl; [reflexivity|].
  unfold queue_event at 1, acc at 1. destruct (accepts F (ev_cls e)); simpl; now rewrite IH.
Qed.

Lemma emit_filtered_commutes F full recursive wp content it :
  emit_filtered F full recursive wp content it
  = (filter (acc F) (fst (emit full recursive wp content it)), snd (emit full recursive wp content it)).
Proof. unfold emit_filtered. now rewrite queue_filter. Qed.

Lemma filter_acc_none l : filter (acc None) l = l.
Proof. induction l as [|e l IH]; simpl; [reflexivity | now rewrite IH]. Qed.

Lemma emit_filtered_none full recursive wp content it :
  emit_filtered None full recursive wp content it = emit full recursive wp content it.
Proof. rewrite emit_filtered_commutes, filter_acc_none. now destruct (emit full recursive wp content it). Qed.

Lemma filter_nil {A} (f : A -> bool) l : (forall x, In x l -> f x = false) -> filter f l = [].
Proof.
  induction l as [|a l IH]; intros H; simpl; [reflexivity|].
  rewrite (H a (or_introl eq_refl)). apply IH. intros x Hx. apply H. now right.
Qed.

(* ------------------------------------------------------------------ classes of the synthetic events *)
Lemma sub_created_cls p t ev : In ev (sub_created p t) -> ev_cls ev = DirCreated \/ ev_cls ev = FileCreated.
Proof.
  unfold sub_created. rewrite in_map_iff. intros [[k s] [<- _]]. destruct k; simpl; tauto.
Qed.

Lemma sub_moved_cls s d t ev : In ev (sub_moved s d t) -> ev_cls ev = DirMoved \/ ev_cls ev = FileMoved.
Proof.
  unfold sub_moved. rewrite in_map_iff. intros [[[k a] b] [<- _]]. destruct k; simpl; tauto.
Qed.

(* ------------------------------------------------------------------ every event has a flag that produces it *)
Ltac by_flag m :=
  match goal with
  | H : has m ?b = true |- _ =>
    exists b; split; [simpl; tauto | split; [exact H | vm_compute; reflexivity]]
  end.

Lemma emit_single_flag full recursive wp content e ev :
  In ev (fst (emit_single full recursive wp content e)) ->
  exists b, In b all_flags /\ has (r_mask e) b = true /\ produces recursive b (ev_cls ev) = true.
Proof.
  intros Hin. unfold emit_single in Hin.
  unfold is_moved_to, is_attrib, is_modify, is_delete, is_moved_from, is_create, is_delete_self,
    is_open, is_close_write, is_close_nowrite in Hin.
  remember (r_mask e) as m eqn:Hm. remember (is_directory m) as d eqn:Hd.
  remember (beqb (r_path e) wp) as same eqn:Hs.
  assert (Hdd : has m IN_DELETE_SELF = true -> d = true).
  { intros H. subst d. unfold is_directory, is_delete_self. now rewrite H. }
  clear Hm Hd Hs.
  destruct (has m IN_MOVED_TO) eqn:Hto.
  { cbn [fst] in Hin. destruct Hin as [<-|[<-|Hin]].
    - destruct full, d, recursive; by_flag m.
    - destruct recursive; by_flag m.
    - destruct d, recursive; cbn [andb] in Hin; try destruct Hin.
      apply sub_created_cls in Hin as [-> | ->]; by_flag m. }
  destruct (has m IN_ATTRIB) eqn:Hat.
  { cbn [orb fst] in Hin. destruct Hin as [<-|[]]. destruct d, recursive; by_flag m. }
  destruct (has m IN_MODIFY) eqn:Hmo.
  { cbn [orb fst] in Hin. destruct Hin as [<-|[]]. destruct d, recursive; by_flag m. }
  cbn [orb] in Hin.
  destruct (has m IN_DELETE) eqn:Hde.
  { cbn [orb fst] in Hin. destruct Hin as [<-|[<-|[]]]; destruct d, recursive; by_flag m. }
  cbn [orb] in Hin.
  destruct (has m IN_MOVED_FROM) eqn:Hfr.
  { destruct full; cbn [andb negb fst] in Hin;
      destruct Hin as [<-|[<-|[]]]; destruct d, recursive; by_flag m. }
  cbn [andb] in Hin.
  destruct (has m IN_CREATE) eqn:Hcr.
  { cbn [fst] in Hin. destruct Hin as [<-|[<-|[]]]; destruct d, recursive; by_flag m. }
  destruct (has m IN_DELETE_SELF) eqn:Hds.
  { destruct same; cbn [andb] in Hin.
    - cbn [fst] in Hin. destruct Hin as [<-|[]]. rewrite (Hdd eq_refl). destruct recursive; by_flag m.
    - destruct d; cbn [negb] in Hin; [destruct Hin|].
      destruct (has m IN_OPEN) eqn:Hop.
      { cbn [fst] in Hin. destruct Hin as [<-|[]]. destruct recursive; by_flag m. }
      destruct (has m IN_CLOSE_WRITE) eqn:Hcw.
      { cbn [fst] in Hin. destruct Hin as [<-|[<-|[]]]; destruct recursive; by_flag m. }
      destruct (has m IN_CLOSE_NOWRITE) eqn:Hcn; cbn [fst] in Hin; [|destruct Hin].
      destruct Hin as [<-|[]]. destruct recursive; by_flag m. }
  cbn [andb] in Hin.
  destruct d; cbn [negb] in Hin; [destruct Hin|].
  destruct (has m IN_OPEN) eqn:Hop.
  { cbn [fst] in Hin. destruct Hin as [<-|[]]. destruct recursive; by_flag m. }
  destruct (has m IN_CLOSE_WRITE) eqn:Hcw.
  { cbn [fst] in Hin. destruct Hin as [<-|[<-|[]]]; destruct recursive; by_flag m. }
  destruct (has m IN_CLOSE_NOWRITE) eqn:Hcn; cbn [fst] in Hin; [|destruct Hin].
  destruct Hin as [<-|[]]. destruct recursive; by_flag m.
Qed.

(* a paired move: both halves are needed for every event it yields *)
Lemma emit_pair_flag recursive content f t ev :
  In ev (fst (emit_pair recursive content f t)) ->
  produces recursive IN_MOVED_FROM (ev_cls ev) = true /\ produces recursive IN_MOVED_TO (ev_cls ev) = true.
Proof.
  unfold emit_pair. cbn [fst]. remember (is_directory (r_mask f)) as d. clear Heqd.
  intros [<-|[<-|[<-|Hin]]].
  - destruct d, recursive; vm_compute; split; reflexivity.
  - destruct recursive; vm_compute; split; reflexivity.
  - destruct recursive; vm_compute; split; reflexivity.
  - destruct d, recursive; cbn [andb] in Hin; try destruct Hin.
    apply sub_moved_cls in Hin as [-> | ->]; vm_compute; split; reflexivity.
Qed.

(* stop is requested only on IN_DELETE_SELF *)
Lemma emit_single_stop full recursive wp content e :
  snd (emit_single full recursive wp content e) = true -> has (r_mask e) IN_DELETE_SELF = true.
Proof.
  unfold emit_single, is_delete_self.
  destruct (is_moved_to (r_mask e)); [discriminate|].
  destruct (is_attrib (r_mask e) || is_modify (r_mask e)); [discriminate|].
  destruct (is_delete (r_mask e) || is_moved_from (r_mask e) && negb full); [discriminate|].
  destruct (is_moved_from (r_mask e) && full); [discriminate|].
  destruct (is_create (r_mask e)); [discriminate|].
  destruct (has (r_mask e) IN_DELETE_SELF); [reflexivity|].
  cbn [andb]. destruct (negb (is_directory (r_mask e))); [|discriminate].
  destruct (is_open (r_mask e)); [discriminate|].
  destruct (is_close_write (r_mask e)); [discriminate|].
  destruct (is_close_nowrite (r_mask e)); discriminate.
Qed.

(* ------------------------------------------------------------------ flags that contribute are needed *)
Lemma contributing_flag_needed F recursive b c :
  In b all_flags -> accepts F c = true -> produces recursive b c = true -> In b (needed_for F recursive).
Proof.
  intros Hb Ha Hp. unfold needed_for. right. apply in_or_app. right.
  apply filter_In. split; [exact Hb|].
  assert (Hc : contributes F recursive b = true).
  { unfold contributes. apply existsb_exists. exists c. split; [apply all_classes_complete|].
    now rewrite Ha, Hp. }
  destruct (N.eqb b IN_MOVED_FROM || N.eqb b IN_MOVED_TO) eqn:E; [|exact Hc].
  apply orb_true_iff in E as [E|E]; apply N.eqb_eq in E; subst b; rewrite Hc;
    [reflexivity | apply orb_true_r].
Qed.

Lemma move_flags_in_all : In IN_MOVED_FROM all_flags /\ In IN_MOVED_TO all_flags /\ In IN_DELETE_SELF all_flags.
Proof. simpl. tauto. Qed.

(* ------------------------------------------------------------------ transparency *)
Theorem emit_transparent_single F full recursive wp content e :
  delivered (effective_mask (mask_of_filter recursive F)) (r_mask e) = false ->
  filter (acc F) (fst (emit full recursive wp content (Single e))) = [].
Proof.
  intros Hd. apply filter_nil. intros ev Hin. unfold acc.
  destruct (accepts F (ev_cls ev)) eqn:Ha; [|reflexivity]. exfalso.
  cbn [emit] in Hin. apply emit_single_flag in Hin as [b [Hb [Hh Hp]]].
  pose proof (contributing_flag_needed F recursive b _ Hb Ha Hp) as Hn.
  pose proof (table_lemma F recursive b Hn) as Ht. unfold flag_set in Ht.
  pose proof (needed_is_event_bit F recursive b Hn) as He.
  rewrite (not_has_of_flag_in _ _ _ Ht He Hd) in Hh. discriminate.
Qed.

Theorem emit_transparent_pair F full recursive wp content f t :
  flag_set IN_MOVED_FROM (mask_of_filter recursive F) = false \/
  flag_set IN_MOVED_TO (mask_of_filter recursive F) = false ->
  filter (acc F) (fst (emit full recursive wp content (Pair f t))) = [].
Proof.
  intros Hm. apply filter_nil. intros ev Hin. unfold acc.
  destruct (accepts F (ev_cls ev)) eqn:Ha; [|reflexivity]. exfalso.
  cbn [emit] in Hin. apply emit_pair_flag in Hin as [Hf Ht].
  destruct move_flags_in_all as [If [It _]].
  pose proof (table_lemma F recursive _ (contributing_flag_needed F recursive _ _ If Ha Hf)) as T1.
  pose proof (table_lemma F recursive _ (contributing_flag_needed F recursive _ _ It Ha Ht)) as T2.
  destruct Hm as [Hm|Hm]; congruence.
Qed.

(* a stop request is never lost: IN_DELETE_SELF is always asked for *)
Theorem stop_preserved F full recursive wp content e :
  snd (emit full recursive wp content (Single e)) = true ->
  delivered (effective_mask (mask_of_filter recursive F)) (r_mask e) = true.
Proof.
  intros Hs. cbn [emit] in Hs. apply emit_single_stop in Hs.
  destruct (delivered (effective_mask (mask_of_filter recursive F)) (r_mask e)) eqn:Hd; [reflexivity|].
  assert (Hn : In IN_DELETE_SELF (needed_for F recursive)) by (left; reflexivity).
  pose proof (table_lemma F recursive _ Hn) as Ht. unfold flag_set in Ht.
  pose proof (needed_is_event_bit F recursive _ Hn) as He.
  rewrite (not_has_of_flag_in _ _ _ Ht He Hd) in Hs. discriminate.
Qed.

(* the stream of single raw events: what a filtered watch queues from the events the kernel sends it
   = the accepted part of what an unfiltered watch queues from all events (same view of the tree) *)
Theorem emit_stream F full recursive wp content rs :
  flat_map (fun e => fst (emit_filtered F full recursive wp content (Single e)))
           (filter (fun e => delivered (effective_mask (mask_of_filter recursive F)) (r_mask e)) rs)
  = filter (acc F) (flat_map (fun e => fst (emit full recursive wp content (Single e))) rs).
Proof.
  induction rs as [|e rs IH]; [reflexivity|].
  cbn [filter flat_map]. rewrite filter_app.
  destruct (delivered (effective_mask (mask_of_filter recursive F)) (r_mask e)) eqn:Hd.
  - cbn [flat_map]. rewrite IH, emit_filtered_commutes. reflexivity.
  - rewrite IH, (emit_transparent_single F full recursive wp content e Hd). reflexivity.
Qed.

(* ------------------------------------------------------------------ items: singles and paired moves *)
Theorem emit_item_stream F full recursive wp content (its : list item) :
  flat_map (fun it => fst (emit_filtered F full recursive wp content it))
           (flat_map (handed_over (effective_mask (mask_of_filter recursive F))) its)
  = filter (acc F) (flat_map (fun it => fst (emit full recursive wp content it)) its).
Proof.
  induction its as [|it its IH]; [reflexivity|].
  cbn [flat_map]. rewrite flat_map_app, filter_app, IH. f_equal.
  destruct it as [e | f t]; cbn [handed_over].
  - destruct (delivered (effective_mask (mask_of_filter recursive F)) (r_mask e)) eqn:Hd.
    + cbn [flat_map]. rewrite app_nil_r, emit_filtered_commutes. reflexivity.
    + rewrite (emit_transparent_single F full recursive wp content e Hd). reflexivity.
  - pose proof (mask_move_whole recursive F) as W. unfold flag_set in W.
    destruct (flag_in IN_MOVED_FROM (effective_mask (mask_of_filter recursive F))) eqn:H1;
      rewrite <- W.
    + cbn [flat_map]. rewrite app_nil_r, emit_filtered_commutes. reflexivity.
    + cbn [flat_map]. symmetry. apply emit_transparent_pair. left. exact H1.
Qed.

(* on the pinned table the same statement fails: [FileDeletedEvent], a move out of the tree *)
Lemma emit_item_stream_refuted_pinned :
  exists F full recursive wp content its,
    flat_map (fun it => fst (emit_filtered F full recursive wp content it))
             (flat_map (handed_over (effective_mask (mask_of_filter_pinned recursive F))) its)
    <> filter (acc F) (flat_map (fun it => fst (emit full recursive wp content it)) its).
Proof.
  exists (Some [Concrete FileDeleted]), false, false, probe_root, (fun _ => probe_tree),
    [Single (probe_raw IN_MOVED_FROM probe_entry)].
  vm_compute. discriminate.
Qed.

(* ------------------------------------------------------------------ stutter *)
Definition stutter_eq (a b : list nevent) : Prop := collapse a = collapse b.

Lemma nevent_eqb_refl a : nevent_eqb a a = true.
Proof.
  unfold nevent_eqb. rewrite !beqb_refl, Bool.eqb_reflx. destruct (ev_cls a); reflexivity.
Qed.
