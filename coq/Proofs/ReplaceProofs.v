(* C03 - a directory of the tree renamed over an EMPTY directory of the tree: the contract (moved + both parents modified +
   synthetic moved events + DirModified of the replaced directory) is met.  The watch-state side of the operation is
   c02p's [rename_dir_rekey] (CoverProofs); here the raw events and what the emitter makes of them. *)
Require Import WD.Base.Prelude WD.Base.BStr WD.Model.SubEvents WD.Model.Emitter WD.Model.Fs WD.Model.Reader
               WD.Model.DelayQueue WD.Model.Grouping WD.Model.Pipeline WD.Model.Contract.
Require Import WD.Proofs.SubEventsProofs WD.Proofs.ReaderFixProofs WD.Proofs.ContractProofs WD.Proofs.CoverProofs.

Lemma kgone_hit_attrib k q c ino w :
  watch_of_ino k ino = Some w -> kw_mask w = WATCHDOG_ALL ->
  kgone (kset k q c) ino true =
  kset (kdrop k (kw_wd w))
       (kpush (kpush (kpush q (kev w IN_ATTRIB true 0 [])) (kev w IN_DELETE_SELF false 0 [])) (kignored w)) c.
Proof.
  intros Hw Hm. unfold kgone.
  change (watch_of_ino (kset k q c) ino) with (watch_of_ino k ino). rewrite Hw.
  rewrite (knotify_hit _ _ _ _ _ _ _ _ w Hw Hm) by reflexivity.
  rewrite (knotify_hit _ _ _ _ _ _ _ _ w Hw Hm) by reflexivity. reflexivity.
Qed.

Lemma kpush_three a b l e : kraw_eqb l e = false -> kpush [a; b; l] e = [a; b; l; e].
Proof. apply (ContractProofs.kpush_snoc [a; b]). Qed.
Lemma kpush_four a b c l e : kraw_eqb l e = false -> kpush [a; b; c; l] e = [a; b; c; l; e].
Proof. apply (ContractProofs.kpush_snoc [a; b; c]). Qed.

Lemma group_pair_victim C f t a d i c b1 b2 :
  nkind_of C f = KFrom c -> nkind_of C t = KTo c -> nkind_of C a = KOther ->
  nkind_of C d = KDeleteSelf b1 -> nkind_of C i = KIgnored b2 ->
  group_batch C [f; t; a; d; i] = [Pair f t; Single a; Single d].
Proof.
  intros Hf Ht Ha Hd Hi. unfold group_batch. cbn [group_go app]. rewrite Hf, Ht. cbn [pair_in_batch is_from_raw].
  rewrite Hf, N.eqb_refl, Ha, Hd, Hi. cbn [app filter put_item]. now rewrite Ha, Hd, Hi.
Qed.

Section Replace.
  Variable C : cfg.
  Variable full : bool.

  Theorem contract_rename_dir_over w k r p q w' ep v :
    RSync C w k r -> npath p -> npath q -> c_recursive C = true -> c_mask C = WATCHDOG_ALL ->
    apply_op w (Rename p q) = Some w' ->
    flookup p (w_fs w) = Some ep -> f_dir ep = true -> scope C p -> p <> c_root C -> scope C q -> q <> c_root C ->
    flookup q (w_fs w) = Some v -> f_dir v = true ->
    content (w_fs w') q = content (w_fs w) p ->
    exists evs, deliver_one C full w k r (Rename p q) = Some evs /\
      collapse evs = collapse (contract (c_recursive C) full (c_root C) (w_fs w) (Rename p q)).
  Proof.
    intros S Np Nq Hrec Hmask Ha Elp Dep Sp Hpr Sq Hqr Elq Dv Hct. destruct S as [W Hr I Cv Hq Hpd].
    destruct (rename_inv w p q w' W Np Nq Ha) as (ep' & t1 & Elp' & Hne & Hupq & Edq & Hw' & Hbelow & Hq1).
    assert (ep' = ep) by congruence. subst ep'.
    destruct (flookup_some _ _ _ Elp) as [Hep Eep]. destruct (flookup_some _ _ _ Elq) as [Hv Evp].
    assert (Sv : scope C (f_path v)) by now rewrite Evp.
    destruct (Cv v Hv Dv Sv) as (kwv & Cvv). assert (Cvv' := Cvv). destruct Cvv' as (Cwv & Cpv & Cfv). rewrite Evp in Cpv, Cfv.
    assert (Fq : fisdir q (w_fs w) = true) by (unfold fisdir; now rewrite Elq).
    assert (Fp : fisdir p (w_fs w) = true) by (unfold fisdir; now rewrite Elp).
    assert (Iv : ino_of (w_fs w) q = f_ino v) by (unfold ino_of; now rewrite Elq).
    set (kf := kdrained (kernel_op k (w_fs w) (Rename p q))).
    destruct (rename_dir_rekey C w k r p q ep (w_fs w') kf W Hr I Cv Hpd Np Nq Hrec Elp Dep Sp Hpr Sq Hqr Hne Hupq Hbelow Edq)
      as (kwp & kwq & kwe & r'' & evs0 & Cwp & Cwq & Cep & Hrd1 & Hmv & Hpd2 & F & Pf & T & Hsafe0 & Lp2 & Kw2).
    assert (Hpq'' : alookup N.eqb (kw_wd kwv) (pfw r'') = Some q).
    { rewrite <- Evp. apply Pf; try assumption; rewrite Evp; [congruence|]. destruct (under p q) eqn:E; congruence. }
    assert (Hne_wd : kw_wd kwe <> kw_wd kwv).
    { intros E. destruct Cep as (Cwe & _). destruct (watch_of_ino_some _ _ _ Cwe) as [Hke Eie].
      destruct (watch_of_ino_some _ _ _ Cwv) as [Hkv Eiv].
      assert (kwe = kwv) by (apply (wd_inj k); [apply I| | |]; assumption). subst kwe.
      assert (ep = v) by (apply (ino_inj w); try assumption; congruence). subst v. congruence. }
    assert (Hwq'' : alookup beqb q (wfp r'') = Some (kw_wd kwe)).
    { destruct (F ep kwe Hep Dep) as [F1 _]; [now rewrite Eep | congruence | exact Cep|]. now rewrite Eep, rk_self in F1. }
    (* the parents' descriptors map to the parents' paths *)
    assert (Hpar : forall d kw, fisdir d (w_fs w) = true -> watch_of_ino k (ino_of (w_fs w) d) = Some kw ->
                     kw_mask kw = WATCHDOG_ALL /\ alookup N.eqb (kw_wd kw) (pfw r) = Some d).
    { intros d kw Hd Hk. destruct (fisdir_in _ _ Hd) as (e0 & He0 & Ee0 & De0).
      destruct (watch_of_ino_some _ _ _ Hk) as [Hin Hino]. split; [now rewrite (wi_mask _ _ _ _ I kw Hin)|].
      destruct (wi_exact _ _ _ _ I kw Hin) as (e & He & _ & _ & Ie & Pe & _).
      assert (Hi0 : ino_of (w_fs w) d = f_ino e0).
      { unfold ino_of. rewrite <- Ee0. now rewrite (flookup_in _ e0 (wf_paths w W) He0). }
      assert (e = e0) by (apply (ino_inj w); try assumption; congruence). subst e. now rewrite <- Ee0. }
    assert (Urp : under (c_root C) p = true).
    { unfold scope in Sp. rewrite Hrec in Sp. destruct Sp as [Sp'|Sp']; [contradiction | exact Sp']. }
    assert (Fdp : fisdir (dirname p) (w_fs w) = true).
    { destruct Hr as (er & Her & Eer & Der).
      assert (Hdp : isdir_in (dirname p) (w_fs w)).
      { rewrite <- Eep. apply (wf_parent w W ep er Hep Her). now rewrite Eep, Eer. }
      destruct Hdp as (dp0 & Hdp0 & Edp0 & Ddp0). unfold fisdir. rewrite <- Edp0.
      now rewrite (flookup_in _ dp0 (wf_paths w W) Hdp0). }
    destruct (Hpar _ _ Fdp Cwp) as [Mp Pp]. destruct (Hpar _ _ Edq Cwq) as [Mq Pq].
    assert (Mv : kw_mask kwv = WATCHDOG_ALL).
    { destruct (watch_of_ino_some _ _ _ Cwv) as [Hin _]. now rewrite (wi_mask _ _ _ _ I kwv Hin). }
    destruct (npath_parts p Np) as (Ep & [Hdp Hsp] & Hnp & _).
    destruct (npath_parts q Nq) as (Eq & [Hdq Hsq] & Hnq & _).
    (* the kernel queue *)
    unfold deliver_one. rewrite Ha. fold kf.
    assert (Hkq : kernel_op k (w_fs w) (Rename p q) =
                  kset (kdrop k (kw_wd kwv))
                       [kev kwp IN_MOVED_FROM true (k_next_cookie k) (basename p);
                        kev kwq IN_MOVED_TO true (k_next_cookie k) (basename q);
                        kev kwv IN_ATTRIB true 0 []; kev kwv IN_DELETE_SELF false 0 []; kignored kwv]
                       (k_next_cookie k + 1)).
    { cbn [kernel_op]. rewrite Fp, Fq, Iv.
      change {| k_watches := k_watches k; k_next_wd := k_next_wd k; k_queue := k_queue k;
                k_next_cookie := k_next_cookie k + 1 |} with (kset k (k_queue k) (k_next_cookie k + 1)).
      rewrite Hq.
      rewrite (knotify_hit _ _ _ _ _ _ _ _ kwp Cwp Mp) by reflexivity. rewrite kpush_nil.
      rewrite (knotify_hit _ _ _ _ _ _ _ _ kwq Cwq Mq) by reflexivity.
      rewrite kpush_one by (apply kraw_neq_mask; reflexivity).
      rewrite (kgone_hit_attrib _ _ _ _ kwv Cwv Mv).
      rewrite kpush_two by (apply kraw_neq_mask; reflexivity).
      rewrite kpush_three by (apply kraw_neq_mask; reflexivity).
      rewrite kpush_four by (apply kraw_neq_mask; reflexivity). reflexivity. }
    rewrite Hkq. cbn [k_queue kset].
    set (ef := kev kwp IN_MOVED_FROM true (k_next_cookie k) (basename p)) in *.
    set (et := kev kwq IN_MOVED_TO true (k_next_cookie k) (basename q)) in *.
    unfold mv_from, mv_to in Hrd1. fold ef et in Hrd1.
    (* the two halves: the raw events are those of every rename *)
    assert (Hevs0 : evs0 = [mkraw ef p; mkraw et q]).
    { cbn [read_batch] in Hrd1.
      rewrite (ContractProofs.read_one_from C _ _ _ _ _ (dirname p)) in Hrd1 by (first [exact Hpd | exact Pp | reflexivity]).
      match type of Hrd1 with context [read_one C ?t (?r1, ?k1, ?acc) et] =>
        destruct (ContractProofs.read_one_to C t r1 k1 acc et (dirname q)) as [r' [k' Hrd]];
          [ cbn [pend k_cookie kev ef et]; intros c0 p0 Hc0;
            match type of Hc0 with context [if ?b then _ else _] =>
              destruct b; [inversion Hc0; reflexivity | rewrite Hpd in Hc0; discriminate] end
          | exact Pq | reflexivity | reflexivity | reflexivity | reflexivity | rewrite Hrd in Hrd1 ] end.
      inversion Hrd1. cbn [k_name kev ef et app rpath].
      rewrite (rpath_child (dirname p) (basename p)), (join_name (dirname q) (basename q)) by assumption.
      now rewrite <- Ep, <- Eq. }
    subst evs0.
    change [ef; et; kev kwv IN_ATTRIB true 0 []; kev kwv IN_DELETE_SELF false 0 []; kignored kwv]
      with ([ef; et] ++ [kev kwv IN_ATTRIB true 0 []; kev kwv IN_DELETE_SELF false 0 []; kignored kwv]).
    rewrite (read_batch_app C), Hrd1. cbn [read_batch].
    rewrite (ContractProofs.read_one_plain C _ _ _ _ _ q) by (first [exact Hpd2 | exact Hpq'' | reflexivity]).
    rewrite (ContractProofs.read_one_plain C _ _ _ _ _ q) by (first [exact Hpd2 | exact Hpq'' | reflexivity]).
    rewrite read_one_body_eq by exact Hpd2. unfold kignored.
    rewrite (read_one_ignored_other C _ _ _ _ _ q (kw_wd kwe) Hpq'' Hwq'' Hne_wd).
    cbn [k_name kev app rpath].
    rewrite (group_pair_victim C _ _ _ _ _ (k_next_cookie k) (beqb q (c_root C)) (beqb q (c_root C))) by reflexivity.
    eexists. split; [reflexivity|].
    (* the emitter *)
    assert (Hqroot : beqb q (c_root C) = false) by now apply beqb_neq.
    assert (Urq : under (c_root C) q = true).
    { unfold scope in Sq. rewrite Hrec in Sq. destruct Sq as [Sq'|Sq']; [contradiction | exact Sq']. }
    assert (Hwfp : forall e, In e (w_fs w) -> wf_path (f_path e)).
    { intros e He. destruct (wf_np w W e He) as (d0 & n0 & E0 & [_ Hs0] & Hn0). exists d0, n0. auto. }
    assert (Hwf : wf_tree (content (w_fs w) p) = true) by now apply content_wf.
    assert (Hpne : p <> []) by (rewrite Ep; apply child_ne).
    assert (Hqne : q <> []) by (rewrite Eq; apply child_ne).
    assert (Hqs : last_is_sep q = false) by (rewrite Eq; now apply child_last_sep).
    assert (Hsm := sub_moved_synth_eq p q _ Hpne Hqne Hqs Hwf). rewrite <- Hct in Hsm.
    cbn [emit_all emit]. unfold emit_pair. cbn [r_path r_mask mkraw kev k_mask fst snd ef et].
    change (is_directory (N.lor IN_MOVED_FROM IN_ISDIR)) with true.
    unfold mkraw, kev. cbn [k_wd k_mask k_cookie k_name].
    rewrite (emit_delete_self_nonroot C full) by exact Hqroot.
    rewrite Hrec. cbn [andb].
    unfold contract, in_scope. rewrite Urp, Urq, Fp, Fq. cbn [andb orb app].
    rewrite Hsm, <- Hct.
    match goal with |- context [emit_single ?a ?b ?c ?d ?e] =>
      change (emit_single a b c d e) with ([mk DirModified q []], false) end.
    cbn [app]. rewrite ?app_nil_r. reflexivity.
  Qed.
End Replace.

(* ================================================================== a concrete instance, also through the pipeline *)
Definition rp_d : bytes := sub pR 100.            (* /s/R/d    directory *)
Definition rp_df : bytes := sub rp_d 102.         (* /s/R/d/f  file *)
Definition rp_e : bytes := sub pR 101.            (* /s/R/e    empty directory *)
Definition rp_ef : bytes := sub rp_e 102.         (* /s/R/e/f  where the file ends up *)

Definition rp_world : world :=
  {| w_fs := [ {| f_path := pR; f_ino := 1; f_dir := true |}; {| f_path := pO; f_ino := 2; f_dir := true |};
               {| f_path := rp_d; f_ino := 3; f_dir := true |}; {| f_path := rp_df; f_ino := 4; f_dir := false |};
               {| f_path := rp_e; f_ino := 5; f_dir := true |} ];
     w_next_ino := 6 |}.

Lemma rp_world_wf : wf_fs rp_world.
Proof.
  assert (GS : gpath [47;115]%N) by (split; [discriminate | reflexivity]).
  assert (NR : npath pR) by (apply (npath_sub [47;115]%N 82 GS); reflexivity).
  assert (NO : npath pO) by (apply (npath_sub [47;115]%N 79 GS); reflexivity).
  assert (ND : npath rp_d) by (apply npath_sub; [now apply npath_gpath | reflexivity]).
  assert (NF : npath rp_df) by (apply npath_sub; [now apply npath_gpath | reflexivity]).
  assert (NE : npath rp_e) by (apply npath_sub; [now apply npath_gpath | reflexivity]).
  constructor; cbn [rp_world w_fs w_next_ino map f_path f_ino]; [| | | | |lia].
  - repeat constructor; cbn; intuition discriminate.
  - repeat constructor; cbn; intuition discriminate.
  - intros e [<-|[<-|[<-|[<-|[<-|[]]]]]]; cbn; lia.
  - intros e [<-|[<-|[<-|[<-|[<-|[]]]]]]; assumption.
  - intros e d [<-|[<-|[<-|[<-|[<-|[]]]]]] [<-|[<-|[<-|[<-|[<-|[]]]]]] Hu; vm_compute in Hu; try discriminate;
      first [ eexists; split; [left; reflexivity | split; vm_compute; reflexivity]
            | eexists; split; [right; right; left; reflexivity | split; vm_compute; reflexivity] ].
Qed.

Definition rp_events : list nevent :=
  [mk DirMoved rp_d rp_e; parent_modified rp_d; parent_modified rp_e;
   {| ev_cls := FileMoved; ev_src := rp_df; ev_dest := rp_ef; ev_synth := true |};
   mk DirModified rp_e []].

Lemma replace_nonvacuous :
  exists r k w',
    construct (cfgx true true) kinit (w_fs rp_world) = Some (r, k) /\ RSync (cfgx true true) rp_world k r /\
    npath rp_d /\ npath rp_e /\ scope (cfgx true true) rp_d /\ scope (cfgx true true) rp_e /\
    apply_op rp_world (Rename rp_d rp_e) = Some w' /\
    fisdir rp_d (w_fs rp_world) = true /\ fisdir rp_e (w_fs rp_world) = true /\
    content (w_fs w') rp_e = content (w_fs rp_world) rp_d /\
    deliver_one (cfgx true true) false rp_world k r (Rename rp_d rp_e) = Some rp_events /\
    collapse rp_events = collapse (contract true false pR (w_fs rp_world) (Rename rp_d rp_e)) /\
    (* through the pipeline model: AOp; ARead (whole queue); ATick; AEmit x4 from the initial state *)
    exists s0 s obs, pinit (Px true) rp_world = Some s0 /\
      prun (Px true) s0 (tie_history (Px true) s0 (Rename rp_d rp_e) 4) [] = Done (s, obs) /\ p_out s = rp_events.
Proof.
  destruct (construct_cover (cfgx true true) eq_refl rp_world rp_world_wf eq_refl) as (r & k & Hc & I & Cv & Hq & _ & Hp).
  exists r, k. eexists. split; [exact Hc|]. split.
  { constructor; try assumption; [exact rp_world_wf|].
    eexists. split; [left; reflexivity | split; reflexivity]. }
  vm_compute in Hc. inversion Hc; subst r k. clear Hc.
  assert (GR : gpath pR) by (split; [discriminate | reflexivity]).
  split; [apply npath_sub; [exact GR | reflexivity]|]. split; [apply npath_sub; [exact GR | reflexivity]|].
  split; [right; vm_compute; reflexivity|]. split; [right; vm_compute; reflexivity|].
  split; [vm_compute; reflexivity|]. split; [vm_compute; reflexivity|]. split; [vm_compute; reflexivity|].
  split; [vm_compute; reflexivity|]. split; [vm_compute; reflexivity|]. split; [vm_compute; reflexivity|].
  eexists; eexists; eexists. split; [vm_compute; reflexivity|]. split; vm_compute; reflexivity.
Qed.

(* ================================================================== the replaced directory has no watch of its own *)
(* non-recursive watch, or the target lies outside the scope: the kernel has nothing to say about the victim, the
   operation looks like a rename onto a free name *)
Section ReplaceUnwatched.
  Variable C : cfg.
  Variable full : bool.
  Variables (w : world) (k : kst) (r : rstate).
  Hypothesis Hq : k_queue k = [].
  Hypothesis Hpend : pend r = None.
  Let rec := c_recursive C.
  Let root := c_root C.

  Ltac own :=
    cbn [pend k_cookie ContractProofs.kev]; intros c0 p0 Hc0;
    first [ rewrite Hpend in Hc0; discriminate
          | match type of Hc0 with context [if ?b then _ else _] =>
              destruct b; [inversion Hc0; reflexivity | rewrite Hpend in Hc0; discriminate] end ].

  Ltac start_rename Happ :=
    unfold delivers, deliver_one; rewrite Happ;
    unfold contract; rewrite ?in_scope_child by assumption;
    cbn [kernel_op]; rewrite ?dirname_child, ?basename_child by assumption;
    match goal with
    | |- context [ {| k_watches := k_watches k; k_next_wd := k_next_wd k; k_queue := k_queue k;
                      k_next_cookie := ?c |} ] =>
      change {| k_watches := k_watches k; k_next_wd := k_next_wd k; k_queue := k_queue k;
                k_next_cookie := c |} with (kset k (k_queue k) c)
    end; rewrite Hq.

  Lemma contract_rename_dir_over_unwatched dp np dq nq w' :
    dp <> [] -> last_is_sep dp = false -> valid_name np = true ->
    dq <> [] -> last_is_sep dq = false -> valid_name nq = true ->
    cover C r k (w_fs w) dp -> cover C r k (w_fs w) dq ->
    fisdir (dp ++ sep :: np) (w_fs w) = true -> fisdir (dq ++ sep :: nq) (w_fs w) = true ->
    watch_of_ino k (ino_of (w_fs w) (dq ++ sep :: nq)) = None ->
    (c_recursive C = false \/ in_scope (c_recursive C) (c_root C) (dq ++ sep :: nq) = false) ->
    content (w_fs w') (dq ++ sep :: nq) = content (w_fs w) (dp ++ sep :: np) ->
    wf_tree (content (w_fs w) (dp ++ sep :: np)) = true ->
    apply_op w (Rename (dp ++ sep :: np) (dq ++ sep :: nq)) = Some w' ->
    delivers C full w k r (Rename (dp ++ sep :: np) (dq ++ sep :: nq)).
  Proof.
    intros Hdp Hsp Hnp Hdq Hsq Hnq Hcp Hcq Hfp Hfq Hvw Hvict Hct Hwf Happ.
    rewrite in_scope_child in Hvict by assumption. start_rename Happ.
    rewrite Hfp, Hfq. unfold cover in Hcp, Hcq. fold rec root in Hcp, Hcq, Hvict |- *.
    assert (Hsm := sub_moved_synth_eq (dp ++ sep :: np) (dq ++ sep :: nq) _ (child_ne dp np) (child_ne dq nq)
                                      (child_last_sep dq nq Hnq) Hwf).
    assert (Hsc := sub_created_synth_eq (dq ++ sep :: nq) _ (child_ne dq nq) (child_last_sep dq nq Hnq) Hwf).
    rewrite <- Hct in Hsm, Hsc.
    destruct (watched_dir rec root dp).
    - destruct Hcp as [wp [Hw [Hm [Hp Hf]]]].
      rewrite (knotify_hit _ _ _ _ _ _ _ _ wp Hw Hm) by reflexivity. rewrite kpush_nil.
      destruct (watched_dir rec root dq) eqn:Ewq.
      + assert (Hr : rec = false) by (destruct Hvict as [H|H]; [exact H | discriminate]).
        destruct Hcq as [wq [Hw' [Hm' [Hp' Hf']]]].
        rewrite (knotify_hit _ _ _ _ _ _ _ _ wq Hw' Hm') by reflexivity.
        rewrite kpush_one by (apply kraw_neq_mask; reflexivity).
        rewrite kgone_miss by exact Hvw.
        cbn [k_queue kset read_batch].
        rewrite (ContractProofs.read_one_from C _ _ _ _ _ dp) by (first [exact Hpend | exact Hp | reflexivity]).
        match goal with |- context [read_one C ?t (?r1, ?k1, ?acc) ?e] =>
          destruct (ContractProofs.read_one_to C t r1 k1 acc e dq) as [r' [k' Hrd]];
            [own | exact Hp' | reflexivity | reflexivity | reflexivity | reflexivity | rewrite Hrd] end.
        cbn [k_name ContractProofs.kev app rpath]. rewrite ?rpath_child by assumption.
        rewrite (join_name dq nq) by assumption.
        rewrite <- Hct.
        set (p := dp ++ sep :: np) in *. set (q := dq ++ sep :: nq) in *.
        rewrite (group_pair C _ _ (k_next_cookie k)) by reflexivity.
        eexists. split; [reflexivity|].
        cbn [emit_all emit]. unfold emit_pair. cbn [r_path r_mask mkraw ContractProofs.kev k_mask fst snd].
        change (is_directory (N.lor IN_MOVED_FROM IN_ISDIR)) with true.
        rewrite Hr. cbn [andb app]. rewrite ?app_nil_r. reflexivity.
      + rewrite knotify_miss by exact Hcq. rewrite kgone_miss by exact Hvw.
        cbn [k_queue kset read_batch].
        rewrite (ContractProofs.read_one_from C _ _ _ _ _ dp) by (first [exact Hpend | exact Hp | reflexivity]).
        cbn [k_name ContractProofs.kev app rpath]. rewrite ?rpath_child by assumption.
        set (p := dp ++ sep :: np) in *. set (q := dq ++ sep :: nq) in *.
        eexists. split; [reflexivity|]. destruct full; reflexivity.
    - rewrite knotify_miss by exact Hcp.
      destruct (watched_dir rec root dq) eqn:Ewq.
      + assert (Hr : rec = false) by (destruct Hvict as [H|H]; [exact H | discriminate]).
        destruct Hcq as [wq [Hw' [Hm' [Hp' Hf']]]].
        rewrite (knotify_hit _ _ _ _ _ _ _ _ wq Hw' Hm') by reflexivity. rewrite kpush_nil.
        rewrite kgone_miss by exact Hvw.
        cbn [k_queue kset read_batch].
        match goal with |- context [read_one C ?t (?r1, ?k1, ?acc) ?e] =>
          destruct (ContractProofs.read_one_to C t r1 k1 acc e dq) as [r' [k' Hrd]];
            [own | exact Hp' | reflexivity | reflexivity | reflexivity | reflexivity | rewrite Hrd] end.
        cbn [k_name ContractProofs.kev app rpath]. rewrite (join_name dq nq) by assumption.
        rewrite <- Hct.
        set (p := dp ++ sep :: np) in *. set (q := dq ++ sep :: nq) in *.
        eexists. split; [reflexivity|].
        match goal with |- context [group_batch C [?e]] => change (group_batch C [e]) with [Single e] end.
        cbn [emit_all emit]. unfold emit_single. cbn [r_path r_mask mkraw ContractProofs.kev k_mask fst snd].
        change (is_moved_to (N.lor IN_MOVED_TO IN_ISDIR)) with true.
        change (is_directory (N.lor IN_MOVED_TO IN_ISDIR)) with true. cbv iota.
        rewrite Hr. destruct full; cbn [andb app]; rewrite ?app_nil_r; reflexivity.
      + rewrite knotify_miss by exact Hcq. rewrite kgone_miss by exact Hvw. eexists; split; reflexivity.
  Qed.
End ReplaceUnwatched.
