(* The pairing condition of the cut theorems (cuts_ok) holds for every cut of the records of one operation: the kernel
   queues the two halves of a rename back to back, every other record is no move record, a move record gives at most one
   event and no other record gives a move event. *)
Require Import WD.Base.Prelude WD.Base.BStr WD.Model.SubEvents WD.Model.Emitter WD.Model.Fs WD.Model.Reader
               WD.Model.Grouping WD.Model.Pipeline WD.Model.Contract.
Require Import WD.Proofs.ReaderFixProofs WD.Proofs.CoverProofs WD.Proofs.CoverOutProofs WD.Proofs.C11KShapeProofs
               WD.Proofs.CutsProofs WD.Proofs.CutsReaderProofs.
Local Open Scope N_scope.

(* ---------------------------------------------------------------- lists *)
Definition nomvR (C : cfg) (x : raw) : Prop := (forall c, nkind_of C x <> KFrom c) /\ (forall c, nkind_of C x <> KTo c).

(* all move events sit in a window of at most two adjacent events *)
Definition W (C : cfg) (R : list raw) : Prop :=
  exists pre mv post, R = pre ++ mv ++ post /\ Forall (nomvR C) pre /\ Forall (nomvR C) post /\ (length mv <= 2)%nat.

Definition G (C : cfg) (R : list raw) : Prop :=
  forall X t Y c, R = X ++ t :: Y -> nkind_of C t = KTo c ->
    (forall f, In f X -> nkind_of C f <> KFrom c) \/
    (exists X' f, X = X' ++ [f] /\ nkind_of C f = KFrom c /\ forall f', In f' X' -> nkind_of C f' <> KFrom c).

Lemma locate {A} (t : A) : forall pre X Y mv post, X ++ t :: Y = pre ++ mv ++ post -> ~ In t pre -> ~ In t post ->
  exists m1 m2, mv = m1 ++ t :: m2 /\ X = pre ++ m1.
Proof.
  induction pre as [|p pre IH]; intros X Y mv post E Hp Hq; cbn [app] in E.
  - apply app_eq_app in E as [l [[E1 E2]|[E1 E2]]].
    + exfalso. apply Hq. rewrite E2. apply in_app_iff. right. now left.
    + destruct l as [|x l]; cbn [app] in E2.
      * exfalso. apply Hq. rewrite <- E2. now left.
      * injection E2 as <- _. exists X, l. split; [exact E1 | reflexivity].
  - destruct X as [|x X]; cbn [app] in E.
    + injection E as -> _. exfalso. apply Hp. now left.
    + injection E as -> E. destruct (IH X Y mv post E) as (m1 & m2 & -> & ->); [intros H; apply Hp; now right | exact Hq|].
      exists m1, m2. split; reflexivity.
Qed.

Lemma W_G C R : W C R -> G C R.
Proof.
  intros (pre & mv & post & -> & Hpre & Hpost & Hl) X t Y c E Hk.
  assert (Hnm : ~ nomvR C t) by (intros [_ H]; exact (H c Hk)).
  destruct (locate t pre X Y mv post (eq_sym E)) as (m1 & m2 & -> & ->).
  { intros Hin. rewrite Forall_forall in Hpre. exact (Hnm (Hpre t Hin)). }
  { intros Hin. rewrite Forall_forall in Hpost. exact (Hnm (Hpost t Hin)). }
  rewrite Forall_forall in Hpre. rewrite app_length in Hl. cbn [length] in Hl.
  destruct m1 as [|a m1].
  - left. intros f Hf. rewrite app_nil_r in Hf. exact (proj1 (Hpre f Hf) c).
  - destruct m1; [|cbn in Hl; lia].
    destruct (nkind_of C a) eqn:Ea; try (left; intros f Hf; apply in_app_iff in Hf as [Hf|[<-|[]]]; [exact (proj1 (Hpre f Hf) c) | congruence]).
    destruct (N.eq_dec cookie c) as [->|Hne].
    + right. exists pre, a. split; [reflexivity|]. split; [exact Ea|]. intros f Hf. exact (proj1 (Hpre f Hf) c).
    + left. intros f Hf. apply in_app_iff in Hf as [Hf|[<-|[]]]; [exact (proj1 (Hpre f Hf) c) | congruence].
Qed.

Lemma G_cuts_ok C : forall Rs R0, G C (R0 ++ concat Rs) -> cuts_ok C R0 Rs.
Proof.
  induction Rs as [|b Rs IH]; intros R0 HG; cbn [cuts_ok concat] in *; [exact I|]. split.
  - intros b1 t b2 c -> Hk.
    assert (E : R0 ++ (b1 ++ t :: b2) ++ concat Rs = (R0 ++ b1) ++ t :: (b2 ++ concat Rs)) by (now rewrite <- !app_assoc).
    destruct (HG (R0 ++ b1) t (b2 ++ concat Rs) c E Hk) as [H|(X' & f & E' & Hf & HX')].
    + left. intros f Hf. apply H. apply in_app_iff. now left.
    + destruct b1 as [|x b1'].
      * right. split; [reflexivity|]. rewrite app_nil_r in E'. exists X', f. auto.
      * left. destruct (@exists_last _ (x :: b1')) as (l' & a & El); [discriminate|]. rewrite El, app_assoc in E'.
        apply app_inj_tail in E' as [<- _]. intros f0 Hf0. apply HX'. apply in_app_iff. now left.
  - apply IH. now rewrite <- app_assoc.
Qed.

(* ---------------------------------------------------------------- the reader: which records give move events *)
Definition nomvK (e : kraw) : Prop := is_moved_from (k_mask e) = false /\ is_moved_to (k_mask e) = false.

Lemma nomvR_mask C x : is_moved_from (r_mask x) = false -> is_moved_to (r_mask x) = false -> nomvR C x.
Proof.
  intros H1 H2. unfold nomvR, nkind_of. cbv zeta. rewrite H1, H2.
  split; intros c; repeat match goal with |- context [if ?b then _ else _] => destruct b end; discriminate.
Qed.

Lemma sim_mask_nomv C x : sim_mask x -> nomvR C x.
Proof. intros [H|H]; apply nomvR_mask; rewrite H; reflexivity. Qed.

Section RShape.
  Variable C : cfg.

  Lemma rb_nomove t b : Forall nomvK b -> forall r k acc r' k' acc',
    read_batch C t (r, k, acc) b = Done (r', k', acc') -> exists o, acc' = acc ++ o /\ Forall (nomvR C) o.
  Proof.
    induction 1 as [|e b [He1 He2] Hb IH]; intros r k acc r' k' acc' H; cbn [read_batch] in H.
    - injection H as <- <- <-. exists []. split; [now rewrite app_nil_r | constructor].
    - destruct (read_one C t (r, k, acc) e) as [[[r1 k1] acc1]|] eqn:E1; [|discriminate].
      destruct (IH _ _ _ _ _ _ H) as (o & -> & Ho).
      destruct (read_one_shape C _ _ _ _ _ _ _ _ E1) as [->|(ev & sim & -> & Hm & Hs)]; [exists o; auto|].
      exists ((ev :: sim) ++ o). split; [now rewrite app_assoc|]. apply Forall_app. split; [|exact Ho].
      constructor; [apply nomvR_mask; now rewrite Hm|]. eapply Forall_impl; [|exact Hs]. intros x. apply sim_mask_nomv.
  Qed.

  (* a record that is not the creation of a directory gives at most one event *)
  Lemma read_one_body_len t r k acc e r' k' acc' : read_one_body C t (r, k, acc) e = Done (r', k', acc') ->
    is_create (k_mask e) = false -> exists o, acc' = acc ++ o /\ (length o <= 1)%nat.
  Proof.
    unfold read_one_body. destruct (alookup N.eqb (k_wd e) (pfw r)) as [wp|].
    2:{ destruct (c_fix_moveout C); [|discriminate]. intros H _. injection H as <- <- <-. exists []. split; [now rewrite app_nil_r | cbn; lia]. }
    intros H Hc. revert H.
    set (X := if is_moved_from (k_mask e) then _ else _). destruct X as [[r1 k1] ev1].
    set (Y := if Emitter.is_ignored (k_mask e) then _ else _). destruct Y as [r2|]; [|discriminate].
    rewrite Hc, andb_false_r. intros H. injection H as <- <- <-. exists [ev1]. split; [reflexivity | cbn; lia].
  Qed.

  Lemma read_one_len t r k acc e r' k' acc' : read_one C t (r, k, acc) e = Done (r', k', acc') ->
    is_create (k_mask e) = false -> exists o, acc' = acc ++ o /\ (length o <= 1)%nat.
  Proof. unfold read_one. destruct (settle_pending C r k e) as [r0 k0]. apply read_one_body_len. Qed.

  Lemma rb_len t b : Forall (fun e => is_create (k_mask e) = false) b -> forall r k acc r' k' acc',
    read_batch C t (r, k, acc) b = Done (r', k', acc') -> exists o, acc' = acc ++ o /\ (length o <= length b)%nat.
  Proof.
    induction 1 as [|e b He Hb IH]; intros r k acc r' k' acc' H; cbn [read_batch] in H.
    - injection H as <- <- <-. exists []. split; [now rewrite app_nil_r | cbn; lia].
    - destruct (read_one C t (r, k, acc) e) as [[[r1 k1] acc1]|] eqn:E1; [|discriminate].
      destruct (read_one_len _ _ _ _ _ _ _ _ E1 He) as (o1 & -> & L1). destruct (IH _ _ _ _ _ _ H) as (o & -> & L).
      exists (o1 ++ o). split; [now rewrite app_assoc|]. rewrite app_length. cbn [length]. lia.
  Qed.

  (* records with their move records in a window of two give events with their move events in a window of two *)
  Lemma rb_W t pre mv post r k r' k' raws :
    Forall nomvK pre -> Forall nomvK post -> Forall (fun e => is_create (k_mask e) = false) mv -> (length mv <= 2)%nat ->
    read_batch C t (r, k, []) (pre ++ mv ++ post) = Done (r', k', raws) -> W C raws.
  Proof.
    intros Hpre Hpost Hmv Hl H. rewrite read_batch_app in H.
    destruct (read_batch C t (r, k, []) pre) as [[[r1 k1] a1]|] eqn:E1; [|discriminate]. rewrite read_batch_app in H.
    destruct (read_batch C t (r1, k1, a1) mv) as [[[r2 k2] a2]|] eqn:E2; [|discriminate].
    destruct (rb_nomove t pre Hpre _ _ _ _ _ _ E1) as (o1 & -> & H1). cbn [app] in *.
    destruct (rb_len t mv Hmv _ _ _ _ _ _ E2) as (o2 & -> & H2).
    destruct (rb_nomove t post Hpost _ _ _ _ _ _ H) as (o3 & -> & H3).
    exists o1, o2, o3. split; [now rewrite <- app_assoc|]. split; [exact H1|]. split; [exact H3 | lia].
  Qed.
End RShape.

(* ---------------------------------------------------------------- the kernel: the records of one operation *)
Definition Wk (b : list kraw) : Prop :=
  exists pre mv post, b = pre ++ mv ++ post /\ Forall nomvK pre /\ Forall nomvK post /\
    Forall (fun e => is_create (k_mask e) = false) mv /\ (length mv <= 2)%nat.

Lemma Wk_quiet k k' : k_queue k = [] -> appended nomvK k k' -> Wk (k_queue k').
Proof.
  intros Hq [g [E Fg]]. rewrite Hq in E. cbn in E. exists (k_queue k'), [], []. rewrite app_nil_r.
  split; [reflexivity|]. split; [now rewrite E|]. repeat split; try constructor. cbn; lia.
Qed.

Lemma kernel_op_Wk k t o : k_queue k = [] -> Wk (k_queue (kernel_op k t o)).
Proof.
  intros Hq.
  assert (Q1 : forall bit (isd : bool) c name wd, is_moved_from (if isd then N.lor bit IN_ISDIR else bit) = false ->
                 is_moved_to (if isd then N.lor bit IN_ISDIR else bit) = false ->
                 nomvK {| k_wd := wd; k_mask := C11SeqProofs.nmask bit isd; k_cookie := c; k_name := name |}).
  { intros. split; assumption. }
  assert (QI : forall wd, nomvK {| k_wd := wd; k_mask := IN_IGNORED; k_cookie := 0; k_name := [] |}) by (intros; split; reflexivity).
  destruct o as [p|p|p|p|p|p|p q]; cbn [kernel_op].
  - apply (Wk_quiet k); [exact Hq|]. repeat (eapply appended_trans; [|apply knotify_appended; intros; apply Q1; reflexivity]). apply appended_refl.
  - apply (Wk_quiet k); [exact Hq|]. repeat (eapply appended_trans; [|apply knotify_appended; intros; apply Q1; reflexivity]). apply appended_refl.
  - apply (Wk_quiet k); [exact Hq|]. destruct (fisdir p t);
      repeat (eapply appended_trans; [|apply knotify_appended; intros; apply Q1; reflexivity]); apply appended_refl.
  - apply (Wk_quiet k); [exact Hq|]. apply knotify_appended; intros; apply Q1; reflexivity.
  - apply (Wk_quiet k); [exact Hq|]. apply knotify_appended; intros; apply Q1; reflexivity.
  - apply (Wk_quiet k); [exact Hq|]. eapply appended_trans; [|apply knotify_appended; intros; apply Q1; reflexivity].
    apply kgone_appended; intros; first [apply QI | apply Q1; reflexivity].
  - set (k0 := {| k_watches := k_watches k; k_next_wd := k_next_wd k; k_queue := k_queue k; k_next_cookie := k_next_cookie k + 1 |}).
    set (c := k_next_cookie k). set (d := fisdir p t).
    set (k1 := knotify k0 (ino_of t (dirname p)) IN_MOVED_FROM d c (basename p)).
    set (k2 := knotify k1 (ino_of t (dirname q)) IN_MOVED_TO d c (basename q)).
    destruct (knotify_one k0 (ino_of t (dirname p)) IN_MOVED_FROM d c (basename p)) as [g1 [E1 G1]].
    fold k1 in E1. change (k_queue k0) with (k_queue k) in E1. rewrite Hq in E1. cbn [app] in E1.
    destruct (knotify_one k1 (ino_of t (dirname q)) IN_MOVED_TO d c (basename q)) as [g2 [E2 G2]]. fold k2 in E2.
    assert (A3 : exists g3, k_queue (if fisdir q t then kgone k2 (ino_of t q) true else k2) = k_queue k2 ++ g3 /\ Forall nomvK g3).
    { destruct (fisdir q t); [|exists []; split; [now rewrite app_nil_r | constructor]].
      apply kgone_appended; intros; first [apply QI | apply Q1; reflexivity]. }
    destruct A3 as [g3 [E3 G3]]. rewrite E3, E2, E1.
    exists [], (g1 ++ g2), g3. cbn [app]. split; [reflexivity|]. split; [constructor|]. split; [exact G3|]. split.
    + apply Forall_app. split; [destruct G1 as [->|[wd ->]] | destruct G2 as [->|[wd ->]]]; try constructor; try constructor;
        cbn [k_mask]; unfold C11SeqProofs.nmask; destruct d; reflexivity.
    + rewrite app_length. destruct G1 as [->|[wd ->]], G2 as [->|[wd' ->]]; cbn; lia.
Qed.

(* ---------------------------------------------------------------- every cut of one operation's records is paired *)
(* the events of the big read after an operation from a state of the sequential invariant *)
Lemma gs_raws_W C w k r hot o w' r' k' raws : c_fix_moveout C = true -> GS C w k r hot ->
  read_batch C (w_fs w') (r, drainq (kernel_op k (w_fs w) o), []) (k_queue (kernel_op k (w_fs w) o)) = Done (r', k', raws) ->
  W C raws.
Proof.
  intros Hmo G Hrd. destruct hot as [h|]; cbn [GS] in G.
  - destruct G as (c & p & PO).
    destruct (kernel_op_Wk k (w_fs w) o (po_queue _ _ _ _ _ _ _ PO)) as (pre & mv & post & E & Hpre & Hpost & Hmv & Hl).
    rewrite E in Hrd. exact (rb_W C _ pre mv post _ _ _ _ _ Hpre Hpost Hmv Hl Hrd).
  - destruct G as [S HJ].
    assert (Q : qext (k_queue k) k (kset_queue k [])) by (repeat split; cbn; now rewrite ?app_nil_r).
    assert (JF : jfree (k_queue k) (kset_queue k [])).
    { intros a kw Ha' Hk. rewrite Forall_forall in HJ. destruct (HJ a Ha') as [_ [H _]]. now apply H. }
    assert (Q1 := kernel_op_qext _ _ _ (w_fs w) o Q JF).
    destruct Q1 as (_ & _ & _ & EQ). rewrite EQ in Hrd.
    rewrite (read_batch_skip C Hmo) in Hrd; [|apply (rs_pend _ _ _ _ S)|eapply Forall_impl; [|exact HJ]; intros a [H _]; exact H].
    destruct (kernel_op_Wk (kset_queue k []) (w_fs w) o eq_refl) as (pre & mv & post & E & Hpre & Hpost & Hmv & Hl).
    rewrite E in Hrd. exact (rb_W C _ pre mv post _ _ _ _ _ Hpre Hpost Hmv Hl Hrd).
Qed.
