(* Several operations in one native batch (no coalescing): the exact hypotheses under which
   FSEventsEmitter.queue_events still queues the per-operation contracts, and the replay law that
   follows.  The findings F12a-e live outside these hypotheses. *)
Require Import WD.Base.Prelude WD.Base.BStr WD.Model.SubEvents WD.Proofs.SubEventsProofs.
Require Import WD.Model.PlatFs WD.Proofs.PlatFsProofs WD.Proofs.PlatReplayProofs WD.Proofs.PlatClosedProofs.
Require Import WD.Model.WinEmitter WD.Proofs.WinEmitterProofs WD.Proofs.WinReplayProofs.
Require Import WD.Model.FsEvents WD.Proofs.FsEventsProofs WD.Proofs.FsContractProofs WD.Proofs.FsReplayProofs.
Require Import Coq.Sorting.Permutation.

(* the look-ahead predicate of the emitter: a later event flagged renamed with the same inode *)
Definition partner (i : N) (x : fnative) : bool := has x F_RENAMED && N.eqb (f_ino x) i.
Definition exists_at (stat : bytes -> option N) (p : bytes) (i : N) : bool :=
  match stat p with Some j => N.eqb j i | None => false end.

Section Proc.
  Variable stat_ino : bytes -> option N.
  Variable walk : bytes -> tree.
  Variable sub : path -> tree.
  Variable recursive : bool.
  Variable root : bytes.
  Hypothesis Hroot : root <> [].
  Hypothesis Hsep : last_is_sep root = false.
  Hypothesis Hwalk : forall p, walk (abspath root p) = sub p.
  Hypothesis Hwf : forall p, wf_tree (sub p) = true.

  Let proc := process stat_ino walk root.
  Let rd (l : list aev) := map (render root) l.

  Ltac start := unfold proc, rd, frender; cbn [fst snd];
    cbv beta zeta delta [process is_meta_mod nkind created_evs deleted_evs modified_evs];
    cbn [f_path f_ino f_flags].
  Ltac finish := cbn [andb orb negb app dirkind map render pmod find remove_first f_path f_ino f_flags];
    eexists; (split; [rewrite ?app_nil_r; reflexivity | view_tac]).

  Lemma proc_create view p i k rest : path_ok p = true -> mem i view = false ->
    exists v, proc view (frender root (p, i, N.lor F_CREATED (kflag k))) rest
              = (rd (ACreated k p false :: pmod p), v, rest, false) /\
              (forall j, mem j v = true -> mem j view = true \/ j = i).
  Proof.
    intros Hp Hm. start. destruct k; cbn [kflag]; hasc; rewrite Hm, dirname_abs by assumption; finish.
  Qed.

  Lemma proc_modified view p i k fl rest : path_ok p = true -> fl = F_MODIFIED \/ fl = F_INODE_META ->
    exists v, proc view (frender root (p, i, N.lor fl (kflag k))) rest = (rd [AModified k p], v, rest, false) /\
              (forall j, mem j v = true -> mem j view = true \/ j = i).
  Proof. intros Hp Hfl. start. destruct Hfl as [-> | ->]; destruct k; cbn [kflag]; hasc; finish. Qed.

  Lemma proc_removed view p i k rest : path_ok p = true ->
    exists v, proc view (frender root (p, i, N.lor F_REMOVED (kflag k))) rest
              = (rd (ADeleted k p :: pmod p), v, rest, false) /\
              (forall j, mem j v = true -> mem j view = true \/ j = i).
  Proof. intros Hp. start. destruct k; cbn [kflag]; hasc; rewrite dirname_abs by assumption; finish. Qed.

  Lemma proc_moveout view p i k rest : path_ok p = true ->
    exists_at stat_ino (abspath root p) i = false -> find (partner i) rest = None ->
    exists v, proc view (frender root (p, i, N.lor F_RENAMED (kflag k))) rest
              = (rd (ADeleted k p :: pmod p), v, rest, false) /\
              (forall j, mem j v = true -> mem j view = true \/ j = i).
  Proof.
    intros Hp Hst Hnp. unfold exists_at in Hst. unfold partner in Hnp. start. rewrite Hst, Hnp.
    destruct k; cbn [kflag]; hasc; rewrite dirname_abs by assumption; finish.
  Qed.

  Lemma proc_movein view p i k rest : path_ok p = true ->
    exists_at stat_ino (abspath root p) i = true -> find (partner i) rest = None ->
    exists v, proc view (frender root (p, i, N.lor F_RENAMED (kflag k))) rest
              = (rd (ACreated k p false :: pmod p ++ map (fun x => ACreated (fst x) (p ++ snd x) true) (desc [] (sub p))),
                 v, rest, false) /\
              (forall j, mem j v = true -> mem j view = true \/ j = i).
  Proof.
    intros Hp Hst Hnp. pose proof (path_ok_split _ Hp) as [Hne Hv].
    unfold exists_at in Hst. unfold partner in Hnp. start. rewrite Hst, Hnp.
    rewrite (sub_created_abs walk sub root Hroot Hsep Hwalk Hwf p Hne Hv).
    destruct k; cbn [kflag]; hasc; rewrite dirname_abs by assumption; finish.
  Qed.

  Lemma proc_rename view s d i k rest : path_ok s = true -> path_ok d = true ->
    exists v, proc view (frender root (s, i, N.lor F_RENAMED (kflag k)))
                   (frender root (d, i, N.lor F_RENAMED (kflag k)) :: rest)
              = (rd (AMoved k s d false :: pmod s ++ pmod d ++
                     map (fun x => AMoved (fst x) (s ++ snd x) (d ++ snd x) true) (desc [] (sub d))), v, rest, false) /\
              (forall j, mem j v = true -> mem j view = true \/ j = i).
  Proof.
    intros Hs Hd. pose proof (path_ok_split _ Hd) as [Hne Hv]. start. cbn [find].
    destruct k; cbn [kflag]; hasc; rewrite N.eqb_refl; cbn [andb orb negb f_path f_ino f_flags]; hasc;
      rewrite (sub_moved_abs walk sub root Hroot Hsep Hwalk Hwf s d Hne Hv), !dirname_abs by assumption.
    all: cbn [andb orb negb app dirkind map render pmod find remove_first f_path f_ino f_flags]; hasc;
      rewrite ?N.eqb_refl; cbn [andb orb negb app]; eexists; (split; [rewrite ?app_nil_r; reflexivity | view_tac]).
  Qed.

  (* one iteration of the loop *)
  Lemma loop_cons fuel view e rest X v rest1 :
    proc view e rest = (X, v, rest1, false) ->
    loop stat_ino walk recursive root (S fuel) view (e :: rest)
    = match loop stat_ino walk recursive root fuel v rest1 with
      | Some (o2, v2, s2) => Some (q recursive root X ++ o2, v2, s2)
      | None => None
      end.
  Proof. intros E. cbn [loop]. unfold proc in E. rewrite E. reflexivity. Qed.
End Proc.

(* what the file system must answer, when the batch is processed, about the one path of a rename
   across the watch boundary: gone / there with the item's inode *)
Definition stat_ok (stat : bytes -> option N) (root : bytes) (before : fs) (o : op) : Prop :=
  match o with
  | OMoveOut s => match lookup before s with Some e => exists_at stat (abspath root s) (e_ino e) = false | None => True end
  | OMoveIn d _ i _ => exists_at stat (abspath root d) i = true
  | _ => True
  end.

(* the item of a one-sided rename must not be flagged renamed again later in the batch *)
Definition no_partner (before : fs) (o : op) (rest : list fnative) : Prop :=
  match o with
  | OMoveOut s => match lookup before s with Some e => find (partner (e_ino e)) rest = None | None => True end
  | OMoveIn _ _ i _ => find (partner i) rest = None
  | _ => True
  end.

Section Step.
  Variable stat_ino : bytes -> option N.
  Variable walk : bytes -> tree.
  Variable sub : path -> tree.
  Variable recursive : bool.
  Variable root : bytes.
  Hypothesis Hroot : root <> [].
  Hypothesis Hsep : last_is_sep root = false.
  Hypothesis Hwalk : forall p, walk (abspath root p) = sub p.
  Hypothesis Hwf : forall p, wf_tree (sub p) = true.
  Let lp := loop stat_ino walk recursive root.

  Ltac step_tac E :=
    let fuel := fresh "fuel" in
    intros fuel; unfold lp; cbn [app];
    etransitivity; [eapply loop_cons; exact E | reflexivity].

  (* the events of one operation at the head of a batch are turned into that operation's contract,
     whatever follows them *)
  Theorem fse_step : forall (view : list N) (before : fs) (o : op) (rest : list fnative),
    op_names_ok o = true -> op_ok before o = true ->
    stat_ok stat_ino root before o -> no_partner before o rest ->
    (forall i, In i (created_ino o) -> mem i view = false) ->
    exists v,
      (forall fuel, lp (S fuel) view (map (frender root) (fsevents_kernel before o) ++ rest)
         = match lp fuel v rest with
           | Some (o2, v2, s2) =>
             Some (filter (keep recursive root) (map (render root) (fse_contract sub before (apply_op before o) o)) ++ o2, v2, s2)
           | None => None
           end) /\
      (forall j, mem j v = true -> mem j view = true \/ In j (subject_ino before o)).
  Proof.
    intros view before o rest Hn Ho Hst Hnp Hfresh.
    assert (Wrap : forall i v L, (forall j, mem j v = true -> mem j view = true \/ j = i) ->
                   L = [i] -> forall j, mem j v = true -> mem j view = true \/ In j L).
    { intros i v L H E j Hj. rewrite E. destruct (H j Hj); [now left | right; now left]. }
    destruct o as [p i|p i|p|p|p|p|s d|s|d k i content]; cbn [op_names_ok] in Hn;
      cbn [fsevents_kernel fse_contract map stat_ok no_partner] in *.
    - destruct (proc_create stat_ino walk root Hroot Hsep view p i KFile rest Hn) as (v & E & B);
        [apply Hfresh; now left|]. exists v. split; [step_tac E | eapply Wrap; eauto].
    - destruct (proc_create stat_ino walk root Hroot Hsep view p i KDir rest Hn) as (v & E & B);
        [apply Hfresh; now left|]. exists v. split; [step_tac E | eapply Wrap; eauto].
    - cbn [op_ok] in Ho. destruct (lookup before p) as [e|] eqn:El; [|discriminate]. cbn [map app].
      destruct (proc_modified stat_ino walk root view p (e_ino e) (e_kind e) F_MODIFIED rest Hn (or_introl eq_refl)) as (v & E & B).
      exists v. split; [step_tac E | eapply Wrap; eauto; cbn [subject_ino]; now rewrite El].
    - cbn [op_ok] in Ho. destruct (lookup before p) as [e|] eqn:El; [|discriminate]. cbn [map app].
      destruct (proc_modified stat_ino walk root view p (e_ino e) (e_kind e) F_INODE_META rest Hn (or_intror eq_refl)) as (v & E & B).
      exists v. split; [step_tac E | eapply Wrap; eauto; cbn [subject_ino]; now rewrite El].
    - cbn [op_ok] in Ho. destruct (lookup before p) as [e|] eqn:El; [|discriminate]. cbn [map app].
      destruct (proc_removed stat_ino walk root Hroot Hsep view p (e_ino e) (e_kind e) rest Hn) as (v & E & B).
      exists v. split; [step_tac E | eapply Wrap; eauto; cbn [subject_ino]; now rewrite El].
    - cbn [op_ok] in Ho. apply andb_true_iff in Ho as [Ho _]. apply isdir_mem, mem_lookup in Ho as (e & El).
      rewrite El. cbn [map app].
      destruct (proc_removed stat_ino walk root Hroot Hsep view p (e_ino e) (e_kind e) rest Hn) as (v & E & B).
      exists v. split; [step_tac E | eapply Wrap; eauto; cbn [subject_ino]; now rewrite El].
    - apply andb_true_iff in Hn as [Hs Hd].
      cbn [op_ok] in Ho. repeat (apply andb_true_iff in Ho as [Ho ?]). apply mem_lookup in Ho as (e & El).
      rewrite El. cbn [map app].
      destruct (proc_rename stat_ino walk sub root Hroot Hsep Hwalk Hwf view s d (e_ino e) (e_kind e) rest Hs Hd) as (v & E & B).
      exists v. split; [step_tac E | eapply Wrap; eauto; cbn [subject_ino]; now rewrite El].
    - cbn [op_ok] in Ho. apply mem_lookup in Ho as (e & El). rewrite El in *. cbn [map app].
      destruct (proc_moveout stat_ino walk root Hroot Hsep view s (e_ino e) (e_kind e) rest Hn Hst Hnp) as (v & E & B).
      exists v. split; [step_tac E | eapply Wrap; eauto; cbn [subject_ino]; now rewrite El].
    - apply andb_true_iff in Hn as [Hd _].
      destruct (proc_movein stat_ino walk sub root Hroot Hsep Hwalk Hwf view d i k rest Hd Hst Hnp) as (v & E & B).
      exists v. split; [step_tac E | eapply Wrap; eauto].
  Qed.
End Step.

Lemma kernel_nonempty f o : op_ok f o = true -> fsevents_kernel f o <> [].
Proof.
  destruct o as [p i|p i|p|p|p|p|s d|s|d k i content]; cbn [op_ok fsevents_kernel]; intros Ho; try discriminate.
  - destruct (lookup f p); [discriminate | discriminate].
  - destruct (lookup f p); [discriminate | discriminate].
  - destruct (lookup f p); [discriminate | discriminate].
  - apply andb_true_iff in Ho as [Ho _]. apply isdir_mem, mem_lookup in Ho as (e & ->). discriminate.
  - repeat (apply andb_true_iff in Ho as [Ho ?]). apply mem_lookup in Ho as (e & ->). discriminate.
  - apply mem_lookup in Ho as (e & ->). discriminate.
Qed.

Section Batch.
  Variable stat_ino : bytes -> option N.
  Variable walk : bytes -> tree.
  Variable sub : path -> tree.
  Variable recursive : bool.
  Variable root : bytes.
  Hypothesis Hroot : root <> [].
  Hypothesis Hsep : last_is_sep root = false.
  Hypothesis Hwalk : forall p, walk (abspath root p) = sub p.
  Hypothesis Hwf : forall p, wf_tree (sub p) = true.

  (* the notifications of several operations, delivered as ONE batch, uncoalesced *)
  Fixpoint batch_natives (f : fs) (ops : list op) : list fnative :=
    match ops with
    | [] => []
    | o :: r => map (frender root) (fsevents_kernel f o) ++ batch_natives (apply_op f o) r
    end.

  Fixpoint batch_contracts (f : fs) (ops : list op) : list aev :=
    match ops with
    | [] => []
    | o :: r => fse_contract sub f (apply_op f o) o ++ batch_contracts (apply_op f o) r
    end.

  (* The hypotheses under which a multi-operation batch is harmless.  The oracles stat_ino / walk / sub
     are those of the moment the batch is processed, i.e. of the FINAL tree; per operation:
       - it succeeds in the tree of its moment;
       - [stat_ok]: a path that left / entered the tree by a one-sided rename is, at processing time,
         still gone / still there with the same inode (no later operation undid or moved it);
       - [no_partner]: the item of a one-sided rename is not flagged renamed again later in the batch
         (otherwise the look-ahead pairs the two unrelated events: F12c, and with coalescing F12a/b);
       - [covers]: what os.walk lists below the operation's target at processing time is what was
         below it right after the operation (no later operation changed that subtree: F12d);
       - a created item has an inode number never seen before. *)
  Fixpoint batch_ok (seen : list N) (f : fs) (ops : list op) : Prop :=
    match ops with
    | [] => True
    | o :: r =>
      let after := apply_op f o in
      op_names_ok o = true /\ op_ok f o = true /\
      stat_ok stat_ino root f o /\ no_partner f o (batch_natives after r) /\
      (forall i, In i (created_ino o) -> ~ In i seen) /\
      covers sub after o /\
      batch_ok (seen ++ subject_ino f o) after r
    end.

  Theorem batch_contract : forall ops f seen view fuel,
    batch_ok seen f ops -> (forall j, mem j view = true -> In j seen) -> (length ops <= fuel)%nat ->
    exists v, loop stat_ino walk recursive root fuel view (batch_natives f ops)
              = Some (filter (keep recursive root) (map (render root) (batch_contracts f ops)), v, false).
  Proof.
    induction ops as [|o r IH]; intros f seen view fuel H Inv Hf.
    - exists view. destruct fuel; reflexivity.
    - destruct H as (Hn & Ho & Hst & Hnp & Hfresh & _ & Hr). cbn [batch_natives batch_contracts].
      destruct fuel as [|fuel]; [simpl in Hf; lia|].
      destruct (fse_step stat_ino walk sub recursive root Hroot Hsep Hwalk Hwf view f o
                         (batch_natives (apply_op f o) r) Hn Ho Hst Hnp) as (v & E & B).
      { intros i Hi. destruct (mem i view) eqn:Em; [|reflexivity]. exfalso. apply (Hfresh i Hi). now apply Inv. }
      rewrite E.
      destruct (IH (apply_op f o) (seen ++ subject_ino f o) v fuel Hr) as (v2 & E2).
      { intros j Hj. apply in_or_app. destruct (B j Hj) as [Hv|Hs]; [left; now apply Inv | now right]. }
      { simpl in Hf. lia. }
      rewrite E2. exists v2. now rewrite map_app, filter_app.
  Qed.

  Lemma batch_length : forall ops f seen, batch_ok seen f ops -> (length ops <= length (batch_natives f ops))%nat.
  Proof.
    induction ops as [|o r IH]; intros f seen H; [simpl; lia|].
    destruct H as (_ & Ho & _ & _ & _ & _ & Hr). cbn [batch_natives length]. rewrite app_length, map_length.
    pose proof (kernel_nonempty f o Ho). pose proof (IH _ _ Hr).
    destruct (fsevents_kernel f o); [contradiction | simpl; lia].
  Qed.

  Theorem batch_replay : forall ops f seen, closed_fs f -> batch_ok seen f ops ->
    Permutation (replay (view_of f) (batch_contracts f ops)) (view_of (fold_left apply_op ops f)).
  Proof.
    induction ops as [|o r IH]; intros f seen C H; [apply Permutation_refl|].
    destruct H as (Hn & Ho & _ & _ & _ & Hc & Hr). cbn [batch_contracts fold_left]. rewrite replay_app.
    eapply Permutation_trans.
    - apply replay_perm. apply fse_replay_full; eassumption.
    - eapply IH; [now apply closed_apply | exact Hr].
  Qed.
End Batch.

(* one call of queue_events on the whole batch, recursive watch: the contracts, and they replay *)
Theorem fse_batch_recursive : forall stat_ino walk sub root ops seen view f,
  root <> [] -> last_is_sep root = false ->
  (forall p, walk (abspath root p) = sub p) -> (forall p, wf_tree (sub p) = true) ->
  wf_fs f -> batch_ok stat_ino sub root seen f ops -> (forall j, mem j view = true -> In j seen) ->
  exists v, queue_events stat_ino walk true root view (batch_natives root f ops)
            = Some (map (render root) (batch_contracts sub f ops), v, false) /\
            Permutation (replay (view_of f) (batch_contracts sub f ops)) (view_of (fold_left apply_op ops f)).
Proof.
  intros stat_ino walk sub root ops seen view f Hr Hs Hw Hwf W H Inv.
  destruct (batch_contract stat_ino walk sub true root Hr Hs Hw Hwf ops f seen view
              (length (batch_natives root f ops)) H Inv) as (v & E).
  { eapply batch_length; eauto. }
  exists v. split; [unfold queue_events; now rewrite keep_recursive in E|].
  eapply batch_replay; [now apply wf_closed | exact H].
Qed.

(* ---------------------------------------------------------------- coalescing *)
(* no two events of the batch concern the same item at the same path: nothing to coalesce *)
Fixpoint distinct_items (l : list fnative) : Prop :=
  match l with
  | [] => True
  | e :: r => (forall x, In x r -> same_item e x = false) /\ distinct_items r
  end.

Lemma coalesce_into_miss e acc : (forall a, In a acc -> same_item a e = false) -> coalesce_into e acc = acc ++ [e].
Proof.
  induction acc as [|a acc IH]; intros H; [reflexivity|]. cbn [coalesce_into].
  rewrite (H a) by now left. cbn [app]. f_equal. apply IH. intros x Hx. apply H. now right.
Qed.

Lemma coalesce_distinct_go : forall l acc,
  (forall a x, In a acc -> In x l -> same_item a x = false) -> distinct_items l ->
  fold_left (fun acc e => coalesce_into e acc) l acc = acc ++ l.
Proof.
  induction l as [|e l IH]; intros acc H D; [now rewrite app_nil_r|].
  destruct D as [De Dl]. cbn [fold_left].
  rewrite coalesce_into_miss by (intros a Ha; apply H; [exact Ha | now left]).
  rewrite IH; [now rewrite <- app_assoc | | exact Dl].
  intros a x Ha Hx. apply in_app_or in Ha as [Ha|[<-|[]]]; [apply H; [exact Ha | now right] | now apply De].
Qed.

Theorem coalesce_distinct l : distinct_items l -> coalesce_all l = l.
Proof. intros D. unfold coalesce_all. now rewrite coalesce_distinct_go. Qed.

(* a history that can be executed *)
Fixpoint ops_ok (f : fs) (ops : list op) : Prop :=
  match ops with
  | [] => True
  | o :: r => op_names_ok o = true /\ op_ok f o = true /\ ops_ok (apply_op f o) r
  end.

(* ---------------------------------------------------------------- the unrestricted law is false *)
(* the law one would like for batches of several operations, coalesced or not, processed when all
   operations are done (oracles of the final tree) *)
Definition fsevents_batched_full : Prop :=
  forall stat_ino walk sub root ops view f,
  root <> [] -> last_is_sep root = false -> wf_fs f -> ops_ok f ops ->
  let final := fold_left apply_op ops f in
  (forall p, stat_ino (abspath root p) = match lookup final p with Some e => Some (e_ino e) | None => None end) ->
  (forall p, walk (abspath root p) = sub p) -> (forall p, wf_tree (sub p) = true) ->
  (forall p, Permutation (map (fun x => (snd x, fst x)) (desc [] (sub p))) (below final p)) ->
  (forall i, mem i view = true -> ino_used f i = true) ->
  forall natives, natives = batch_natives root f ops \/ natives = coalesce_all (batch_natives root f ops) ->
  exists out v s es, queue_events stat_ino walk true root view natives = Some (out, v, s) /\
    out = map (render root) es /\
    Permutation (replay (view_of f) es) (view_of final).

Lemma beqb_sym a b : beqb a b = beqb b a.
Proof.
  destruct (beqb a b) eqn:E1, (beqb b a) eqn:E2; try reflexivity.
  - apply beqb_eq in E1. subst. rewrite beqb_refl in E2. discriminate.
  - apply beqb_eq in E2. subst. rewrite beqb_refl in E1. discriminate.
Qed.

Local Open Scope N_scope.

(* "/r" + "/" + n1 + "/" + n2 ... compared with "/r/c" *)
Lemma abs_eq_c p : beqb (abspath r_ p) (abspath r_ [nc]) = path_eqb [nc] p.
Proof.
  destruct p as [|n [|m rest]].
  - reflexivity.
  - unfold abspath, relsuffix, r_, nc. cbn [map concat app beqb]. rewrite !N.eqb_refl. cbn [andb].
    rewrite app_nil_r. cbn [path_eqb]. rewrite andb_true_r. apply beqb_sym.
  - unfold abspath, relsuffix, r_, nc. cbn [map concat app beqb path_eqb]. rewrite !N.eqb_refl. cbn [andb].
    rewrite andb_false_r.
    destruct n as [|c [|c' n']]; cbn [app beqb]; [reflexivity | now rewrite andb_false_r | now rewrite andb_false_r].
Qed.

Lemma abs_eq_root p : beqb (abspath r_ p) r_ = match p with [] => true | _ => false end.
Proof. destruct p as [|n rest]; [reflexivity|]. unfold abspath, relsuffix, r_. cbn [map concat app beqb]. now rewrite !N.eqb_refl. Qed.

Theorem fsevents_batched_full_refuted : ~ fsevents_batched_full.
Proof.
  intros H.
  set (f := [Entry [na] KFile 7]).
  set (ops := [ORename [na] [nb]; ORename [nb] [nc]]).
  set (stat := fun b : bytes => if beqb b (abspath r_ [nc]) then Some 7 else None).
  set (sub := fun p : path => match p with [] => Node [] [nc] | _ => Node [] [] end).
  set (walk := fun b : bytes => if beqb b r_ then Node [] [nc] else Node [] []).
  specialize (H stat walk sub r_ ops [] f).
  destruct H with (natives := coalesce_all (batch_natives r_ f ops)) as (out & v & s & es & E & Eo & P).
  - discriminate.
  - reflexivity.
  - split; [repeat constructor; intros []|]. intros e [<-|[]]. split; [discriminate | now left].
  - cbn [ops_ok]. repeat split; reflexivity.
  - intros p. unfold stat. rewrite abs_eq_c.
    change (fold_left apply_op ops f) with [Entry [nc] KFile 7].
    unfold lookup. cbn [find e_path]. destruct (path_eqb [nc] p); reflexivity.
  - intros p. unfold walk, sub. rewrite abs_eq_root. destruct p; reflexivity.
  - intros p. unfold sub. destruct p; reflexivity.
  - intros p. change (fold_left apply_op ops f) with [Entry [nc] KFile 7].
    unfold sub, below. cbn [flat_map e_path e_kind app].
    destruct p as [|n [|m rest]].
    + vm_compute. apply Permutation_refl.
    + cbn [under desc map]. rewrite andb_true_r. cbn [path_eqb]. rewrite andb_true_r.
      rewrite (beqb_sym nc n). destruct (beqb n nc); cbn [negb andb]; constructor.
    + cbn [under desc map]. rewrite andb_false_r. cbn [andb]. constructor.
  - intros i Hi. discriminate.
  - now right.
  - (* the emitter's answer is determined; whatever [es] renders to it replays to two entries *)
    assert (Eq : queue_events stat walk true r_ [] (coalesce_all (batch_natives r_ f ops))
                 = Some ([Moved KFile (abspath r_ [na]) (abspath r_ [nb]) false; Modified KDir r_; Modified KDir r_;
                          Created KFile (abspath r_ [nc]) false; Modified KDir r_], [7], false)) by (vm_compute; reflexivity).
    rewrite Eq in E. injection E as Eout Ev Es. rewrite <- Eout in Eo. clear Eq.
    destruct es as [|e1 [|e2 [|e3 [|e4 [|e5 [|e6 es]]]]]]; try discriminate.
    cbn [map] in Eo. inversion Eo as [[E1 E2 E3 E4 E5]].
    destruct e1; try discriminate. destruct e2; try discriminate. destruct e3; try discriminate.
    destruct e4; try discriminate. destruct e5; try discriminate.
    apply Permutation_length in P. cbn in P. discriminate.
Qed.

(* ---------------------------------------------------------------- one rename-flagged operation per item *)
Lemma find_app_none {A} (g : A -> bool) a b : find g a = None -> find g (a ++ b) = find g b.
Proof. induction a as [|x a IH]; [reflexivity|]. cbn [find app]. destruct (g x); [discriminate | exact IH]. Qed.

Lemma distinct_itemsb_ok l : distinct_itemsb l = true -> distinct_items l.
Proof.
  induction l as [|e r IH]; [intros _; exact I|]. cbn [distinct_itemsb distinct_items].
  intros H. apply andb_true_iff in H as [H1 H2]. split; [|now apply IH].
  intros x Hx. apply negb_true_iff in H1. apply not_true_is_false. intros E.
  assert (existsb (same_item e) r = true) by (apply existsb_exists; now exists x). congruence.
Qed.

Lemma nodupb_cons x r : nodupb (x :: r) = true -> ~ In x r /\ nodupb r = true.
Proof.
  cbn [nodupb]. intros H. apply andb_true_iff in H as [H1 H2]. split; [|exact H2].
  intros Hin. apply negb_true_iff in H1.
  assert (existsb (N.eqb x) r = true) by (apply existsb_exists; exists x; split; [exact Hin | apply N.eqb_refl]). congruence.
Qed.

Lemma nodupb_app a b : nodupb (a ++ b) = true -> nodupb b = true /\ (forall x, In x a -> ~ In x b).
Proof.
  induction a as [|y a IH]; [intros H; split; [exact H | intros x []]|].
  cbn [app]. intros H. apply nodupb_cons in H as [Hn H]. destruct (IH H) as [Hb Hd]. split; [exact Hb|].
  intros x [<-|Hx]; [intros Hin; apply Hn, in_or_app; now right | now apply Hd].
Qed.

(* the events of an operation that is not about item i are no look-ahead partner for i *)
Lemma kernel_no_partner root f o i :
  (forall j, rename_subject f o = Some j -> j <> i) ->
  find (partner i) (map (frender root) (fsevents_kernel f o)) = None.
Proof.
  intros H. unfold partner.
  assert (Hneq : forall j, j <> i -> N.eqb j i = false) by (intros j Hj; now apply N.eqb_neq).
  destruct o as [p i0|p i0|p|p|p|p|s d|s|d k i0 content]; cbn [fsevents_kernel rename_subject] in *.
  - reflexivity.
  - reflexivity.
  - destruct (lookup f p) as [e|]; [|reflexivity]. cbn [map find frender fst snd]. destruct (e_kind e); reflexivity.
  - destruct (lookup f p) as [e|]; [|reflexivity]. cbn [map find frender fst snd]. destruct (e_kind e); reflexivity.
  - destruct (lookup f p) as [e|]; [|reflexivity]. cbn [map find frender fst snd]. destruct (e_kind e); reflexivity.
  - destruct (lookup f p) as [e|]; [|reflexivity]. cbn [map find frender fst snd]. destruct (e_kind e); reflexivity.
  - destruct (lookup f s) as [e|]; [|reflexivity]. cbn [map find frender fst snd f_ino].
    rewrite (Hneq (e_ino e)) by (apply H; reflexivity). now rewrite !andb_false_r.
  - destruct (lookup f s) as [e|]; [|reflexivity]. cbn [map find frender fst snd f_ino].
    rewrite (Hneq (e_ino e)) by (apply H; reflexivity). now rewrite !andb_false_r.
  - cbn [map find frender fst snd f_ino]. rewrite (Hneq i0) by (apply H; reflexivity). now rewrite !andb_false_r.
Qed.

Lemma batch_no_partner root i : forall ops f,
  ~ In i (rename_subjects f ops) -> find (partner i) (batch_natives root f ops) = None.
Proof.
  induction ops as [|o r IH]; intros f H; [reflexivity|]. cbn [batch_natives rename_subjects] in *.
  rewrite find_app_none.
  - apply IH. intros Hin. apply H, in_or_app. now right.
  - apply kernel_no_partner. intros j Ej Eq. subst j. apply H, in_or_app. left. rewrite Ej. now left.
Qed.

Section SemOk.
  Variable stat_ino : bytes -> option N.
  Variable sub : path -> tree.
  Variable root : bytes.

  (* [batch_ok] without its look-ahead clause: what remains are statements about the answers of the
     file system at processing time (F12d lives in their failure) and inode freshness *)
  Fixpoint batch_sem_ok (seen : list N) (f : fs) (ops : list op) : Prop :=
    match ops with
    | [] => True
    | o :: r =>
      let after := apply_op f o in
      op_names_ok o = true /\ op_ok f o = true /\
      stat_ok stat_ino root f o /\
      (forall i, In i (created_ino o) -> ~ In i seen) /\
      covers sub after o /\
      batch_sem_ok (seen ++ subject_ino f o) after r
    end.

  Theorem one_rename_batch_ok : forall ops f seen,
    one_rename_per_item f ops = true -> batch_sem_ok seen f ops -> batch_ok stat_ino sub root seen f ops.
  Proof.
    unfold one_rename_per_item. induction ops as [|o r IH]; intros f seen Hone H; [exact I|].
    destruct H as (Hn & Ho & Hst & Hfresh & Hc & Hr). cbn [rename_subjects] in Hone.
    apply nodupb_app in Hone as [Hrest Hdisj].
    cbn [batch_ok]. repeat split; try assumption; [|now apply IH].
    unfold no_partner.
    destruct o as [p i0|p i0|p|p|p|p|s d|s|d k i0 content]; try exact I; cbn [rename_subject] in Hdisj.
    - destruct (lookup f s) as [e|]; [|exact I]. apply batch_no_partner. apply Hdisj. now left.
    - apply batch_no_partner. apply Hdisj. now left.
  Qed.
End SemOk.

(* C20_fsevents_batched: several operations per batch, coalesced or not *)
Theorem fse_batched_one_rename : forall stat_ino walk sub root ops seen view f natives,
  root <> [] -> last_is_sep root = false ->
  (forall p, walk (abspath root p) = sub p) -> (forall p, wf_tree (sub p) = true) ->
  wf_fs f ->
  one_rename_per_item f ops = true ->
  batch_sem_ok stat_ino sub root seen f ops ->
  (forall j, mem j view = true -> In j seen) ->
  natives = batch_natives root f ops \/
  (distinct_itemsb (batch_natives root f ops) = true /\ natives = coalesce_all (batch_natives root f ops)) ->
  exists v, queue_events stat_ino walk true root view natives
            = Some (map (render root) (batch_contracts sub f ops), v, false) /\
            Permutation (replay (view_of f) (batch_contracts sub f ops)) (view_of (fold_left apply_op ops f)).
Proof.
  intros stat_ino walk sub root ops seen view f natives Hr Hs Hw Hwf W Hone Hsem Inv Hnat.
  assert (natives = batch_natives root f ops) as ->.
  { destruct Hnat as [->|[Hd ->]]; [reflexivity|]. apply coalesce_distinct. now apply distinct_itemsb_ok. }
  eapply fse_batch_recursive; eauto. now apply one_rename_batch_ok.
Qed.

(* ---------------------------------------------------------------- histories of batches *)
(* the inodes seen once a batch has been processed *)
Fixpoint batch_seen (seen : list N) (f : fs) (ops : list op) : list N :=
  match ops with
  | [] => seen
  | o :: r => batch_seen (seen ++ subject_ino f o) (apply_op f o) r
  end.

Section BatchView.
  Variable stat_ino : bytes -> option N.
  Variable walk : bytes -> tree.
  Variable sub : path -> tree.
  Variable recursive : bool.
  Variable root : bytes.
  Hypothesis Hroot : root <> [].
  Hypothesis Hsep : last_is_sep root = false.
  Hypothesis Hwalk : forall p, walk (abspath root p) = sub p.
  Hypothesis Hwf : forall p, wf_tree (sub p) = true.

  (* [batch_contract] with what it leaves in the _fs_view *)
  Theorem batch_contract_view : forall ops f seen view fuel,
    batch_ok stat_ino sub root seen f ops -> (forall j, mem j view = true -> In j seen) -> (length ops <= fuel)%nat ->
    exists v, loop stat_ino walk recursive root fuel view (batch_natives root f ops)
              = Some (filter (keep recursive root) (map (render root) (batch_contracts sub f ops)), v, false) /\
              (forall j, mem j v = true -> In j (batch_seen seen f ops)).
  Proof.
    induction ops as [|o r IH]; intros f seen view fuel H Inv Hf.
    - exists view. split; [destruct fuel; reflexivity | exact Inv].
    - destruct H as (Hn & Ho & Hst & Hnp & Hfresh & _ & Hr). cbn [batch_natives batch_contracts batch_seen].
      destruct fuel as [|fuel]; [simpl in Hf; lia|].
      destruct (fse_step stat_ino walk sub recursive root Hroot Hsep Hwalk Hwf view f o
                         (batch_natives root (apply_op f o) r) Hn Ho Hst Hnp) as (v & E & B).
      { intros i Hi. destruct (mem i view) eqn:Em; [|reflexivity]. exfalso. apply (Hfresh i Hi). now apply Inv. }
      rewrite E.
      destruct (IH (apply_op f o) (seen ++ subject_ino f o) v fuel Hr) as (v2 & E2 & B2).
      { intros j Hj. apply in_or_app. destruct (B j Hj) as [Hv|Hs]; [left; now apply Inv | now right]. }
      { simpl in Hf. lia. }
      rewrite E2. exists v2. split; [now rewrite map_app, filter_app | exact B2].
  Qed.
End BatchView.

Lemma batch_closed stat_ino sub root : forall ops f seen, closed_fs f -> batch_ok stat_ino sub root seen f ops ->
  closed_fs (fold_left apply_op ops f).
Proof.
  induction ops as [|o r IH]; intros f seen C H; [exact C|].
  destruct H as (Hn & Ho & _ & _ & _ & _ & Hr). cbn [fold_left]. eapply IH; [now apply closed_apply | exact Hr].
Qed.

(* what the file system answers while one batch is processed *)
Record boracle := BOracle { b_stat : bytes -> option N; b_walk : bytes -> tree; b_sub : path -> tree }.

Section Batches.
  Variable root : bytes.
  Hypothesis Hroot : root <> [].
  Hypothesis Hsep : last_is_sep root = false.

  (* one batch: its oracles, its operations, whether FSEvents coalesced it *)
  Definition batch := (boracle * list op * bool)%type.

  Definition batch_in (f : fs) (b : batch) : list fnative :=
    let nat := batch_natives root f (snd (fst b)) in if snd b then coalesce_all nat else nat.

  (* the emitter (recursive watch), one call of queue_events per batch, _fs_view carried along *)
  Fixpoint batches_run (bs : list batch) (view : list N) (f : fs) : option (list ev * list N) :=
    match bs with
    | [] => Some ([], view)
    | b :: r =>
      match queue_events (b_stat (fst (fst b))) (b_walk (fst (fst b))) true root view (batch_in f b) with
      | Some (out, v, _) =>
        match batches_run r v (fold_left apply_op (snd (fst b)) f) with
        | Some (out2, v2) => Some (out ++ out2, v2)
        | None => None
        end
      | None => None
      end
    end.

  Fixpoint batches_contracts (bs : list batch) (f : fs) : list aev :=
    match bs with
    | [] => []
    | b :: r => batch_contracts (b_sub (fst (fst b))) f (snd (fst b))
                ++ batches_contracts r (fold_left apply_op (snd (fst b)) f)
    end.

  Fixpoint batches_final (bs : list batch) (f : fs) : fs :=
    match bs with
    | [] => f
    | b :: r => batches_final r (fold_left apply_op (snd (fst b)) f)
    end.

  (* per batch: os.walk tells the truth; no item is the subject of two rename-flagged operations in the
     batch (executable; excludes F12a-c); the semantic clauses of [batch_sem_ok] about os.stat / os.walk
     at processing time and inode freshness (their failure is F12d); a coalesced batch has no two
     events for the same item at the same path (executable; excludes the hoisting of F12e) *)
  Fixpoint batches_ok (bs : list batch) (seen : list N) (f : fs) : Prop :=
    match bs with
    | [] => True
    | b :: r =>
      let oc := fst (fst b) in let ops := snd (fst b) in
      (forall p, b_walk oc (abspath root p) = b_sub oc p) /\ (forall p, wf_tree (b_sub oc p) = true) /\
      one_rename_per_item f ops = true /\
      batch_sem_ok (b_stat oc) (b_sub oc) root seen f ops /\
      (snd b = true -> distinct_itemsb (batch_natives root f ops) = true) /\
      batches_ok r (batch_seen seen f ops) (fold_left apply_op ops f)
    end.

  Theorem fse_batches : forall bs seen view f,
    closed_fs f -> batches_ok bs seen f -> (forall j, mem j view = true -> In j seen) ->
    exists v, batches_run bs view f = Some (map (render root) (batches_contracts bs f), v) /\
              Permutation (replay (view_of f) (batches_contracts bs f)) (view_of (batches_final bs f)).
  Proof.
    induction bs as [|[[oc ops] co] r IH]; intros seen view f C H Inv.
    - exists view. split; [reflexivity | apply Permutation_refl].
    - cbn [batches_ok fst snd] in H. destruct H as (Hw & Hwf & Hone & Hsem & Hco & Hr).
      pose proof (one_rename_batch_ok (b_stat oc) (b_sub oc) root ops f seen Hone Hsem) as Hok.
      assert (Hin : batch_in f (oc, ops, co) = batch_natives root f ops).
      { unfold batch_in. cbn [fst snd]. destruct co; [|reflexivity].
        apply coalesce_distinct, distinct_itemsb_ok, Hco. reflexivity. }
      destruct (batch_contract_view (b_stat oc) (b_walk oc) (b_sub oc) true root Hroot Hsep Hw Hwf ops f seen view
                  (length (batch_natives root f ops)) Hok Inv) as (v & E & B).
      { eapply batch_length; eauto. }
      rewrite keep_recursive in E.
      destruct (IH (batch_seen seen f ops) v (fold_left apply_op ops f)) as (v2 & E2 & P2);
        [eapply batch_closed; eauto | exact Hr | exact B |].
      exists v2. cbn [batches_run batches_contracts batches_final fst snd]. rewrite Hin.
      unfold queue_events. rewrite E, E2. split; [now rewrite map_app|].
      rewrite replay_app. eapply Permutation_trans; [|exact P2].
      apply replay_perm. eapply batch_replay; eauto.
  Qed.
End Batches.

Theorem fse_batches_wf : forall root bs seen view f,
  root <> [] -> last_is_sep root = false -> wf_fs f ->
  batches_ok root bs seen f -> (forall j, mem j view = true -> In j seen) ->
  exists v, batches_run root bs view f = Some (map (render root) (batches_contracts bs f), v) /\
            Permutation (replay (view_of f) (batches_contracts bs f)) (view_of (batches_final bs f)).
Proof. intros root bs seen view f Hr Hs W. apply fse_batches; try assumption. now apply wf_closed. Qed.
