(* C11, the lag bisimulation for drained histories (repaired reader, F10).
   Each world - the unfiltered watch and the watch with an event filter - is compared with its own NORMAL FORM at every
   drained point: the candidate settled, the kernel queue emptied.  Normal forms of the two worlds are twins. *)
Require Import WD.Base.Prelude WD.Base.BStr WD.Model.SubEvents WD.Model.Emitter WD.Model.MaskTable
               WD.Model.Fs WD.Model.Reader WD.Model.DelayQueue WD.Model.Grouping WD.Model.Pipeline WD.Model.Contract.
Require Import WD.Gen.MaskTableGen WD.Proofs.MaskTableProofs WD.Proofs.C11Proofs WD.Proofs.ReaderFixProofs WD.Proofs.ContractProofs
               WD.Proofs.C11KernelProofs WD.Proofs.C11ReaderProofs WD.Proofs.C11TwinProofs WD.Proofs.C11GroupProofs
               WD.Proofs.C11SeqProofs WD.Proofs.C11InertProofs WD.Proofs.C11KInvProofs WD.Proofs.C11KExtProofs
               WD.Proofs.C11KShapeProofs WD.Proofs.C11KQueueProofs.
Local Open Scope N_scope.
Local Notation delivered := MaskTable.delivered.

(* ------------------------------------------------------------------ kernel: the junk the reader leaves behind *)
Definition wds (k : kst) : list N := map kw_wd (k_watches k).

(* after a read: only IN_IGNORED records of descriptors that are no longer watched, pairwise different, below the counter *)
Definition jk (k : kst) : Prop :=
  kwf k /\ junkq (wds k) (k_queue k) /\ (forall x, In x (k_queue k) -> k_wd x < k_next_wd k /\ k_cookie x = 0).

Lemma krm_watches_eq k wd : k_watches (krm_watch k wd) = filter (fun x => negb (N.eqb (kw_wd x) wd)) (k_watches k).
Proof.
  unfold krm_watch. destruct (find (fun w => N.eqb (kw_wd w) wd) (k_watches k)) eqn:E; [reflexivity|].
  symmetry. apply filter_all. intros x Hx. pose proof (find_none _ _ E x Hx) as H. cbn beta in H. now rewrite H.
Qed.

Lemma jk_add k t p m k' wd : jk k -> kadd_watch k t p m = Some (k', wd) -> jk k'.
Proof.
  intros [Hw [[J1 J2] J3]] E. pose proof (kwf_add _ _ _ _ _ _ Hw E) as Hw'. split; [exact Hw'|].
  pose proof (kadd_watch_queue _ _ _ _ _ _ E) as Q. rewrite Q.
  assert (Hsub : forall x, In x (wds k') -> In x (wds k) \/ x = k_next_wd k).
  { revert E. unfold kadd_watch. destruct (flookup p t) as [e|]; [|discriminate].
    destruct (watch_of_ino k (f_ino e)) as [w0|]; intros X; inversion X; subst; unfold wds; cbn [k_watches]; intros x Hx.
    - left. rewrite map_map in Hx. erewrite map_ext in Hx; [exact Hx|]. intros y. destruct (N.eqb (kw_wd y) (kw_wd w0)); reflexivity.
    - rewrite map_app in Hx. apply in_app_or in Hx as [Hx|[<-|[]]]; [now left | now right]. }
  assert (Hnw : (k_next_wd k <= k_next_wd k')%N).
  { revert E. unfold kadd_watch. destruct (flookup p t) as [e|]; [|discriminate].
    destruct (watch_of_ino k (f_ino e)); intros X; inversion X; subst; cbn [k_next_wd]; lia. }
  split.
  - split; [exact J1|]. intros x Hx. destruct (J2 x Hx) as [A B]. split; [exact A|].
    intros Hin. destruct (Hsub _ Hin) as [H|H]; [exact (B H)|]. destruct (J3 x Hx) as [C _]. lia.
  - intros x Hx. destruct (J3 x Hx) as [A B]. split; [lia | exact B].
Qed.

Lemma jk_rm k wd : jk k -> jk (krm_watch k wd).
Proof.
  intros HJ. destruct (find (fun w => N.eqb (kw_wd w) wd) (k_watches k)) as [w|] eqn:E.
  2:{ assert (X : krm_watch k wd = k) by (unfold krm_watch; now rewrite E). now rewrite X. }
  destruct HJ as [Hw [[J1 J2] J3]]. split; [apply kwf_rm; exact Hw|].
  assert (Hsub : forall x, In x (wds (krm_watch k wd)) -> In x (wds k) /\ x <> wd).
  { intros x Hx. unfold wds in Hx. rewrite krm_watches_eq in Hx. apply in_map_iff in Hx as [w0 [<- Hw0]].
    apply filter_In in Hw0 as [Hw0 Hne]. split; [now apply in_map|]. apply negb_true_iff, N.eqb_neq in Hne. exact Hne. }
  assert (Q : k_queue (krm_watch k wd) = kpush (k_queue k) {| k_wd := wd; k_mask := IN_IGNORED; k_cookie := 0; k_name := [] |})
    by (unfold krm_watch; now rewrite E).
  assert (NW : k_next_wd (krm_watch k wd) = k_next_wd k) by (unfold krm_watch; now rewrite E).
  rewrite Q, NW. apply find_some in E as [Ein Ewd]. apply N.eqb_eq in Ewd.
  set (e := {| k_wd := wd; k_mask := IN_IGNORED; k_cookie := 0; k_name := [] |}).
  assert (Hfresh : forall x, In x (k_queue k) -> kraw_eqb x e = false).
  { intros x Hx. destruct (kraw_eqb x e) eqn:El; [|reflexivity]. apply kraw_eqb_key in El. unfold kkey in El. cbn [e k_wd] in El.
    destruct (J2 x Hx) as [_ B]. exfalso. apply B. replace (k_wd x) with wd by congruence. rewrite <- Ewd. unfold wds. now apply in_map. }
  rewrite (kpush_fresh _ _ Hfresh). split.
  - split.
    + rewrite map_app. cbn [map]. apply NoDup_snoc; [exact J1|]. intros Hin. apply in_map_iff in Hin as [x [Hx Hxi]].
      assert (X : kraw_eqb x e = true) by (apply kraw_eqb_key; exact Hx). rewrite (Hfresh x Hxi) in X. discriminate.
    + intros x Hx. apply in_app_or in Hx as [Hx|[<-|[]]].
      * destruct (J2 x Hx) as [A B]. split; [exact A|]. intros Hin. apply Hsub in Hin as [Hin _]. exact (B Hin).
      * split; [reflexivity|]. cbn [e k_wd]. intros Hin. apply Hsub in Hin as [_ Hne]. now apply Hne.
  - intros x Hx. apply in_app_or in Hx as [Hx|[<-|[]]]; [exact (J3 x Hx)|]. cbn [e k_wd k_cookie]. split; [|reflexivity].
    destruct Hw as [_ [_ Hb]]. rewrite <- Ewd. apply Hb. exact Ein.
Qed.

Lemma jk_read_batch C t b r k acc r' k' out : jk k -> read_batch C t (r, k, acc) b = Done (r', k', out) -> jk k'.
Proof. apply (cl_read_batch C jk (fun k t p => jk_add k t p (c_mask C)) jk_rm). Qed.

Lemma jk_drained k : kwf k -> jk (kdrained k).
Proof.
  intros H. split; [exact H|]. split; [split; [constructor | intros x []] | intros x []].
Qed.

(* counters and masks are untouched / uniform *)
Definition allmask (M : N) (k : kst) : Prop := forall w, In w (k_watches k) -> kw_mask w = M.

Lemma allmask_rm M k wd : allmask M k -> allmask M (krm_watch k wd).
Proof. intros H w Hw. rewrite krm_watches_eq in Hw. apply filter_In in Hw as [Hw _]. now apply H. Qed.

Lemma allmask_add M k t p k' wd : allmask M k -> kadd_watch k t p M = Some (k', wd) -> allmask M k'.
Proof.
  intros H. unfold kadd_watch. destruct (flookup p t) as [e|]; [|discriminate].
  destruct (watch_of_ino k (f_ino e)) as [w0|]; intros X; inversion X; subst; intros w Hw; cbn [k_watches] in Hw.
  - apply in_map_iff in Hw as [x [<- Hx]]. destruct (N.eqb (kw_wd x) (kw_wd w0)); [reflexivity | now apply H].
  - apply in_app_or in Hw as [Hw|[<-|[]]]; [now apply H | reflexivity].
Qed.

Lemma cookie_rm k wd : k_next_cookie (krm_watch k wd) = k_next_cookie k.
Proof. unfold krm_watch. destruct (find _ _); reflexivity. Qed.

Lemma cookie_add k t p m k' wd : kadd_watch k t p m = Some (k', wd) -> k_next_cookie k' = k_next_cookie k.
Proof.
  unfold kadd_watch. destruct (flookup p t) as [e|]; [|discriminate].
  destruct (watch_of_ino k (f_ino e)); intros X; inversion X; reflexivity.
Qed.

(* ------------------------------------------------------------------ what settling does to the kernel's watches *)
Lemma krm_counters k wd : k_next_wd (krm_watch k wd) = k_next_wd k /\ k_next_cookie (krm_watch k wd) = k_next_cookie k.
Proof. unfold krm_watch. destruct (find _ _); split; reflexivity. Qed.

(* the descriptors whose watches _forget_tree removes depend on the reader's tables only *)
Lemma forget_tree_watches keys p : forall r, exists R, forall k,
  k_watches (snd (forget_tree keys p r k)) = filter (fun w => negb (memN (kw_wd w) R)) (k_watches k) /\
  k_next_wd (snd (forget_tree keys p r k)) = k_next_wd k /\
  k_next_cookie (snd (forget_tree keys p r k)) = k_next_cookie k.
Proof.
  induction keys as [|[q x] keys IH]; intros r; cbn [forget_tree].
  - exists []. intros k. split; [symmetry; apply filter_all; reflexivity | split; reflexivity].
  - destruct (beqb q p || starts (p ++ [sep]) q); [|apply IH].
    destruct (alookup beqb q (wfp r)) as [wd|]; [|apply IH].
    destruct (alookup N.eqb wd (pfw r)) as [q'|]; [|apply IH].
    destruct (beqb q' q); [|apply IH].
    destruct (IH {| wfp := aremove beqb q (wfp r); pfw := aremove N.eqb wd (pfw r); mvf := mvf r; calls := calls r;
                    pend := pend r |}) as [R HR].
    exists (wd :: R). intros k. destruct (HR (krm_watch k wd)) as [A [B D]]. destruct (krm_counters k wd) as [B' D'].
    split; [|split; [rewrite <- B'; exact B | rewrite <- D'; exact D]].
    transitivity (filter (fun w => negb (memN (kw_wd w) R)) (k_watches (krm_watch k wd))); [exact A|]. rewrite krm_watches_eq.
    clear. induction (k_watches k) as [|w l IHl]; [reflexivity|]. cbn [filter memN].
    destruct (N.eqb (kw_wd w) wd) eqn:E; cbn [negb filter].
    + exact IHl.
    + cbn [orb]. destruct (negb (memN (kw_wd w) R)); now rewrite IHl.
Qed.

Lemma memN_out x l : memN x l = true -> In x l.
Proof.
  induction l as [|y l IH]; simpl; [discriminate|]. intros H. apply orb_true_iff in H as [H|H];
    [left; symmetry; now apply N.eqb_eq | right; auto].
Qed.

Lemma memN_in x l : In x l -> memN x l = true.
Proof.
  induction l as [|y l IH]; simpl; [tauto|]. intros [->|H]; [now rewrite N.eqb_refl | rewrite (IH H); apply orb_true_r].
Qed.

Section Norm.
  Variable C : cfg.
  Let M := c_mask C.

  (* the normal form of a drained state *)
  Definition nform (r : rstate) (k : kst) : rstate * kst :=
    (fst (settle_now C r k), kdrained (snd (settle_now C r k))).

  Lemma settle_now_watches r : exists R, forall k,
    k_watches (snd (settle_now C r k)) = filter (fun w => negb (memN (kw_wd w) R)) (k_watches k) /\
    k_next_wd (snd (settle_now C r k)) = k_next_wd k /\ k_next_cookie (snd (settle_now C r k)) = k_next_cookie k.
  Proof.
    unfold settle_now. destruct (c_fix_moveout C).
    2:{ exists []. intros k. split; [symmetry; apply filter_all; reflexivity | split; reflexivity]. }
    destruct (pend r) as [[c p]|].
    - apply forget_tree_watches.
    - exists []. intros k. split; [symmetry; apply filter_all; reflexivity | split; reflexivity].
  Qed.

  (* removing the watches of a fixed set of descriptors = keeping the descriptors that survive *)
  Lemma filter_R_inW (R : list N) (l l' : list kwatch) :
    (forall w, In w l' -> In w l) ->
    filter (fun w => negb (memN (kw_wd w) R)) l'
    = filter (fun w => memN (kw_wd w) (map kw_wd (filter (fun w => negb (memN (kw_wd w) R)) l))) l'.
  Proof.
    intros Hsub. apply filter_ext_in'. intros w Hw.
    destruct (negb (memN (kw_wd w) R)) eqn:E.
    - symmetry. apply memN_in. apply in_map. apply filter_In. split; [apply Hsub; exact Hw | exact E].
    - symmetry. destruct (memN (kw_wd w) (map kw_wd (filter (fun w0 => negb (memN (kw_wd w0) R)) l))) eqn:E2; [|reflexivity].
      apply memN_out in E2. apply in_map_iff in E2 as [w' [Hwd Hw']]. apply filter_In in Hw' as [_ Hw'].
      rewrite Hwd in Hw'. congruence.
  Qed.
End Norm.

(* ------------------------------------------------------------------ small facts about kernel_op *)
Lemma knotify_cookie_bound k ino bit isdir c name :
  (forall x, In x (k_queue k) -> k_cookie x < k_next_cookie k) -> c < k_next_cookie k ->
  forall x, In x (k_queue (knotify k ino bit isdir c name)) -> k_cookie x < k_next_cookie (knotify k ino bit isdir c name).
Proof.
  intros H Hc x. rewrite (proj2 (knotify_counters k ino bit isdir c name)). unfold knotify.
  destruct (watch_of_ino k ino); [|apply H]. destruct (N.eqb _ 0); [apply H|]. cbn [k_queue].
  intros Hx. apply kpush_in in Hx as [Hx| ->]; [now apply H | exact Hc].
Qed.

Lemma kgone_cookie_bound k ino af :
  (forall x, In x (k_queue k) -> k_cookie x < k_next_cookie k) -> 0 < k_next_cookie k ->
  forall x, In x (k_queue (kgone k ino af)) -> k_cookie x < k_next_cookie (kgone k ino af).
Proof.
  intros H H0 x. rewrite (proj2 (kgone_counters k ino af)). unfold kgone.
  destruct (watch_of_ino k ino); [|apply H]. cbn [k_queue]. intros Hx. apply kpush_in in Hx as [Hx| ->]; [|exact H0].
  set (k1 := if af then knotify k ino IN_ATTRIB true 0 [] else k) in *.
  assert (H1 : forall y, In y (k_queue k1) -> k_cookie y < k_next_cookie k).
  { subst k1. destruct af; [|exact H]. intros y Hy.
    rewrite <- (proj2 (knotify_counters k ino IN_ATTRIB true 0 [])). eapply knotify_cookie_bound; eassumption. }
  assert (C1 : k_next_cookie k1 = k_next_cookie k) by (subst k1; destruct af; [apply knotify_counters | reflexivity]).
  rewrite <- C1. rewrite <- (proj2 (knotify_counters k1 ino IN_DELETE_SELF false 0 [])).
  eapply knotify_cookie_bound; [rewrite C1; exact H1 | rewrite C1; exact H0 | exact Hx].
Qed.

Lemma kernel_op_cookie_bound k t o :
  (forall x, In x (k_queue k) -> k_cookie x < k_next_cookie k) -> 0 < k_next_cookie k ->
  (forall x, In x (k_queue (kernel_op k t o)) -> k_cookie x < k_next_cookie (kernel_op k t o)) /\
  k_next_cookie k <= k_next_cookie (kernel_op k t o).
Proof.
  intros H H0.
  assert (K1 : forall a ino bit isdir name, (forall x, In x (k_queue a) -> k_cookie x < k_next_cookie a) -> 0 < k_next_cookie a ->
               (forall x, In x (k_queue (knotify a ino bit isdir 0 name)) -> k_cookie x < k_next_cookie (knotify a ino bit isdir 0 name)) /\
               0 < k_next_cookie (knotify a ino bit isdir 0 name) /\
               k_next_cookie (knotify a ino bit isdir 0 name) = k_next_cookie a).
  { intros a ino bit isdir name Ha Ha0. split; [apply knotify_cookie_bound; assumption|].
    rewrite (proj2 (knotify_counters a ino bit isdir 0 name)). split; [exact Ha0 | reflexivity]. }
  destruct o as [p|p|p|p|p|p|p q]; cbn [kernel_op].
  - destruct (K1 k (ino_of t (dirname p)) IN_CREATE false (basename p) H H0) as [A [A0 A1]].
    destruct (K1 _ (ino_of t (dirname p)) IN_OPEN false (basename p) A A0) as [B [B0 B1]].
    destruct (K1 _ (ino_of t (dirname p)) IN_CLOSE_WRITE false (basename p) B B0) as [D [D0 D1]]. split; [exact D | lia].
  - destruct (K1 k (ino_of t (dirname p)) IN_OPEN false (basename p) H H0) as [A [A0 A1]].
    destruct (K1 _ (ino_of t (dirname p)) IN_MODIFY false (basename p) A A0) as [B [B0 B1]].
    destruct (K1 _ (ino_of t (dirname p)) IN_CLOSE_WRITE false (basename p) B B0) as [D [D0 D1]]. split; [exact D | lia].
  - destruct (K1 k (ino_of t (dirname p)) IN_ATTRIB (fisdir p t) (basename p) H H0) as [A [A0 A1]].
    destruct (fisdir p t); [|split; [exact A | lia]].
    destruct (K1 _ (ino_of t p) IN_ATTRIB true [] A A0) as [B [B0 B1]]. split; [exact B | lia].
  - destruct (K1 k (ino_of t (dirname p)) IN_DELETE false (basename p) H H0) as [A [A0 A1]]. split; [exact A | lia].
  - destruct (K1 k (ino_of t (dirname p)) IN_CREATE true (basename p) H H0) as [A [A0 A1]]. split; [exact A | lia].
  - pose proof (kgone_cookie_bound k (ino_of t p) false H H0) as G.
    pose proof (proj2 (kgone_counters k (ino_of t p) false)) as GC.
    destruct (K1 _ (ino_of t (dirname p)) IN_DELETE true (basename p) G ltac:(rewrite GC; exact H0)) as [A [A0 A1]].
    split; [exact A | lia].
  - set (k0 := {| k_watches := k_watches k; k_next_wd := k_next_wd k; k_queue := k_queue k;
                  k_next_cookie := k_next_cookie k + 1 |}).
    assert (Hk0 : forall x, In x (k_queue k0) -> k_cookie x < k_next_cookie k0).
    { intros x Hx. specialize (H x Hx). cbn [k0 k_next_cookie]. lia. }
    assert (Hc : k_next_cookie k < k_next_cookie k0) by (cbn [k0 k_next_cookie]; lia).
    pose proof (knotify_cookie_bound k0 (ino_of t (dirname p)) IN_MOVED_FROM (fisdir p t) (k_next_cookie k) (basename p) Hk0 Hc) as A.
    pose proof (proj2 (knotify_counters k0 (ino_of t (dirname p)) IN_MOVED_FROM (fisdir p t) (k_next_cookie k) (basename p))) as A1.
    set (k1 := knotify k0 (ino_of t (dirname p)) IN_MOVED_FROM (fisdir p t) (k_next_cookie k) (basename p)) in *.
    pose proof (knotify_cookie_bound k1 (ino_of t (dirname q)) IN_MOVED_TO (fisdir p t) (k_next_cookie k) (basename q) A
                  ltac:(rewrite A1; exact Hc)) as B.
    pose proof (proj2 (knotify_counters k1 (ino_of t (dirname q)) IN_MOVED_TO (fisdir p t) (k_next_cookie k) (basename q))) as B1.
    set (k2 := knotify k1 (ino_of t (dirname q)) IN_MOVED_TO (fisdir p t) (k_next_cookie k) (basename q)) in *.
    assert (E2 : k_next_cookie k2 = k_next_cookie k + 1) by (rewrite B1, A1; reflexivity).
    destruct (fisdir q t).
    + split; [apply kgone_cookie_bound; [exact B | lia]|]. rewrite (proj2 (kgone_counters k2 (ino_of t q) true)). lia.
    + split; [exact B | lia].
Qed.

Lemma kernel_op_next_wd k t o : k_next_wd (kernel_op k t o) = k_next_wd k.
Proof.
  destruct o; cbn [kernel_op];
    repeat first [ rewrite (proj1 (knotify_counters _ _ _ _ _ _)) | rewrite (proj1 (kgone_counters _ _ _)) ]; try reflexivity.
  - destruct (fisdir p t); repeat rewrite (proj1 (knotify_counters _ _ _ _ _ _)); reflexivity.
  - destruct (fisdir q t); repeat first [ rewrite (proj1 (kgone_counters _ _ _)) | rewrite (proj1 (knotify_counters _ _ _ _ _ _)) ]; reflexivity.
Qed.

Lemma kgone_watches_sub k ino af w : In w (k_watches (kgone k ino af)) -> In w (k_watches k).
Proof.
  unfold kgone. destruct (watch_of_ino k ino); [|tauto]. cbn [k_watches]. intros H. apply filter_In in H as [H _].
  rewrite knotify_watches in H. destruct af; [rewrite knotify_watches in H|]; exact H.
Qed.

Lemma kernel_op_watches_sub k t o w : In w (k_watches (kernel_op k t o)) -> In w (k_watches k).
Proof.
  destruct o; cbn [kernel_op]; rewrite ?knotify_watches; try tauto.
  - destruct (fisdir p t); rewrite ?knotify_watches; tauto.
  - intros H. apply kgone_watches_sub in H. exact H.
  - destruct (fisdir q t); [intros H; apply kgone_watches_sub in H; rewrite !knotify_watches in H; exact H|].
    rewrite !knotify_watches. tauto.
Qed.

Lemma allmask_kernel_op M k t o : allmask M k -> allmask M (kernel_op k t o).
Proof. intros H w Hw. apply H. eapply kernel_op_watches_sub. exact Hw. Qed.

(* ------------------------------------------------------------------ where a remembered candidate comes from *)
Section PendSrc.
  Variable C : cfg.

  Lemma settle_pend_src r k e : pend (fst (settle_pending C r k e)) = None \/ pend (fst (settle_pending C r k e)) = pend r.
  Proof.
    unfold settle_pending. destruct (c_fix_moveout C); [|now right]. destruct (pend r) as [[c p]|] eqn:E; [|left; cbn [fst]; exact E].
    left. destruct (is_moved_to (k_mask e) && N.eqb (k_cookie e) c && amem N.eqb (k_wd e) (pfw r)); [reflexivity|].
    rewrite forget_tree_pend. reflexivity.
  Qed.

  Lemma read_batch_pend_src t b : forall r k acc r' k' out,
    read_batch C t (r, k, acc) b = Done (r', k', out) ->
    pend r' = None \/ pend r' = pend r \/ exists e p, In e b /\ pend r' = Some (k_cookie e, p).
  Proof.
    induction b as [|e b IH]; intros r k acc r' k' out H; cbn [read_batch] in H.
    - inversion H; subst. right. now left.
    - destruct (read_one C t (r, k, acc) e) as [[[r1 k1] a1]|] eqn:E1; [|discriminate].
      rewrite read_one_settle in E1.
      assert (S1 : pend r1 = None \/ pend r1 = pend r \/ exists p, pend r1 = Some (k_cookie e, p)).
      { destruct (read_one_body_pend_cookie C _ _ _ _ _ _ _ _ E1) as [E|[p E]]; [|right; right; exists p; exact E].
        rewrite E. destruct (settle_pend_src r k e) as [X|X]; [now left | right; now left]. }
      destruct (IH _ _ _ _ _ _ H) as [X|[X|[e' [p [He' X]]]]].
      + now left.
      + rewrite X. destruct S1 as [Y|[Y|[p Y]]]; [now left | right; now left|].
        right. right. exists e, p. split; [now left | exact Y].
      + right. right. exists e', p. split; [now right | exact X].
  Qed.
End PendSrc.
