(* wire: (delay (batch ...) (sched ...))
     batch = ((id kind) ...)   kind = (from c) | (to c) | other | (ign 0|1) | (dself 0|1)
     sched = r      reader advances through its local steps up to and including its next queue call
           | rend   reader runs the local steps that remain before its next queue call / next read
           | (q <delayqueue label>)
   -> (ok (delivered (item t)...) (queued item...) (pending item...) nread deleted_self) | (stuck k what) *)
open Sexp
open Conv
open DelayQueue
open Grouping

let kind_of = function
  | L [A "from"; c] -> KFrom (n_of c) | L [A "to"; c] -> KTo (n_of c) | A "other" -> KOther
  | L [A "ign"; b] -> KIgnored (bool_of b) | L [A "dself"; b] -> KDeleteSelf (bool_of b)
  | _ -> failwith "kind"
let nev_of = function L [id; k] -> { n_id = n_of id; n_kind = kind_of k } | _ -> failwith "nev"
let sx_item = function
  | ISingle e -> L [A "s"; sx_n e.n_id]
  | IPair (f, t) -> L [A "p"; sx_n f.n_id; sx_n t.n_id]

(* does the reader's next local step call into the queue? *)
let next_calls_queue (r : rst) =
  match r.batch, r.grouped with
  | e :: _, _ ->
    (match e.n_kind with
     | KTo c -> (match pair_in_grouped c e r.grouped with None -> true | Some _ -> false)
     | _ -> false)
  | [], it :: _ -> (match it with ISingle e -> not (is_ignored e) | IPair _ -> true)
  | [], [] -> false

let run = function
  | L [delay; L batches; L sched] ->
    let delay = n_of delay in
    let batches = ref (Stdlib.List.map (fun b -> list_of nev_of b) batches) in
    let nreads = ref 0 in
    (* one local reader step; returns None when the reader has nothing to do (needs a batch that is not there / stopped) *)
    let local_step (s : st * rst) : ((st * rst) * bool) option =
      let (_, r) = s in
      match r.batch, r.grouped with
      | [], [] ->
        if r.deleted_self then None else
        (match !batches with
         | [] -> None
         | b :: rest ->
           (match gstep delay s (RRead b) with
            | Some s' -> batches := rest; incr nreads; Some (s', false)
            | None -> None))
      | _ :: _, _ ->
        let c = next_calls_queue r in
        (match gstep delay s RGroup with Some s' -> Some (s', c) | None -> failwith "RGroup disabled")
      | [], _ :: _ ->
        let c = next_calls_queue r in
        (match gstep delay s RPut with Some s' -> Some (s', c) | None -> failwith "RPut disabled") in
    let rec advance s =   (* up to and including the next queue call *)
      match local_step s with
      | None -> None
      | Some (s', true) -> Some s'
      | Some (s', false) -> advance s' in
    let rec finish s =    (* local steps only, stop before a queue call or a read *)
      let (_, r) = s in
      if (r.batch = [] && r.grouped = []) || next_calls_queue r then s
      else match local_step s with Some (s', _) -> finish s' | None -> s in
    let rec go s k = function
      | [] -> Some s, k, ""
      | A "r" :: rest -> (match advance s with Some s' -> go s' (k + 1) rest | None -> None, k, "reader_has_no_queue_call")
      | A "rend" :: rest -> go (finish s) (k + 1) rest
      | L [A "q"; l] :: rest ->
        (match gstep delay s (Q (M_delayqueue.label_of l)) with
         | Some s' -> go s' (k + 1) rest
         | None -> None, k, "consumer_step_disabled")
      | _ -> failwith "sched" in
    (match go ginit 0 sched with
     | Some s, _, _ ->
       let (d, r) = s in
       let times = Stdlib.List.map snd d.got in
       let dl = delivered s in
       L [A "ok";
          L (Stdlib.List.map2 (fun it t -> L [sx_item it; sx_n t]) dl times);
          L (Stdlib.List.map sx_item (queued s));
          L (Stdlib.List.map sx_item r.grouped);
          sx_int !nreads; sx_bool r.deleted_self;
          M_delayqueue.pc_tag d.pc]
     | None, k, what -> L [A "stuck"; sx_int k; A what])
  | _ -> failwith "grouping: bad case"
