(* C20_fsevents_replay_full and the history theorems of the FSEvents emitter (one operation per
   batch, no coalescing). *)
Require Import WD.Base.Prelude WD.Base.BStr WD.Model.SubEvents WD.Proofs.SubEventsProofs.
Require Import WD.Model.PlatFs WD.Proofs.PlatFsProofs WD.Proofs.PlatReplayProofs WD.Proofs.PlatClosedProofs.
Require Import WD.Model.WinEmitter WD.Proofs.WinEmitterProofs WD.Proofs.WinReplayProofs.
Require Import WD.Model.FsEvents WD.Proofs.FsEventsProofs WD.Proofs.FsContractProofs.
Require Import Coq.Sorting.Permutation.

Lemma essential_moved {A} (D : list A) kf sf df bf :
  filter essential (map (fun x => AMoved (kf x) (sf x) (df x) (bf x)) D) = map (fun x => AMoved (kf x) (sf x) (df x) (bf x)) D.
Proof. induction D as [|x D IH]; [reflexivity|]. cbn [map filter essential]. now rewrite IH. Qed.

Lemma essential_created {A} (D : list A) kf pf bf :
  filter essential (map (fun x => ACreated (kf x) (pf x) (bf x)) D) = map (fun x => ACreated (kf x) (pf x) (bf x)) D.
Proof. induction D as [|x D IH]; [reflexivity|]. cbn [map filter essential]. now rewrite IH. Qed.

Theorem fse_replay_full (sub : path -> tree) (before : fs) (o : op) :
  closed_fs before -> op_names_ok o = true -> op_ok before o = true ->
  let after := apply_op before o in
  covers sub after o ->
  Permutation (replay (view_of before) (fse_contract sub before after o)) (view_of after).
Proof.
  intros C Hn Ho after Hc. unfold covers in Hc. rewrite replay_essential.
  destruct o as [p i|p i|p|p|p|p|s d|s|d k i content]; cbn [target walks] in Hc;
    try (pose proof (Hc eq_refl) as P; clear Hc); subst after;
    cbn [fse_contract pmod app filter essential].
  - cbn [apply_op]. unfold view_of. rewrite map_app. apply Permutation_refl.
  - cbn [apply_op]. unfold view_of. rewrite map_app. apply Permutation_refl.
  - apply Permutation_refl.
  - apply Permutation_refl.
  - cbn [apply_op replay fold_left replay1]. rewrite (filter_view' (fun q => negb (under p q))). apply Permutation_refl.
  - cbn [apply_op replay fold_left replay1]. rewrite (filter_view' (fun q => negb (under p q))). apply Permutation_refl.
  - rewrite (essential_moved (desc [] (sub d)) fst (fun x => s ++ snd x) (fun x => d ++ snd x) (fun _ => true)).
    rewrite (rename_replay before s d C Hn Ho) by exact P. apply Permutation_refl.
  - cbn [apply_op replay fold_left replay1]. rewrite (filter_view' (fun q => negb (under s q))). apply Permutation_refl.
  - destruct (movein_ok _ _ _ _ _ Hn Ho) as (Hd & Hm & Hfile & Hc).
    rewrite (essential_created (desc [] (sub d)) fst (fun x => d ++ snd x) (fun _ => true)).
    rewrite view_movein, created_head_replay. apply Permutation_app_head, perm_skip.
    rewrite below_after_movein in P by assumption. now apply perm_prefix.
Qed.

Theorem fse_replay_full_wf :
  forall (sub : path -> tree) (before : fs) (o : op),
  wf_fs before -> op_names_ok o = true -> op_ok before o = true ->
  let after := apply_op before o in
  Permutation (map (fun x => (snd x, fst x)) (desc [] (sub (target o)))) (below after (target o)) ->
  Permutation (replay (view_of before) (fse_contract sub before after o)) (view_of after).
Proof. intros sub before o W Hn Ho after P. apply fse_replay_full; try assumption; [now apply wf_closed | intros _; exact P]. Qed.

(* ---------------------------------------------------------------- histories, one operation per batch *)
(* what the emitter can ask the file system while it processes one batch, and the tree os.walk lists *)
Record oracle := Oracle { o_stat : bytes -> option N; o_walk : bytes -> tree; o_sub : path -> tree }.

Section History.
  Variable recursive : bool.
  Variable root : bytes.

  (* the emitter, batch after batch; the _fs_view is carried from call to call *)
  Fixpoint fse_run (orcs : list oracle) (view : list N) (f : fs) (ops : list op) : option (list ev * list N) :=
    match ops, orcs with
    | [], _ => Some ([], view)
    | o :: r, oc :: ocs =>
      match queue_events (o_stat oc) (o_walk oc) recursive root view (map (frender root) (fsevents_kernel f o)) with
      | Some (out, v, _) =>
        match fse_run ocs v (apply_op f o) r with
        | Some (out2, v2) => Some (out ++ out2, v2)
        | None => None
        end
      | None => None
      end
    | _ :: _, [] => None
    end.

  Fixpoint fse_history (orcs : list oracle) (f : fs) (ops : list op) : list aev :=
    match ops, orcs with
    | o :: r, oc :: ocs => fse_contract (o_sub oc) f (apply_op f o) o ++ fse_history ocs (apply_op f o) r
    | _, _ => []
    end.

  (* [seen]: every inode number that has been in the tree so far.  Each step: the operation succeeds,
     the oracles answer for the tree after it, the walked tree covers the target, and a *created*
     file or directory gets an inode number never seen before (no inode reuse while the emitter lives -
     the assumption behind _fs_view, see the comment in fsevents.py). *)
  Fixpoint fse_history_ok (orcs : list oracle) (seen : list N) (f : fs) (ops : list op) : Prop :=
    match ops, orcs with
    | [], _ => True
    | o :: r, oc :: ocs =>
      let after := apply_op f o in
      op_names_ok o = true /\ op_ok f o = true /\
      (forall p, o_walk oc (abspath root p) = o_sub oc p) /\ (forall p, wf_tree (o_sub oc p) = true) /\
      (forall p, o_stat oc (abspath root p) = match lookup after p with Some e => Some (e_ino e) | None => None end) /\
      (forall i, In i (created_ino o) -> ~ In i seen) /\
      covers (o_sub oc) after o /\
      fse_history_ok ocs (seen ++ subject_ino f o) after r
    | _ :: _, [] => False
    end.

  Hypothesis Hroot : root <> [].
  Hypothesis Hsep : last_is_sep root = false.

  Lemma mem_In j v : mem j v = true -> In j v.
  Proof. unfold mem. intros H. apply existsb_exists in H as (x & Hx & E). apply N.eqb_eq in E. now subst. Qed.

  (* A: the emitter queues exactly the (filtered, rendered) contracts, batch after batch *)
  Theorem fse_contract_history : forall ops orcs seen view f,
    fse_history_ok orcs seen f ops -> (forall j, mem j view = true -> In j seen) ->
    exists v, fse_run orcs view f ops
              = Some (filter (keep recursive root) (map (render root) (fse_history orcs f ops)), v).
  Proof.
    induction ops as [|o r IH]; intros orcs seen view f H Inv.
    - exists view. destruct orcs; reflexivity.
    - destruct orcs as [|oc ocs]; [destruct H|].
      destruct H as (Hn & Ho & Hw & Hwf & Hst & Hfresh & _ & Hr). cbn [fse_run fse_history].
      destruct (fse_contract_ok (o_stat oc) (o_walk oc) (o_sub oc) recursive root Hroot Hsep Hw Hwf view f o Hn Ho Hst)
        as (v & E & B).
      { intros i Hi. destruct (mem i view) eqn:Em; [|reflexivity]. exfalso. apply (Hfresh i Hi). now apply Inv. }
      rewrite E.
      destruct (IH ocs (seen ++ subject_ino f o) v (apply_op f o) Hr) as (v2 & E2).
      { intros j Hj. apply in_or_app. destruct (B j Hj) as [Hv|Hs]; [left; now apply Inv | now right]. }
      rewrite E2. exists v2. now rewrite map_app, filter_app.
  Qed.

  (* B: replaying the contracts reproduces the tree *)
  Theorem fse_replay_history : forall ops orcs seen f, closed_fs f -> fse_history_ok orcs seen f ops ->
    Permutation (replay (view_of f) (fse_history orcs f ops)) (view_of (fold_left apply_op ops f)).
  Proof.
    induction ops as [|o r IH]; intros orcs seen f C H; [destruct orcs; apply Permutation_refl|].
    destruct orcs as [|oc ocs]; [destruct H|]. destruct H as (Hn & Ho & _ & _ & _ & _ & Hc & Hr).
    cbn [fse_history fold_left]. rewrite replay_app.
    eapply Permutation_trans.
    - apply replay_perm. apply fse_replay_full; eassumption.
    - eapply IH; [now apply closed_apply | exact Hr].
  Qed.
End History.

(* a recursive watch queues everything *)
Lemma keep_recursive root l : filter (keep true root) l = l.
Proof. induction l as [|x l IH]; [reflexivity|]. cbn [filter keep orb]. now rewrite IH. Qed.

(* A + B for a recursive watch: the events FSEventsEmitter queues for a history issued one operation
   per batch are the rendered contracts, and replaying them reproduces the tree *)
Theorem fse_history_recursive : forall root ops orcs seen view f,
  root <> [] -> last_is_sep root = false -> wf_fs f ->
  fse_history_ok root orcs seen f ops -> (forall j, mem j view = true -> In j seen) ->
  exists v, fse_run true root orcs view f ops = Some (map (render root) (fse_history orcs f ops), v) /\
            Permutation (replay (view_of f) (fse_history orcs f ops)) (view_of (fold_left apply_op ops f)).
Proof.
  intros root ops orcs seen view f Hr Hs W H Inv.
  destruct (fse_contract_history true root Hr Hs ops orcs seen view f H Inv) as (v & E).
  exists v. split; [now rewrite keep_recursive in E|].
  eapply fse_replay_history; [now apply wf_closed | exact H].
Qed.

(* the inode-reuse hypothesis is needed: a directory with an announced child is moved out (only
   the directory's inode leaves the _fs_view), the child's inode number is reused for a new file -
   its creation is not reported *)
Lemma fse_inode_reuse_refuted :
  let r_ : bytes := [47; 114]%N in
  let a := [[97]]%N in let af := [[97]; [102]]%N in let g := [[103]]%N in
  let ops := [OMkdir a 5; OCreate af 9; OMoveOut a; OCreate g 9]%N in
  let st (l : list (path * N)) (p : bytes) :=
      match find (fun x => beqb (abspath r_ (fst x)) p) l with Some x => Some (snd x) | None => None end in
  let e := Node [] [] in
  let orcs := [Oracle (st [(a, 5)]) (fun _ => e) (fun _ => e); Oracle (st [(a, 5); (af, 9)]) (fun _ => e) (fun _ => e);
               Oracle (st []) (fun _ => e) (fun _ => e); Oracle (st [(g, 9)]) (fun _ => e) (fun _ => e)]%N in
  exists out v, fse_run true r_ orcs [] [] ops = Some (out, v) /\
    ~ In (Created KFile (abspath r_ g) false) out /\
    view_of (fold_left apply_op ops []) = [(g, KFile)].
Proof.
  vm_compute. eexists. eexists. split; [reflexivity|]. split; [|reflexivity].
  intros H. repeat (destruct H as [H|H]; [discriminate|]). exact H.
Qed.

(* the statement of Props/C20.v: the view holds only inodes of the current tree *)
Theorem fse_contract_full_wf :
  forall stat_ino walk sub recursive root view before o,
  root <> [] -> last_is_sep root = false ->
  (forall p, walk (abspath root p) = sub p) -> (forall p, wf_tree (sub p) = true) ->
  wf_fs before -> op_names_ok o = true -> op_ok before o = true ->
  let after := apply_op before o in
  (forall p, stat_ino (abspath root p) = match lookup after p with Some e => Some (e_ino e) | None => None end) ->
  (forall i, mem i view = true -> ino_used before i = true) ->
  exists v,
    queue_events stat_ino walk recursive root view (map (frender root) (fsevents_kernel before o))
    = Some (filter (keep recursive root) (map (render root) (fse_contract sub before after o)), v, false).
Proof.
  intros stat_ino walk sub recursive root view before o Hr Hs Hw Hwf _ Hn Ho after Hst Hview.
  destruct (fse_contract_ok stat_ino walk sub recursive root Hr Hs Hw Hwf view before o Hn Ho Hst) as (v & E & _).
  - intros i Hi. apply (mem_view_fresh view before); [exact Hview|].
    destruct o; cbn [created_ino] in Hi; try destruct Hi as [<-|[]]; try destruct Hi;
      cbn [op_ok] in Ho; unfold fresh_at in Ho; rewrite !andb_true_iff in Ho;
      destruct Ho as [_ Ho]; now apply negb_true_iff in Ho.
  - now exists v.
Qed.
