(* wire glue for coq/Model/MaskTable.v   (model name: masktable)
   (mask recursive F) / (pinned recursive F) -> () | (n)       F = () for None, ((base ...)) for a filter
   (needed recursive F) -> (flag ...)        (effective recursive F) -> n
   (delivered M m) -> 0/1                    (produces recursive flag cls) -> 0/1 *)
open Sexp
open Conv
open MaskTable

let run = function
  | L [A "mask"; r; f] -> sx_opt sx_n (mask_of_filter (bool_of r) (M_emitter.filter_of f))
  | L [A "pinned"; r; f] -> sx_opt sx_n (mask_of_filter_pinned (bool_of r) (M_emitter.filter_of f))
  | L [A "needed"; r; f] -> sx_list sx_n (needed_for (M_emitter.filter_of f) (bool_of r))
  | L [A "effective"; r; f] -> sx_n (effective_mask (mask_of_filter (bool_of r) (M_emitter.filter_of f)))
  | L [A "delivered"; mm; m] -> sx_bool (delivered (n_of mm) (n_of m))
  | L [A "produces"; r; b; c] -> sx_bool (produces (bool_of r) (n_of b) (M_emitter.cls_of c))
  | _ -> failwith "masktable: bad case"
