open Sexp
open Conv
open SkipQueue

let item_of = function L [i; v] -> (n_of i, n_of v) | _ -> failwith "item"
let sx_item (i, v) = L [sx_n i; sx_n v]

let label_of = function
  | L [A "r1"; p; i; v] -> PRead1 (n_of p, (n_of i, n_of v))
  | L [A "r2"; p] -> PRead2 (n_of p)
  | L [A "put"; p] -> PPut (n_of p)
  | L [A "get"] -> CGet
  | _ -> failwith "label"

let sx_obs = function
  | ORead None -> L [A "R"]
  | ORead (Some x) -> L [A "R"; sx_item x]
  | OPut x -> L [A "P"; sx_item x]
  | OGet x -> L [A "G"; sx_item x]

let sx_pc (p, c) = match c with
  | AtRead2 x -> L [sx_n p; A "read2"; sx_item x]
  | AtPut x -> L [sx_n p; A "put"; sx_item x]

let sx_state (s : state) =
  L [sx_list sx_item s.queue; sx_opt sx_item s.last_item; sx_list sx_pc s.pcs;
     sx_list sx_item s.enq; sx_list sx_item s.out;
     sx_list (fun (x, y) -> L [sx_item x; sx_item y]) s.dropped]

let cls_of x = match int_of x with
  | 0 -> CFileSystemEvent | 1 -> CFileSystemMovedEvent | 2 -> CFileDeleted | 3 -> CFileModified
  | 4 -> CFileCreated | 5 -> CFileMoved | 6 -> CFileClosed | 7 -> CFileClosedNoWrite | 8 -> CFileOpened
  | 9 -> CDirDeleted | 10 -> CDirModified | 11 -> CDirCreated | 12 -> CDirMoved
  | _ -> failwith "class"
let path_of = function
  | L [A "s"; l] -> PStr (bytes_of l)
  | L [A "b"; l] -> PBytes (bytes_of l)
  | _ -> failwith "path"
let event_of = function
  | L [c; s; d; y] -> { cls = cls_of c; src_path = path_of s; dest_path = path_of d; is_synthetic = bool_of y }
  | _ -> failwith "event"

let run = function
  | L [A "run"; L labels] ->
    (* replay a label list step by step; stop at the first label that is not enabled *)
    let rec go s i obs = function
      | [] -> (s, Stdlib.List.rev obs, A "ok")
      | l :: rest ->
        (match step s (label_of l) with
         | Some (s', o) -> go s' (i + 1) (o :: obs) rest
         | None -> (s, Stdlib.List.rev obs, L [A "stuck"; sx_int i])) in
    let (s, obs, st) = go init 0 [] labels in
    L [sx_list sx_obs obs; st; sx_state s]
  | L [A "seq"; L ops] ->
    (* sequential use by producer 0: (put id val) -> A (appended) | D (dropped); (get) -> (G item) | E (queue.Empty) *)
    let rec go s res = function
      | [] -> (s, Stdlib.List.rev res)
      | L [A "put"; i; v] :: rest ->
        (match seq_put N0 (n_of i, n_of v) s with
         | Some s' ->
           let r = if Stdlib.List.length s'.enq > Stdlib.List.length s.enq then A "A" else A "D" in
           go s' (r :: res) rest
         | None -> failwith "seq_put_stuck")
      | L [A "get"] :: rest ->
        (match seq_get s with
         | Some (s', h) -> go s' (L [A "G"; sx_item h] :: res) rest
         | None -> go s (A "E" :: res) rest)
      | _ -> failwith "op" in
    let (s, res) = go init [] ops in
    L [L res; sx_state s]
  | L [A "eveq"; a; b] -> sx_bool (event_eqb (event_of a) (event_of b))
  | _ -> failwith "skipqueue: bad case"
