(* Round trip of the inotify buffer codec (C20). *)
Require Import WD.Base.Prelude WD.Base.Le32 WD.Model.CodecInotify.

Lemma enc_one_length r p : length (enc_one r p) = (16 + length (i_name r) + p)%nat.
Proof. unfold enc_one. rewrite !app_length, !le32_length, repeat_length. lia. Qed.

Lemma drop_nul_repeat p s : drop_nul (repeat 0%N p ++ s) = drop_nul s.
Proof. induction p as [|p IH]; simpl; auto. Qed.

Lemma drop_nul_id s : match s with c :: _ => N.eqb c 0 | [] => false end = false -> drop_nul s = s.
Proof. destruct s as [|c s]; simpl; intros H; [reflexivity | now rewrite H]. Qed.

Lemma rev_repeat {A} (x : A) n : rev (repeat x n) = repeat x n.
Proof.
  induction n as [|n IH]; simpl; [reflexivity|]. rewrite IH.
  clear IH. induction n as [|n IH]; simpl; [reflexivity|]. now rewrite IH.
Qed.

(* the name comes back whatever the amount of NUL padding *)
Lemma rstrip_nul_pad name p : ends_nul name = false -> rstrip_nul (name ++ repeat 0%N p) = name.
Proof.
  intros H. unfold rstrip_nul. rewrite rev_app_distr, rev_repeat, drop_nul_repeat.
  unfold ends_nul in H. rewrite drop_nul_id by exact H. apply rev_involutive.
Qed.

Lemma firstn_app_exact {A} (a b : list A) n : n = length a -> firstn n (a ++ b) = a.
Proof. intros ->. rewrite firstn_app, Nat.sub_diag, firstn_all. simpl. apply app_nil_r. Qed.

Lemma skipn_app_exact {A} (a b : list A) n : n = length a -> skipn n (a ++ b) = b.
Proof. intros ->. rewrite skipn_app, Nat.sub_diag, skipn_all. reflexivity. Qed.

(* one iteration of the loop on a buffer that starts with a well-formed record *)
Lemma decode_go_step f r p rest :
  valid_rec (r, p) ->
  decode_go (S f) (enc_one r p ++ rest) =
  match decode_go f rest with Some l => Some (r :: l) | None => None end.
Proof.
  intros (Hwd & Hm & Hc & Hl & Hn). cbn [fst snd] in *.
  cbn [decode_go].
  assert (Hlen : (length (enc_one r p ++ rest) <? 16)%nat = false).
  { apply Nat.ltb_ge. rewrite app_length, enc_one_length. lia. }
  rewrite Hlen. unfold enc_one. rewrite <- !app_assoc.
  set (tail := i_name r ++ repeat 0%N p ++ rest).
  assert (H0 : u32_at 0 (le32 (of_s32 (i_wd r)) ++ le32 (i_mask r) ++ le32 (i_cookie r)
                 ++ le32 (N.of_nat (length (i_name r) + p)) ++ tail) = of_s32 (i_wd r))
    by (apply u32_at_0_le32, of_s32_lt).
  assert (H4 : u32_at 4 (le32 (of_s32 (i_wd r)) ++ le32 (i_mask r) ++ le32 (i_cookie r)
                 ++ le32 (N.of_nat (length (i_name r) + p)) ++ tail) = i_mask r).
  { change 4%nat with (4 + 0)%nat. rewrite u32_at_skip4. now apply u32_at_0_le32. }
  assert (H8 : u32_at 8 (le32 (of_s32 (i_wd r)) ++ le32 (i_mask r) ++ le32 (i_cookie r)
                 ++ le32 (N.of_nat (length (i_name r) + p)) ++ tail) = i_cookie r).
  { change 8%nat with (4 + (4 + 0))%nat. rewrite !u32_at_skip4. now apply u32_at_0_le32. }
  assert (H12 : u32_at 12 (le32 (of_s32 (i_wd r)) ++ le32 (i_mask r) ++ le32 (i_cookie r)
                 ++ le32 (N.of_nat (length (i_name r) + p)) ++ tail) = N.of_nat (length (i_name r) + p)).
  { change 12%nat with (4 + (4 + (4 + 0)))%nat. rewrite !u32_at_skip4. now apply u32_at_0_le32. }
  rewrite H0, H4, H8, H12.
  change (skipn 16 (le32 (of_s32 (i_wd r)) ++ le32 (i_mask r) ++ le32 (i_cookie r)
                 ++ le32 (N.of_nat (length (i_name r) + p)) ++ tail)) with tail.
  rewrite N.min_l by (unfold tail; rewrite !app_length, repeat_length; lia).
  rewrite Nat2N.id.
  unfold tail. rewrite app_assoc.
  rewrite firstn_app_exact by (rewrite app_length, repeat_length; reflexivity).
  rewrite skipn_app_exact by (rewrite app_length, repeat_length; reflexivity).
  rewrite rstrip_nul_pad by exact Hn.
  rewrite s32_roundtrip by exact Hwd.
  destruct r; reflexivity.
Qed.

Lemma decode_go_encode rs : valid rs -> forall fuel, (length (encode rs) <= fuel)%nat ->
  decode_go fuel (encode rs) = Some (map fst rs).
Proof.
  induction 1 as [|[r p] rs Hv _ IH]; intros fuel Hf.
  - destruct fuel; reflexivity.
  - cbn [encode flat_map fst snd map] in *. fold (encode rs) in *.
    rewrite app_length, enc_one_length in Hf.
    destruct fuel as [|f]; [lia|].
    rewrite decode_go_step by exact Hv. rewrite IH by lia. reflexivity.
Qed.

Theorem inotify_roundtrip rs : valid rs -> decode (encode rs) = Some (map fst rs).
Proof. intros H. apply decode_go_encode; [exact H | apply Nat.le_refl]. Qed.

(* fuel = len(buffer) is always enough: the decoder never answers None, on any buffer *)
Lemma decode_go_total : forall fuel buf, (length buf <= fuel)%nat -> decode_go fuel buf <> None.
Proof.
  induction fuel as [|f IH]; intros buf Hl.
  - destruct buf; [simpl; discriminate | simpl in Hl; lia].
  - cbn [decode_go]. destruct (length buf <? 16)%nat eqn:E; [discriminate|].
    apply Nat.ltb_ge in E.
    specialize (IH (skipn (N.to_nat (N.min (u32_at 12 buf) (N.of_nat (length (skipn 16 buf))))) (skipn 16 buf))).
    destruct (decode_go f _); [discriminate|]. exfalso. apply IH; [|reflexivity].
    rewrite !skipn_length. lia.
Qed.

Theorem decode_total buf : decode buf <> None.
Proof. apply decode_go_total, Nat.le_refl. Qed.

(* no NUL byte anywhere in the name (every file name) is enough for [ends_nul = false] *)
Lemma no_nul_ends s : no_nul s = true -> ends_nul s = false.
Proof.
  unfold no_nul, ends_nul. intros H. destruct (rev s) as [|c l] eqn:E; [reflexivity|].
  rewrite forallb_forall in H. assert (In c s) by (apply in_rev; rewrite E; now left).
  apply H in H0. now apply negb_true_iff in H0.
Qed.

Lemma valid_recb_ok rp : valid_recb rp = true -> valid_rec rp.
Proof.
  unfold valid_recb, valid_rec. rewrite !andb_true_iff, negb_true_iff.
  intros [[[[[H1 H2] H3] H4] H5] H6]. repeat split; try lia; assumption.
Qed.

(* A name that ends in NUL does not survive: rstrip removes it with the padding. *)
Lemma trailing_nul_refuted :
  exists r p, decode (encode [(r, p)]) <> Some [r].
Proof. exists (IRec 1 2 0 [97; 0]%N), 2%nat. vm_compute. discriminate. Qed.
