"""C01 - replaying the native (inotify) event stream reproduces the real directory tree."""
from __future__ import annotations

from harness import core, pipe, pipecheck, pipeprops
from harness.core import Failure, Result

MANIFEST = dict(
    design_ref="DESIGN.md §6 C01",
    text="Executable Coq model of the whole pipeline (kernel inotify semantics, Inotify.read_events, InotifyBuffer over "
         "the proved delay-queue LTS, InotifyEmitter.queue_events) run in lock-step against the real observer on the real "
         "kernel for every generated history. Theorems (coq/Props/C01.v): the replay function is the pointwise tree semantics "
         "(C01_replay_semantics); every covered operation's delivered events turn the replayed tree into the tree after it "
         "(C01_contract_replay, C01_replay_step); on the REPAIRED reader (F10 family fixed) also a directory moved out of the "
         "tree (C01_replay_step_out) and the operation after it, whose first record settles the pending candidate "
         "(C01_replay_step_x); induction over histories of any length of paced covered operations INCLUDING directory move-outs "
         "followed by any covered operation (re-creating the old name, renaming a former ancestor - the F10b/F10c histories), from "
         "construct() and on the Pipeline model through delay queue and grouping (C01_sequential_partial, C01_from_start_partial, "
         "C01_sequential_pipeline_partial, C01_pipeline_from_start_partial); a directory moved INTO the tree with its content (DirCreated + one synthetic created event per descendant of os.walk: C01_movein_listing, C01_replay_step_in) is an operation of all these theorems, so F10d (directory leaves and comes back) is an instance (C01_f10d_ops_x1, C01_f10d_instance) "
         "and is refuted on the pinned code (C01_f10d_pinned_refuted). Extra "
         "hypotheses of the move-out theorems: full event mask; the operation right after a move-out acts in a directory of "
         "the tree and not inside the departed directory. Read cuts inside a block are covered: the block AOp o; ARead n1..nj (any cut of the operation's records); ATick delay; AEmit.. delivers what the one-read block delivers - a rename whose halves fall into different reads is still paired through the delay queue (C01_tie_cuts, C01_sequential_pipeline_cuts_partial, C01_pipeline_from_start_cuts_partial). Not theorems (stated as C01_replay_full / C01_sequential_full, carried "
         "by the lock-step correspondence + the replay oracle against os.walk): bursts (several operations before a read) and reads that straddle two operations, "
         "a directory moved in over an empty directory in HISTORIES (its one-step replay law is a theorem, C01_replay_step_in_over; it is not yet an operation of c01_op) and directory-over-directory replay, two directory move-outs back to back when the second directory is moved INTO the first (the plain back-to-back case is a theorem: C01_replay_step_x2, C01_from_start_x2_partial, C01_pipeline_from_start_x2_partial)."
         " BURSTS of file-level operations (touch, write, chmod of a file, unlink, file renames; several operations before a read, from a synchronised state, no record coalesced by the kernel across an operation border): replaying the delivered stream gives the tree after the burst, at the read_batch level, from construct() and on the Pipeline model with cut reads and loose timing (C01_burst_files_replay, C01_burst_files_replay_from_start, C01_burst_files_replay_pipeline); bursts with directory operations stay carried by the correspondence. A burst WITH directory operations, the arrival shape `mkdir p; <mkdir / touch strictly below p>` read in one read (recursive watch, p in scope, fixed _recursive_simulate, no fault): replaying the delivered stream (the record of p plus the creates fabricated by the reader's walk) gives the tree after the burst (C01_burst_arrival_replay at the read_batch/delivered level, C01_burst_arrival_pipeline on the Pipeline model with loose timing).",
    note="Trusted: Coq kernel; the kernel model is validated, not proved; reader/emitter steps are atomic w.r.t. file-system "
         "operations (gates at poll() and read_event()). See coq/Props/C01.v for exactly which part of the replay law is a "
         "theorem and which is carried by the sampled correspondence.",
    technique="Coq proof over an executable pipeline model + lock-step correspondence against the real kernel (gated threads) + replay oracle",
)
TRUSTED = pipecheck.TRUSTED
ASSUMPTIONS = pipecheck.ASSUMPTIONS + ["histories respect the directory pacing condition of the property (generator-enforced)"]


def tree0_of(run: pipe.Run):
    import os
    root = os.fsencode(run.rootp)
    return {p: d for p, d in run.init_fs if p.startswith(root + b"/") and pipeprops.in_scope(run, p)}


def one(ctx, res: Result, hist, cfg, batch, init_tree=None):
    def before_close(run):
        run.drain()
        bad = pipeprops.oracle_replay(run, tree0_of(run))
        if bad:
            paths = [x.encode("latin1") for k in ("missing_in_replay", "extra_in_replay", "wrong_kind") for x in bad[k]]
            bad["_local_tags"] = sorted(pipeprops.tags_of_paths(run, paths))
        return bad
    run, case, stopped, bad = pipecheck.execute(hist, cfg, init_tree, before_close)
    meta = pipecheck.meta_of(hist, cfg)
    res.evaluations += 1
    pipecheck.hist_stats(res, hist, run)
    tags = sorted(pipeprops.history_tags(run))
    nd = sum(1 for e in run.log if e["a"] == "op" and e["ok"] and (e["kind"] in ("mkdir", "rmdir") or e["was_dir"]))
    if nd >= 1 and sum(1 for e in run.log if e["a"] == "emit") >= 3:
        res.nontrivial.add(core.digest(meta))
    if len(res.samples) < 3 and nd >= 2:
        res.samples.append({"history": hist, "config": cfg,
                            "delivered": [[e[0], e[1].decode("latin1")[-12:], e[2].decode("latin1")[-12:]] for ent in run.log
                                          if ent["a"] == "emit" for e in ent["events"]][:16]})
    if bad:
        res.failures.append(Failure(
            what="replaying the delivered created/deleted/moved events does not reproduce the tree on disk", case=meta,
            signature={"law": "replay", "dir_provenance": tags,
                       "cause": pipeprops.cause_of(bad.get("_local_tags", []))},
            observed=bad, expected="replay(tree at start, events) == os.walk"))
    res.failures += pipecheck.thread_failures(run, stopped, meta, "C01")
    batch.append((meta, run, case))


CORPUS = [
    ((True, False, "str"), [["op", "mkdir", ["R", "a"]], ["drain"], ["op", "touch", ["R", "a", "f"]], ["op", "rename", ["R", "a", "f"], ["R", "a", "g"]],
                            ["op", "unlink", ["R", "a", "g"]], ["drain"], ["op", "rename", ["R", "a"], ["R", "b"]], ["drain"]]),
    ((True, False, "bytes"), [["op", "mkdir", ["O", "d"]], ["op", "touch", ["O", "d", "f"]], ["op", "mkdir", ["O", "d", "e"]], ["drain"],
                              ["op", "rename", ["O", "d"], ["R", "d"]], ["drain"], ["op", "touch", ["R", "d", "e", "x"]], ["drain"],
                              ["op", "rename", ["R", "d"], ["O", "gone"]], ["drain"]]),
    ((True, False, "str"), [["op", "mkdir", ["R", "a"]], ["op", "rename", ["R", "a"], ["R", "b"]], ["drain"], ["op", "touch", ["R", "b", "f"]], ["drain"]]),
    ((False, False, "str"), [["op", "mkdir", ["R", "a"]], ["drain"], ["op", "touch", ["R", "a", "f"]], ["op", "touch", ["R", "g"]], ["drain"]]),
    ((True, True, "str"), [["op", "touch", ["R", "f"]], ["op", "rename", ["R", "f"], ["O", "f"]], ["op", "rename", ["O", "f"], ["R", "g"]], ["drain"]]),
]


def run(ctx) -> Result:
    res = Result()
    res.rule = ("random histories of 3-14 operations over names {a,b,c}, depth <= 3, inside the watched root R and a sibling O "
                "(moves in/out), respecting the directory pacing condition, issued one at a time or in bursts (drain "
                "probability 0.1/0.5/1.0 after each operation), 5 configurations (recursive/non-recursive x normal/full emitter x "
                "str/bytes root); non-trivial = at least one directory operation and >= 3 emitter steps; distinct by (history, config)")
    rng = ctx.rng("c01")
    batch = []
    for cfg, hist in CORPUS:
        one(ctx, res, hist, cfg, batch)
    for c in ctx.corpus():
        one(ctx, res, c["history"], (c["recursive"], c["full_events"], c["path_kind"]), batch)
    n = 160 if not ctx.thorough else 3000
    for i in range(n):
        cfg = pipecheck.CONFIGS[i % len(pipecheck.CONFIGS)]
        if i % 8 == 2:
            # the dispatcher falls behind: the handler blocks while bursts of file operations (create/delete/create ...) are
            # read and translated; everything queued meanwhile is delivered at the end and must still replay to the tree
            hist = [["hold"]] + pipe.gen_history_filechurn(rng, n_ops=rng.randint(4, 12)) + [["release"]]
        elif i % 8 == 6:
            hist = pipe.gen_history_arrivals(rng, n=rng.randint(1, 3))
        elif i % 4 == 3:
            hist = pipe.gen_history_renames(rng, n_renames=rng.randint(2, 5))
        elif i % 4 == 1:
            hist = pipe.gen_history_filechurn(rng, n_ops=rng.randint(4, 12))
        else:
            hist = pipe.gen_history(rng, n_ops=rng.randint(3, 14), paced=True, burst_prob=rng.choice([0.0, 0.5, 0.9]))
        one(ctx, res, hist, cfg, batch)
    pipecheck.check_model(res, "C01", batch)
    # the gated driver lets the reader and the emitter take turns; the interleavings INSIDE the buffer (the emitter waiting
    # in DelayedQueue.get() while the reader pairs, removes and puts) are those of the reader/consumer LTS the C01 model
    # sits on (Grouping.v over DelayQueue.v): its lock-step tie + exactly-once/pairing oracle run here too (shared with C08)
    from harness.props import c08
    cases, metas = [], []
    c08.buffer_campaign(ctx, res, cases, metas, 120 if not ctx.thorough else 800, corpus=False)
    c08.compare(res, cases, metas)
    res.notes.append("buffer layer: real InotifyBuffer + DelayedQueue under the deterministic scheduler in lock-step with Grouping.v/"
                     "DelayQueue.v (renames cut across reads, consumer inside get() while the reader pairs) - shared with C08")
    return res


def replay(ctx, obj) -> int:
    case = obj.get("case", obj)
    if isinstance(case, dict) and "program" in case:
        from harness.props import c08
        return c08.replay(ctx, obj)
    res = Result()
    batch = []
    one(ctx, res, case["history"], (case["recursive"], case["full_events"], case["path_kind"]), batch)
    pipecheck.check_model(res, "C01", batch)
    for f in res.failures:
        print("FAIL:", f.what, f.observed)
    for m in res.mismatches:
        print("MISMATCH:", m.pair, "\n model:", m.model, "\n real: ", m.impl)
    print("actions:", [{k: v for k, v in e.items() if k in ("a", "kind", "path", "path2", "ok", "k")} for e in batch[0][1].log])
    return 1 if res.failures or res.mismatches else 0
