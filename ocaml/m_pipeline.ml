(* wire: (cfg fs actions) -> (ok (obs ...) final) | (crash site k (obs ...) final)   -- see harness/pipe.py *)
open Sexp
open Conv
open Fs
open Reader
open Pipeline
open Emitter

let cls_name = function
  | FileCreated -> "FileCreated" | FileDeleted -> "FileDeleted" | FileModified -> "FileModified"
  | FileMoved -> "FileMoved" | FileClosed -> "FileClosed" | FileClosedNoWrite -> "FileClosedNoWrite"
  | FileOpened -> "FileOpened" | DirCreated -> "DirCreated" | DirDeleted -> "DirDeleted"
  | DirModified -> "DirModified" | DirMoved -> "DirMoved"
let base_of = function
  | A "FileSystemEvent" -> AnyEvent | A "FileSystemMovedEvent" -> AnyMoved
  | A s -> (match Stdlib.List.find_opt (fun c -> cls_name c ^ "Event" = s || cls_name c = s) all_classes with
            | Some c -> Concrete c | None -> failwith ("class " ^ s))
  | _ -> failwith "class"

let op_of = function
  | L [A "touch"; p] -> Touch (bytes_of p) | L [A "write"; p] -> Write (bytes_of p)
  | L [A "chmod"; p] -> Chmod (bytes_of p) | L [A "unlink"; p] -> Unlink (bytes_of p)
  | L [A "mkdir"; p] -> Mkdir (bytes_of p) | L [A "rmdir"; p] -> Rmdir (bytes_of p)
  | L [A "rename"; p; q] -> Rename (bytes_of p, bytes_of q)
  | _ -> failwith "op"
let action_of = function
  | L [A "read"; k] -> ARead (nat_of k) | A "emit" -> AEmit | L [A "tick"; d] -> ATick (n_of d)
  | x -> AOp (op_of x)

let sx_kraw (e : kraw) = L [sx_n e.k_wd; sx_n e.k_mask; sx_n e.k_cookie; sx_bytes e.k_name]
let sx_nevent (e : nevent) = L [A (cls_name e.ev_cls); sx_bytes e.ev_src; sx_bytes e.ev_dest; sx_bool e.ev_synth]
let sx_obs = function
  | OSkip -> A "skip" | ONone -> A "none"
  | ORaw l -> L (A "raw" :: Stdlib.List.map sx_kraw l)
  | OEvents l -> L (A "ev" :: Stdlib.List.map sx_nevent l)

let final (s : pstate) =
  L [L (A "wfp" :: Stdlib.List.map (fun (p, w) -> L [sx_bytes p; sx_n w]) s.p_r.wfp);
     L (A "pfw" :: Stdlib.List.map (fun (w, p) -> L [sx_n w; sx_bytes p]) s.p_r.pfw);
     L (A "kw" :: Stdlib.List.map (fun w -> L [sx_n w.kw_wd; sx_n w.kw_ino; sx_n w.kw_mask]) s.p_k.k_watches);
     L (A "fs" :: Stdlib.List.map (fun e -> L [sx_bytes e.f_path; sx_n e.f_ino; sx_bool e.f_dir]) s.p_world.w_fs);
     L [A "kq"; sx_int (Stdlib.List.length s.p_k.k_queue)];
     L [A "stopped"; sx_bool s.p_stopped];
     L [A "reader_done"; sx_bool (snd s.p_buf).Grouping.deleted_self];
     L [A "queued"; sx_int (Stdlib.List.length (fst s.p_buf).DelayQueue.q)]]

let rec run = function
  | L [L [recursive; full; delay; root; mask; fi; fm; fs_; L faults; filt]; fs0; acts] ->
    (* no move-out flag given: the current code (repair F10) *)
    run (L [L [recursive; full; delay; root; mask; fi; fm; fs_; L faults; filt; A "1"]; fs0; acts])
  | L [L [recursive; full; delay; root; mask; fi; fm; fs_; L faults; filt; fo]; fs0; acts] ->
    (* no relabel flag given: the current code (repair F10e) *)
    run (L [L [recursive; full; delay; root; mask; fi; fm; fs_; L faults; filt; fo; A "1"]; fs0; acts])
  | L [L [recursive; full; delay; root; mask; fi; fm; fs_; L faults; filt; fo; fr]; L [L ents; nino]; L acts] ->
    let c = { c_recursive = bool_of recursive; c_mask = (match mask with A "all" -> coq_WATCHDOG_ALL | m -> n_of m);
              c_root = bytes_of root; c_fix_ignored = bool_of fi; c_fix_movein = bool_of fm;
              c_fix_simulate = bool_of fs_; c_fix_relabel = bool_of fr; c_fix_moveout = bool_of fo; c_faults = Stdlib.List.map nat_of faults } in
    let p = { pc_reader = c; pc_full = bool_of full;
              pc_filter = (match filt with A "none" -> None | L l -> Some (Stdlib.List.map base_of l) | _ -> failwith "filter");
              pc_delay = n_of delay } in
    let w = { w_fs = Stdlib.List.map (function L [pa; i; d] -> { f_path = bytes_of pa; f_ino = n_of i; f_dir = bool_of d }
                                             | _ -> failwith "fent") ents;
              w_next_ino = n_of nino } in
    (match pinit p w with
     | None -> L [A "initfail"]
     | Some s0 ->
       (* sts: after every read the reader's book-keeping (wfp pfw), "-" after any other action *)
       let maps (s : pstate) =
         L [L (Stdlib.List.map (fun (pa, w) -> L [sx_bytes pa; sx_n w]) s.p_r.wfp);
            L (Stdlib.List.map (fun (w, pa) -> L [sx_n w; sx_bytes pa]) s.p_r.pfw)] in
       let rec go s k acc sts = function
         | [] -> L [A "ok"; L (Stdlib.List.rev acc); final s; L (Stdlib.List.rev sts)]
         | a :: rest ->
           let act = action_of a in
           (match pstep p s act with
            | Done (s', o) ->
              let st = (match act, o with ARead _, ORaw _ -> maps s' | _ -> A "-") in
              go s' (k + 1) (sx_obs o :: acc) (st :: sts) rest
            | Crash site -> L [A "crash"; sx_n site; sx_int k; L (Stdlib.List.rev acc); final s; L (Stdlib.List.rev sts)]) in
       go s0 0 [] [] acts)
  | _ -> failwith "pipeline: bad case"
