(* C11: [run_one F] (C11SeqProofs) is what the Pipeline model delivers, for a watch with event filter F, for
   AOp o; ARead (whole queue); ATick delay; AEmit ... from a state whose buffer is idle.
   This is TieProofs.pipeline_tie_holds (C03, stated there for pc_filter = None) with the class filter kept;
   the reader/buffer half is reused from TieProofs, the consumer loop is redone with emit_filtered. *)
Require Import WD.Base.Prelude WD.Base.BStr WD.Model.SubEvents WD.Model.Emitter WD.Model.MaskTable WD.Model.Fs WD.Model.Reader
               WD.Model.DelayQueue WD.Model.Grouping WD.Model.Pipeline WD.Model.Contract.
Require Import WD.Proofs.GroupingProofs WD.Proofs.ContractProofs WD.Proofs.TieProofs WD.Proofs.C11Proofs
               WD.Proofs.C11KernelProofs WD.Proofs.C11TwinProofs WD.Proofs.C11SeqProofs.
Local Open Scope N_scope.

Section LoopF.
  Variable P : pcfg.
  Let C := pc_reader P.
  Let delay := pc_delay P.

  Lemma emit_step_f s d rs en rest git eit :
    p_buf s = (d, rs) -> p_stopped s = false ->
    q d = en :: rest -> pc d = CIdle -> closed d = false -> e_tins en + delay <= clock d ->
    item_of (items rs) (e_id en) = Some git -> item_to_emit (p_tbl s) git = Some eit ->
    pstep P s AEmit =
    let r := emit_filtered (pc_filter P) (pc_full P) (c_recursive C) (c_root C) (content (w_fs (p_world s))) eit in
    Done (set_emit s (popq d rest en, rs) (fst r) (snd r), OEvents (fst r)).
  Proof.
    intros Hb Hs Hq Hpc Hcl Ht Hit Hem. unfold pstep. rewrite Hs, Hb.
    destruct (three_steps delay d en rest Hq Hpc Hcl Ht) as [d1 [d2 [H1 [H2 H3]]]].
    fold delay. cbn [gstep]. rewrite H1. cbn [gstep]. rewrite H2. cbn [gstep]. rewrite H3.
    unfold Grouping.delivered. cbn [fst snd got popq]. rewrite map_app, items_of_app. cbn [map fst].
    rewrite items_of_cons, Hit. cbn [items_of flat_map app]. rewrite rev_app_distr. cbn [rev app].
    rewrite Hem. fold C.
    destruct (emit_filtered (pc_filter P) (pc_full P) (c_recursive C) (c_root C) (content (w_fs (p_world s))) eit)
      as [evs stop].
    reflexivity.
  Qed.

  Lemma emit_stopped_f s n acc : p_stopped s = true ->
    prun P s (repeat AEmit n) acc = Done (s, acc ++ repeat OSkip n).
  Proof.
    intros Hs. revert acc. induction n as [|n IH]; intros acc; simpl; [now rewrite app_nil_r|].
    rewrite Hs. rewrite IH. now rewrite <- app_assoc.
  Qed.

  Lemma emit_loop_f : forall K raws s d rs acc,
    p_buf s = (d, rs) -> pc d = CIdle -> closed d = false ->
    Forall2 (fun en it => item_of (items rs) (e_id en) = Some it) (q d) K ->
    (forall en, In en (q d) -> e_tins en + delay <= clock d) ->
    Forall2 (relI C (p_tbl s)) K raws ->
    exists s' obs, prun P s (repeat AEmit (length K)) acc = Done (s', obs) /\
      p_world s' = p_world s /\ p_k s' = p_k s /\ p_r s' = p_r s /\
      p_out s' = p_out s ++ (if p_stopped s then []
                             else emit_all_f (pc_filter P) (pc_full P) (c_recursive C) (c_root C)
                                             (content (w_fs (p_world s))) raws).
  Proof.
    induction K as [|git K IH]; intros raws s d rs acc Hb Hpc Hcl HQ Ht HR.
    - inversion HR; subst. exists s, acc. split; [reflexivity|]. repeat split. destruct (p_stopped s); now rewrite app_nil_r.
    - destruct (p_stopped s) eqn:Hs.
      { exists s, (acc ++ repeat OSkip (length (git :: K))). split; [now apply emit_stopped_f|].
        repeat split. now rewrite app_nil_r. }
      inversion HR as [|? eit ? raws' Hr1 HR']; subst. inversion HQ as [|en ? rest ? Hit HQ' Hqd]; subst.
      symmetry in Hqd.
      assert (Hstep := emit_step_f s d rs en rest git eit Hb Hs Hqd Hpc Hcl
                                   (Ht en ltac:(rewrite Hqd; left; reflexivity)) Hit (relI_emit _ _ _ _ Hr1)).
      cbn [length repeat prun]. rewrite Hstep. cbn zeta.
      cbn [emit_all_f].
      destruct (emit_filtered (pc_filter P) (pc_full P) (c_recursive C) (c_root C) (content (w_fs (p_world s))) eit)
        as [evs stop] eqn:Ee.
      cbn [fst snd].
      destruct (IH raws' (set_emit s (popq d rest en, rs) evs stop) (popq d rest en) rs (acc ++ [OEvents evs]))
        as [s' [obs [Hrun [Hw [Hk [Hr Hout]]]]]]; try reflexivity.
      + exact Hcl.
      + exact HQ'.
      + intros en' Hin. cbn [popq q clock] in *. apply Ht. rewrite Hqd. now right.
      + exact HR'.
      + exists s', obs. split; [exact Hrun|]. cbn [set_emit p_world p_k p_r] in Hw, Hk, Hr.
        split; [exact Hw|]. split; [exact Hk|]. split; [exact Hr|].
        rewrite Hout. cbn [set_emit p_out p_stopped p_world].
        now rewrite <- app_assoc.
  Qed.
End LoopF.

(* one drained operation in the Pipeline model, with the class filter of the watch *)
Theorem pipeline_tie_filtered : forall P s o w1 k1 r1 evs,
  buffer_idle (p_buf s) -> p_stopped s = false -> k_queue (p_k s) = [] ->
  (forall id, In id (map fst (p_tbl s)) -> (id < p_next s)%N) ->
  run_one (pc_filter P) (pc_reader P) (pc_full P) (p_world s) (p_k s) (p_r s) o = Some (w1, k1, r1, evs) ->
  exists nit s' obs, prun P s (tie_history P s o nit) [] = Done (s', obs) /\
    p_world s' = w1 /\ p_k s' = k1 /\ p_r s' = r1 /\ p_out s' = p_out s ++ evs.
Proof.
  intros P s o w1 kk1 rr1 evs Hidle Hstop Hkq Hfresh Hdel.
  unfold run_one in Hdel.
  destruct (apply_op (p_world s) o) as [w'|] eqn:Happ; [|discriminate].
  set (k1 := kernel_op (p_k s) (w_fs (p_world s)) o) in *.
  destruct (read_batch (pc_reader P) (w_fs w') (p_r s, kdrained k1, []) (k_queue k1)) as [[[r' k'] raws]|] eqn:Hrd;
    [|discriminate].
  inversion Hdel; subst w1 kk1 rr1 evs; clear Hdel.
  destruct s as [w k r [d rs] tbl0 nx out stopped]. cbn [p_world p_k p_r p_buf p_tbl p_next p_out p_stopped] in *.
  subst stopped. destruct Hidle as [Hq [Hcl [Hpc [Hb [Hg [Hds Hfr]]]]]]. cbn [fst snd] in *.
  destruct rs as [b0 g0 ds0 n0 its0 nr0]. cbn [batch grouped deleted_self items next_el] in *. subst b0 g0 ds0.
  destruct (number (pc_reader P) nx raws) as [nevs tbl] eqn:Hnum.
  destruct (number_spec _ _ _ _ _ Hnum) as [Hn1 [Hn2 [Hn3 Hn4]]].
  assert (HI : QInv d its0 n0 []).
  { constructor; [rewrite Hq; constructor | rewrite Hq; intros en [] | exact Hpc | exact Hcl | exact Hfr]. }
  destruct (reader_run_spec (pc_delay P) nevs d false n0 its0 (nr0 ++ nevs) Hq HI)
    as [d' [ds' [n' [its' [Hrun [HI' Hclk]]]]]].
  set (K := filter kept (ggo nevs [])) in *.
  exists (length K). unfold tie_history. cbn [p_k p_world]. fold k1.
  match goal with |- context [prun P ?s0 (AOp o :: _) _] =>
    assert (Hop : pstep P s0 (AOp o) =
                  Done ({| p_world := w'; p_k := k1; p_r := r; p_buf := (d, mkrst [] [] false n0 its0 nr0);
                           p_tbl := tbl0; p_next := nx; p_out := out; p_stopped := false |}, ONone))
      by (cbn [pstep p_world]; rewrite Happ; reflexivity);
    rewrite (prun_cons P _ _ _ _ _ _ Hop) end.
  erewrite prun_cons; [|rewrite (read_step P _ w' k1 r d its0 n0 nr0 out tbl0 nx raws r' k' eq_refl Hrd);
                         rewrite Hnum, Hrun; reflexivity].
  set (d2 := {| q := q d'; closed := closed d'; cl := cl d'; clock := clock d' + pc_delay P; pc := pc d';
               puts := puts d'; got := got d'; ends := ends d'; removed := removed d' |}).
  erewrite prun_cons with (s' := {| p_world := w'; p_k := k'; p_r := r';
                                    p_buf := (d2, mkrst [] [] ds' n' its' (nr0 ++ nevs));
                                    p_tbl := tbl0 ++ tbl; p_next := nx + N.of_nat (length raws); p_out := out;
                                    p_stopped := false |}); [|reflexivity].
  destruct HI' as [H1 H2 H3 H4 H5].
  match goal with |- context [prun P ?s3 (repeat AEmit _) ?acc] =>
    destruct (emit_loop_f P K (group_batch (pc_reader P) raws) s3 d2 (mkrst [] [] ds' n' its' (nr0 ++ nevs)) acc)
      as [s' [obs [Hrun' [Hw [Hk [Hr Hout]]]]]] end; try reflexivity.
  - exact H3.
  - exact H4.
  - exact H1.
  - intros en Hin. cbn [d2 q clock] in *. apply H2 in Hin. lia.
  - cbn [p_tbl]. unfold K, group_batch. apply Forall2_filter; [apply kept_put|].
    apply ggo_rel; [|constructor]. apply Hn4. exact Hfresh.
  - exists s', obs. split; [exact Hrun'|]. cbn [p_world p_k p_r] in Hw, Hk, Hr.
    split; [exact Hw|]. split; [exact Hk|]. split; [exact Hr|]. rewrite Hout. reflexivity.
Qed.

(* TWO PIPELINES on the same world - an unfiltered watch and a watch with event filter F - from idle twin
   states: one operation, one read of the whole queue, the pairing delay, enough calls of queue_events;
   the filtered watch's p_out grows by exactly the accepted part of what the unfiltered one's grows by. *)
Theorem pipeline_transparent_step F PU PF sU sF o :
  pc_filter PU = None -> pc_filter PF = F -> pc_full PF = pc_full PU ->
  c_mask (pc_reader PU) = WATCHDOG_ALL -> visible F (c_recursive (pc_reader PU)) ->
  pc_reader PF = with_mask (pc_reader PU) (kmask F (c_recursive (pc_reader PU))) ->
  p_world sF = p_world sU -> p_r sF = p_r sU ->
  kw0 WATCHDOG_ALL (kmask F (c_recursive (pc_reader PU))) (p_k sU) (p_k sF) ->
  buffer_idle (p_buf sU) -> buffer_idle (p_buf sF) -> p_stopped sU = false -> p_stopped sF = false ->
  (forall id, In id (map fst (p_tbl sU)) -> (id < p_next sU)%N) ->
  (forall id, In id (map fst (p_tbl sF)) -> (id < p_next sF)%N) ->
  k_queue (p_k sU) = [] -> k_queue (p_k sF) = [] ->
  regular_step F (pc_reader PU) (p_world sU) (p_k sU) (p_r sU) o ->
  forall w1 k1 r1 evs,
  run_one None (pc_reader PU) (pc_full PU) (p_world sU) (p_k sU) (p_r sU) o = Some (w1, k1, r1, evs) ->
  exists nU sU' obsU nF sF' obsF,
    prun PU sU (tie_history PU sU o nU) [] = Done (sU', obsU) /\
    prun PF sF (tie_history PF sF o nF) [] = Done (sF', obsF) /\
    p_out sU' = p_out sU ++ evs /\
    p_out sF' = p_out sF ++ filter (acc F) evs /\
    p_world sF' = p_world sU' /\ p_r sF' = p_r sU' /\
    kw0 WATCHDOG_ALL (kmask F (c_recursive (pc_reader PU))) (p_k sU') (p_k sF').
Proof.
  intros HU HF Hfull HM Hvis HC Hw Hr K IU IF SU SF FU FF QU QF Reg w1 k1 r1 evs Hrun.
  assert (J : qjunk (p_k sU)) by (intros e He; rewrite QU in He; destruct He).
  assert (Q : k_queue (p_k sU) = k_queue (p_k sF)) by (rewrite QU, QF; reflexivity).
  destruct (transparent_step F (pc_reader PU) HM Hvis (pc_full PU) (p_world sU) (p_k sU) (p_k sF) (p_r sU) o
                             w1 k1 r1 evs K Q J Reg Hrun) as [k1' [HrunF [K1 _]]].
  destruct (pipeline_tie_filtered PU sU o w1 k1 r1 evs IU SU QU FU) as [nU [sU' [obsU [RU [A1 [A2 [A3 A4]]]]]]].
  { rewrite HU. exact Hrun. }
  destruct (pipeline_tie_filtered PF sF o w1 k1' r1 (filter (acc F) evs) IF SF QF FF)
    as [nF [sF' [obsF [RF [B1 [B2 [B3 B4]]]]]]].
  { rewrite HF, HC, Hfull, Hw, Hr. exact HrunF. }
  exists nU, sU', obsU, nF, sF', obsF.
  repeat split; try assumption; try congruence; rewrite ?A2, ?B2; apply K1.
Qed.
