(* C05 - After unschedule/remove/stop returns, the removed handler is never called again. *)
Require Import WD.Base.Prelude WD.Model.Observer WD.Proofs.ObserverProofs WD.Proofs.ObserverInv WD.Proofs.ObserverRet
  WD.Proofs.ObserverDisp WD.Proofs.ObserverLive WD.Proofs.ObserverEm WD.Proofs.ObserverRet2 WD.Proofs.ObserverExamples.

(* In every run: if a callback (h,w,_) occurs after a removal event that covers (h,w) - the mutation of
   remove_handler_for_watch (GRemoved), unschedule / a failed start (GRemovedW), unschedule_all / stop
   (GRemovedAll) - then (h,w) was registered again in between.  The log is newest-first.
   The membership re-check before each callback is what makes this hold for re-entrant removals. *)
Theorem C05_no_callback_after_removal : forall s, reachable s ->
  forall l3 h w e l2 r l1, glog s = l3 ++ GCb h w e :: l2 ++ r :: l1 -> covers r h w -> In (GAdded h w) l2.
Proof. exact no_callback_after_removal. Qed.
Print Assumptions C05_no_callback_after_removal.

(* The removal events are issued by the removing calls before their Return (program order of `body`). *)
Theorem C05_removing_calls_remove : forall fx h w,
  In (IRemH h w) (body fx (CRemove h w)) /\ In (IUnsched w) (body fx (CUnschedule w)) /\
  In IClear (body fx CUnscheduleAll) /\ In IClear (body fx CStop).
Proof. exact removing_bodies. Qed.
Print Assumptions C05_removing_calls_remove.

(* A callback needs the handler to be registered now (and the dispatcher to be at a turn). *)
Theorem C05_callback_needs_membership : forall s t i k inp s' h w e x,
  exec s t i k inp = Some s' -> glog s' = GCb h w e :: x :: glog s ->
  i = DTurns /\ dcur s = Some (e, w) /\ memN h (dtodo s) = true /\
  memN h (hset w (handlers s)) = true /\ dtodo s' = remN h (dtodo s) /\ x = GTurn h.
Proof. exact exec_callback. Qed.
Print Assumptions C05_callback_needs_membership.

(* unschedule(w) continues with stop + join of the emitter it removed, before release and Return ... *)
Theorem C05_unschedule_joins : forall s t w k s' e,
  alookup N.eqb w (efw s) = Some e -> amem N.eqb w (handlers s) = true -> memE e (emitters s) = true ->
  exec s t (IUnsched w) k NoIn = Some s' ->
  cont s' t = IEmStop e :: IEmJoin e :: IDelWatch w :: k.
Proof. exact unschedule_joins. Qed.
Print Assumptions C05_unschedule_joins.

(* ... join returns only for an exited (or never started) emitter thread ... *)
Theorem C05_join_means_exited : forall s t e k inp s', exec s t (IEmJoin e) k inp = Some s' ->
  exists m, get_em s e = Some m /\ (em_started m = false \/ em_exited m = true).
Proof. exact join_means_exited. Qed.
Print Assumptions C05_join_means_exited.

(* ... and an exited emitter thread never takes a step again: no later put. *)
Theorem C05_exited_emitter_silent : forall s l e m,
  em_of l = Some e -> get_em s e = Some m -> em_exited m = true -> step s l = None.
Proof. exact exited_no_step. Qed.
Print Assumptions C05_exited_emitter_silent.

(* FULL STATEMENT, Return-label form (the log is newest-first).  If a callback (h,w,_) occurs after the
   non-raised Return of a call c by thread t that removes (h,w) - remove_handler_for_watch(h,w),
   unschedule(w), unschedule_all(), stop() - then: the call's removal event r lies between the call's
   begin and its Return (no begin of t's call c in between), and (h,w) was registered again after r.
   (The earlier formulation "re-added after the Return" is false of the code and of the model: another
   thread may re-add (h,w) between the removing call's release of the lock and its Return.) *)
Theorem C05_full : forall s, reachable s ->
  forall l3 h w e l2 t c l1, glog s = l3 ++ GCb h w e :: l2 ++ GRet t c false :: l1 ->
    (c = CRemove h w \/ c = CUnschedule w \/ c = CUnscheduleAll \/ c = CStop) ->
    exists la r lb, l1 = la ++ r :: lb /\ covers r h w /\
      (forall x, In x la -> is_call_of x t c = false) /\
      In (GAdded h w) (l2 ++ GRet t c false :: la).
Proof. exact no_callback_after_return. Qed.
Print Assumptions C05_full.

(* LockInv: an instruction that touches the registry - in particular the removal instruction of a removing
   call and everything up to its release, and every handler turn - is reached only with the lock held by
   the executing thread; callbacks are made by the dispatcher thread while it holds the lock. *)
Theorem C05_registry_access_under_lock : forall s t i k, reachable s -> cont s t = i :: k -> needs_lock i = true ->
  exists n, lock s = Some (t, S n).
Proof. exact needs_lock_owner. Qed.
Print Assumptions C05_registry_access_under_lock.

Theorem C05_callback_under_lock : forall s t i k inp s' h w e x, reachable s -> cont s t = i :: k ->
  exec s t i k inp = Some s' -> glog s' = GCb h w e :: x :: glog s ->
  t = TD /\ exists n, lock s = Some (TD, S n).
Proof. exact callback_under_lock. Qed.
Print Assumptions C05_callback_under_lock.

(* "Exited" is stable: once an emitter thread has exited it stays exited along every run. *)
Theorem C05_exited_stable : forall e s l s', exited_at e s -> step s l = Some s' -> exited_at e s'.
Proof. exact exited_stable. Qed.
Print Assumptions C05_exited_stable.

(* EMITTER HALF.  [GUnsched t w e] = unschedule(w) by t took emitter e out of the registry; [GEmJoin t' e ok] = a
   join of e returned (ok = false: the thread was never started).  By C05_unschedule_joins the removing call
   joins e before it releases the lock and returns.  In every run: after e was removed and joined, e never puts
   an event again - including the case of a removed, NEVER STARTED emitter, which is never started later. *)
Theorem C05_emitter_removed_joined_never_puts : forall s, reachable s ->
  forall a e w ev b2 t w0 b1 t' ok, glog s = a ++ GPut e w ev :: b2 ++ GUnsched t w0 e :: b1 ->
    In (GEmJoin t' e ok) b2 -> False.
Proof. exact removed_joined_never_puts. Qed.
Print Assumptions C05_emitter_removed_joined_never_puts.

(* The invariant behind it.  [Unreg s e]: e is not in the registry and no continuation holds an instruction that
   would start or register it.  It holds from the removal on, in every reachable state ... *)
Theorem C05_unscheduled_emitter_unregistered : forall s, reachable s ->
  forall t w e, In (GUnsched t w e) (glog s) -> Unreg s e.
Proof. exact unscheduled_emitter_unregistered. Qed.
Print Assumptions C05_unscheduled_emitter_unregistered.

(* ... it is stable, and together with "not running" (never started or exited) it is stable too: a retired
   emitter stays retired along every run and can take no step (at most one live emitter per watch outside the
   lock owner's pending stop/join). *)
Theorem C05_unregistered_stable : forall e s l s', Unreg s e -> step s l = Some s' -> Unreg s' e.
Proof. exact unregistered_stable. Qed.
Print Assumptions C05_unregistered_stable.

Theorem C05_retired_stable : forall e s l s', Retired s e -> step s l = Some s' -> Retired s' e.
Proof. exact retired_stable. Qed.
Print Assumptions C05_retired_stable.

Theorem C05_retired_silent : forall e s l, Retired s e -> em_of l = Some e -> step s l = None.
Proof. exact retired_silent. Qed.
Print Assumptions C05_retired_silent.

(* EMITTER HALF, FULL STATEMENT in Return-label form (the log is newest-first).  If an emitter e puts an event
   for w after the non-raised Return of unschedule(w) by thread t, then: between the begin of that call and its
   Return lie t's own removal event GUnsched t w e0 (the emitter the call took out of the registry) and, after it,
   t's own join of e0 (GEmJoin t e0 ok; ok = false: the emitter thread had never been started) - and e is NOT
   that emitter: the emitter of the unscheduled watch has stopped producing events, whether it was running or
   had never been started (it is never started later).  A put for w after the Return can only come from an
   emitter that a later schedule() created. *)
Theorem C05_emitter_full : forall s, reachable s ->
  forall l3 e w ev l2 t l1, glog s = l3 ++ GPut e w ev :: l2 ++ GRet t (CUnschedule w) false :: l1 ->
    exists la e0 lb, l1 = la ++ GUnsched t w e0 :: lb /\ (exists ok, In (GEmJoin t e0 ok) la) /\
      (forall x, In x la -> is_call_of x t (CUnschedule w) = false) /\ e <> e0.
Proof. exact no_put_after_unschedule_return. Qed.
Print Assumptions C05_emitter_full.

(* non-vacuity: a run with a put for the watch after the Return of its unschedule - by a new emitter *)
Example C05_emitter_full_nonvacuous :
  option_map (fun s => filter (fun g => match g with GUnsched _ _ _ | GEmJoin _ _ _ | GRet _ (CUnschedule _) _ | GPut _ _ _ | GEmNew _ _ => true
                                                    | _ => false end) (glog s))
             (run init tr_put_after_unschedule_return)
  = Some [GPut 1%nat 2%N 8%N; GEmNew 1%nat 2%N; GRet (TA 0) (CUnschedule 2%N) false;
          GEmJoin (TA 0) 0%nat true; GUnsched (TA 0) 2%N 0%nat; GPut 0%nat 2%N 7%N; GEmNew 0%nat 2%N].
Proof. vm_compute. reflexivity. Qed.

Example C05_emitter_nonvacuous :
  option_map (fun s => (filter (fun g => match g with GUnsched _ _ _ | GEmJoin _ _ _ => true | _ => false end) (glog s),
                        emitters s, map epcs (ems s), dstarted s,
                        step s (LECheck 0%nat), step s (LEPut 0%nat 7%N)))
             (run init tr_unschedule_unstarted)
  = Some ([GEmJoin (TA 0) 0%nat false; GUnsched (TA 0) 2%N 0%nat], [], [ENew], true, None, None).
Proof. vm_compute. reflexivity. Qed.

Example C05_nonvacuous :
  option_map (fun s => (delivered 1%N 2%N s, dequeued 2%N s, existsb (fun g => match g with GRemoved 1%N 2%N => true | _ => false end) (glog s)))
             (run init tr_remove) = Some ([7], [7; 8], true)%N.
Proof. vm_compute. reflexivity. Qed.
