(* The File/Dir flavour of the events of the Windows contract: correct for every event of every
   operation, with exactly one exception - a removed directory is reported with the File flavour
   (finding F11: FILE_ACTION_REMOVED does not say what was removed and the entry is gone). *)
Require Import WD.Base.Prelude WD.Base.BStr WD.Model.SubEvents WD.Proofs.SubEventsProofs.
Require Import WD.Model.PlatFs WD.Proofs.PlatFsProofs WD.Proofs.PlatReplayProofs WD.Proofs.PlatClosedProofs.
Require Import WD.Model.WinEmitter WD.Proofs.WinEmitterProofs WD.Proofs.WinReplayProofs.
Require Import Coq.Sorting.Permutation.

(* the tree has an entry of kind k at p *)
Definition kind_at (f : fs) (p : path) (k : kind) : Prop :=
  exists e, In e f /\ e_path e = p /\ e_kind e = k.

(* the flavour of an event is the kind of the entry it names: created / modified / moved-to in the
   tree after the operation, deleted in the tree before it *)
Definition flavour_ok (before after : fs) (e : aev) : Prop :=
  match e with
  | ACreated k p _ | AModified k p => kind_at after p k
  | AMoved k _ d _ => kind_at after d k
  | ADeleted k p => kind_at before p k
  end.

(* F11: a deleted event of the File flavour for what was a directory *)
Definition f11_exception (before : fs) (e : aev) : Prop :=
  exists p, e = ADeleted KFile p /\ kind_at before p KDir.

Lemma mem_lookup_w f p : fs_mem f p = true -> exists e, lookup f p = Some e.
Proof. unfold fs_mem. destruct (lookup f p) as [e|]; [now exists e | discriminate]. Qed.

Lemma lookup_kind_at f p e : lookup f p = Some e -> kind_at f p (e_kind e).
Proof. intros H. apply lookup_in in H as [Hin Hp]. now exists e. Qed.

Lemma kind_cases f p e : lookup f p = Some e ->
  (fs_isdir f p = true /\ e_kind e = KDir) \/ (fs_isdir f p = false /\ e_kind e = KFile).
Proof. unfold fs_isdir. intros ->. destruct (e_kind e); [right | left]; split; reflexivity. Qed.

Lemma in_below_inv f p r k : In (r, k) (below f p) -> kind_at f (p ++ r) k.
Proof.
  unfold below. intros H. apply in_flat_map in H as (e & He & Hin).
  destruct (under p (e_path e)) eqn:U; cbn [andb] in Hin; [|destruct Hin].
  destruct (negb (path_eqb (e_path e) p)); [|destruct Hin]. destruct Hin as [E|[]]. inversion E; subst.
  exists e. split; [exact He|]. split; [now apply under_split | reflexivity].
Qed.

Lemma syn_kind_at (sub : path -> tree) after t :
  Permutation (map (fun x => (snd x, fst x)) (desc [] (sub t))) (below after t) ->
  forall x, In x (desc [] (sub t)) -> kind_at after (t ++ snd x) (fst x).
Proof.
  intros P x Hx. apply in_below_inv. eapply Permutation_in; [exact P|].
  apply in_map_iff. exists x. split; [reflexivity | exact Hx].
Qed.

Theorem win_flavour (sub : path -> tree) (before : fs) (o : op) :
  closed_fs before -> op_names_ok o = true -> op_ok before o = true ->
  let after := apply_op before o in
  covers sub after o ->
  forall e, In e (win_contract sub true after o) -> flavour_ok before after e \/ f11_exception before e.
Proof.
  intros C Hn Ho after Hc e He. unfold covers in Hc.
  destruct o as [p i|p i|p|p|p|p|s d|s|d k i content]; cbn [target walks] in Hc;
    try (pose proof (Hc eq_refl) as P; clear Hc); cbn [win_contract] in He.
  - destruct He as [<-|[]]. left. subst after. cbn [flavour_ok apply_op].
    exists (Entry p KFile i). repeat split. apply in_or_app. right. now left.
  - destruct He as [<-|He]; left.
    + subst after. cbn [flavour_ok apply_op]. exists (Entry p KDir i). repeat split. apply in_or_app. right. now left.
    + apply in_map_iff in He as (x & <- & Hx). cbn [flavour_ok]. now apply (syn_kind_at sub after p).
  - destruct He as [<-|[]]. left. subst after. cbn [flavour_ok apply_op].
    cbn [op_ok] in Ho. destruct (lookup before p) as [e0|] eqn:El; [|discriminate].
    destruct (kind_cases _ _ _ El) as [[Hd Hk]|[Hd Hk]]; [rewrite Hk in Ho; discriminate|].
    rewrite Hd. cbn [dirkind]. rewrite <- Hk. now apply lookup_kind_at.
  - destruct He as [<-|[]]. left. subst after. cbn [flavour_ok apply_op].
    cbn [op_ok] in Ho. destruct (lookup before p) as [e0|] eqn:El; [|discriminate].
    destruct (kind_cases _ _ _ El) as [[Hd Hk]|[Hd Hk]]; [rewrite Hk in Ho; discriminate|].
    rewrite Hd. cbn [dirkind]. rewrite <- Hk. now apply lookup_kind_at.
  - destruct He as [<-|[]]. left. cbn [flavour_ok].
    cbn [op_ok] in Ho. destruct (lookup before p) as [e0|] eqn:El; [|discriminate].
    destruct (kind_cases _ _ _ El) as [[Hd Hk]|[Hd Hk]]; [rewrite Hk in Ho; discriminate|].
    rewrite <- Hk. now apply lookup_kind_at.
  - (* rmdir: F11 *)
    destruct He as [<-|[]]. right. exists p. split; [reflexivity|].
    cbn [op_ok] in Ho. apply andb_true_iff in Ho as [Ho _].
    pose proof Ho as Hd. apply isdir_mem, mem_lookup_w in Ho as (e0 & El).
    destruct (kind_cases _ _ _ El) as [[_ Hk]|[Hd' _]]; [|congruence]. rewrite <- Hk. now apply lookup_kind_at.
  - (* rename *)
    destruct (rename_ok _ _ _ Hn Ho) as (Hs & Hd & Hms & Hmd & Hsd).
    subst after. rewrite isdir_after_rename in He by assumption.
    apply mem_lookup_w in Hms as (e0 & El). pose proof (lookup_in _ _ _ El) as [Hin Hp].
    assert (Hdst : kind_at (apply_op before (ORename s d)) d (e_kind e0)).
    { cbn [apply_op]. eexists. split; [apply in_map; exact Hin|]. rewrite Hp, under_refl'. cbn [e_path e_kind].
      unfold reprefix. now rewrite skipn_all, app_nil_r. }
    left. destruct (kind_cases _ _ _ El) as [[Hdir Hk]|[Hdir Hk]]; rewrite Hdir in He.
    + destruct He as [<-|He]; [cbn [flavour_ok]; now rewrite <- Hk|].
      apply in_map_iff in He as (x & <- & Hx). cbn [flavour_ok]. now apply (syn_kind_at sub _ d).
    + destruct He as [<-|[]]. cbn [flavour_ok]. now rewrite <- Hk.
  - (* move out: F11 when the entry was a directory *)
    destruct He as [<-|[]]. cbn [op_ok] in Ho. apply mem_lookup_w in Ho as (e0 & El).
    destruct (kind_cases _ _ _ El) as [[_ Hk]|[_ Hk]].
    + right. exists s. split; [reflexivity|]. rewrite <- Hk. now apply lookup_kind_at.
    + left. cbn [flavour_ok]. rewrite <- Hk. now apply lookup_kind_at.
  - destruct He as [<-|He]; left.
    + subst after. cbn [flavour_ok apply_op]. exists (Entry d k i). repeat split. apply in_or_app. right. now left.
    + destruct k; [destruct He|]. apply in_map_iff in He as (x & <- & Hx). cbn [flavour_ok].
      now apply (syn_kind_at sub after d).
Qed.
