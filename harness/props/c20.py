"""C20 - other platforms and the two binary buffer codecs.

Part 1 (codecs, proved): real Inotify._parse_event_buffer and real winapi._parse_event_buffer (imported on
Linux through harness/shims.py) against the extracted models `codecinotify` / `codecwin`, on buffers built
here with `struct` (independent of the model's encoder, which is compared too).  Oracle: decode(encode(rs)) == rs.
Part 2 (Windows emitter) and part 3 (FSEvents emitter): see harness/props/c20_emit.py (imported below when present).
"""
from __future__ import annotations

import struct

from harness import core
from harness.core import Atom, Failure, Mismatch, Result, sx

MANIFEST = dict(
    design_ref="DESIGN.md §6 Group N (C20)",
    text="Codecs: C20_inotify_roundtrip / C20_win_roundtrip (every record count, name length, padding; induction, no bound) over "
         "byte-level models of Inotify._parse_event_buffer and winapi._parse_event_buffer; C20_win_bom_refuted records F8. "
         "Windows emitter: C20_win_contract / C20_win_contract_cut (every tree, every operation, every cut of the notifications "
         "into reads: the action table queues exactly the per-operation contract, synthetic events via C14), C20_win_replay "
         "(replaying the contract of ANY operation, directories with content included, reproduces the tree: chain of exact "
         "re-keys = prefix rename), C20_win_replay_full (every history rendered as one notification stream, EVERY cut of it "
         "into reads, oracles agreeing on each operation's own paths: the emitter queues the contracts and they replay to the "
         "final tree), C20_win_flavour_F11 (every event has the right File/Dir flavour except deleted-directory events = F11), "
         "C20_win_replay_history and C20_win_history (per-step oracles). FSEvents emitter: "
         "C20_fsevents_flat(+_depth) for every batch; C20_fsevents_created_removed_forgets (the created-and-removed branch leaves "
         "the inode out of _fs_view - needed under sticky per-item flags across batch cuts and inode re-use); C20_fsevents_contract (all operations, one operation per batch, no "
         "coalescing, recursive or not), C20_fsevents_replay, C20_fsevents_history (emitter over whole histories with the "
         "_fs_view carried along, under no-inode-reuse - necessity shown by C20_fsevents_inode_reuse_refuted); multi-operation "
         "batches: C20_fsevents_batch_partial under the exact hypotheses batch_ok (stat_ok, no_partner, covers), "
         "C20_fsevents_coalesce_distinct, cut rename pair: C20_fsevents_cut_events_partial / _cut_replay_partial; the "
         "unrestricted batched law is refuted in Coq (C20_fsevents_batched_full_refuted = findings F12a-e). All models and the "
         "contract functions are tied to /repo by running the extracted OCaml models and the real functions (imported on "
         "Linux through shims) on the same inputs on every run.",
    note="Trusted: Coq kernel; struct 'iIII' = little-endian 4x32 bit on this machine; ctypes reads; CPython's utf-16 codecs "
         "(validated against the model on every run). ReadDirectoryChangesW and FSEvents semantics are modelled from the "
         "documentation and cannot be validated in this sandbox; os.path is posixpath here (ntpath on Windows); os.path.isdir / "
         "os.stat / os.walk are oracles assumed to answer for the tree at processing time. Known findings F11 (REMOVED always "
         "File flavour) and F12a-e (FSEvents rename pairing / os.stat look-up inside one multi-operation batch).",
    technique="Coq proof (induction over record lists / per-operation case analysis / induction over histories and batches) + "
              "differential correspondence via extracted OCaml model + implementation-level oracle on a real scratch directory",
)

TRUSTED = [
    "modelled, not verified: struct format 'iIII' is 4 little-endian 32-bit fields without padding (true on this x86-64 "
    "Linux; compared against the model encoder on every run); ctypes.cast/string_at read the bytes they are pointed at",
    "modelled, not verified: CPython bytes.decode('utf-16-le') / ('utf-16') (strict errors, BOM handling) - model "
    "CodecWin.dec_utf16_le/dec_utf16_bom validated against CPython on every run",
    "modelled from documentation, cannot be validated in this sandbox: ReadDirectoryChangesW notification semantics "
    "(FILE_ACTION_* per operation, RENAMED_OLD_NAME immediately followed by RENAMED_NEW_NAME, rename across the watch "
    "boundary = REMOVED/ADDED) and FSEvents semantics (per-item flags, flag coalescing per (item, path), a renamed item "
    "reported once per path with the same inode); the Windows/macOS modules run on Linux through harness/shims.py with "
    "os.path = posixpath",
]
ASSUMPTIONS = [
    "inotify records: wd in int32, mask/cookie/len in uint32, name does not end in NUL (true of every file name); any padding >= 0",
    "Windows records: Action and entry size fit a DWORD; names are sequences of Unicode scalar values (a lone surrogate, "
    "which NTFS permits, makes both the pinned and the repaired decoder raise UnicodeDecodeError - outside 'well-formed')",
    "emitters: native notification sequences are those of the documented-semantics simulators win_kernel / fsevents_kernel; "
    "the emitter runs after the operation has completed (one operation per batch) unless a theorem says otherwise "
    "(C20_win_contract_cut: any cut into reads; C20_fsevents_batch_partial: several operations per batch under batch_ok)",
    "FSEvents histories: a created file or directory gets an inode number never seen before while the emitter lives "
    "(fse_history_ok; C20_fsevents_inode_reuse_refuted shows the emitter misses a creation otherwise)",
]


# ------------------------------------------------------------------ helpers
def atom_bytes(a) -> bytes:
    return bytes.fromhex(a[1:]) if isinstance(a, str) else bytes(int(c) for c in a)


def cps_str(l) -> str:
    return "".join(chr(int(c)) for c in l)


def short(o, n=300):
    s = repr(o)
    return s if len(s) <= n else s[:n] + "..."


# ------------------------------------------------------------------ inotify codec
def ino_pack(recs) -> bytes:
    """Independent encoder: recs = [(wd, mask, cookie, name, pad)]."""
    out = b""
    for wd, mask, cookie, name, pad in recs:
        out += struct.pack("iIII", wd, mask, cookie, len(name) + pad) + name + b"\0" * pad
    return out


def ino_name(rng, n):
    """n bytes, no NUL at the end (NULs inside are allowed by the theorem; the kernel never produces them)."""
    if n == 0:
        return b""
    alpha = bytes(range(1, 256))
    b = bytearray(rng.choice(alpha) for _ in range(n))
    if n > 2 and rng.random() < 0.1:
        b[rng.randrange(n - 1)] = 0          # an inner NUL: still round-trips
    return bytes(b)


def ino_cases(ctx):
    rng = ctx.rng("inotify-codec")
    cases = []
    # every name length 0..40 x every padding 0..17 and the kernel's padding (to a multiple of 16, >= 1 NUL)
    for n in range(0, 41):
        pads = list(range(0, 18)) + [(n // 16 + 1) * 16 - n if n else 0, 31, 32]
        for pad in pads:
            wd = rng.choice([1, 2, 7, -1, 2**31 - 1, -2**31, rng.randrange(-2**31, 2**31)])
            mask = rng.choice([0x100, 0x40000100, 0x4000, 0x8000, 0x80, 0x40, 2**32 - 1, rng.randrange(2**32)])
            cookie = rng.choice([0, 0, 1, 77, 2**32 - 1, rng.randrange(2**32)])
            cases.append(("grid", [(wd, mask, cookie, ino_name(rng, n), pad)]))
    # random record lists of every count 0..12 (thorough: ..40)
    nlists = 300 if not ctx.thorough else 3000
    for i in range(nlists):
        k = i % (13 if not ctx.thorough else 41)
        recs = []
        for _ in range(k):
            n = rng.choice([0, 0, 1, 2, 3, 15, 16, 17, 40, rng.randrange(0, 41), rng.randrange(0, 300)])
            pad = rng.choice([0, 1, 2, 15, 16, (n // 16 + 1) * 16 - n, rng.randrange(0, 40)])
            recs.append((rng.randrange(-2**31, 2**31) if rng.random() < 0.3 else rng.randrange(1, 50),
                         rng.randrange(2**32), rng.choice([0, rng.randrange(2**32)]), ino_name(rng, n), pad))
        cases.append(("list", recs))
    return cases


def run_inotify_codec(ctx, res: Result, extra=None):
    from watchdog.observers.inotify_c import Inotify

    cases = (extra or []) + ino_cases(ctx)
    rng = ctx.rng("inotify-malformed")
    wire_enc, wire_dec, metas = [], [], []
    for kind, recs in cases:
        buf = ino_pack(recs)
        got = [(wd, mask, cookie, name) for wd, mask, cookie, name in Inotify._parse_event_buffer(buf)]
        want = [(wd, mask, cookie, name) for wd, mask, cookie, name, _ in recs]
        res.evaluations += 1
        res.hist("inotify_records", len(recs))
        for r in recs:
            res.hist("inotify_name_len", min(len(r[3]), 41))
            res.hist("inotify_pad", min(r[4], 18))
        if len(recs) >= 2 or (recs and (recs[0][4] == 0 or not recs[0][3])):
            res.nontrivial.add(core.digest(["ino", [(len(r[3]), r[4]) for r in recs], len(recs)]))
        if got != want:
            bad = next((i for i, (g, w) in enumerate(zip(got, want)) if g != w), min(len(got), len(want)))
            res.failures.append(Failure(
                what="inotify buffer: decode(encode(records)) != records",
                case={"codec": "inotify", "records": [[r[0], r[1], r[2], r[3].hex(), r[4]] for r in recs]},
                signature={"fn": "Inotify._parse_event_buffer", "law": "roundtrip"},
                observed=short(got[bad:bad + 1]), expected=short(want[bad:bad + 1])))
        wire_enc.append(sx([Atom("enc"), [[r[0], r[1], r[2], r[3], r[4]] for r in recs]]))
        wire_dec.append(sx([Atom("dec"), buf]))
        metas.append((kind, recs, buf, got))
    if len(res.samples) < 2 and cases:
        k, recs = cases[len(cases) // 2]
        res.samples.append({"codec": "inotify", "records(wd,mask,cookie,name,pad)": [[r[0], r[1], r[2], r[3].hex(), r[4]] for r in recs][:4],
                            "buffer": ino_pack(recs).hex()[:160]})
    # malformed / arbitrary buffers: the parser is total, model and code must agree (no oracle)
    nm = 200 if not ctx.thorough else 2000
    mal = []
    for i in range(nm):
        base = ino_pack([(rng.randrange(1, 9), rng.randrange(2**32), 0, ino_name(rng, rng.randrange(0, 20)), rng.randrange(0, 17))
                         for _ in range(rng.randrange(0, 4))])
        mode = i % 4
        if mode == 0:
            buf = base[: rng.randrange(0, len(base) + 1)]                       # truncated
        elif mode == 1:
            buf = base + bytes(rng.randrange(256) for _ in range(rng.randrange(0, 20)))   # trailing junk
        elif mode == 2:
            buf = bytes(rng.choice([0, 0, 0, 1, 16, 255, rng.randrange(256)]) for _ in range(rng.randrange(0, 80)))
        else:
            b = bytearray(base)
            if b:
                b[rng.randrange(len(b))] = rng.choice([0, 1, 4, 255])            # one corrupted byte
            buf = bytes(b)
        mal.append(buf)
        res.hist("inotify_malformed", ["truncated", "junk", "random", "corrupt"][mode])
    outs_e = core.run_model("codecinotify", wire_enc)
    outs_d = core.run_model("codecinotify", wire_dec + [sx([Atom("dec"), b]) for b in mal])
    for (kind, recs, buf, got), oe, od in zip(metas, outs_e, outs_d):
        res.traces_validated += 2
        if not isinstance(oe, str) or atom_bytes(oe) != buf:
            res.mismatches.append(Mismatch("CodecInotify.encode vs struct.pack", short(recs), short(oe), buf.hex()[:300]))
        mo = model_ino(od)
        if mo != got:
            res.mismatches.append(Mismatch("CodecInotify.decode vs Inotify._parse_event_buffer", buf.hex()[:300], short(mo), short(got)))
    for buf, od in zip(mal, outs_d[len(metas):]):
        res.evaluations += 1
        res.traces_validated += 1
        got = list(Inotify._parse_event_buffer(buf))
        mo = model_ino(od)
        if mo != got:
            res.mismatches.append(Mismatch("CodecInotify.decode vs Inotify._parse_event_buffer (malformed)", buf.hex()[:300], short(mo), short(got)))


def model_ino(o):
    if o == "none" or not isinstance(o, list) or o[0] != "some":
        return o
    return [(int(wd), int(mask), int(cookie), atom_bytes(name)) for wd, mask, cookie, name in o[1]]


# ------------------------------------------------------------------ Windows codec
WIN_ALPHA = ["a", "b", "Z", ".", " ", "\\", "é", "愀", "a", "﻿", "￾", "￿", "퟿", "",
             "\U0001f600", "\U00010000", "\U0010ffff", "ÿ", "Ā", "\x00"]


def win_pack(recs) -> bytes:
    """Independent encoder: recs = [(action, name: str, pad: bytes)]; chain with NextEntryOffset, last = 0."""
    out = b""
    for i, (action, name, pad) in enumerate(recs):
        nb = name.encode("utf-16-le", "surrogatepass")
        size = 12 + len(nb) + len(pad)
        out += struct.pack("<III", 0 if i == len(recs) - 1 else size, action, len(nb)) + nb + pad
    return out


def win_name(rng, n, lead=None):
    s = "".join(rng.choice(WIN_ALPHA) for _ in range(n))
    if lead is not None and n:
        s = lead + s[1:]
    return s


def align_pad(name: str) -> int:
    return (-(12 + len(name.encode("utf-16-le", "surrogatepass")))) % 4


def win_cases(ctx):
    rng = ctx.rng("win-codec")
    cases = []
    for n in range(0, 41):
        for padn in (0, 1, 2, 3, None):
            for lead in (None, "﻿", "￾", "a"):
                if n == 0 and lead:
                    continue
                name = win_name(rng, n, lead)
                p = align_pad(name) if padn is None else padn
                pad = bytes(rng.choice([0, 0, 0xFF, 0xFE, rng.randrange(256)]) for _ in range(p))
                cases.append(("grid", [(rng.choice([1, 2, 3, 4, 5, 0xFFFE, 0xFFFF, 2**32 - 1]), name, pad)]))
    nlists = 300 if not ctx.thorough else 3000
    for i in range(nlists):
        k = i % (13 if not ctx.thorough else 41)
        recs = []
        for _ in range(k):
            n = rng.choice([0, 1, 1, 2, 3, 8, 40, rng.randrange(0, 41), rng.randrange(0, 260)])
            name = win_name(rng, n, rng.choice([None, None, None, "﻿", "￾"]))
            p = rng.choice([align_pad(name), 0, 1, 2, 3, rng.randrange(0, 9)])
            recs.append((rng.choice([1, 2, 3, 4, 5]), name, bytes(rng.randrange(256) for _ in range(p))))
        cases.append(("list", recs))
    return cases


def lead_class(name: str) -> str:
    if name[:1] == "﻿":
        return "U+FEFF"
    if name[:1] == "￾":
        return "U+FFFE"
    return "other"


def real_win_parse(winapi, buf: bytes, n: int):
    try:
        return [(a, s) for a, s in winapi._parse_event_buffer(buf, n)]
    except UnicodeDecodeError:
        return "decerr"


def model_win(o):
    if isinstance(o, list) and o and o[0] == "ok":
        return [(int(a), cps_str(name)) for a, name in o[1]]
    return o


def run_win_codec(ctx, res: Result, extra=None):
    from harness import shims

    winapi = shims.winapi()
    rng = ctx.rng("win-junk")
    cases = (extra or []) + win_cases(ctx)
    wire_enc, wire_dec, metas = [], [], []
    for kind, recs in cases:
        buf = win_pack(recs)
        junk = bytes(rng.randrange(256) for _ in range(rng.choice([0, 0, 3, 16])))
        got = real_win_parse(winapi, buf + junk, len(buf))
        want = [(a, s) for a, s, _ in recs]
        res.evaluations += 1
        res.hist("win_records", len(recs))
        for r in recs:
            res.hist("win_name_len", min(len(r[1]), 41))
            res.hist("win_pad", min(len(r[2]), 9))
            res.hist("win_first_char", lead_class(r[1]))
        if len(recs) >= 2 or any(lead_class(r[1]) != "other" or any(ord(c) > 0xFFFF for c in r[1]) for r in recs):
            res.nontrivial.add(core.digest(["win", [(r[1], len(r[2])) for r in recs]]))
        if got != want:
            bad = 0
            if isinstance(got, list):
                bad = next((i for i, (g, w) in enumerate(zip(got, want)) if g != w), min(len(got), len(want)))
            culprit = recs[bad][1] if bad < len(recs) else ""
            res.failures.append(Failure(
                what="ReadDirectoryChangesW buffer: decode(encode(records)) != records",
                case={"codec": "win", "records": [[r[0], [ord(c) for c in r[1]], r[2].hex()] for r in recs]},
                signature={"fn": "winapi._parse_event_buffer", "law": "roundtrip", "name_starts_with": lead_class(culprit)},
                observed=short(got[bad:bad + 1] if isinstance(got, list) else got),
                expected=short(want[bad:bad + 1])))
        wire_enc.append(sx([Atom("enc"), [[r[0], [ord(c) for c in r[1]], r[2]] for r in recs]]))
        wire_dec.append(sx([Atom("parse"), Atom("le"), buf + junk, len(buf)]))
        metas.append((recs, buf, junk, got))
    if cases:
        k, recs = cases[len(cases) // 3]
        res.samples.append({"codec": "win", "records(action,name,pad)": [[r[0], r[1], r[2].hex()] for r in recs][:4],
                            "buffer": win_pack(recs).hex()[:160]})
    # outside the theorem's hypotheses (no oracle): lone surrogates, odd FileNameLength, n_bytes = 0
    mal = []
    for i in range(120 if not ctx.thorough else 1200):
        mode = i % 3
        if mode == 0:
            name = win_name(rng, rng.randrange(0, 6)) + rng.choice(["\ud800", "\udc00", "\udbffa", "\udfff"]) + win_name(rng, rng.randrange(0, 3))
            recs = [(1, "ok", b""), (2, name, b"\0\0")]
            buf = win_pack(recs)
            mal.append((buf, len(buf)))
        elif mode == 1:
            nb = win_name(rng, rng.randrange(1, 6)).encode("utf-16-le")
            odd = len(nb) - 1
            buf = struct.pack("<III", 0, 3, odd) + nb + b"\0\0"
            mal.append((buf, len(buf)))
        else:
            buf = win_pack([(1, win_name(rng, 3), b"")])
            mal.append((buf, 0))
        res.hist("win_malformed", ["lone-surrogate", "odd-length", "n_bytes=0"][mode])
    outs_e = core.run_model("codecwin", wire_enc)
    outs_d = core.run_model("codecwin", wire_dec + [sx([Atom("parse"), Atom("le"), b, n]) for b, n in mal])
    # the codec of the *pinned* code is kept in the model as dec_utf16_bom: validate it against CPython's "utf-16"
    boms, bom_wire = [], []
    for kind, recs in cases[:: 7]:
        for r in recs[:2]:
            nb = r[1].encode("utf-16-le", "surrogatepass")
            try:
                py = nb.decode("utf-16")
            except UnicodeDecodeError:
                py = "decerr"
            boms.append((nb, py))
            bom_wire.append(sx([Atom("parse"), Atom("bom"), struct.pack("<III", 0, 1, len(nb)) + nb, 12 + len(nb)]))
    outs_b = core.run_model("codecwin", bom_wire)
    for (recs, buf, junk, got), oe, od in zip(metas, outs_e, outs_d):
        res.traces_validated += 2
        if not isinstance(oe, str) or atom_bytes(oe) != buf:
            res.mismatches.append(Mismatch("CodecWin.encode vs struct.pack", short(recs), short(oe), buf.hex()[:300]))
        mo = model_win(od)
        if mo != got:
            res.mismatches.append(Mismatch("CodecWin.parse dec_utf16_le vs winapi._parse_event_buffer", (buf + junk).hex()[:300], short(mo), short(got)))
    for (buf, n), od in zip(mal, outs_d[len(metas):]):
        res.evaluations += 1
        res.traces_validated += 1
        got = real_win_parse(winapi, buf, n)
        mo = model_win(od)
        # a decode error depends on the codec only through the BOM: compare with the repaired model unless the
        # pinned codec swallowed a BOM (never generated here: malformed names never start with U+FEFF/U+FFFE)
        if mo != got:
            res.mismatches.append(Mismatch("CodecWin.parse vs winapi._parse_event_buffer (outside hypotheses)", buf.hex()[:300], short(mo), short(got)))
    for (nb, py), ob in zip(boms, outs_b):
        res.traces_validated += 1
        mo = model_win(ob)
        mo = mo[0][1] if isinstance(mo, list) else mo
        if mo != py:
            res.mismatches.append(Mismatch("CodecWin.dec_utf16_bom vs bytes.decode('utf-16')", nb.hex()[:200], short(mo), short(py)))


# ------------------------------------------------------------------ driver entry points
def corpus_cases(ctx):
    ino, win = [], []
    for c in ctx.corpus():
        c = c.get("case", c)
        if c.get("codec") == "inotify":
            ino.append(("corpus", [(r[0], r[1], r[2], bytes.fromhex(r[3]), r[4]) for r in c["records"]]))
        elif c.get("codec") == "win":
            win.append(("corpus", [(r[0], cps_str(r[1]), bytes.fromhex(r[2])) for r in c["records"]]))
    return ino, win


def run(ctx) -> Result:
    res = Result()
    res.rule = ("codecs: every name length 0-40 x paddings (inotify 0-17, kernel padding, 31, 32; Windows 0-3 and DWORD alignment) "
                "x first character {ordinary, U+FEFF, U+FFFE} as single records, plus random record lists of every count 0-12 "
                "(thorough 0-40); distinct = (name lengths/paddings | names) of the list; non-trivial = >= 2 records, or empty "
                "name / zero padding (inotify), or a BOM-like first character / astral character (Windows). "
                "Emitters: see notes.")
    ino, win = corpus_cases(ctx)
    run_inotify_codec(ctx, res, ino)
    run_win_codec(ctx, res, win)
    try:
        from harness.props import c20_emit
    except ImportError:
        c20_emit = None
    if c20_emit is not None:
        c20_emit.run(ctx, res)
    return res


def replay(ctx, obj) -> int:
    case = obj.get("case", obj)
    print("replay case:", short(case, 600))
    res = Result()
    if isinstance(case, dict) and case.get("codec") == "inotify":
        run_one = [("replay", [(r[0], r[1], r[2], bytes.fromhex(r[3]), r[4]) for r in case["records"]])]
        _only(ctx, res, run_inotify_codec, run_one)
    elif isinstance(case, dict) and case.get("codec") == "win":
        run_one = [("replay", [(r[0], cps_str(r[1]), bytes.fromhex(r[2])) for r in case["records"]])]
        _only(ctx, res, run_win_codec, run_one)
    else:
        from harness.props import c20_emit
        c20_emit.replay(ctx, case, res)
    for f in res.failures:
        print("FAIL:", f.what, "| observed", f.observed, "| expected", f.expected, "| signature", f.signature)
    for m in res.mismatches:
        print("MISMATCH:", m.pair, "| model", m.model, "| impl", m.impl)
    if not res.failures and not res.mismatches:
        print("replay: case passes")
    return 1 if res.failures or res.mismatches else 0


def _only(ctx, res, fn, cases):
    """Run one codec runner on exactly the given cases (generators switched off)."""
    import harness.props.c20 as me
    saved = me.ino_cases, me.win_cases
    me.ino_cases = lambda c: []
    me.win_cases = lambda c: []
    try:
        fn(ctx, res, cases)
    finally:
        me.ino_cases, me.win_cases = saved
