(* C11, between emitter and handler: the skip-repeats event queue (C16) may drop an event that is equal to the
   most recently queued one.  Whatever it drops on either side, the two delivered streams stay related up to
   stutter. *)
Require Import WD.Base.Prelude WD.Base.BStr WD.Model.SubEvents WD.Model.Emitter WD.Model.MaskTable WD.Model.Fs WD.Model.Reader
               WD.Proofs.C11Proofs.
Require Import WD.Proofs.C11TwinProofs WD.Proofs.C11SeqProofs WD.Proofs.C11FlatProofs WD.Proofs.C11InertProofs
               WD.Proofs.C11LagProofs.

Lemma evclass_eqb_eq a b : evclass_eqb a b = true -> a = b.
Proof. destruct a, b; simpl; intros H; try reflexivity; discriminate. Qed.

Lemma nevent_eqb_eq a b : nevent_eqb a b = true -> a = b.
Proof.
  unfold nevent_eqb. intros H. apply andb_true_iff in H as [H H4]. apply andb_true_iff in H as [H H3].
  apply andb_true_iff in H as [H1 H2]. apply evclass_eqb_eq in H1. apply beqb_eq in H2, H3. apply Bool.eqb_prop in H4.
  destruct a, b; simpl in *; congruence.
Qed.

(* [skips last puts kept]: [kept] is what a skip-repeats queue whose most recently queued item is [last] may
   keep of the sequence of puts [puts] - a put equal to the most recently queued item may be dropped
   (the real queue forgets that item once it has been consumed: it then drops less, never more) *)
Inductive skips : option nevent -> list nevent -> list nevent -> Prop :=
| sk_nil o : skips o [] []
| sk_keep o x l k : skips (Some x) l k -> skips o (x :: l) (x :: k)
| sk_drop y x l k : nevent_eqb y x = true -> skips (Some y) l k -> skips (Some y) (x :: l) k.

Definition pre (o : option nevent) : list nevent := match o with Some y => [y] | None => [] end.

(* collapse is local *)
Lemma collapse_cons_cons a b l :
  collapse (a :: b :: l) = if nevent_eqb a b then collapse (b :: l) else a :: collapse (b :: l).
Proof. reflexivity. Qed.

(* the first element of a non-empty list survives collapsing, possibly as a later equal copy *)
Lemma collapse_first a l : exists r, collapse (a :: l) = a :: r.
Proof.
  revert a. induction l as [|b l IH]; intros a; [exists []; reflexivity|].
  rewrite collapse_cons_cons. destruct (nevent_eqb a b) eqn:E.
  - apply nevent_eqb_eq in E. subst b. apply IH.
  - eexists. reflexivity.
Qed.

Lemma collapse_idem l : collapse (collapse l) = collapse l.
Proof.
  induction l as [|a l IH]; [reflexivity|]. destruct l as [|b l]; [reflexivity|].
  rewrite collapse_cons_cons. destruct (nevent_eqb a b) eqn:E; [exact IH|].
  destruct (collapse_first b l) as [r Hr]. rewrite Hr in *. rewrite collapse_cons_cons, E. now rewrite IH.
Qed.

Lemma collapse_app_r P A : collapse (P ++ A) = collapse (P ++ collapse A).
Proof.
  induction P as [|p P IH]; [symmetry; apply collapse_idem|].
  destruct P as [|q P].
  - cbn [app]. destruct A as [|a A]; [reflexivity|].
    destruct (collapse_first a A) as [r Hr]. rewrite Hr.
    rewrite !collapse_cons_cons. rewrite <- Hr. rewrite collapse_idem. reflexivity.
  - cbn [app] in *. rewrite !collapse_cons_cons. now rewrite IH.
Qed.

Lemma collapse_congr P A B : collapse A = collapse B -> collapse (P ++ A) = collapse (P ++ B).
Proof. intros H. rewrite (collapse_app_r P A), (collapse_app_r P B), H. reflexivity. Qed.

(* dropping a repeat of the most recently queued item is invisible after collapsing, also through a filter *)
Lemma skips_collapse_filter (f : nevent -> bool) o puts kept : skips o puts kept ->
  collapse (filter f (pre o ++ kept)) = collapse (filter f (pre o ++ puts)).
Proof.
  induction 1 as [o | o x l k H IH | y x l k E H IH].
  - reflexivity.
  - cbn [pre app] in IH. rewrite !filter_app. apply collapse_congr.
    cbn [filter] in *. exact IH.
  - apply nevent_eqb_eq in E. subst x. cbn [pre app filter] in *.
    destruct (f y) eqn:Fy; [|exact IH].
    rewrite IH. rewrite collapse_cons_cons, nevent_eqb_refl. reflexivity.
Qed.

Lemma filter_true {A} (l : list A) : filter (fun _ => true) l = l.
Proof. induction l as [|a l IH]; simpl; [reflexivity | now rewrite IH]. Qed.

Lemma skips_collapse puts kept : skips None puts kept -> collapse kept = collapse puts.
Proof.
  intros H. pose proof (skips_collapse_filter (fun _ => true) None puts kept H) as E.
  cbn [pre app] in E. now rewrite !filter_true in E.
Qed.

(* THE CLOSURE UNDER THE SKIP-REPEATS QUEUE *)
Theorem stutter_closure F putsU keptU putsF keptF :
  putsF = filter (acc F) putsU -> skips None putsU keptU -> skips None putsF keptF ->
  stutter_eq keptF (filter (acc F) keptU).
Proof.
  intros -> HU HF. unfold stutter_eq.
  rewrite (skips_collapse _ _ HF).
  pose proof (skips_collapse_filter (acc F) None putsU keptU HU) as E. cbn [pre app] in E. now rewrite E.
Qed.

(* drained histories, as seen by the HANDLERS behind their skip-repeats queues *)
Theorem handler_sequential F C full :
  c_mask C = WATCHDOG_ALL -> c_root C <> [] -> last_is_sep (c_root C) = false ->
  forall w ops evsU, Forall op_ok ops ->
    (c_recursive C = true -> c_fix_moveout C = true -> tidy_from C full w ops) ->
    run_from None C full w ops = Some evsU ->
    exists evsF, run_from F (with_mask C (kmask F (c_recursive C))) full w ops = Some evsF /\
      forall keptU keptF, skips None evsU keptU -> skips None evsF keptF ->
        stutter_eq keptF (filter (acc F) keptU).
Proof.
  intros HM R1 R2 w ops evsU Hops Hreg H.
  exists (filter (acc F) evsU). split; [apply transparent_from_all; assumption|].
  intros keptU keptF HU HF. eapply stutter_closure; [reflexivity | exact HU | exact HF].
Qed.

(* ------------------------------------------------------------------ C11_full, instantiated with the drained semantics *)
Record dhist := { dh_cfg : cfg; dh_world : world; dh_ops : list op }.

Definition with_rec (C : cfg) (recursive : bool) : cfg :=
  {| c_recursive := recursive; c_mask := c_mask C; c_root := c_root C; c_fix_ignored := c_fix_ignored C;
     c_fix_movein := c_fix_movein C; c_fix_simulate := c_fix_simulate C; c_fix_relabel := c_fix_relabel C; c_fix_moveout := c_fix_moveout C;
     c_faults := c_faults C |}.

(* the events queued over a history in which every operation is drained, for a watch with filter F *)
Definition events_drained (F : option (list evbase)) (full_events recursive : bool) (h : dhist) : list nevent :=
  match run_from F (with_mask (with_rec (dh_cfg h) recursive) (kmask F recursive)) full_events (dh_world h) (dh_ops h) with
  | Some evs => evs
  | None => []
  end.

(* the unfiltered watch uses WATCHDOG_ALL_EVENTS, the root path is well formed, rename sources have a base name,
   the unfiltered reader does not crash, and (repaired reader) the unfiltered recursive run is tidy at its drained
   points (C11LagProofs.tidy_from: the reader's tables mention live kernel watches only; no filter is mentioned) *)
Definition paced_drained (h : dhist) : Prop :=
  c_mask (dh_cfg h) = WATCHDOG_ALL /\ c_root (dh_cfg h) <> [] /\ last_is_sep (c_root (dh_cfg h)) = false /\
  Forall op_ok (dh_ops h) /\
  (forall full recursive, run_from None (with_rec (dh_cfg h) recursive) full (dh_world h) (dh_ops h) <> None) /\
  (c_fix_moveout (dh_cfg h) = true -> forall full, tidy_from (with_rec (dh_cfg h) true) full (dh_world h) (dh_ops h)).

Theorem full_drained (F : option (list evbase)) (full_events recursive : bool) (h : dhist) :
  paced_drained h ->
  stutter_eq (events_drained F full_events recursive h)
             (filter (fun e => accepts F (ev_cls e)) (events_drained None full_events recursive h)).
Proof.
  intros [HM [R1 [R2 [Hops [Hrun Hreg]]]]]. unfold events_drained.
  set (C := with_rec (dh_cfg h) recursive).
  assert (HMC : c_mask C = WATCHDOG_ALL) by exact HM.
  rewrite (kmask_none recursive). rewrite <- HMC at 1. rewrite with_mask_same.
  specialize (Hrun full_events recursive). fold C in Hrun.
  destruct (run_from None C full_events (dh_world h) (dh_ops h)) as [evs|] eqn:E; [|contradiction].
  assert (Hreg' : c_recursive C = true -> c_fix_moveout C = true -> tidy_from C full_events (dh_world h) (dh_ops h)).
  { unfold C. cbn [with_rec c_recursive c_fix_moveout]. intros -> Hf. apply Hreg. exact Hf. }
  pose proof (transparent_from_all F C full_events HMC R1 R2 (dh_world h) (dh_ops h) evs Hops Hreg' E) as H.
  change (c_recursive C) with recursive in H. rewrite H. reflexivity.
Qed.
