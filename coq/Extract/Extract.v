(* Extraction of the executable models to OCaml.  Only ExtrOcamlBasic is used:
   bool/option/unit/list/prod/sumbool/sumor map to OCaml's types; nat, N, Z, positive
   stay Coq inductives.  Run with cwd = ocaml/gen (files are written to the cwd). *)
Require Import ExtrOcamlBasic.
Require Import WD.Base.Prelude WD.Base.BStr WD.Model.SubEvents.
Extraction Language OCaml.
Separate Extraction
  BinNums.Z BinNums.N Datatypes.nat
  BStr.starts BStr.replace_all BStr.replace_first BStr.join BStr.joins BStr.dirname BStr.basename
  SubEvents.sub_moved_events SubEvents.sub_created_events SubEvents.rekey_path SubEvents.desc
  SubEvents.wf_tree.
