"""C02 - a recursive watch covers every directory that exists, under its current name."""
from __future__ import annotations

from harness import core, pipe, pipecheck, pipeprops
from harness.core import Failure, Result

MANIFEST = dict(
    design_ref="DESIGN.md §6 C02",
    text="Coq theorems (coq/Props/C02.v) about the reader+kernel model: wf_fs preserved by every operation (C02_wf_preserved); "
         "walk_dirs lists exactly the directories below a path (C02_walk_dirs); construction covers every directory (recursive) / "
         "only the root (non-recursive) (C02_construct_cover, C02_flat_watches); from a synchronised state one operation + a full "
         "read re-establishes the cover invariant for touch/write/chmod/unlink, mkdir, rmdir, file renames (inside/in/out/replacing), "
         "directory renames inside the tree incl. all sub-directories via the re-key loop and C14, a directory moved in, a directory "
         "over an empty directory (from inside or from outside the tree: C02_step_rename_dir_in_over), non-recursive/outside directory renames (C02_cover_step, C02_rekey_loop). REPAIRED READER "
         "(c_fix_moveout, F10 family fixed): a directory moved OUT leaves a pending candidate (C02_step_rename_dir_out, "
         "C02_out_pending); the next operation's first record settles it - the departed sub-tree's bookkeeping is forgotten and its "
         "kernel watches removed - and the state is synchronised again up to the removed watches' IN_IGNORED records "
         "(C02_pending_step, C02_step_junk, C02_record_produced); by induction over histories of ANY length that contain "
         "directory move-outs followed by any covered operation (re-creating the old name, moving the directory back in, renaming "
         "a former ancestor - the F10b/F10d histories are instances, C02_f10_ops_x_nonvacuous), every operation followed by a full "
         "read, from construct() and on the Pipeline model (C02_cover_sequential_partial, C02_cover_from_start_partial, "
         "C02_cover_sequential_pipeline_partial); no stale descriptor in the reader's tables at any drained point of these histories - every key of _path_for_wd and every value of _wd_for_path is a live kernel watch (clauses of the watch invariant; C02_tables_live_synced, C02_tables_live, and as C11's hypothesis C02_tidy_from); "
         "the same when the records of an operation are read in SEVERAL reads - any cut of the batch, no operation in between: reader state, kernel and events are those of one big read (C02_cut_reads, C02_cut_paired, C02_cover_block_cuts_partial, C02_cover_sequential_pipeline_cuts_partial); "
         "directory move-outs BACK TO BACK are covered too (the first candidate is forgotten by the second IN_MOVED_FROM, its descriptors' IN_IGNORED are junk, the second is pending: C02_pending_transfer, C02_out_after_out, C02_cover_sequential_x2_partial, C02_cover_from_start_x2_partial, C02_cover_sequential_pipeline_x2_partial; not the nested case where the second directory is moved INTO the first); "
         "the probe law (C02_probe) and the non-recursive law (C02_flat); the pinned code is "
         "refuted (C02_pinned_movein_refuted, C02_pinned_mkdir_rename_refuted, and with c_fix_moveout := c_fix_relabel := false C02_f10d_pinned_refuted, "
         "C02_f10b_pinned_stale). Extra hypotheses of the move-out theorems: full event mask; the operation right after a directory "
         "move-out is a covered operation in a directory of the tree (so it produces a record) that notifies no directory at or "
         "below the departed directory's new place (in particular not a second move-out). Stated, not proved in general "
         "(C02_step_full): those excluded successors, operations on the root, bursts (several operations before a read) and reads that straddle two operations (carried by the sampled "
         "correspondence). "
         "Pipeline model in lock-step against the real observer on the real kernel (see C01); after every history a probe "
         "file is created in EVERY directory of the final tree and must be reported under its real path (recursive) / only "
         "in the root (non-recursive); theorems in coq/Props/C02.v over the model."
         " BURSTS of file-level operations (several operations before a read, no directory created, removed or renamed, no record coalesced by the kernel across an operation border): the state after the burst's reads is synchronised and covered again, also on the Pipeline model with cut reads (C02_burst_files_cover, C02_burst_files_cover_pipeline); the bursts gap is thereby narrowed to bursts with directory operations. A burst WITH directory operations, the arrival shape `mkdir p; <mkdir / touch strictly below p>` read in one read (recursive watch, p in scope, fixed _recursive_simulate, no fault): one kernel record, and the state after the read is synchronised with every arrived directory covered (C02_burst_arrival_cover, C02_burst_arrival_pipeline on the Pipeline model); other bursts with directory operations remain stated-only.",
    note="Trusted: as C01. See coq/Props/C02.v for which part of the cover invariant is a theorem.",
    technique="Coq proof over an executable pipeline model + lock-step correspondence against the real kernel + probe oracle in every directory",
)
TRUSTED = pipecheck.TRUSTED
ASSUMPTIONS = pipecheck.ASSUMPTIONS + ["histories respect the directory pacing condition (same as C01)"]


def one(ctx, res: Result, hist, cfg, batch, init_tree=None, late_at=()):
    def before_close(run):
        run.drain()
        return pipeprops.oracle_probes(run)
    run, case, stopped, bad = pipecheck.execute(hist, cfg, init_tree, before_close, late_at=late_at)
    meta = pipecheck.meta_of(hist, cfg)
    if late_at:
        meta["late_at"] = list(late_at)
        res.hist("directory_created_right_before_its_parent_is_watched", len(run.late))
    res.evaluations += 1
    pipecheck.hist_stats(res, hist, run)
    import os
    ndirs = sum(1 for e in run.log if e["a"] == "op" and e["ok"] and e["kind"] == "touch" and e["path"][-1] == pipeprops.PROBE)
    res.hist("directories_probed", ndirs)
    if ndirs >= 2:
        res.nontrivial.add(core.digest(meta))
    if len(res.samples) < 3 and ndirs >= 3:
        res.samples.append({"history": hist, "config": cfg, "directories_probed": ndirs})
    for b in bad or []:
        res.failures.append(Failure(
            what=f"{b['law']}: a change in directory {b['dir']} (how it got there: {b['provenance']})", case=meta,
            signature={"law": b["law"], "provenance": b["provenance"],
                       "cause": pipeprops.cause_of(b["provenance"])},
            observed=b["got"],
            expected="FileCreated(<real path of the probe>)" if b["law"] != "non-recursive-reports-deeper-change" else "no event"))
    res.failures += pipecheck.thread_failures(run, stopped, meta, "C02")
    if case is not None:
        batch.append((meta, run, case))


CORPUS = [
    ((True, False, "str"), [["op", "mkdir", ["R", "a"]], ["op", "rename", ["R", "a"], ["R", "b"]], ["drain"]]),
    ((True, False, "str"), [["op", "mkdir", ["O", "d"]], ["op", "mkdir", ["O", "d", "e"]], ["drain"], ["op", "rename", ["O", "d"], ["R", "d"]], ["drain"]]),
    ((True, False, "bytes"), [["op", "mkdir", ["R", "a"]], ["op", "mkdir", ["R", "a", "b"]], ["op", "mkdir", ["R", "a", "b", "c"]], ["drain"],
                              ["op", "rename", ["R", "a"], ["R", "c"]], ["drain"], ["op", "rename", ["R", "c", "b"], ["R", "b"]], ["drain"]]),
    ((True, False, "str"), [["op", "mkdir", ["R", "a"]], ["drain"], ["op", "rename", ["R", "a"], ["O", "a"]], ["drain"],
                            ["op", "rename", ["O", "a"], ["R", "c"]], ["drain"]]),
    ((False, False, "str"), [["op", "mkdir", ["R", "a"]], ["op", "mkdir", ["R", "b"]], ["drain"], ["op", "mkdir", ["R", "a", "c"]], ["drain"]]),
]


def run(ctx) -> Result:
    res = Result()
    res.rule = ("histories as in C01 (paced, bursts and one-at-a-time, 5 configurations) with more directory operations; after the "
                "final drain a probe file is created in every directory of the tree (drain after each); non-trivial = >= 2 "
                "directories probed; distinct by (history, config)")
    rng = ctx.rng("c02")
    batch = []
    for cfg, hist in CORPUS:
        one(ctx, res, hist, cfg, batch)
    for c in ctx.corpus():
        one(ctx, res, c["history"], (c["recursive"], c["full_events"], c["path_kind"]), batch)
    n = 120 if not ctx.thorough else 2500
    for i in range(n):
        cfg = pipecheck.CONFIGS[i % len(pipecheck.CONFIGS)]
        if i % 6 == 5:
            hist = pipe.gen_history_arrivals(rng, n=rng.randint(1, 3))
        elif i % 3 == 2:
            hist = pipe.gen_history_renames(rng, n_renames=rng.randint(2, 5))
        else:
            hist = pipe.gen_history(rng, n_ops=rng.randint(3, 12), paced=True, burst_prob=rng.choice([0.0, 0.5, 0.9]),
                                    rename_after_arrival=0.3)
        # every seventh run: another process creates a directory in a directory at the moment it is about to be watched
        # (1-2 of the first add_watch calls of the run, the initial scan included)
        late = tuple(sorted({rng.randint(0, 3) for _ in range(rng.randint(1, 2))})) if i % 7 == 4 else ()
        one(ctx, res, hist, cfg, batch, late_at=late)
    pipecheck.check_model(res, "C02", batch)
    return res


def replay(ctx, obj) -> int:
    case = obj.get("case", obj)
    res = Result()
    batch = []
    one(ctx, res, case["history"], (case["recursive"], case["full_events"], case["path_kind"]), batch,
        late_at=tuple(case.get("late_at", ())))
    pipecheck.check_model(res, "C02", batch)
    for f in res.failures:
        print("FAIL:", f.what, f.observed)
    for m in res.mismatches:
        print("MISMATCH:", m.pair, "\n model:", m.model, "\n real: ", m.impl)
    return 1 if res.failures or res.mismatches else 0
