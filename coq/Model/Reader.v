(* Model of watchdog.observers.inotify_c.Inotify: construction (_add_dir_watch) and read_events on one
   batch of raw kernel events, following the source statement by statement.  A Python KeyError is an
   explicit [Crash]; nothing is totalised.  Definitions only. *)
Require Import WD.Base.Prelude WD.Base.BStr WD.Model.SubEvents WD.Model.Emitter WD.Model.Fs.

Inductive outcome (A : Type) := Done (a : A) | Crash (site : N).
Arguments Done {A} a.
Arguments Crash {A} site.

(* crash sites *)
Definition SITE_PATH_FOR_WD : N := 1.      (* wd_path = self._path_for_wd[wd] *)
Definition SITE_IGNORED : N := 2.          (* self._wd_for_path[path] in the IN_IGNORED branch (pinned code) *)
Definition SITE_SIMULATE : N := 3.         (* self._wd_for_path[os.path.dirname(full_path)] in _recursive_simulate *)
Definition SITE_REKEY : N := 4.            (* self._wd_for_path.pop(_path) - cannot miss, kept explicit *)

Record cfg := {
  c_recursive : bool;
  c_mask : N;              (* the event mask given to inotify_add_watch *)
  c_root : bytes;          (* Inotify.path *)
  c_fix_ignored : bool;    (* true: repaired IN_IGNORED clean-up (`.get(path) == wd`); false: pinned *)
  c_fix_movein : bool;     (* true: a directory MOVED_TO with unknown source is watched (repair F9); false: pinned *)
  c_fix_simulate : bool;   (* true: _recursive_simulate skips files whose directory has no watch; false: pinned *)
  c_fix_relabel : bool;    (* true: _add_watch drops the stale key of a descriptor that comes back under another path
                              (repair F10e); false: pinned *)
  c_fix_moveout : bool;    (* true: a directory whose IN_MOVED_FROM is not followed by its IN_MOVED_TO is forgotten (repair
                              F10) and records for unknown descriptors are skipped; false: pinned (KeyError) *)
  c_faults : list nat      (* indices of inotify_add_watch calls that fail (transient ENOENT/ENOSPC) *)
}.

Record rstate := {
  wfp : list (bytes * N);      (* _wd_for_path *)
  pfw : list (N * bytes);      (* _path_for_wd *)
  mvf : list (N * bytes);      (* _moved_from_events: cookie -> src_path *)
  calls : nat;                 (* number of inotify_add_watch calls so far (fault oracle index) *)
  pend : option (N * bytes)    (* _moved_out_candidate: (cookie, src_path) of a directory IN_MOVED_FROM just processed *)
}.

Definition rinit0 : rstate := {| wfp := []; pfw := []; mvf := []; calls := 0; pend := None |}.

Fixpoint mem_nat (x : nat) (l : list nat) : bool :=
  match l with [] => false | y :: l' => Nat.eqb x y || mem_nat x l' end.

Section Reader.
  Variable C : cfg.

  (* the descriptor the kernel returned is already recorded under another path whose key still points to it:
     that key is stale (the directory was renamed before the reader got here) and is deleted *)
  Definition unlabel (r : rstate) (wd : N) (p : bytes) : list (bytes * N) :=
    if c_fix_relabel C then
      match alookup N.eqb wd (pfw r) with
      | Some known =>
        if negb (beqb known p) && (match alookup beqb known (wfp r) with Some w => N.eqb w wd | None => false end)
        then aremove beqb known (wfp r) else wfp r
      | None => wfp r
      end
    else wfp r.

  (* self._add_watch(path, mask): None = OSError raised *)
  Definition add_watch (r : rstate) (k : kst) (t : fs) (p : bytes) : option (rstate * kst * N) :=
    let n := calls r in
    let r1 := {| wfp := wfp r; pfw := pfw r; mvf := mvf r; calls := S n; pend := pend r |} in
    if mem_nat n (c_faults C) then None
    else match kadd_watch k t p (c_mask C) with
         | None => None
         | Some (k', wd) =>
           Some ({| wfp := aset beqb p wd (unlabel r1 wd p); pfw := aset N.eqb wd p (pfw r1); mvf := mvf r1;
                    calls := calls r1; pend := pend r1 |}, k', wd)
         end.

  (* bump the call counter after a failed call (the state is otherwise unchanged) *)
  Definition bump (r : rstate) : rstate :=
    {| wfp := wfp r; pfw := pfw r; mvf := mvf r; calls := S (calls r); pend := pend r |}.

  (* one (root, dirnames, filenames) triple of os.walk inside _recursive_simulate *)
  Fixpoint sim_dirs (r : rstate) (k : kst) (t : fs) (root : bytes) (ds : list bytes) (acc : list raw)
    : rstate * kst * list raw :=
    match ds with
    | [] => (r, k, acc)
    | d :: ds' =>
      let full := join root d in
      match add_watch r k t full with
      | Some (r', k', wd) =>
        sim_dirs r' k' t root ds'
                 (acc ++ [{| r_wd := wd; r_mask := N.lor IN_CREATE IN_ISDIR; r_cookie := 0; r_name := d; r_path := full |}])
      | None => sim_dirs (bump r) k t root ds' acc          (* contextlib.suppress(OSError) *)
      end
    end.

  Fixpoint sim_files (r : rstate) (root : bytes) (fs_ : list bytes) (acc : list raw) : outcome (list raw) :=
    match fs_ with
    | [] => Done acc
    | f :: fs' =>
      let full := join root f in
      match alookup beqb (dirname full) (wfp r) with
      | Some wd =>
        sim_files r root fs' (acc ++ [{| r_wd := wd; r_mask := IN_CREATE; r_cookie := 0; r_name := f; r_path := full |}])
      | None => if c_fix_simulate C then sim_files r root fs' acc else Crash SITE_SIMULATE
      end
    end.

  Fixpoint simulate (r : rstate) (k : kst) (t : fs) (w : list (bytes * list bytes * list bytes)) (acc : list raw)
    : outcome (rstate * kst * list raw) :=
    match w with
    | [] => Done (r, k, acc)
    | (root, ds, fls) :: w' =>
      let '(r1, k1, acc1) := sim_dirs r k t root ds acc in
      match sim_files r1 root fls acc1 with
      | Done acc2 => simulate r1 k1 t w' acc2
      | Crash s => Crash s
      end
    end.

  (* the re-key loop over a copy of _wd_for_path (recursive watch, directory moved inside the tree) *)
  Fixpoint rekey_loop (keys : list (bytes * N)) (src dst : bytes) (r : rstate) : rstate :=
    match keys with
    | [] => r
    | (p, _) :: keys' =>
      if starts (src ++ [sep]) p then
        match alookup beqb p (wfp r) with
        | Some wd =>
          let np := replace_first src dst p in
          rekey_loop keys' src dst
                     {| wfp := aset beqb np wd (aremove beqb p (wfp r)); pfw := aset N.eqb wd np (pfw r);
                        mvf := mvf r; calls := calls r; pend := pend r |}
        | None => rekey_loop keys' src dst r
        end
      else rekey_loop keys' src dst r
    end.

  (* _add_dir_watch(path, mask, recursive=True) inside contextlib.suppress(OSError): stops at the first failure *)
  Fixpoint add_dirs (r : rstate) (k : kst) (t : fs) (ps : list bytes) : rstate * kst :=
    match ps with
    | [] => (r, k)
    | p :: ps' =>
      match add_watch r k t p with
      | Some (r', k', _) => add_dirs r' k' t ps'
      | None => (bump r, k)
      end
    end.

  Definition walk_dirs (t : fs) (p : bytes) : list bytes :=
    flat_map (fun w : bytes * list bytes * list bytes => let '(root, ds, _) := w in map (join root) ds)
             (walk p (content t p)).

  (* _forget_tree(path): over a snapshot of _wd_for_path, every key that is the path or lies below it is popped; when
     _path_for_wd still records that key for the descriptor, the entry is deleted and the watch removed in the kernel *)
  Fixpoint forget_tree (keys : list (bytes * N)) (p : bytes) (r : rstate) (k : kst) : rstate * kst :=
    match keys with
    | [] => (r, k)
    | (q, _) :: keys' =>
      if beqb q p || starts (p ++ [sep]) q then
        match alookup beqb q (wfp r) with
        | Some wd =>
          let r1 := {| wfp := aremove beqb q (wfp r); pfw := pfw r; mvf := mvf r; calls := calls r; pend := pend r |} in
          match alookup N.eqb wd (pfw r) with
          | Some q' =>
            if beqb q' q
            then forget_tree keys' p {| wfp := wfp r1; pfw := aremove N.eqb wd (pfw r1); mvf := mvf r1; calls := calls r1;
                                        pend := pend r1 |} (krm_watch k wd)
            else forget_tree keys' p r1 k
          | None => forget_tree keys' p r1 k
          end
        | None => forget_tree keys' p r k
        end
      else forget_tree keys' p r k
    end.

  (* the head of the loop body (repair F10): a remembered directory IN_MOVED_FROM that is followed by anything but its
     IN_MOVED_TO on a descriptor the reader knows (i.e. into a directory of the tree) has left the tree *)
  Definition settle_pending (r : rstate) (k : kst) (e : kraw) : rstate * kst :=
    if c_fix_moveout C then
      match pend r with
      | Some (c, p) =>
        let r0 := {| wfp := wfp r; pfw := pfw r; mvf := mvf r; calls := calls r; pend := None |} in
        if is_moved_to (k_mask e) && N.eqb (k_cookie e) c && amem N.eqb (k_wd e) (pfw r)
        then (r0, k) else forget_tree (wfp r0) p r0 k
      | None => (r, k)
      end
    else (r, k).

  (* the rest of the loop body for one raw event (the whole body of the pinned code) *)
  Definition read_one_body (t : fs) (st : rstate * kst * list raw) (e : kraw) : outcome (rstate * kst * list raw) :=
    let '(r, k, acc) := st in
    match alookup N.eqb (k_wd e) (pfw r) with
    | None => if c_fix_moveout C then Done (r, k, acc) else Crash SITE_PATH_FOR_WD
    | Some wd_path =>
      let m := k_mask e in
      let src_path := match k_name e with [] => wd_path | _ => join wd_path (k_name e) end in
      let ev := {| r_wd := k_wd e; r_mask := m; r_cookie := k_cookie e; r_name := k_name e; r_path := src_path |} in
      (* moved_from / moved_to *)
      let '(r1, k1, ev1) :=
        if is_moved_from m then
          ({| wfp := wfp r; pfw := pfw r; mvf := aset N.eqb (k_cookie e) src_path (mvf r); calls := calls r;
             pend := if c_fix_moveout C && c_recursive C && is_directory m then Some (k_cookie e, src_path) else pend r |},
           k, ev)
        else if is_moved_to m then
          let ev' := {| r_wd := k_wd e; r_mask := m; r_cookie := k_cookie e; r_name := k_name e;
                        r_path := join wd_path (k_name e) |} in
          match alookup N.eqb (k_cookie e) (mvf r) with
          | Some msrc =>
            match alookup beqb msrc (wfp r) with
            | Some mwd =>
              let r' := {| wfp := aset beqb src_path mwd (aremove beqb msrc (wfp r));
                           pfw := aset N.eqb mwd src_path (pfw r); mvf := mvf r; calls := calls r; pend := pend r |} in
              ((if c_recursive C then rekey_loop (wfp r') msrc src_path r' else r'), k, ev')
            | None =>
              if c_fix_movein C && c_recursive C && is_directory m && fisdir src_path t
              then let '(r', k') := add_dirs r k t (src_path :: walk_dirs t src_path) in (r', k', ev')
              else (r, k, ev')
            end
          | None =>
            if c_fix_movein C && c_recursive C && is_directory m && fisdir src_path t
            then let '(r', k') := add_dirs r k t (src_path :: walk_dirs t src_path) in (r', k', ev')
            else (r, k, ev')
          end
        else (r, k, ev) in
      (* ignored *)
      let r2o :=
        if is_ignored m then
          match alookup N.eqb (k_wd e) (pfw r1) with
          | None => Crash SITE_PATH_FOR_WD            (* self._path_for_wd.pop(wd) *)
          | Some path =>
            let rp := {| wfp := wfp r1; pfw := aremove N.eqb (k_wd e) (pfw r1); mvf := mvf r1; calls := calls r1;
                         pend := pend r1 |} in
            match alookup beqb path (wfp rp) with
            | Some w => if N.eqb w (k_wd e)
                        then Done {| wfp := aremove beqb path (wfp rp); pfw := pfw rp; mvf := mvf rp; calls := calls rp;
                                    pend := pend rp |}
                        else Done rp
            | None => if c_fix_ignored C then Done rp else Crash SITE_IGNORED
            end
          end
        else Done r1 in
      match r2o with
      | Crash s => Crash s
      | Done r2 =>
        let acc2 := acc ++ [ev1] in
        if c_recursive C && is_directory m && is_create m then
          match add_watch r2 k1 t (r_path ev1) with
          | None => Done (bump r2, k1, acc2)              (* except OSError: continue *)
          | Some (r3, k3, _) => simulate r3 k3 t (walk (r_path ev1) (content t (r_path ev1))) acc2
          end
        else Done (r2, k1, acc2)
      end
    end.

  (* one raw event of the batch *)
  Definition read_one (t : fs) (st : rstate * kst * list raw) (e : kraw) : outcome (rstate * kst * list raw) :=
    let '(r_in, k_in, acc) := st in
    let '(r, k) := settle_pending r_in k_in e in
    read_one_body t (r, k, acc) e.

  Fixpoint read_batch (t : fs) (st : rstate * kst * list raw) (b : list kraw) : outcome (rstate * kst * list raw) :=
    match b with
    | [] => Done st
    | e :: b' => match read_one t st e with
                 | Done st' => read_batch t st' b'
                 | Crash s => Crash s
                 end
    end.

  (* Inotify.__init__ on a directory: _add_dir_watch(path, mask, recursive); a failure raises out of schedule()/start() *)
  Definition construct (k : kst) (t : fs) : option (rstate * kst) :=
    if fisdir (c_root C) t then
      match add_watch rinit0 k t (c_root C) with
      | None => None
      | Some (r, k1, _) =>
        if c_recursive C then
          (fix go (r : rstate) (k : kst) (ps : list bytes) : option (rstate * kst) :=
             match ps with
             | [] => Some (r, k)
             | p :: ps' => match add_watch r k t p with
                           | Some (r', k', _) => go r' k' ps'
                           | None => None
                           end
             end) r k1 (walk_dirs t (c_root C))
        else Some (r, k1)
      end
    else None.
End Reader.
