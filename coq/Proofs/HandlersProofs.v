(* Proofs about Model/Handlers.v (property C15). *)
Require Import WD.Base.Prelude WD.Model.Handlers.

(* ---------------------------------------------------------------- generic list facts *)
Lemma memb_In x l : memb x l = true <-> In x l.
Proof.
  unfold memb. rewrite existsb_exists. split.
  - intros [y [Hy E]]. apply beqb_eq in E. subst. exact Hy.
  - intros H. exists x. split; [exact H | apply beqb_refl].
Qed.

Lemma common_In q a b : In q (common a b) <-> In q a /\ In q b.
Proof. unfold common. rewrite filter_In, memb_In. tauto. Qed.

Lemma common_nil a b : common a b = [] <-> (forall q, In q a -> ~ In q b).
Proof.
  split.
  - intros H q Ha Hb. assert (In q (common a b)) by (apply common_In; tauto). rewrite H in *. contradiction.
  - intros H. destruct (common a b) as [|q l] eqn:E; [reflexivity|].
    assert (In q (common a b)) by (rewrite E; left; reflexivity).
    apply common_In in H0. destruct H0. exfalso. eapply H; eassumption.
Qed.

Lemma existsb_false_iff {A} (f : A -> bool) l : existsb f l = false <-> (forall x, In x l -> f x = false).
Proof.
  induction l as [|a l IH]; simpl.
  - split; [intros _ x [] | reflexivity].
  - rewrite orb_false_iff, IH. split.
    + intros [H1 H2] x [<-|Hx]; auto.
    + intros H. split; [apply H; left; reflexivity | intros x Hx; apply H; right; exact Hx].
Qed.

Lemma subseq_filter {A} (f : A -> bool) l : subseq (filter f l) l.
Proof.
  induction l as [|a l IH]; simpl.
  - constructor.
  - destruct (f a); constructor; exact IH.
Qed.

Lemma subseq_refl {A} (l : list A) : subseq l l.
Proof. induction l; constructor; assumption. Qed.

Lemma subseq_In {A} (l m : list A) x : subseq l m -> In x l -> In x m.
Proof.
  induction 1; simpl; intros H0.
  - exact H0.
  - right. auto.
  - destruct H0; [left; assumption | right; auto].
Qed.

Lemma subseq_length {A} (l m : list A) : subseq l m -> length l <= length m.
Proof. induction 1; simpl; lia. Qed.

(* ---------------------------------------------------------------- base dispatch *)
Lemma dispatch_base_typed c src dest t :
  event_type c = Some t -> dispatch_base (mkEvent c src dest) = Done [OnAny; On t].
Proof. unfold dispatch_base. simpl. intros ->. reflexivity. Qed.

Lemma dispatch_base_table src dest :
  map (fun c => dispatch_base (mkEvent c src dest))
      [FileDeletedEvent; FileModifiedEvent; FileCreatedEvent; FileMovedEvent; FileClosedEvent;
       FileClosedNoWriteEvent; FileOpenedEvent; DirDeletedEvent; DirModifiedEvent; DirCreatedEvent;
       DirMovedEvent; FileSystemMovedEvent]
  = [Done [OnAny; On Deleted]; Done [OnAny; On Modified]; Done [OnAny; On Created]; Done [OnAny; On Moved];
     Done [OnAny; On Closed]; Done [OnAny; On ClosedNoWrite]; Done [OnAny; On Opened];
     Done [OnAny; On Deleted]; Done [OnAny; On Modified]; Done [OnAny; On Created]; Done [OnAny; On Moved];
     Done [OnAny; On Moved]].
Proof. reflexivity. Qed.

Lemma classes_complete c :
  In c concrete_classes \/ c = FileSystemMovedEvent \/ c = FileSystemEvent.
Proof. destruct c; simpl; tauto. Qed.

Lemma concrete_typed c : In c concrete_classes -> exists t, event_type c = Some t.
Proof. destruct c; simpl; intros H; try (eexists; reflexivity); repeat (destruct H as [H|H]; try discriminate H); contradiction. Qed.

Lemma dispatch_base_bare src dest :
  dispatch_base (mkEvent FileSystemEvent src dest) = Raised [OnAny] AttributeError.
Proof. reflexivity. Qed.

Lemma dispatch_base_not_silent e : dispatch_base e <> Done [].
Proof. unfold dispatch_base. destruct (event_type (ecls e)); discriminate. Qed.

Lemma dispatch_base_not_valueerror e : dispatch_base e <> Raised [] ValueError.
Proof. unfold dispatch_base. destruct (event_type (ecls e)); discriminate. Qed.

(* ---------------------------------------------------------------- paths of an event *)
Lemma nonemptyb_true p : nonemptyb p = true <-> p <> [].
Proof. destruct p; simpl; split; congruence. Qed.

Lemma own_paths_In e p : In p (own_paths e) <-> (p = esrc e \/ p = edest e) /\ p <> [].
Proof.
  unfold own_paths. rewrite filter_In, nonemptyb_true. simpl. intuition congruence.
Qed.

Lemma event_paths_In e p : In p (event_paths e) <-> In p (own_paths e).
Proof.
  rewrite own_paths_In. unfold event_paths. rewrite in_app_iff.
  destruct (esrc e) as [|a s]; destruct (edest e) as [|b d]; simpl; intuition congruence.
Qed.

Lemma event_paths_nonempty e p : In p (event_paths e) -> nonemptyb p = true.
Proof. rewrite event_paths_In, own_paths_In, nonemptyb_true. tauto. Qed.

Lemma event_paths_pinned_In e p :
  In p (event_paths_pinned e) <-> p = edest e \/ In p (own_paths e).
Proof.
  rewrite own_paths_In. unfold event_paths_pinned.
  destruct (esrc e) as [|a s]; destruct (edest e) as [|b d]; simpl; intuition congruence.
Qed.

Lemma own_paths_nil e : own_paths e = [] <-> esrc e = [] /\ edest e = [].
Proof.
  unfold own_paths. destruct (esrc e); destruct (edest e); simpl; intuition congruence.
Qed.

Lemma event_paths_nil e : event_paths e = [] <-> own_paths e = [].
Proof.
  rewrite own_paths_nil. unfold event_paths.
  destruct (esrc e); destruct (edest e); simpl; intuition congruence.
Qed.

(* ---------------------------------------------------------------- glob filters *)
Section GlobProofs.
  Variable lower : bytes -> bytes.
  Variable mp mw : bytes -> bytes -> bool.

  Notation fold_case := (fold_case lower).
  Notation pmatch := (pmatch mp mw).
  Notation gmatch := (gmatch lower mp mw).
  Notation match_path := (match_path lower mp mw).
  Notation filter_go := (filter_go lower mp mw).
  Notation match_any_go := (match_any_go lower mp mw).

  (* the selection predicate of the property: some include pattern and no exclude pattern *)
  Definition sel (cs : bool) (incl excl : list bytes) (p : bytes) : bool :=
    existsb (gmatch cs p) incl && negb (existsb (gmatch cs p) excl).

  Definition no_conflict (cs : bool) (incl excl : list bytes) : Prop :=
    forall q, In q (fold_case cs incl) -> ~ In q (fold_case cs excl).

  Lemma pmatch_fold cs p l : existsb (pmatch cs p) (fold_case cs l) = existsb (gmatch cs p) l.
  Proof.
    unfold Handlers.pmatch, Handlers.gmatch, Handlers.fold_case. destruct cs; [reflexivity|].
    induction l as [|a l IH]; simpl; [reflexivity | rewrite IH; reflexivity].
  Qed.

  Lemma sel_spec cs incl excl p :
    sel cs incl excl p = true <->
    (exists i, In i incl /\ gmatch cs p i = true) /\ (forall x, In x excl -> gmatch cs p x = false).
  Proof.
    unfold sel. rewrite andb_true_iff, negb_true_iff, existsb_exists, existsb_false_iff. tauto.
  Qed.

  Lemma match_path_ok cs incl excl p :
    no_conflict cs incl excl -> match_path p incl excl cs = Ok (sel cs incl excl p).
  Proof.
    intros H. unfold Handlers.match_path. rewrite (proj2 (common_nil _ _) H).
    rewrite !pmatch_fold. reflexivity.
  Qed.

  Lemma match_path_conflict cs incl excl p q :
    In q (fold_case cs incl) -> In q (fold_case cs excl) -> match_path p incl excl cs = Conflict.
  Proof.
    intros Hi Hx. unfold Handlers.match_path.
    destruct (common (fold_case cs incl) (fold_case cs excl)) eqn:E; [|reflexivity].
    exfalso. exact (proj1 (common_nil _ _) E q Hi Hx).
  Qed.

  Lemma match_path_cases cs incl excl p :
    (no_conflict cs incl excl /\ match_path p incl excl cs = Ok (sel cs incl excl p)) \/
    ((exists q, In q (fold_case cs incl) /\ In q (fold_case cs excl)) /\ match_path p incl excl cs = Conflict).
  Proof.
    destruct (common (fold_case cs incl) (fold_case cs excl)) as [|q l] eqn:E.
    - left. assert (Hn : no_conflict cs incl excl) by exact (proj1 (common_nil _ _) E).
      split; [exact Hn | apply match_path_ok; exact Hn].
    - right. assert (In q (common (fold_case cs incl) (fold_case cs excl))) by (rewrite E; left; reflexivity).
      apply common_In in H. split; [exists q; exact H | eapply match_path_conflict; apply H].
  Qed.

  Lemma filter_go_ok cs incl excl paths :
    no_conflict cs incl excl -> filter_go paths incl excl cs = Ok (filter (sel cs incl excl) paths).
  Proof.
    intros H. induction paths as [|p r IH]; simpl; [reflexivity|].
    rewrite (match_path_ok _ _ _ _ H), IH. reflexivity.
  Qed.

  Lemma filter_go_conflict cs incl excl paths q :
    In q (fold_case cs incl) -> In q (fold_case cs excl) -> paths <> [] ->
    filter_go paths incl excl cs = Conflict.
  Proof.
    intros Hi Hx Hp. destruct paths as [|p r]; [congruence|]. simpl.
    rewrite (match_path_conflict _ _ _ _ _ Hi Hx). reflexivity.
  Qed.

  Lemma filter_go_Ok_inv cs incl excl paths l :
    filter_go paths incl excl cs = Ok l ->
    l = filter (sel cs incl excl) paths /\ (paths <> [] -> no_conflict cs incl excl).
  Proof.
    intros H. destruct paths as [|p r].
    - simpl in H. inversion H. split; [reflexivity | congruence].
    - destruct (match_path_cases cs incl excl p) as [[Hn _] | [[q [Hi Hx]] _]].
      + rewrite (filter_go_ok _ _ _ _ Hn) in H. inversion H. split; [reflexivity | intros _; exact Hn].
      + rewrite (filter_go_conflict _ _ _ _ q Hi Hx) in H; [discriminate | discriminate].
  Qed.

  Lemma match_any_go_ok counts cs incl excl paths :
    no_conflict cs incl excl ->
    match_any_go counts paths incl excl cs = Ok (existsb (fun p => sel cs incl excl p && counts p) paths).
  Proof.
    intros H. induction paths as [|p r IH]; simpl; [reflexivity|].
    rewrite (match_path_ok _ _ _ _ H). destruct (sel cs incl excl p); simpl.
    - destruct (counts p); simpl; [reflexivity | exact IH].
    - exact IH.
  Qed.

  Lemma match_any_go_conflict counts cs incl excl paths q :
    In q (fold_case cs incl) -> In q (fold_case cs excl) -> paths <> [] ->
    match_any_go counts paths incl excl cs = Conflict.
  Proof.
    intros Hi Hx Hp. destruct paths as [|p r]; [congruence|]. simpl.
    rewrite (match_path_conflict _ _ _ _ _ Hi Hx). reflexivity.
  Qed.

  (* ---------------- statements used by Props/C15.v: the filters *)
  Lemma match_path_agrees cs incl excl p b :
    match_path p incl excl cs = Ok b ->
    (b = true <-> (exists i, In i incl /\ gmatch cs p i = true) /\
                  (forall x, In x excl -> gmatch cs p x = false)).
  Proof.
    intros H. destruct (match_path_cases cs incl excl p) as [[_ E] | [_ E]]; rewrite E in H.
    - injection H as <-. apply sel_spec.
    - discriminate.
  Qed.

  Lemma filter_paths_subseq paths incl excl cs l :
    filter_paths lower mp mw paths incl excl cs = Ok l ->
    subseq l paths /\
    l = filter (fun p => existsb (gmatch cs p) (default [star] incl) &&
                         negb (existsb (gmatch cs p) (default [] excl))) paths /\
    (forall p, In p l <-> In p paths /\
               (exists i, In i (default [star] incl) /\ gmatch cs p i = true) /\
               (forall x, In x (default [] excl) -> gmatch cs p x = false)).
  Proof.
    unfold filter_paths. intros H. apply filter_go_Ok_inv in H as [-> _].
    split; [apply subseq_filter | split; [reflexivity|]].
    intros p. rewrite filter_In, sel_spec. tauto.
  Qed.

  Lemma filter_paths_total paths incl excl cs :
    no_conflict cs (default [star] incl) (default [] excl) ->
    exists l, filter_paths lower mp mw paths incl excl cs = Ok l.
  Proof. intros H. eexists. unfold filter_paths. apply filter_go_ok. exact H. Qed.

  Lemma match_any_paths_agrees paths incl excl cs b :
    match_any_paths lower mp mw paths incl excl cs = Ok b ->
    (b = true <-> exists p, In p paths /\
                  (exists i, In i (default [star] incl) /\ gmatch cs p i = true) /\
                  (forall x, In x (default [] excl) -> gmatch cs p x = false)).
  Proof.
    unfold match_any_paths, match_any_paths_with. intros H.
    destruct paths as [|p0 r].
    - simpl in H. injection H as <-. split; [discriminate | intros [p [[] _]]].
    - assert (Hne : p0 :: r <> []) by discriminate. revert H Hne. generalize (p0 :: r). intros ps H Hne.
      destruct (match_path_cases cs (default [star] incl) (default [] excl) p0) as [[Hn _] | [[q [Hi Hx]] _]].
      + rewrite (match_any_go_ok _ _ _ _ _ Hn) in H. injection H as <-. rewrite existsb_exists.
        split.
        * intros [p [Hp Hs]]. rewrite andb_true_r in Hs. exists p. split; [exact Hp | apply sel_spec; exact Hs].
        * intros [p [Hp Hs]]. exists p. split; [exact Hp | rewrite andb_true_r; apply sel_spec; exact Hs].
      + rewrite (match_any_go_conflict _ _ _ _ _ q Hi Hx) in H; [discriminate | exact Hne].
  Qed.

  Lemma match_any_is_filter_nonempty paths incl excl cs :
    match_any_paths lower mp mw paths incl excl cs =
    match filter_paths lower mp mw paths incl excl cs with
    | Ok l => Ok (match l with [] => false | _ :: _ => true end)
    | Conflict => Conflict
    end.
  Proof.
    unfold match_any_paths, match_any_paths_with, filter_paths.
    destruct paths as [|p0 r]; [reflexivity|].
    destruct (match_path_cases cs (default [star] incl) (default [] excl) p0) as [[Hn _] | [[q [Hi Hx]] _]].
    - rewrite (match_any_go_ok _ _ _ _ _ Hn), (filter_go_ok _ _ _ _ Hn). f_equal.
      generalize (p0 :: r). intros l. induction l as [|a l IH]; simpl; [reflexivity|].
      rewrite andb_true_r. destruct (sel cs _ _ a); simpl; [reflexivity | exact IH].
    - rewrite (match_any_go_conflict _ _ _ _ _ q Hi Hx), (filter_go_conflict _ _ _ _ q Hi Hx); try discriminate.
      reflexivity.
  Qed.

  Lemma conflict_rejected cs incl excl q :
    In q (fold_case cs (default [star] incl)) -> In q (fold_case cs (default [] excl)) ->
    (forall p, match_path p (default [star] incl) (default [] excl) cs = Conflict) /\
    (forall paths, paths <> [] ->
       filter_paths lower mp mw paths incl excl cs = Conflict /\
       match_any_paths lower mp mw paths incl excl cs = Conflict).
  Proof.
    intros Hi Hx. split.
    - intros p. eapply match_path_conflict; eassumption.
    - intros paths Hp. split.
      + eapply filter_go_conflict; eassumption.
      + eapply match_any_go_conflict; eassumption.
  Qed.

  Lemma no_conflict_never_rejected cs incl excl :
    no_conflict cs (default [star] incl) (default [] excl) ->
    (forall p, match_path p (default [star] incl) (default [] excl) cs <> Conflict) /\
    (forall paths, filter_paths lower mp mw paths incl excl cs <> Conflict /\
                   match_any_paths lower mp mw paths incl excl cs <> Conflict).
  Proof.
    intros H. split.
    - intros p. rewrite (match_path_ok _ _ _ _ H). discriminate.
    - intros paths. split.
      + unfold filter_paths. rewrite (filter_go_ok _ _ _ _ H). discriminate.
      + unfold match_any_paths, match_any_paths_with. rewrite (match_any_go_ok _ _ _ _ _ H). discriminate.
  Qed.

  (* ---------------- the pattern handler *)
  Definition pattern_rule (cfg : pconfig) (e : event) : Prop :=
    ~ (p_ignore_dirs cfg = true /\ is_directory (ecls e) = true) /\
    exists p, In p (own_paths e) /\
      (exists i, In i (default [star] (p_patterns cfg)) /\ gmatch (p_cs cfg) p i = true) /\
      (forall x, In x (default [] (p_ignore cfg)) -> gmatch (p_cs cfg) p x = false).

  Definition pattern_rule_b (cfg : pconfig) (e : event) : bool :=
    negb (p_ignore_dirs cfg && is_directory (ecls e)) &&
    existsb (sel (p_cs cfg) (default [star] (p_patterns cfg)) (default [] (p_ignore cfg))) (own_paths e).

  Lemma pattern_rule_reflect cfg e : pattern_rule_b cfg e = true <-> pattern_rule cfg e.
  Proof.
    unfold pattern_rule_b, pattern_rule.
    rewrite andb_true_iff, negb_true_iff, andb_false_iff, existsb_exists.
    split.
    - intros [Hd [p [Hp Hs]]]. split.
      + intros [H1 H2]. destruct Hd; congruence.
      + exists p. split; [exact Hp | apply sel_spec; exact Hs].
    - intros [Hd [p [Hp Hs]]]. split.
      + destruct (p_ignore_dirs cfg); [|left; reflexivity].
        destruct (is_directory (ecls e)); [|right; reflexivity]. exfalso. apply Hd. split; reflexivity.
      + exists p. split; [exact Hp | apply sel_spec; exact Hs].
  Qed.

  Lemma existsb_ext_In {A} (f g : A -> bool) l m :
    (forall x, In x l <-> In x m) -> (forall x, f x = g x) -> existsb f l = existsb g m.
  Proof.
    intros Hl Hf. destruct (existsb g m) eqn:E.
    - apply existsb_exists in E as [x [Hx Hg]]. apply existsb_exists. exists x.
      split; [apply Hl; exact Hx | rewrite Hf; exact Hg].
    - apply existsb_false_iff. intros x Hx. rewrite Hf.
      eapply existsb_false_iff in E; [exact E | apply Hl; exact Hx].
  Qed.

  Lemma pattern_dispatch_eq cfg e :
    no_conflict (p_cs cfg) (default [star] (p_patterns cfg)) (default [] (p_ignore cfg)) ->
    pattern_dispatch lower mp mw cfg e = if pattern_rule_b cfg e then dispatch_base e else Done [].
  Proof.
    intros H. unfold pattern_dispatch, pattern_dispatch_with, pattern_rule_b, match_any_paths_with.
    destruct (p_ignore_dirs cfg && is_directory (ecls e)); simpl; [reflexivity|].
    rewrite (match_any_go_ok _ _ _ _ _ H).
    erewrite (existsb_ext_In _ (sel (p_cs cfg) (default [star] (p_patterns cfg)) (default [] (p_ignore cfg)))
                _ (own_paths e)).
    - destruct (existsb _ (own_paths e)); reflexivity.
    - intros x. apply event_paths_In.
    - intros x. apply andb_true_r.
  Qed.

  Lemma pattern_iff cfg e :
    no_conflict (p_cs cfg) (default [star] (p_patterns cfg)) (default [] (p_ignore cfg)) ->
    (pattern_dispatch lower mp mw cfg e = dispatch_base e <-> pattern_rule cfg e) /\
    (pattern_dispatch lower mp mw cfg e = Done [] <-> ~ pattern_rule cfg e).
  Proof.
    intros H. rewrite (pattern_dispatch_eq _ _ H). rewrite <- pattern_rule_reflect.
    destruct (pattern_rule_b cfg e); split; split; intros H0; try reflexivity; try congruence;
      try (exfalso; apply H0; reflexivity);
      try (exfalso; eapply dispatch_base_not_silent; exact H0);
      try (exfalso; eapply dispatch_base_not_silent; symmetry; exact H0).
  Qed.

  Lemma pattern_conflict cfg e q :
    In q (fold_case (p_cs cfg) (default [star] (p_patterns cfg))) ->
    In q (fold_case (p_cs cfg) (default [] (p_ignore cfg))) ->
    ~ (p_ignore_dirs cfg = true /\ is_directory (ecls e) = true) ->
    own_paths e <> [] ->
    pattern_dispatch lower mp mw cfg e = Raised [] ValueError.
  Proof.
    intros Hi Hx Hd Hp. unfold pattern_dispatch, pattern_dispatch_with, match_any_paths_with.
    destruct (p_ignore_dirs cfg && is_directory (ecls e)) eqn:E.
    - apply andb_true_iff in E. contradiction.
    - rewrite (match_any_go_conflict _ _ _ _ _ q Hi Hx); [reflexivity|].
      intros Hn. apply event_paths_nil in Hn. contradiction.
  Qed.

  Lemma pattern_raises_only_on_conflict cfg e :
    pattern_dispatch lower mp mw cfg e = Raised [] ValueError ->
    exists q, In q (fold_case (p_cs cfg) (default [star] (p_patterns cfg))) /\
              In q (fold_case (p_cs cfg) (default [] (p_ignore cfg))).
  Proof.
    intros H.
    destruct (match_path_cases (p_cs cfg) (default [star] (p_patterns cfg)) (default [] (p_ignore cfg)) [])
      as [[Hn _] | [Hq _]]; [|exact Hq].
    rewrite (pattern_dispatch_eq _ _ Hn) in H. destruct (pattern_rule_b cfg e); [|discriminate].
    exfalso. eapply dispatch_base_not_valueerror. exact H.
  Qed.

  (* defaults: patterns=None is ["*"], ignore_patterns=None is [] *)
  Lemma pattern_defaults cfg e :
    pattern_dispatch lower mp mw cfg e =
    pattern_dispatch lower mp mw
      (mkP (Some (default [star] (p_patterns cfg))) (Some (default [] (p_ignore cfg)))
           (p_ignore_dirs cfg) (p_cs cfg)) e.
  Proof. reflexivity. Qed.

  Lemma pattern_default_includes_all igd cs e :
    (forall p, In p (own_paths e) -> gmatch cs p star = true) ->
    ~ (igd = true /\ is_directory (ecls e) = true) -> own_paths e <> [] ->
    pattern_dispatch lower mp mw (mkP None None igd cs) e = dispatch_base e.
  Proof.
    intros Hall Hd Hp.
    assert (Hn : no_conflict cs (default [star] (@None (list bytes))) (default [] (@None (list bytes)))).
    { intros q _ Hx. destruct cs; exact Hx. }
    apply (pattern_iff (mkP None None igd cs) e Hn). split; [exact Hd|].
    destruct (own_paths e) as [|p l] eqn:E; [congruence|].
    exists p. split; [left; reflexivity|]. split.
    - exists star. split; [left; reflexivity | apply Hall; left; reflexivity].
    - intros x [].
  Qed.

  (* the pinned pattern handler (dest always appended, any() over the path strings) takes the same
     decisions as the repaired one whenever the event has a source path *)
  Lemma pattern_pinned_agrees cfg e :
    esrc e <> [] ->
    pattern_dispatch_pinned lower mp mw cfg e = pattern_dispatch lower mp mw cfg e.
  Proof.
    intros Hs. unfold pattern_dispatch_pinned, pattern_dispatch, pattern_dispatch_with, match_any_paths_with.
    destruct (p_ignore_dirs cfg && is_directory (ecls e)); [reflexivity|].
    set (incl := default [star] (p_patterns cfg)). set (excl := default [] (p_ignore cfg)).
    destruct (match_path_cases (p_cs cfg) incl excl []) as [[Hn _] | [[q [Hi Hx]] _]].
    - rewrite !(match_any_go_ok _ _ _ _ _ Hn).
      unfold event_paths_pinned, event_paths.
      destruct (esrc e) as [|a s]; [congruence|]. destruct (edest e) as [|b d]; simpl.
      + rewrite andb_false_r. reflexivity.
      + rewrite !andb_true_r. reflexivity.
    - rewrite !(match_any_go_conflict _ _ _ _ _ q Hi Hx); try reflexivity.
      + unfold event_paths. destruct (esrc e); [congruence|]. destruct (edest e); discriminate.
      + discriminate.
  Qed.
End GlobProofs.

(* ---------------------------------------------------------------- the regex handler *)
Section RegexProofs.
  Variable rmatch : bool -> bytes -> bytes -> bool.

  Definition regex_rule (cfg : rconfig) (e : event) : Prop :=
    ~ (r_ignore_dirs cfg = true /\ is_directory (ecls e) = true) /\
    (forall p r, In p (own_paths e) -> In r (default [] (r_ignore cfg)) -> rmatch (r_cs cfg) r p = false) /\
    (exists p r, In p (own_paths e) /\ In r (regex_list (r_regexes cfg)) /\ rmatch (r_cs cfg) r p = true).

  Definition regex_rule_b (cfg : rconfig) (e : event) : bool :=
    negb (r_ignore_dirs cfg && is_directory (ecls e)) &&
    negb (any_match rmatch (r_cs cfg) (default [] (r_ignore cfg)) (own_paths e)) &&
    any_match rmatch (r_cs cfg) (regex_list (r_regexes cfg)) (own_paths e).

  Lemma any_match_spec cs rs ps :
    any_match rmatch cs rs ps = true <-> exists p r, In p ps /\ In r rs /\ rmatch cs r p = true.
  Proof.
    unfold any_match. rewrite existsb_exists. split.
    - intros [r [Hr H]]. apply existsb_exists in H as [p [Hp H]]. exists p, r. tauto.
    - intros [p [r [Hp [Hr H]]]]. exists r. split; [exact Hr|]. apply existsb_exists. exists p. tauto.
  Qed.

  Lemma any_match_false cs rs ps :
    any_match rmatch cs rs ps = false <-> forall p r, In p ps -> In r rs -> rmatch cs r p = false.
  Proof.
    split.
    - intros H p r Hp Hr. destruct (rmatch cs r p) eqn:E; [|reflexivity].
      assert (any_match rmatch cs rs ps = true) by (apply any_match_spec; exists p, r; tauto). congruence.
    - intros H. destruct (any_match rmatch cs rs ps) eqn:E; [|reflexivity].
      apply any_match_spec in E as [p [r [Hp [Hr E]]]]. rewrite (H p r Hp Hr) in E. discriminate.
  Qed.

  Lemma any_match_ext cs rs ps qs :
    (forall p, In p ps <-> In p qs) -> any_match rmatch cs rs ps = any_match rmatch cs rs qs.
  Proof.
    intros H. destruct (any_match rmatch cs rs qs) eqn:E.
    - apply any_match_spec in E as [p [r [Hp Hr]]]. apply any_match_spec. exists p, r. rewrite H. tauto.
    - apply any_match_false. intros p r Hp Hr. rewrite any_match_false in E. apply E; [apply H; exact Hp | exact Hr].
  Qed.

  Lemma regex_rule_reflect cfg e : regex_rule_b cfg e = true <-> regex_rule cfg e.
  Proof.
    unfold regex_rule_b, regex_rule.
    rewrite !andb_true_iff, !negb_true_iff, andb_false_iff, any_match_false, any_match_spec.
    split.
    - intros [[Hd Hi] Hm]. split; [|split; assumption].
      intros [H1 H2]. destruct Hd; congruence.
    - intros [Hd [Hi Hm]]. split; [split|]; try assumption.
      destruct (r_ignore_dirs cfg); [|left; reflexivity].
      destruct (is_directory (ecls e)); [|right; reflexivity]. exfalso. apply Hd. split; reflexivity.
  Qed.

  Lemma regex_dispatch_eq cfg e :
    regex_dispatch rmatch cfg e = if regex_rule_b cfg e then dispatch_base e else Done [].
  Proof.
    unfold regex_dispatch, regex_dispatch_with, regex_rule_b.
    destruct (r_ignore_dirs cfg && is_directory (ecls e)); simpl; [reflexivity|].
    rewrite !(any_match_ext _ _ (event_paths e) (own_paths e)) by (intros; apply event_paths_In).
    destruct (any_match rmatch (r_cs cfg) (default [] (r_ignore cfg)) (own_paths e)); simpl; [reflexivity|].
    destruct (any_match rmatch (r_cs cfg) (regex_list (r_regexes cfg)) (own_paths e)); reflexivity.
  Qed.

  Lemma regex_iff cfg e :
    (regex_dispatch rmatch cfg e = dispatch_base e <-> regex_rule cfg e) /\
    (regex_dispatch rmatch cfg e = Done [] <-> ~ regex_rule cfg e).
  Proof.
    rewrite regex_dispatch_eq. rewrite <- regex_rule_reflect.
    destruct (regex_rule_b cfg e); split; split; intros H0; try reflexivity; try congruence;
      try (exfalso; apply H0; reflexivity);
      try (exfalso; eapply dispatch_base_not_silent; exact H0);
      try (exfalso; eapply dispatch_base_not_silent; symmetry; exact H0).
  Qed.

  Lemma regex_defaults cfg e :
    regex_dispatch rmatch cfg e =
    regex_dispatch rmatch (mkR (RList (regex_list (r_regexes cfg))) (Some (default [] (r_ignore cfg)))
                               (r_ignore_dirs cfg) (r_cs cfg)) e.
  Proof. reflexivity. Qed.

  Lemma regex_default_includes_all igd cs e :
    (forall p, rmatch cs dotstar p = true) ->
    ~ (igd = true /\ is_directory (ecls e) = true) -> own_paths e <> [] ->
    regex_dispatch rmatch (mkR RNone None igd cs) e = dispatch_base e.
  Proof.
    intros Hall Hd Hp. apply (regex_iff (mkR RNone None igd cs) e). split; [exact Hd|]. split.
    - intros p r _ [].
    - destruct (own_paths e) as [|p l]; [congruence|]. exists p, dotstar.
      split; [left; reflexivity|]. split; [left; reflexivity | apply Hall].
  Qed.

  (* F7: the pinned regex handler matches the empty destination of a non-move event. *)
  Lemma regex_pinned_include_empty r cs c src :
    src <> [] -> rmatch cs r [] = true -> rmatch cs r src = false ->
    let cfg := mkR (RList [r]) None false cs in
    let e := mkEvent c src [] in
    regex_dispatch_pinned rmatch cfg e = dispatch_base e /\ ~ regex_rule cfg e.
  Proof.
    intros Hs H0 H1 cfg e. split.
    - unfold regex_dispatch_pinned, regex_dispatch_with, event_paths_pinned. simpl.
      rewrite H0. reflexivity.
    - intros [_ [_ [p [r' [Hp [Hr Hm]]]]]]. simpl in Hr. destruct Hr as [<-|[]].
      apply own_paths_In in Hp. simpl in Hp. destruct Hp as [[->| ->] Hne]; [|congruence].
      simpl in Hm. congruence.
  Qed.

  Lemma regex_pinned_ignore_empty r cs c src :
    src <> [] -> rmatch cs r [] = true -> rmatch cs r src = false -> rmatch cs dotstar src = true ->
    let cfg := mkR RNone (Some [r]) false cs in
    let e := mkEvent c src [] in
    regex_dispatch_pinned rmatch cfg e = Done [] /\ regex_rule cfg e.
  Proof.
    intros Hs H0 H1 H2 cfg e. split.
    - unfold regex_dispatch_pinned, regex_dispatch_with, event_paths_pinned. simpl.
      rewrite H0. reflexivity.
    - split; [intros [H _]; discriminate H|]. split.
      + intros p r' Hp [<-|[]]. apply own_paths_In in Hp. simpl in Hp.
        destruct Hp as [[->| ->] Hne]; [exact H1 | congruence].
      + exists src, dotstar. split; [|split; [left; reflexivity | exact H2]].
        apply own_paths_In. simpl. split; [left; reflexivity | exact Hs].
  Qed.
End RegexProofs.

(* ---------------------------------------------------------------- refutation witnesses *)
(* An oracle in which the regex "^$" (94 36) matches exactly the empty string and ".*" everything. *)
Definition rm_demo (cs : bool) (r p : bytes) : bool :=
  if beqb r [94; 36]%N then negb (nonemptyb p) else beqb r dotstar.

Lemma regex_pinned_refuted :
  exists (rmatch : bool -> bytes -> bytes -> bool) cfg e,
    ~ (regex_dispatch_pinned rmatch cfg e = dispatch_base e <-> regex_rule rmatch cfg e).
Proof.
  exists rm_demo, (mkR (RList [[94; 36]%N]) None false true), (mkEvent FileCreatedEvent [97%N] []).
  intros [H _].
  assert (H0 : rm_demo true [94; 36]%N [] = true) by reflexivity.
  assert (H1 : rm_demo true [94; 36]%N [97%N] = false) by reflexivity.
  destruct (regex_pinned_include_empty rm_demo [94; 36]%N true FileCreatedEvent [97%N]) as [Hd Hn];
    [discriminate | exact H0 | exact H1 |].
  apply Hn. apply H. exact Hd.
Qed.

(* A glob oracle in which "**" (42 42) matches every path including "", "a" matches "a". *)
Definition gm_demo (path pat : bytes) : bool :=
  if beqb pat [42; 42]%N then true else beqb pat path.

(* F7b: pinned match_any_paths = any(<yielded path strings>) does not see a matching empty path. *)
Lemma match_any_pinned_refuted :
  exists (lower : bytes -> bytes) (mp mw : bytes -> bytes -> bool) paths incl,
    match_any_paths_pinned lower mp mw paths (Some incl) None true = Ok false /\
    exists p i, In p paths /\ In i incl /\ gmatch lower mp mw true p i = true.
Proof.
  exists (fun x => x), gm_demo, gm_demo, [[]], [[42; 42]%N]. split; [reflexivity|].
  exists [], [42; 42]%N. simpl. repeat split; left; reflexivity.
Qed.

(* Repairing match_any_paths alone (every yielded path counts) while the handler still appends the
   empty destination would break the pattern handler: include "**" / exclude "a" dispatches "a". *)
Lemma pattern_pinned_paths_refuted :
  exists (lower : bytes -> bytes) (mp mw : bytes -> bytes -> bool) cfg e,
    pattern_dispatch_with lower mp mw (fun _ => true) event_paths_pinned cfg e = dispatch_base e /\
    ~ pattern_rule lower mp mw cfg e.
Proof.
  exists (fun x => x), gm_demo, gm_demo,
    (mkP (Some [[42; 42]%N]) (Some [[97%N]]) false true), (mkEvent FileCreatedEvent [97%N] []).
  split; [reflexivity|].
  intros [_ [p [Hp [_ Hx]]]]. apply own_paths_In in Hp. simpl in Hp.
  destruct Hp as [[->| ->] Hne]; [|congruence].
  specialize (Hx [97%N] (or_introl eq_refl)). discriminate Hx.
Qed.

(* ---------------------------------------------------------------- a concrete oracle for the Examples *)
(* A small concrete oracle: glob "a" matches path "a" (posix) and "a"/"A" (windows), "*" matches
   every non-empty path, lower maps "A" to "a"; regex "a" matches paths starting with "a"
   (or "A" when case-insensitive), ".*" everything. *)
Definition ex_lower (p : bytes) : bytes := map (fun c => if N.eqb c 65 then 97%N else c) p.
Definition ex_mp (path pat : bytes) : bool := if beqb pat star then nonemptyb path else beqb pat path.
Definition ex_mw (path pat : bytes) : bool :=
  if beqb pat star then nonemptyb path else beqb (ex_lower pat) (ex_lower path).
Definition ex_rm (cs : bool) (r p : bytes) : bool :=
  if beqb r dotstar then true
  else match r, p with
       | [x], y :: _ => if cs then N.eqb x y else beqb (ex_lower [x]) (ex_lower [y])
       | _, _ => false
       end.

