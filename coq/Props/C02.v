(* C02 - A recursive watch covers every directory that exists, under its current name.
   Only statements; every proof is `exact <lemma>`. *)
Require Import WD.Base.Prelude WD.Base.BStr WD.Model.SubEvents WD.Model.Emitter WD.Model.Fs WD.Model.Reader
               WD.Model.Pipeline WD.Proofs.CoverProofs.

(* Well-formed file systems (unique paths, unique inodes, fresh inode counter, normal paths, every entry that lies
   below another entry has its parent directory in the file system) are closed under every applicable operation
   on normal paths. *)
Theorem C02_wf_preserved : forall w o w', wf_fs w -> op_np o -> apply_op w o = Some w' -> wf_fs w'.
Proof. exact wf_apply_op. Qed.
Print Assumptions C02_wf_preserved.
