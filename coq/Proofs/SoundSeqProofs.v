(* C03 - soundness of every delivered event along SEQUENTIAL histories (one operation, everything read, grouped, emitted):
   every block delivers the operation's contract (ContractProofs / ReplaceProofs, c02p's step theorems for the state), and
   every event of a contract is justified by that very operation. *)
Require Import WD.Base.Prelude WD.Base.BStr WD.Model.SubEvents WD.Model.Emitter WD.Model.Fs WD.Model.Reader
               WD.Model.DelayQueue WD.Model.Grouping WD.Model.Pipeline WD.Model.Contract.
Require Import WD.Proofs.SubEventsProofs WD.Proofs.ReaderFixProofs WD.Proofs.ContractProofs WD.Proofs.PathProofs
               WD.Proofs.CoverProofs WD.Proofs.CoverOutProofs WD.Proofs.ReplayProofs WD.Proofs.ReplayOutProofs
               WD.Proofs.ReplaceProofs.

Local Arguments sep : simpl never.

(* ================================================================== A. every event of a contract is justified *)
Lemma in_scope_np rec root p : npath p -> in_scope rec root p = watched_dir rec root (dirname p).
Proof.
  intros (d & n & -> & [Hd Hs] & Hn). rewrite in_scope_child by assumption.
  now rewrite (dirname_np d n (conj Hd Hs) Hn).
Qed.

Lemma in_scope_rec root x : in_scope true root x = under root x.
Proof. unfold in_scope. cbn [orb]. apply andb_true_r. Qed.

Definition sok (rec : bool) (root x : bytes) : bool := is_nil x || beqb x root || in_scope rec root x.

Lemma sok_self rec root p : in_scope rec root p = true -> sok rec root p = true.
Proof. intros H. unfold sok. rewrite H. now rewrite orb_true_r. Qed.

Lemma sok_parent rec root p : npath p -> in_scope rec root p = true -> sok rec root (dirname p) = true.
Proof.
  intros Np H. rewrite (in_scope_np rec root p Np) in H. unfold watched_dir in H. unfold sok.
  destruct (beqb (dirname p) root); [now rewrite orb_true_r|]. cbn [orb] in H. apply andb_true_iff in H as [-> H].
  rewrite in_scope_rec, H. now rewrite orb_true_r.
Qed.

Lemma sok_desc root p s : in_scope true root p = true -> sok true root (p ++ s) = true.
Proof.
  rewrite in_scope_rec. intros H. unfold sok. rewrite in_scope_rec.
  unfold under in *. apply starts_spec in H as [r0 ->]. rewrite <- app_assoc, starts_app. now rewrite orb_true_r.
Qed.

Lemma sok_nil rec root : sok rec root [] = true.
Proof. reflexivity. Qed.

Lemma eqb_refl' b : Bool.eqb b b = true.
Proof. now destruct b. Qed.

Ltac junfold :=
  unfold justified;
  cbn [mk parent_modified ev_cls ev_src ev_dest ev_synth what_of moved_cls created_cls deleted_cls modified_cls
       oprec_of o_op o_wasdir o_desc o_replaced o_replaced_dir op_p op_q existsb is_nil negb];
  repeat match goal with |- context [is_nil ?x || beqb ?x ?root || in_scope ?rec ?root ?x] =>
    change (is_nil x || beqb x root || in_scope rec root x) with (sok rec root x) end.

Section Just.
  Variables (rec full : bool) (root : bytes) (t : fs).

  Ltac jfin :=
    rewrite ?beqb_refl, ?eqb_refl'; cbn [orb andb negb];
    repeat match goal with H : sok _ _ _ = true |- _ => rewrite H end;
    rewrite ?orb_true_r; cbn [orb andb negb]; try reflexivity.

  Lemma synth_in_desc (T : SubEvents.tree) k rel : In (k, rel) (desc [] T) ->
    In (relsuffix rel, kdir k) (map (fun d : kind * list bytes => (relsuffix (snd d), kdir (fst d))) (desc [] T)).
  Proof. intros H. apply in_map_iff. exists (k, rel). auto. Qed.

  Lemma contract_justified o : op_np o ->
    forall e, In e (contract rec full root t o) -> justified rec root [oprec_of t o] e = true.
  Proof.
    intros Hn e He. destruct o as [p|p|p|p|p|p|p q]; cbn [op_np] in Hn; cbn [contract] in He.
    1-6: destruct (in_scope rec root p) eqn:Hs; [|destruct He];
      assert (S1 := sok_self _ _ _ Hs); assert (S2 := sok_parent _ _ _ Hn Hs); assert (S0 := sok_nil rec root);
      repeat (destruct He as [<-|He]); try contradiction; junfold; jfin.
    - (* chmod: file or directory *) destruct (fisdir p t); junfold; jfin.
    - (* rename *)
      destruct Hn as [Np Nq]. assert (S0 := sok_nil rec root).
      set (d := fisdir p t) in *.
      destruct (in_scope rec root p) eqn:Hsp; destruct (in_scope rec root q) eqn:Hsq; cbn [andb] in He.
      + assert (S1 := sok_self _ _ _ Hsp). assert (S2 := sok_parent _ _ _ Np Hsp).
        assert (S3 := sok_self _ _ _ Hsq). assert (S4 := sok_parent _ _ _ Nq Hsq).
        destruct He as [<-|[<-|[<-|He]]]; [junfold; fold d; destruct d; jfin | junfold; jfin | junfold; jfin |].
        apply in_app_iff in He as [He|He].
        * destruct (rec && d) eqn:Edeep; [|destruct He]. apply andb_true_iff in Edeep as [-> Ed].
          unfold synth_moved in He. apply in_map_iff in He as [[k rel] [<- Hin]]. cbn [fst snd].
          junfold. fold d. rewrite Ed. rewrite (sok_desc root p _ Hsp), (sok_desc root q _ Hsq). cbn [andb orb].
          destruct k; cbn [kdir moved_cls what_of]; cbn [negb andb orb];
            (rewrite orb_false_r || idtac); apply existsb_exists;
            eexists; (split; [apply (synth_in_desc _ _ _ Hin) | cbn [fst snd kdir]; now rewrite !beqb_refl]).
        * destruct (d && fisdir q t && rec) eqn:Ev; [|destruct He]. destruct He as [<-|[]].
          apply andb_true_iff in Ev as [Ev _]. apply andb_true_iff in Ev as [_ Fq].
          junfold. unfold fexists, fisdir in *. destruct (flookup q t); [|discriminate]. rewrite Fq. jfin.
      + assert (S1 := sok_self _ _ _ Hsp). assert (S2 := sok_parent _ _ _ Np Hsp).
        destruct He as [<-|[<-|[]]]; [|junfold; jfin]. destruct full; junfold; fold d; destruct d; jfin.
      + assert (S3 := sok_self _ _ _ Hsq). assert (S4 := sok_parent _ _ _ Nq Hsq).
        destruct He as [<-|[<-|He]]; [destruct full; junfold; fold d; destruct d; jfin | junfold; jfin |].
        apply in_app_iff in He as [He|He].
        * destruct (rec && d) eqn:Edeep; [|destruct He]. apply andb_true_iff in Edeep as [-> Ed].
          unfold synth_created in He. apply in_map_iff in He as [[k rel] [<- Hin]]. cbn [fst snd].
          junfold. fold d. rewrite Ed. rewrite (sok_desc root q _ Hsq). cbn [andb orb].
          destruct k; cbn [kdir created_cls what_of]; cbn [negb andb orb];
            (rewrite orb_false_r || idtac); apply existsb_exists;
            eexists; (split; [apply (synth_in_desc _ _ _ Hin) | cbn [fst snd kdir]; now rewrite !beqb_refl]).
        * destruct (d && fisdir q t && rec) eqn:Ev; [|destruct He]. destruct He as [<-|[]].
          apply andb_true_iff in Ev as [Ev _]. apply andb_true_iff in Ev as [_ Fq].
          junfold. unfold fexists, fisdir in *. destruct (flookup q t); [|discriminate]. rewrite Fq. jfin.
      + destruct He.
  Qed.
End Just.

(* ================================================================== B. collapse keeps the set of events *)
Lemma nevent_eqb_eq a b : nevent_eqb a b = true -> a = b.
Proof.
  unfold nevent_eqb. intros H. apply andb_true_iff in H as [H Hs]. apply andb_true_iff in H as [H Hd].
  apply andb_true_iff in H as [Hc Hsrc]. apply beqb_eq in Hsrc, Hd. apply Bool.eqb_prop in Hs.
  destruct a as [c1 s1 d1 y1], b as [c2 s2 d2 y2]. cbn in *. subst. f_equal. destruct c1, c2; try discriminate; reflexivity.
Qed.

Lemma collapse_in l : forall e, In e l <-> In e (collapse l).
Proof.
  induction l as [|a l IH]; intros e; [tauto|]. cbn [collapse]. destruct l as [|b l']; [tauto|].
  destruct (nevent_eqb a b) eqn:E.
  - apply nevent_eqb_eq in E. subst b. rewrite <- IH. split; [intros [->|H]; [left; reflexivity | exact H] | now right].
  - split.
    + intros [->|H]; [now left | right; now apply IH].
    + intros [->|H]; [now left | right; now apply IH].
Qed.

Lemma collapse_forall (P : nevent -> Prop) l1 l2 : collapse l1 = collapse l2 -> (forall e, In e l2 -> P e) -> forall e, In e l1 -> P e.
Proof. intros Hc H e He. apply H. apply (proj2 (collapse_in l2 e)). rewrite <- Hc. apply (proj1 (collapse_in l1 e)). exact He. Qed.

(* ================================================================== C. every block delivers the operation's contract *)
Section Blocks.
  Variable C : cfg.
  Variable full : bool.
  Hypothesis Hfaults : c_faults C = [].
  Hypothesis Hmo : c_fix_moveout C = true.
  Hypothesis Hm : c_mask C = WATCHDOG_ALL.
  Let rec := c_recursive C.
  Let root := c_root C.

  Lemma delivered_of w k r o w' r' k' raws evs : apply_op w o = Some w' ->
    read_batch C (w_fs w') (r, drainq (kernel_op k (w_fs w) o), []) (k_queue (kernel_op k (w_fs w) o)) = Done (r', k', raws) ->
    deliver_one C full w k r o = Some evs -> evs = delivered C full w' raws.
  Proof.
    intros Ha Hrd Hd. unfold deliver_one in Hd. rewrite Ha in Hd.
    change (kdrained (kernel_op k (w_fs w) o)) with (drainq (kernel_op k (w_fs w) o)) in Hd. rewrite Hrd in Hd.
    now injection Hd as <-.
  Qed.

  (* a directory crossing the border of the tree, or renamed inside it, onto a free name *)
  Lemma rsync_contract_dir w k r p q w' ep r' k' raws : RSync C w k r -> npath p -> npath q ->
    flookup p (w_fs w) = Some ep -> f_dir ep = true -> flookup q (w_fs w) = None ->
    apply_op w (Rename p q) = Some w' ->
    read_batch C (w_fs w') (r, drainq (kernel_op k (w_fs w) (Rename p q)), []) (k_queue (kernel_op k (w_fs w) (Rename p q)))
      = Done (r', k', raws) ->
    collapse (delivered C full w' raws) = collapse (contract rec full root (w_fs w) (Rename p q)).
  Proof.
    intros S Np Nq Elp Dep Elq Ha Hrd.
    assert (W := rs_wf _ _ _ _ S). assert (Hq := rs_queue _ _ _ _ S). assert (Hpd := rs_pend _ _ _ _ S).
    destruct (rename_inv w p q w' W Np Nq Ha) as (_ & _ & _ & _ & _ & Edq & _).
    assert (Cp : cover C r k (w_fs w) (dirname p)) by (eapply cover_parent; eassumption).
    assert (Cq : cover C r k (w_fs w) (dirname q)) by (now apply cover_dir).
    destruct (contract_rename_dir_wf C full w k r p q w' Hq Hpd W Np Nq Cp Cq) as (evs & Hd & Hcol); try assumption.
    - unfold fisdir. now rewrite Elp.
    - unfold fisdir. now rewrite Elq.
    - now rewrite <- (delivered_of _ _ _ _ _ _ _ _ _ Ha Hrd Hd).
  Qed.

  (* from a synchronised state *)
  Lemma rsync_contract w k r o w' r' k' raws : RSync C w k r -> c01_x C w o -> apply_op w o = Some w' ->
    read_batch C (w_fs w') (r, drainq (kernel_op k (w_fs w) o), []) (k_queue (kernel_op k (w_fs w) o)) = Done (r', k', raws) ->
    collapse (delivered C full w' raws) = collapse (contract rec full root (w_fs w) o).
  Proof.
    intros S Ho Ha Hrd. destruct Ho as [o [Ho|Hin]|p q ep Np Nq Hrec El De Sp Hpr Sq Elq].
    - destruct (delivers_covered C full w k r o w' S Hm Ho Ha) as (evs & Hd & Hcol).
      now rewrite <- (delivered_of _ _ _ _ _ _ _ _ _ Ha Hrd Hd).
    - destruct o as [p|p|p|p|p|p|p q]; try contradiction.
      destruct Hin as (ep & Np & Nq & Hrec & Hfix & El & De & Sp & Hpr & Sq & Elq).
      eapply rsync_contract_dir; eassumption.
    - eapply rsync_contract_dir; eassumption.
  Qed.

  Theorem gs_contract_step w k r hot o w' : GS C w k r hot -> step_ok1 C w hot o -> apply_op w o = Some w' ->
    let k1 := kernel_op k (w_fs w) o in
    exists r' k' raws, read_batch C (w_fs w') (r, drainq k1, []) (k_queue k1) = Done (r', k', raws) /\
      GS C w' k' r' (hot_next C w hot o) /\
      collapse (delivered C full w' raws) = collapse (contract rec full root (w_fs w) o).
  Proof.
    intros G Hs Ea k1.
    destruct (gs_step C Hfaults Hmo w k r hot o w' Hm G (step_ok1_ok C _ _ _ Hs) Ea) as (r' & k' & raws & Hrd & G' & Hsafe).
    exists r', k', raws. split; [exact Hrd|]. split; [exact G'|]. unfold k1 in Hrd. clear k1.
    assert (M : mask_ok C) by (unfold mask_ok; rewrite Hm; repeat split; vm_compute; discriminate).
    destruct hot as [h|]; cbn [GS step_ok1] in *.
    - destruct G as (c & p & PO). destruct Hs as (Ho & Hwp & Hnh).
      assert (Qne := record_produced C w k r o Hm (rs_wf _ _ _ _ (po_clean _ _ _ _ _ _ _ PO)) (po_cover _ _ _ _ _ _ _ PO) (po_mask _ _ _ _ _ _ _ PO) Hwp).
      destruct (pout_step C Hfaults Hmo w k r h c p o w' M PO (c01_op_covered _ _ _ Ho) Hnh Ea Qne)
        as (r2 & k2 & evs & Hrd2 & _ & _ & kc & rc & k3 & Sc & Hrdc).
      cbv zeta in Hrd2. rewrite Hrd in Hrd2. injection Hrd2 as <- <- <-.
      exact (rsync_contract w kc rc o w' _ _ _ Sc (c1_op C w o Ho) Ea Hrdc).
    - rewrite (junk_read_eq C Hmo w k r o (w_fs w') G) in Hrd.
      exact (rsync_contract w (kset_queue k []) r o w' _ _ _ (js_sync _ _ _ _ G) Hs Ea Hrd).
  Qed.

  (* ================================================================== D. sequential histories *)
  (* op; read the whole kernel queue; group; emit - and every delivered event must be justified by the operations executed
     so far (this one included) *)
  Fixpoint srun (w : world) (k : kst) (r : rstate) (ops : list op) (recs : list oprec) : option bool :=
    match ops with
    | [] => Some true
    | o :: ops' =>
      match apply_op w o with
      | None => srun w k r ops' recs
      | Some w' => let k1 := kernel_op k (w_fs w) o in
                   match read_batch C (w_fs w') (r, drainq k1, []) (k_queue k1) with
                   | Done (r', k', raws) =>
                     let recs' := recs ++ [oprec_of (w_fs w) o] in
                     match srun w' k' r' ops' recs' with
                     | Some b => Some (forallb (justified rec root recs') (delivered C full w' raws) && b)
                     | None => None
                     end
                   | Crash _ => None
                   end
      end
    end.

  Lemma justified_mono recs o e : justified rec root [o] e = true -> justified rec root (recs ++ [o]) e = true.
  Proof.
    unfold justified. destruct (what_of (ev_cls e)) as [what isdir].
    intros H. apply andb_true_iff in H as [H1 H2]. rewrite H1. cbn [andb].
    destruct what, isdir; rewrite existsb_app; rewrite H2; apply orb_true_r.
  Qed.

  Definition novictim (w : world) (o : op) : Prop :=
    match o with Rename p q => fisdir p (w_fs w) && fisdir q (w_fs w) && rec = false | _ => True end.

  Lemma fisdir_none q t0 : flookup q t0 = None -> fisdir q t0 = false.
  Proof. unfold fisdir. now intros ->. Qed.

  Lemma c01x_np w o : c01_x C w o -> op_np o /\ novictim w o.
  Proof.
    intros [o' [[Hc Hch]|Hin]|p q ep Np Nq Hrec El De Sp Hpr Sq Elq].
    - destruct Hc as [o2 Hqo Hn|p Hn|p Hn Hr|p q ep Np Nq El De Ed|p q ep Np Nq Hrec El De Sp Hpr Sq Elq
                      |p q ep Np Nq Hrec Hfix El De Sp Hpr Sq Elq|p q ep v Np Nq Hrec El De Sp Hpr Sq Hqr Elq Dv
                      |p q ep Np Nq El De Hpr Hqr Hupr Hpl|p q ep v Np Nq Hrec Hfix El De Sp Hpr Sq Hqr Elq Dv]; cbn [op_np novictim].
      + split; [exact Hn|]. destruct o2; try exact I. destruct Hqo.
      + now split.
      + now split.
      + split; [now split|]. unfold fisdir at 1. now rewrite El, De.
      + split; [now split|]. now rewrite (fisdir_none _ _ Elq), andb_false_r.
      + split; [now split|]. now rewrite (fisdir_none _ _ Elq), andb_false_r.
      + exfalso. destruct Hch as (_ & _ & Hn); [unfold fisdir; now rewrite El | congruence].
      + exfalso. destruct Hch as (Sp & Hrec & _); [unfold fisdir; now rewrite El|].
        destruct Hpl as [Hf|[Hs _]]; [congruence | contradiction].
      + exfalso. destruct Hch as [Sp' _]; [unfold fisdir; now rewrite El | contradiction].
    - destruct o' as [p|p|p|p|p|p|p q]; try contradiction.
      destruct Hin as (ep & Np & Nq & Hrec & Hfix & El & De & Sp & Hpr & Sq & Elq). cbn [op_np novictim].
      split; [now split|]. now rewrite (fisdir_none _ _ Elq), andb_false_r.
    - cbn [op_np novictim]. split; [now split|]. now rewrite (fisdir_none _ _ Elq), andb_false_r.
  Qed.

  Lemma step_ok1_np w hot o : step_ok1 C w hot o -> op_np o /\ novictim w o.
  Proof.
    destruct hot as [h|]; cbn [step_ok1]; [intros (Ho & _ & _); apply c01x_np; now apply c1_op | apply c01x_np].
  Qed.

  (* every block: the delivered events are justified by the operation of the block *)
  Theorem sound_sequential_x : forall ops w k r hot recs, GS C w k r hot -> ops_x1 C w hot ops ->
    srun w k r ops recs = Some true.
  Proof.
    induction ops as [|o ops IH]; intros w k r hot recs G Hc; cbn [srun ops_x1] in *; [reflexivity|].
    destruct (apply_op w o) as [w'|] eqn:Ea; [|now apply (IH w k r hot)].
    destruct Hc as [Hs Hc].
    destruct (gs_contract_step w k r hot o w' G Hs Ea) as (r' & k' & raws & -> & G' & Hcol).
    rewrite (IH w' k' r' _ _ G' Hc). f_equal. rewrite andb_true_r.
    apply forallb_forall. intros e He. apply justified_mono.
    destruct (step_ok1_np w hot o Hs) as [Hn Hv].
    revert e He. apply (collapse_forall _ _ _ Hcol). intros e He.
    now apply (contract_justified rec full root (w_fs w) o Hn).
  Qed.

  (* from Inotify.__init__ *)
  Theorem sound_from_start_x ops w : wf_fs w -> fisdir root (w_fs w) = true -> ops_x1 C w None ops ->
    exists r0 k0, construct C kinit (w_fs w) = Some (r0, k0) /\ srun w k0 r0 ops [] = Some true.
  Proof.
    intros W Hroot Hc.
    destruct (construct_cover C Hfaults w W Hroot) as (r0 & k0 & Hcons & I & Cv & Hq & _ & Hp).
    assert (S : RSync C w k0 r0).
    { constructor; try assumption. destruct (fisdir_in _ _ Hroot) as (er & He & Ee & De). now exists er. }
    exists r0, k0. split; [exact Hcons|].
    exact (sound_sequential_x ops w k0 r0 None [] (RSync_JSync _ _ _ _ S) Hc).
  Qed.
End Blocks.

(* ================================================================== an instance: the former phantom history *)
(* mkdir R/b; mv R/b O/x (the directory leaves the tree); mkdir R/b (the name is re-created while the candidate is pending);
   mv R/b R/a; touch O/x/g (inside the directory that left: the operation that used to produce the phantom event) *)
Definition phx_ops : list op := f10b_ops ++ [Touch (sub (sub pO 120) 103)].

Lemma phx_ops_x1 : ops_x1 (cfgo true) w0 None phx_ops.
Proof.
  assert (GR : gpath pR) by (split; [discriminate | reflexivity]).
  assert (GO : gpath pO) by (split; [discriminate | reflexivity]).
  assert (Na : forall n, valid_name [n] = true -> npath (sub pR n)) by (intros; now apply npath_sub).
  assert (No : forall n, valid_name [n] = true -> npath (sub pO n)) by (intros; now apply npath_sub).
  assert (NS : forall p, ~ scope (cfgo true) (sub pO p)) by (intros p [H|H]; vm_compute in H; discriminate).
  unfold phx_ops, f10b_ops. cbn [app].
  eapply ops_x1_cons; [vm_compute; reflexivity | apply c1_op; left; split; [apply co_mkdir; now apply Na | exact I] |].
  eapply ops_x1_cons; [vm_compute; reflexivity | |].
  { eapply c1_out; try (now apply Na); try (now apply No); try reflexivity; try (vm_compute; reflexivity);
      try (right; vm_compute; reflexivity); try (vm_compute; discriminate). apply NS. }
  vm_compute hot_next.
  eapply ops_x1_cons; [vm_compute; reflexivity | |].
  { split; [left; split; [apply co_mkdir; now apply Na | exact I]|]. split.
    - exists pR. split; [now left|]. split; [now left | reflexivity].
    - intros d [<-|[]]. vm_compute. reflexivity. }
  vm_compute hot_next.
  eapply ops_x1_cons; [vm_compute; reflexivity | |].
  { apply c1_op. left. split; [|intros _; split; [right; vm_compute; reflexivity | split; [reflexivity | vm_compute; reflexivity]]].
    eapply co_rename_dir; try (now apply Na); try reflexivity; try (vm_compute; reflexivity);
      try (right; vm_compute; reflexivity); try (vm_compute; discriminate). }
  vm_compute hot_next.
  eapply ops_x1_cons; [vm_compute; reflexivity | |].
  { apply c1_op. left. split; [|exact I]. apply co_quiet; [exact I|]. cbn [op_np].
    apply npath_sub; [apply npath_gpath; now apply No | reflexivity]. }
  exact I.
Qed.

(* the run, by computation: every block is sound, and the whole stream has no event below /s/O or below the former /s/R/b
   after the move-out other than those of the re-created directory *)
Lemma phx_run :
  exists r0 k0, construct (cfgo true) kinit (w_fs w0) = Some (r0, k0) /\
    srun (cfgo true) false w0 k0 r0 phx_ops [] = Some true /\
    exists w' k' r' out, drun (cfgo true) false w0 k0 r0 phx_ops [] = Some (w', k', r', out) /\
      length out = 9%nat /\ forallb (fun e => negb (under pO (ev_src e))) out = true.
Proof.
  eexists; eexists. split; [vm_compute; reflexivity|]. split; [vm_compute; reflexivity|].
  eexists; eexists; eexists; eexists. split; [vm_compute; reflexivity|]. split; vm_compute; reflexivity.
Qed.

(* the same history on the Pipeline model, block-wise: AOp; ARead (everything); ATick; AEmit x4 *)
Definition block_history (ops : list op) : list action :=
  flat_map (fun o => [AOp o; ARead 100; ATick 10; AEmit; AEmit; AEmit; AEmit]) ops.
Definition phx_P : pcfg := {| pc_reader := cfgo true; pc_full := false; pc_filter := None; pc_delay := 5 |}.

Lemma phx_pipeline :
  exists s0, pinit phx_P w0 = Some s0 /\ sound_along phx_P s0 [] (block_history phx_ops) = true.
Proof. eexists. split; vm_compute; reflexivity. Qed.
