(* C11 lag, kernel side (4): the records one operation appends to a queue of junk (the reader's own IN_IGNORED records of
   removed watches) - their masks, descriptors and cookies; nothing is coalesced. *)
Require Import WD.Base.Prelude WD.Base.BStr WD.Model.SubEvents WD.Model.Emitter WD.Model.Fs WD.Model.Reader.
Require Import WD.Proofs.C11KernelProofs WD.Proofs.C11SeqProofs WD.Proofs.C11KInvProofs WD.Proofs.C11KShapeProofs.
Local Open Scope N_scope.

(* the masks of [g] are a sub-sequence of [ms] *)
Inductive chain : list N -> list kraw -> Prop :=
| ch_nil ms : chain ms []
| ch_skip m ms g : chain ms g -> chain (m :: ms) g
| ch_take m ms e g : k_mask e = m -> chain ms g -> chain (m :: ms) (e :: g).

Lemma chain_app ms1 ms2 g1 g2 : chain ms1 g1 -> chain ms2 g2 -> chain (ms1 ++ ms2) (g1 ++ g2).
Proof.
  intros H1 H2. induction H1 as [ms|m ms g H IH|m ms e g Hm H IH]; cbn [app].
  - induction ms as [|m ms IH]; [exact H2 | apply ch_skip; exact IH].
  - apply ch_skip. exact IH.
  - apply ch_take; assumption.
Qed.

Lemma chain_in ms g e : chain ms g -> In e g -> In (k_mask e) ms.
Proof.
  intros H. induction H as [ms|m ms g H IH|m ms x g Hm H IH]; intros Hin; [destruct Hin | right; auto|].
  destruct Hin as [->|Hin]; [left; now symmetry | right; auto].
Qed.

Lemma chain_nodup ms g : NoDup ms -> chain ms g -> NoDup (map k_mask g).
Proof.
  intros Hn H. induction H as [ms|m ms g H IH|m ms e g Hm H IH]; [constructor | inversion Hn; auto|].
  inversion Hn as [|? ? Hm' Hn']; subst. cbn [map]. constructor; [|auto].
  intros Hin. apply in_map_iff in Hin as [x [Hx Hin]]. apply Hm'. rewrite <- Hx. eapply chain_in; eassumption.
Qed.

Lemma chain_one m g : chain [m] g -> g = [] \/ exists e, g = [e] /\ k_mask e = m.
Proof.
  intros H. inversion H as [| ? ? ? X | ? ? e ? Hm X]; subst; [now left | inversion X; now left|].
  inversion X; subst. right. exists e. split; reflexivity.
Qed.

(* what is known of a record a kernel primitive queues for an instance whose watch descriptors are in W *)
Record newrec (W : list N) (c0 : N) (e : kraw) : Prop := {
  nr_wd : In (k_wd e) W;
  nr_cookie : k_cookie e = 0 \/ k_cookie e = c0;
  nr_to : is_moved_to (k_mask e) = true -> k_cookie e = c0 }.

Section One.
  Variable W : list N.
  Variable c0 : N.

  Lemma knotify_new k ino bit isdir c name :
    (forall w, In w (k_watches k) -> In (kw_wd w) W) -> (c = 0 \/ c = c0) ->
    (is_moved_to (nmask bit isdir) = true -> c = c0) ->
    exists g, k_queue (knotify k ino bit isdir c name) = k_queue k ++ g /\ chain [nmask bit isdir] g /\
              Forall (newrec W c0) g /\
              (forall q0 l e, k_queue k = q0 ++ [l] -> In e g -> kraw_eqb l e = false).
  Proof.
    intros HW Hc Ht. unfold knotify. destruct (watch_of_ino k ino) as [w|] eqn:Ew.
    2:{ exists []. rewrite app_nil_r. repeat split; [constructor | constructor | intros ? ? ? _ []]. }
    destruct (N.eqb (N.land bit (kw_mask w)) 0).
    { exists []. rewrite app_nil_r. repeat split; [constructor | constructor | intros ? ? ? _ []]. }
    cbn [k_queue]. set (e := {| k_wd := kw_wd w; k_mask := if isdir then N.lor bit IN_ISDIR else bit; k_cookie := c; k_name := name |}).
    destruct (kpush_cases (k_queue k) e) as [[H _]|H]; rewrite H.
    - exists []. rewrite app_nil_r. repeat split; [constructor | constructor | intros ? ? ? _ []].
    - exists [e]. split; [reflexivity|]. split; [apply ch_take; [reflexivity | constructor]|]. split.
      + constructor; [|constructor]. constructor; cbn [e k_wd k_cookie k_mask]; [|exact Hc | exact Ht].
        apply HW. unfold watch_of_ino in Ew. apply find_some in Ew. tauto.
      + intros q0 l x Eq [<-|[]]. destruct (kraw_eqb l e) eqn:El; [|reflexivity].
        rewrite Eq in H. rewrite (kpush_last q0 l e El) in H. apply (f_equal (@length _)) in H.
        rewrite !app_length in H. simpl in H. lia.
  Qed.

  Lemma kgone_new k ino af :
    (forall w, In w (k_watches k) -> In (kw_wd w) W) ->
    exists g, k_queue (kgone k ino af) = k_queue k ++ g /\
              chain [nmask IN_ATTRIB true; nmask IN_DELETE_SELF false; IN_IGNORED] g /\ Forall (newrec W c0) g /\
              (forall w, In w (k_watches (kgone k ino af)) -> In (kw_wd w) W).
  Proof.
    intros HW. unfold kgone. destruct (watch_of_ino k ino) as [w|] eqn:Ew.
    2:{ exists []. rewrite app_nil_r. repeat split; [constructor | constructor | exact HW]. }
    set (k1 := if af then knotify k ino IN_ATTRIB true 0 [] else k).
    assert (A1 : exists g1, k_queue k1 = k_queue k ++ g1 /\ chain [nmask IN_ATTRIB true] g1 /\ Forall (newrec W c0) g1 /\
                            (forall x, In x (k_watches k1) -> In (kw_wd x) W)).
    { subst k1. destruct af.
      - destruct (knotify_new k ino IN_ATTRIB true 0 [] HW (or_introl eq_refl) ltac:(discriminate)) as [g [E [Hc [Hn _]]]].
        exists g. repeat split; try assumption. rewrite knotify_watches. exact HW.
      - exists []. rewrite app_nil_r. repeat split; [constructor | constructor | exact HW]. }
    destruct A1 as [g1 [E1 [C1 [N1 W1]]]].
    destruct (knotify_new k1 ino IN_DELETE_SELF false 0 [] W1 (or_introl eq_refl) ltac:(discriminate)) as [g2 [E2 [C2 [N2 _]]]].
    set (k2 := knotify k1 ino IN_DELETE_SELF false 0 []) in *.
    cbn [k_queue k_watches].
    destruct (kpush_app (k_queue k2) {| k_wd := kw_wd w; k_mask := IN_IGNORED; k_cookie := 0; k_name := [] |}) as [g3 [E3 H3]].
    exists (g1 ++ g2 ++ g3). split; [rewrite E3, E2, E1, <- !app_assoc; reflexivity|]. split; [|split].
    - change [nmask IN_ATTRIB true; nmask IN_DELETE_SELF false; IN_IGNORED]
        with ([nmask IN_ATTRIB true] ++ [nmask IN_DELETE_SELF false] ++ [IN_IGNORED]).
      apply chain_app; [exact C1|]. apply chain_app; [exact C2|].
      destruct H3 as [-> | ->]; [constructor | apply ch_take; [reflexivity | constructor]].
    - apply Forall_app. split; [exact N1|]. apply Forall_app. split; [exact N2|].
      destruct H3 as [-> | ->]; [constructor|]. constructor; [|constructor].
      constructor; cbn [k_wd k_cookie k_mask]; [|now left | discriminate].
      apply HW. unfold watch_of_ino in Ew. apply find_some in Ew. tauto.
    - intros x Hx. apply filter_In in Hx as [Hx _]. unfold k2 in Hx. rewrite knotify_watches in Hx. apply W1. exact Hx.
  Qed.
End One.

Lemma NoDup_app_intro {A} (l1 l2 : list A) :
  NoDup l1 -> NoDup l2 -> (forall x, In x l1 -> In x l2 -> False) -> NoDup (l1 ++ l2).
Proof.
  induction l1 as [|a l1 IH]; intros H1 H2 H; [exact H2|]. inversion H1 as [|? ? Ha Hl]; subst. cbn [app]. constructor.
  - intros Hin. apply in_app_or in Hin as [Hin|Hin]; [exact (Ha Hin) | exact (H a (or_introl eq_refl) Hin)].
  - apply IH; [exact Hl | exact H2 | intros x Hx1 Hx2; apply (H x); [now right | exact Hx2]].
Qed.

(* ------------------------------------------------------------------ no coalescing over junk *)
Definition junkq (W : list N) (J : list kraw) : Prop :=
  NoDup (map kkey J) /\ forall x, In x J -> k_mask x = IN_IGNORED /\ ~ In (k_wd x) W.

Lemma nodup_over_junk W J g :
  junkq W J -> NoDup (map kkey g) ->
  (forall y, In y g -> k_mask y = IN_IGNORED -> In (k_wd y) W) -> NoDup (map kkey (J ++ g)).
Proof.
  intros [HJ1 HJ2] Hg Hi. rewrite map_app. apply NoDup_app_intro; [exact HJ1 | exact Hg|].
  intros key H1 H2. apply in_map_iff in H1 as [x [Hx Hxi]]. apply in_map_iff in H2 as [y [Hy Hyi]].
  destruct (HJ2 x Hxi) as [Mx Wx]. unfold kkey in *. apply Wx.
  assert (My : k_mask y = IN_IGNORED) by congruence.
  replace (k_wd x) with (k_wd y) by congruence. apply Hi; assumption.
Qed.

(* ------------------------------------------------------------------ one operation *)
Section Built.
  Variable W : list N.
  Variable c0 : N.

  Definition built (ms : list N) (k k' : kst) : Prop :=
    (forall w, In w (k_watches k') -> In (kw_wd w) W) /\
    exists g, k_queue k' = k_queue k ++ g /\ chain ms g /\ Forall (newrec W c0) g.

  Lemma built_refl k : (forall w, In w (k_watches k) -> In (kw_wd w) W) -> built [] k k.
  Proof. intros H. split; [exact H|]. exists []. rewrite app_nil_r. repeat split; constructor. Qed.

  Lemma built_knotify ms k k1 ino bit isdir c name :
    built ms k k1 -> (c = 0 \/ c = c0) -> (is_moved_to (nmask bit isdir) = true -> c = c0) ->
    built (ms ++ [nmask bit isdir]) k (knotify k1 ino bit isdir c name).
  Proof.
    intros [HW [g [E [Hc Hn]]]] C1 C2.
    destruct (knotify_new W c0 k1 ino bit isdir c name HW C1 C2) as [g' [E' [Hc' [Hn' _]]]].
    split; [rewrite knotify_watches; exact HW|].
    exists (g ++ g'). split; [rewrite E', E, app_assoc; reflexivity|]. split; [apply chain_app; assumption|].
    apply Forall_app. split; assumption.
  Qed.

  Lemma built_kgone ms k k1 ino af :
    built ms k k1 -> built (ms ++ [nmask IN_ATTRIB true; nmask IN_DELETE_SELF false; IN_IGNORED]) k (kgone k1 ino af).
  Proof.
    intros [HW [g [E [Hc Hn]]]].
    destruct (kgone_new W c0 k1 ino af HW) as [g' [E' [Hc' [Hn' HW']]]].
    split; [exact HW'|].
    exists (g ++ g'). split; [rewrite E', E, app_assoc; reflexivity|]. split; [apply chain_app; assumption|].
    apply Forall_app. split; assumption.
  Qed.
End Built.

Lemma nodup_masks_keys g : NoDup (map k_mask g) -> NoDup (map kkey g).
Proof. apply (NoDup_map_proj kkey (fun x : N * N * bytes => snd (fst x))). Qed.

Theorem kernel_op_new k t o :
  exists g, k_queue (kernel_op k t o) = k_queue k ++ g /\
            Forall (newrec (map kw_wd (k_watches k)) (k_next_cookie k)) g /\ NoDup (map kkey g).
Proof.
  set (W := map kw_wd (k_watches k)). set (c0 := k_next_cookie k).
  assert (HW : forall w, In w (k_watches k) -> In (kw_wd w) W) by (intros w Hw; now apply in_map).
  pose proof (built_refl W c0 k HW) as B0.
  assert (Fin : forall ms k', built W c0 ms k k' -> NoDup ms ->
                exists g, k_queue k' = k_queue k ++ g /\ Forall (newrec W c0) g /\ NoDup (map kkey g)).
  { intros ms k' [_ [g [E [Hc Hn]]]] Hnd. exists g. split; [exact E|]. split; [exact Hn|].
    apply nodup_masks_keys. eapply chain_nodup; eassumption. }
  assert (ND : forall l : list N, (fix nd (l : list N) : bool :=
                 match l with [] => true | a :: l' => negb (existsb (N.eqb a) l') && nd l' end) l = true -> NoDup l).
  { induction l as [|a l IH]; intros H; [constructor|]. apply andb_true_iff in H as [H1 H2]. constructor; [|exact (IH H2)].
    intros Hin. apply negb_true_iff in H1. assert (X : existsb (N.eqb a) l = true); [|congruence].
    apply existsb_exists. exists a. split; [exact Hin | apply N.eqb_refl]. }
  destruct o as [p|p|p|p|p|p|p q]; cbn [kernel_op].
  - eapply Fin; [repeat (apply built_knotify; [|now left | discriminate]); exact B0|]. apply ND. reflexivity.
  - eapply Fin; [repeat (apply built_knotify; [|now left | discriminate]); exact B0|]. apply ND. reflexivity.
  - destruct (fisdir p t).
    + (* chmod of a directory: the same mask on two watches; the second record is appended only if it differs *)
      destruct (knotify_new W c0 k (ino_of t (dirname p)) IN_ATTRIB true 0 (basename p) HW (or_introl eq_refl) ltac:(discriminate))
        as [g1 [E1 [C1 [N1 _]]]].
      set (k1 := knotify k (ino_of t (dirname p)) IN_ATTRIB true 0 (basename p)) in *.
      assert (HW1 : forall w, In w (k_watches k1) -> In (kw_wd w) W) by (unfold k1; rewrite knotify_watches; exact HW).
      destruct (knotify_new W c0 k1 (ino_of t p) IN_ATTRIB true 0 [] HW1 (or_introl eq_refl) ltac:(discriminate))
        as [g2 [E2 [C2 [N2 F2]]]].
      exists (g1 ++ g2). split; [rewrite E2, E1, app_assoc; reflexivity|]. split; [apply Forall_app; split; assumption|].
      destruct (chain_one _ _ C1) as [->|[e1 [-> M1]]]; destruct (chain_one _ _ C2) as [->|[e2 [-> M2]]]; cbn [app map];
        try (repeat constructor; simpl; tauto).
      constructor; [|repeat constructor; simpl; tauto].
      intros [K|[]]. assert (El : kraw_eqb e1 e2 = false) by (apply (F2 (k_queue k) e1 e2 E1); now left).
      assert (X : kraw_eqb e1 e2 = true) by (apply kraw_eqb_key; now symmetry). congruence.
    + eapply Fin; [apply built_knotify; [|now left | discriminate]; exact B0|]. apply ND. reflexivity.
  - eapply Fin; [apply built_knotify; [|now left | discriminate]; exact B0|]. apply ND. reflexivity.
  - eapply Fin; [apply built_knotify; [|now left | discriminate]; exact B0|]. apply ND. reflexivity.
  - eapply Fin; [apply built_knotify; [|now left | discriminate]; apply built_kgone; exact B0|]. apply ND. reflexivity.
  - set (k0 := {| k_watches := k_watches k; k_next_wd := k_next_wd k; k_queue := k_queue k;
                  k_next_cookie := k_next_cookie k + 1 |}).
    assert (B0' : built W c0 [] k k0) by exact B0.
    destruct (fisdir p t), (fisdir q t);
      (eapply Fin; [repeat first [apply built_kgone | apply built_knotify; [|now right | intros _; reflexivity]]; exact B0'|]);
      apply ND; reflexivity.
Qed.
