(* Structural invariants of the observer LTS: the lock-ownership invariant (LockInv of DESIGN.md §8b). *)
Require Import WD.Base.Prelude WD.Model.Observer WD.Proofs.ObserverProofs.

(* ------------------------------------------------------------------ thread ids, continuations of other threads *)
Lemma tid_eqb_eq a b : tid_eqb a b = true <-> a = b.
Proof.
  destruct a, b; simpl; split; intros H; try discriminate; auto.
  - apply N.eqb_eq in H. subst; auto.
  - inversion H. apply N.eqb_refl.
Qed.
Lemma tid_eqb_refl a : tid_eqb a a = true. Proof. apply tid_eqb_eq; auto. Qed.
Lemma tid_eqb_neq a b : tid_eqb a b = false <-> a <> b.
Proof.
  split; intros H.
  - intros E. apply tid_eqb_eq in E. congruence.
  - destruct (tid_eqb a b) eqn:E; auto. apply tid_eqb_eq in E. contradiction.
Qed.
Lemma tid_eq_dec (a b : tid) : {a = b} + {a <> b}.
Proof. destruct (tid_eqb a b) eqn:E; [left; apply tid_eqb_eq; auto | right; apply tid_eqb_neq; auto]. Qed.

Lemma alookup_aset_same {V} n (v : V) m : alookup N.eqb n (aset N.eqb n v m) = Some v.
Proof.
  induction m as [|[a b] m IH]; simpl; [rewrite N.eqb_refl; auto|].
  destruct (N.eqb n a) eqn:E; simpl; rewrite ?E, ?N.eqb_refl; auto.
Qed.
Lemma alookup_aset_other {V} n n' (v : V) m : n <> n' -> alookup N.eqb n' (aset N.eqb n v m) = alookup N.eqb n' m.
Proof.
  intros Hn. induction m as [|[a b] m IH]; simpl.
  - destruct (N.eqb n' n) eqn:E; auto. apply N.eqb_eq in E. congruence.
  - destruct (N.eqb n a) eqn:E; simpl.
    + apply N.eqb_eq in E. subst a. destruct (N.eqb n' n) eqn:E'; auto. apply N.eqb_eq in E'. congruence.
    + destruct (N.eqb n' a); auto.
Qed.

Lemma cont_set_cont_same t k s : cont (set_cont t k s) t = k.
Proof. destruct t; simpl; auto. rewrite alookup_aset_same. reflexivity. Qed.
Lemma cont_set_cont_other t t' k s : t <> t' -> cont (set_cont t k s) t' = cont s t'.
Proof.
  intros H. destruct t, t'; simpl; auto; try congruence.
  rewrite alookup_aset_other; auto. congruence.
Qed.
Lemma lock_set_cont t k s : lock (set_cont t k s) = lock s. Proof. destruct t; reflexivity. Qed.
Lemma dstarted_set_cont t k s : dstarted (set_cont t k s) = dstarted s. Proof. destruct t; reflexivity. Qed.
Lemma dexited_set_cont t k s : dexited (set_cont t k s) = dexited s. Proof. destruct t; reflexivity. Qed.
Lemma emitters_set_cont t k s : emitters (set_cont t k s) = emitters s. Proof. destruct t; reflexivity. Qed.
Lemma efw_set_cont t k s : efw (set_cont t k s) = efw s. Proof. destruct t; reflexivity. Qed.

(* ------------------------------------------------------------------ what a step of thread t does to the others *)
(* the continuation of another thread changes only when a start() starts the dispatcher thread *)
Lemma exec_others s t i k inp s' : exec s t i k inp = Some s' -> forall t', t' <> t ->
  cont s' t' = cont s t' \/ (i = IStartDisp /\ t' = TD /\ dstarted s = false /\ cont s' t' = [DCheck]).
Proof.
  intros H t' Ht. destruct i; crush_exec H; rewrite cont_set_cont_other by congruence;
    try (left; destruct t'; reflexivity).
  destruct t'; [right; repeat split; auto | left; reflexivity].
Qed.

Definition held (s : state) (t : tid) : nat :=
  match lock s with Some (o, n) => if tid_eqb o t then n else 0 | None => 0 end.

(* the lock changes only by IAcq / IRel of the executing thread *)
Lemma exec_lock s t i k inp s' : exec s t i k inp = Some s' ->
  (lock s' = lock s /\ i <> IAcq /\ i <> IRel) \/
  (i = IAcq /\ held s' t = S (held s t) /\ (forall t', t' <> t -> held s' t' = 0 /\ held s t' = 0) /\ lock s' <> None) \/
  (i = IRel /\ S (held s' t) = held s t /\ (forall t', t' <> t -> held s' t' = 0 /\ held s t' = 0)).
Proof.
  intros H. destruct i; crush_exec H; rewrite ?lock_set_cont; cbn;
    try (left; repeat split; auto; discriminate).
  - (* IAcq, lock taken by t *) right; left. unfold held. rewrite !lock_set_cont. cbn.
    match goal with H : lock _ = _ |- _ => rewrite H end.
    match goal with H : tid_eqb _ _ = true |- _ => apply tid_eqb_eq in H; subst end.
    rewrite tid_eqb_refl. repeat split; auto; try discriminate;
      destruct (tid_eqb t t') eqn:E; auto; apply tid_eqb_eq in E; congruence.
  - (* IAcq, free *) right; left. unfold held. rewrite !lock_set_cont. cbn.
    match goal with H : lock _ = _ |- _ => rewrite H end. rewrite tid_eqb_refl.
    repeat split; auto; try discriminate;
      destruct (tid_eqb t t') eqn:E; auto; apply tid_eqb_eq in E; congruence.
  - right; right; unfold held; rewrite !lock_set_cont; cbn;
    match goal with H : lock _ = _ |- _ => rewrite H end;
    try match goal with H : tid_eqb _ _ = true |- _ => apply tid_eqb_eq in H; subst end;
    cbn; rewrite ?tid_eqb_refl; repeat split; auto; intros;
    destruct (tid_eqb t t') eqn:E; auto; apply tid_eqb_eq in E; congruence.
  - right; right; unfold held; rewrite !lock_set_cont; cbn;
    match goal with H : lock _ = _ |- _ => rewrite H end;
    try match goal with H : tid_eqb _ _ = true |- _ => apply tid_eqb_eq in H; subst end;
    cbn; rewrite ?tid_eqb_refl; repeat split; auto; intros;
    destruct (tid_eqb t t') eqn:E; auto; apply tid_eqb_eq in E; congruence.
Qed.

(* ------------------------------------------------------------------ well-formed continuations *)
Definition needs_lock (i : instr) : bool :=
  match i with
  | ISched _ _ | IEmStartS _ | IRegEm _ | IAddHW _ _ | IAddH _ _ | IRemH _ _ | IUnsched _ | IEmStop _
  | IEmJoin _ | IDelWatch _ | IClear | IIterChk _ | IClearEm | IStartCopy | IStartEm _ | IFailStart _
  | IStartDisp | DSnap | DTurns => true
  | _ => false
  end.

(* scanning a continuation with the number of times its thread holds the observer lock: every
   instruction that touches the registry is reached with the lock held, every release has something to
   release, and at the end nothing is held *)
Fixpoint wfd (d : nat) (k : list instr) : bool :=
  match k with
  | [] => Nat.eqb d 0
  | IAcq :: k' => wfd (S d) k'
  | IRel :: k' => match d with O => false | S d' => wfd d' k' end
  | i :: k' => (negb (needs_lock i) || negb (Nat.eqb d 0)) && wfd d k'
  end.

Definition is_acq (i : instr) : bool := match i with IAcq => true | _ => false end.
Definition noacq (k : list instr) : bool := forallb (fun i => negb (is_acq i)) k.
(* an acquire is pending only as the next instruction (or right behind the flag set of stop()) *)
Definition acq_pos (k : list instr) : bool :=
  match k with
  | IAcq :: k' => noacq k'
  | ISetStop :: IAcq :: k' => noacq k'
  | _ => noacq k
  end.

Definition terminal (i : instr) : bool := match i with DCheck | DGet | DExitI => true | _ => false end.
Fixpoint last_only (k : list instr) : bool :=
  match k with
  | [] => true
  | [x] => true
  | x :: k' => negb (terminal x) && last_only k'
  end.

Definition inner (i : instr) : bool :=
  match i with IAcq | IRel => false | _ => negb (terminal i) end.

Lemma wfd_app_inner d new k : forallb inner new = true -> wfd (S d) (new ++ k) = wfd (S d) k.
Proof.
  induction new as [|x new IH]; simpl; intros H; auto.
  apply andb_true_iff in H as [Hx Hn]. destruct x; simpl in Hx; try discriminate; simpl; rewrite ?IH; auto.
Qed.

Lemma wfd_app_free d new k : forallb (fun i => inner i && negb (needs_lock i)) new = true ->
  wfd d (new ++ k) = wfd d k.
Proof.
  induction new as [|x new IH]; simpl; intros H; auto.
  apply andb_true_iff in H as [Hx Hn]. destruct x; simpl in Hx; try discriminate; simpl; rewrite ?IH; auto.
Qed.

Lemma noacq_app a b : noacq (a ++ b) = noacq a && noacq b.
Proof. unfold noacq. apply forallb_app. Qed.

Lemma noacq_acq_pos k : noacq k = true -> acq_pos k = true.
Proof.
  intros H. destruct k as [|i k]; auto. destruct i; simpl in *; auto; try discriminate.
  destruct k as [|j k]; auto. destruct j; simpl in *; auto. discriminate.
Qed.

Lemma inner_noacq new : forallb inner new = true -> noacq new = true.
Proof.
  induction new as [|x new IH]; simpl; intros H; auto. apply andb_true_iff in H as [Hx Hn].
  rewrite IH; auto. destruct x; simpl in *; auto.
Qed.

Lemma last_only_app new k : forallb inner new = true -> last_only k = true -> last_only (new ++ k) = true.
Proof.
  induction new as [|x new IH]; simpl; intros H Hk; auto. apply andb_true_iff in H as [Hx Hn].
  specialize (IH Hn Hk). destruct (new ++ k) eqn:E; auto. rewrite IH.
  destruct x; simpl in Hx; try discriminate; auto.
Qed.

Lemma last_only_tail x k : last_only (x :: k) = true -> last_only k = true.
Proof. simpl. destruct k; auto. intros H. apply andb_true_iff in H. tauto. Qed.

Lemma last_only_terminal x k : last_only (x :: k) = true -> terminal x = true -> k = [].
Proof. simpl. destruct k; auto. intros H T. rewrite T in H. discriminate. Qed.

Lemma noacq_unwind k : noacq k = true -> noacq (unwind k) = true.
Proof.
  induction k as [|x k IH]; simpl; intros H; auto. apply andb_true_iff in H as [Hx Hk].
  destruct x; simpl in *; auto; rewrite ?Hk; auto.
Qed.

Lemma wfd_unwind k : forall d, noacq k = true -> wfd d k = true -> wfd d (unwind k) = true.
Proof.
  induction k as [|x k IH]; simpl; intros d Hn H; auto. apply andb_true_iff in Hn as [Hx Hk].
  destruct x; simpl in *; try discriminate; auto;
    try (apply andb_true_iff in H as [_ H]; apply IH; auto; fail);
    try (destruct d; [discriminate | apply IH; auto]).
Qed.

Lemma last_only_unwind k : last_only k = true -> last_only (unwind k) = true.
Proof.
  induction k as [|x k IH]; intros H; auto.
  assert (Hk := last_only_tail _ _ H). specialize (IH Hk).
  destruct x; simpl; auto;
    try (simpl in H; destruct k; [auto | apply andb_true_iff in H as [T _]; simpl in T; try discriminate]; auto; fail).
  destruct (unwind k); auto.
Qed.

Lemma forallb_inner_flat {A} (f : A -> list instr) l :
  (forall a, forallb inner (f a) = true) -> forallb inner (flat_map f l) = true.
Proof. intros H. induction l; simpl; auto. rewrite forallb_app, H, IHl. auto. Qed.
Lemma forallb_inner_map {A} (f : A -> instr) l : (forall a, inner (f a) = true) -> forallb inner (map f l) = true.
Proof. intros H. induction l; simpl; auto. rewrite H, IHl. auto. Qed.

Lemma body_ok c k d : wfd d k = true -> noacq k = true -> last_only k = true ->
  wfd d (body true c ++ k) = true /\ acq_pos (body true c ++ k) = true /\ last_only (body true c ++ k) = true.
Proof.
  intros H1 H2 H3. destruct c; simpl; rewrite ?H1, ?H2; repeat split; auto;
    destruct k; simpl in *; auto.
Qed.

Lemma last_only_cons_inner x k : inner x = true -> last_only k = true -> last_only (x :: k) = true.
Proof. intros Hx Hk. apply (last_only_app [x] k); simpl; auto. rewrite Hx; auto. Qed.

Lemma acq_pos_after_setstop k : acq_pos (ISetStop :: k) = true -> acq_pos k = true.
Proof.
  destruct k as [|i l]; auto. destruct i; intros H; simpl in H; auto;
    try (apply noacq_acq_pos; exact H).
Qed.

Definition B (d : nat) (k : list instr) : Prop := wfd d k = true /\ acq_pos k = true /\ last_only k = true.

Lemma B_raise d i k : is_acq i = false -> i <> ISetStop -> i <> IRel -> B d (i :: k) -> B d (unwind k).
Proof.
  intros Ha Hs Hr [H1 [H2 H3]].
  assert (Hn : noacq k = true).
  { destruct i; simpl in *; try discriminate; try congruence;
      try (apply andb_true_iff in H2; tauto). }
  assert (Hw : wfd d k = true).
  { destruct i; simpl in *; try discriminate; try congruence;
      try (apply andb_true_iff in H1; tauto); auto. }
  repeat split.
  - apply wfd_unwind; auto.
  - apply noacq_acq_pos. apply noacq_unwind; auto.
  - apply last_only_unwind. eapply last_only_tail; eauto.
Qed.

Ltac inner_solve :=
  first [ reflexivity
        | apply forallb_inner_flat; intros; reflexivity
        | apply forallb_inner_map; intros; reflexivity ].

Ltac split_ands :=
  repeat match goal with H : _ && _ = true |- _ => apply andb_true_iff in H as [? ?] end.

Lemma exec_self s t i k inp s' : fixed s = true -> exec s t i k inp = Some s' ->
  B (held s t) (i :: k) -> B (held s' t) (cont s' t).
Proof.
  intros Hf H HB. destruct (exec_lock _ _ _ _ _ _ H) as [[HL [Hn1 Hn2]] | [[-> [Hh _]] | [-> [Hh _]]]].
  - assert (Hd : held s' t = held s t) by (unfold held; rewrite HL; auto). rewrite Hd. clear Hd HL.
    remember (held s t) as d eqn:Ed. clear Ed.
    destruct i; try congruence; crush_exec H; rewrite cont_set_cont_same;
      try (eapply B_raise; [ | | | exact HB]; [reflexivity | discriminate | discriminate]);
      try (rewrite Hf; destruct HB as [H1 [H2 H3]]; simpl in H1, H2; split_ands;
           apply body_ok; auto; eapply last_only_tail; eauto; fail);
      destruct HB as [H1 [H2 H3]]; unfold B; simpl in H1, H2; split_ands;
      try (destruct d as [|d]; [simpl in *; discriminate|]).
    all: try (pose proof (last_only_tail _ _ H3) as H3').
    all: try (repeat split; simpl; rewrite ?andb_true_r; auto using noacq_acq_pos; fail).
    all: try (repeat split; auto; apply acq_pos_after_setstop; simpl; auto; fail).
    all: try (assert (k = []) by (eapply last_only_terminal; eauto); subst k; simpl in *;
              match goal with H : Nat.eqb ?d 0 = true |- _ => apply Nat.eqb_eq in H; subst d end;
              repeat split; reflexivity).
    all: try (repeat split;
              [ rewrite ?wfd_app_inner by inner_solve; simpl; rewrite ?wfd_app_inner by inner_solve; simpl; auto
              | apply noacq_acq_pos; rewrite ?noacq_app; simpl; rewrite ?noacq_app; simpl;
                rewrite ?inner_noacq by inner_solve; simpl; auto
              | repeat (first [ apply last_only_app; [inner_solve|] | apply last_only_cons_inner; [reflexivity|] ]); auto ]).
  - (* IAcq *) crush_exec H; rewrite cont_set_cont_same in *; rewrite Hh;
      destruct HB as [H1 [H2 H3]]; apply last_only_tail in H3; simpl in H1, H2;
      repeat split; auto using noacq_acq_pos.
  - (* IRel *) crush_exec H; rewrite cont_set_cont_same in *; rewrite <- Hh in HB;
      destruct HB as [H1 [H2 H3]]; apply last_only_tail in H3; simpl in H1, H2; split_ands;
      repeat split; auto using noacq_acq_pos.
Qed.

(* ------------------------------------------------------------------ LockInv *)
Definition lock_pos (s : state) : bool := match lock s with Some (_, O) => false | _ => true end.

Definition LockInv (s : state) : Prop :=
  fixed s = true /\ (forall t, B (held s t) (cont s t)) /\ (dstarted s = false -> dcont s = []) /\ lock_pos s = true.

Lemma exec_misc s t i k inp s' : exec s t i k inp = Some s' ->
  fixed s' = fixed s /\ (dstarted s' = dstarted s \/ (i = IStartDisp /\ dstarted s' = true)) /\
  (lock_pos s = true -> lock_pos s' = true).
Proof.
  intros H. destruct i; crush_exec H; unfold lock_pos; rewrite ?fixed_set_cont, ?dstarted_set_cont, ?lock_set_cont; cbn;
    repeat split; auto.
  all: try (intros _; match goal with |- context [match ?n with O => _ | S _ => _ end] => destruct n end; auto).
Qed.

Lemma held_same_lock s s' t : lock s' = lock s -> held s' t = held s t.
Proof. unfold held. intros ->. reflexivity. Qed.

Lemma B_nil_held d : B d [] -> d = 0.
Proof. intros [H _]. simpl in H. apply Nat.eqb_eq in H. auto. Qed.

Lemma LockInv_exec s t i k inp s' : LockInv s -> cont s t = i :: k -> exec s t i k inp = Some s' -> LockInv s'.
Proof.
  intros [Hf [HB [HD HP]]] Ec H.
  destruct (exec_misc _ _ _ _ _ _ H) as [Ef [Eds Elp]].
  split; [congruence|]. split; [|split; [|auto]].
  - intros t'. destruct (tid_eq_dec t' t) as [->|Hne].
    + eapply exec_self; eauto. rewrite <- Ec. apply HB.
    + assert (Hh : held s' t' = held s t').
      { destruct (exec_lock _ _ _ _ _ _ H) as [[HL _] | [[_ [_ [Ho _]]] | [_ [_ Ho]]]].
        - apply held_same_lock; auto.
        - destruct (Ho t' Hne). congruence.
        - destruct (Ho t' Hne). congruence. }
      rewrite Hh. destruct (exec_others _ _ _ _ _ _ H t' Hne) as [E | [Ei [Et [Hds E]]]].
      * rewrite E. apply HB.
      * subst t'. rewrite E. specialize (HB TD). simpl in HB. rewrite (HD Hds) in HB.
        apply B_nil_held in HB. rewrite HB. repeat split; reflexivity.
  - intros Hds'. assert (Hds : dstarted s = false).
    { destruct Eds as [E | [_ E]]; congruence. }
    destruct (tid_eq_dec TD t) as [<-|Hne].
    + simpl in Ec. rewrite (HD Hds) in Ec. discriminate.
    + destruct (exec_others _ _ _ _ _ _ H TD Hne) as [E | [Ei [Et [_ E]]]].
      * simpl in E. rewrite E. auto.
      * subst i. destruct Eds as [E' | [_ E']]; try congruence.
        exfalso. clear - H Hds Hds'. simpl in H. rewrite Hds in H. inversion H; subst.
        rewrite dstarted_set_cont in Hds'. simpl in Hds'. discriminate.
Qed.

Lemma em_step_frame s l s' : em_label l = true -> step s l = Some s' ->
  (forall t, cont s' t = cont s t) /\ lock s' = lock s /\ dstarted s' = dstarted s /\ fixed s' = fixed s
  /\ dexited s' = dexited s /\ dstop s' = dstop s /\ handlers s' = handlers s /\ emitters s' = emitters s
  /\ dtodo s' = dtodo s /\ dcur s' = dcur s.
Proof.
  intros Hl H. destruct l; try discriminate; simpl in H;
    repeat match type of H with context [match ?x with _ => _ end] => destruct x eqn:? end;
    try discriminate; inversion H; subst; clear H; repeat split; intros; try destruct t; reflexivity.
Qed.

Lemma LockInv_em s l s' : LockInv s -> em_label l = true -> step s l = Some s' -> LockInv s'.
Proof.
  intros [Hf [HB [HD HP]]] Hl H.
  destruct (em_step_frame _ _ _ Hl H) as [Ec [El [Ed [Ef _]]]].
  split; [congruence|]. split; [|split].
  - intros t. rewrite Ec. rewrite (held_same_lock s s' t El). apply HB.
  - intros Hd. specialize (Ec TD). simpl in Ec. rewrite Ec. apply HD. congruence.
  - unfold lock_pos in *. rewrite El. auto.
Qed.

Lemma LockInv_call s n c : LockInv s -> cont s (TA n) = [] ->
  LockInv (set_cont (TA n) (body (fixed s) c) (say (GCall (TA n) c) s)).
Proof.
  intros [Hf [HB [HD HP]]] Ec. split; [auto|]. split; [|split; auto].
  intros t. assert (Hh : held (set_cont (TA n) (body (fixed s) c) (say (GCall (TA n) c) s)) t = held s t) by reflexivity.
  rewrite Hh. destruct (tid_eq_dec (TA n) t) as [<-|Hne].
  - rewrite cont_set_cont_same. specialize (HB (TA n)). rewrite Ec in HB. apply B_nil_held in HB. rewrite HB, Hf.
    pose proof (body_ok c [] 0 eq_refl eq_refl eq_refl) as Hb. rewrite app_nil_r in Hb. exact Hb.
  - rewrite cont_set_cont_other by auto. destruct t; apply HB.
Qed.

Lemma LockInv_reachable s : reachable s -> LockInv s.
Proof.
  apply reach_P.
  - apply LockInv_exec.
  - apply LockInv_call.
  - apply LockInv_em.
  - repeat split; auto; destruct t; reflexivity.
Qed.

(* consequences *)
Lemma held_pos_owner s t : held s t <> 0 -> exists n, lock s = Some (t, n) /\ held s t = n.
Proof.
  unfold held. destruct (lock s) as [[o n]|]; try congruence.
  destruct (tid_eqb o t) eqn:E; try congruence. apply tid_eqb_eq in E. subst. eauto.
Qed.

(* an instruction that touches the registry (or a handler turn) is only ever reached with the lock held *)
Lemma needs_lock_owner s t i k : reachable s -> cont s t = i :: k -> needs_lock i = true ->
  exists n, lock s = Some (t, S n).
Proof.
  intros Hs Ec Hi. destruct (LockInv_reachable s Hs) as [_ [HB _]]. specialize (HB t). rewrite Ec in HB.
  destruct HB as [H _]. destruct (held s t) eqn:Eh.
  - exfalso. destruct i; simpl in Hi; try discriminate; simpl in H; discriminate.
  - destruct (held_pos_owner s t) as [n' [El En]]; [congruence|]. exists n. congruence.
Qed.
