(* C01: the replay of the delivered event stream (harness/pipeprops.py: replay, in_scope, scope_listing) as a
   Gallina function, the drain of the pipeline as a function with fuel, and the first sequential-layer lemma. *)
Require Import WD.Base.Prelude WD.Base.BStr WD.Model.SubEvents WD.Model.Emitter WD.Model.Fs WD.Model.Reader.
Require Import WD.Proofs.CoverProofs.
Require Import WD.Model.Pipeline.

Definition tree := list (bytes * bool).          (* path -> is_dir; compared as finite maps (Python dicts) *)

Definition below (p k : bytes) : bool := beqb k p || under p k.

(* in_scope(run, p): strictly below the root; non-recursive: a direct child *)
Definition in_scope (recursive : bool) (root p : bytes) : bool :=
  under root p && (recursive || negb (existsb (N.eqb sep) (skipn (length root + 1) p))).

Definition tdel_below (p : bytes) (t : tree) : tree := filter (fun kv => negb (below p (fst kv))) t.

Definition cls_isdir (c : evclass) : bool :=
  match c with DirCreated | DirDeleted | DirModified | DirMoved => true | _ => false end.

Section Replay.
  Variables (recursive : bool) (root : bytes).

  Definition tput (k : bytes) (v : bool) (t : tree) : tree :=
    if in_scope recursive root k then aset beqb k v t else t.

  Definition replay1 (t : tree) (e : nevent) : tree :=
    let isdir := cls_isdir (ev_cls e) in
    match ev_cls e with
    | FileCreated | DirCreated => tput (ev_src e) isdir t          (* also the synthetic created events *)
    | FileDeleted | DirDeleted => tdel_below (ev_src e) t
    | FileMoved | DirMoved =>
      if ev_synth e then t                                          (* carried by the parent's move *)
      else match ev_src e, ev_dest e with
           | [], _ => tput (ev_dest e) isdir t                      (* full emitter: arrival from outside *)
           | _, [] => tdel_below (ev_src e) t                       (* full emitter: departure *)
           | _, _ =>
             let t1 := tdel_below (ev_dest e) t in
             let moved := filter (fun kv => below (ev_src e) (fst kv)) t1 in
             let t2 := tdel_below (ev_src e) t1 in
             fold_left (fun acc kv => tput (ev_dest e ++ skipn (length (ev_src e)) (fst kv)) (snd kv) acc) moved t2
           end
    | _ => t                                                        (* modified / opened / closed *)
    end.

  Definition replay (t0 : tree) (evs : list nevent) : tree := fold_left replay1 evs t0.

  (* scope_listing: the entries below the root (non-recursive: the direct children) *)
  Definition tree_of (w : world) : tree :=
    map (fun e => (f_path e, f_dir e)) (filter (fun e => in_scope recursive root (f_path e)) (w_fs w)).
End Replay.

Definition tree_eq (a b : tree) : Prop := forall p, alookup beqb p a = alookup beqb p b.

(* drain: read everything, then emit / let time pass until the delay queue is empty *)
Fixpoint emit_all (P : pcfg) (fuel : nat) (s : pstate) : outcome pstate :=
  match fuel with
  | O => Done s
  | S f =>
    match DelayQueue.q (fst (p_buf s)) with
    | [] => Done s
    | _ => match pstep P s AEmit with
           | Crash c => Crash c
           | Done (s1, OSkip) =>
             match pstep P s (ATick (pc_delay P)) with
             | Done (s2, _) => emit_all P f s2
             | Crash c => Crash c
             end
           | Done (s1, _) => emit_all P f s1
           end
    end
  end.

Definition drain (P : pcfg) (fuel : nat) (s : pstate) : outcome pstate :=
  match pstep P s (ARead (length (k_queue (p_k s)))) with
  | Crash c => Crash c
  | Done (s1, _) => emit_all P fuel s1
  end.

(* op; drain; op; drain; ... *)
Fixpoint seq_run (P : pcfg) (fuel : nat) (s : pstate) (ops : list op) : outcome pstate :=
  match ops with
  | [] => Done s
  | o :: ops' =>
    match pstep P s (AOp o) with
    | Crash c => Crash c
    | Done (s1, _) => match drain P fuel s1 with
                      | Crash c => Crash c
                      | Done s2 => seq_run P fuel s2 ops'
                      end
    end
  end.

(* the reader + emitter composition on one read: every raw event translated as a single (no pairing) *)
Definition emit_singles (C : cfg) (full : bool) (content : bytes -> SubEvents.tree) (evs : list raw) : list nevent :=
  flat_map (fun e => fst (emit_single full (c_recursive C) (c_root C) content e)) evs.

(* ---- Touch: what the reader produced for it replays to "the file exists" *)
Lemma replay_touch recursive root full rec wroot content wd name p t :
  replay recursive root t (flat_map (fun e => fst (emit_single full rec wroot content e)) (touch_raws wd name p))
  = tput recursive root p false t.
Proof. reflexivity. Qed.

Lemma touch_sequential C w k r de name w' full content t :
  RSync C w k r -> c_mask C = WATCHDOG_ALL ->
  In de (w_fs w) -> f_dir de = true -> scope C (f_path de) -> valid_name name = true ->
  let p := f_path de ++ sep :: name in
  apply_op w (Touch p) = Some w' ->
  let k1 := kernel_op k (w_fs w) (Touch p) in
  exists evs, read_batch C (w_fs w') (r, drainq k1, []) (k_queue k1) = Done (r, drainq k1, evs) /\
    replay (c_recursive C) (c_root C) t (emit_singles C full content evs) = tput (c_recursive C) (c_root C) p false t /\
    w_fs w' = w_fs w ++ [{| f_path := p; f_ino := w_next_ino w; f_dir := false |}].
Proof.
  intros S Hm Hde Dde Sde Vn p Ha k1.
  destruct (probe_raws C w k r de name w' S Hm Hde Dde Sde Vn Ha) as (wd & H).
  exists (touch_raws wd name p). split; [exact H|]. split; [apply replay_touch|].
  cbn [apply_op] in Ha. destruct (fisdir (dirname p) (w_fs w) && negb (fexists p (w_fs w))); [|discriminate].
  now injection Ha as <-.
Qed.

Lemma aset_absent (k : bytes) (v : bool) (m : tree) : ~ In k (map fst m) -> aset beqb k v m = m ++ [(k, v)].
Proof.
  induction m as [|[a b] m IH]; cbn; intros H; [reflexivity|].
  destruct (beqb k a) eqn:E; [apply beqb_eq in E; exfalso; apply H; now left|].
  f_equal. apply IH. intros Hin. apply H. now right.
Qed.

(* the tree after Touch p is the old tree with p inserted (when p is in scope) *)
Lemma tree_of_touch recursive root w p ino : ~ In p (map f_path (w_fs w)) ->
  tree_of recursive root {| w_fs := w_fs w ++ [{| f_path := p; f_ino := ino; f_dir := false |}]; w_next_ino := ino + 1 |}
  = tput recursive root p false (tree_of recursive root w).
Proof.
  intros Hp. unfold tree_of, tput. cbn [w_fs]. rewrite filter_app, map_app. cbn [filter f_path].
  destruct (in_scope recursive root p); cbn [map f_path f_dir].
  - rewrite aset_absent; [reflexivity|]. rewrite map_map. cbn [fst]. intros Hin. apply Hp.
    apply in_map_iff in Hin as (e & Ee & He). apply filter_In in He as [He _]. rewrite <- Ee. now apply in_map.
  - now rewrite app_nil_r.
Qed.

(* C01, sequential layer, Touch: from a synchronised state whose replayed stream equals the tree, after Touch p in a
   covered directory and one full read, the replay of (old stream ++ translation of the new raw events) equals the new tree.
   Stated for the reader + emitter composition (every raw event of the read translated by emit_single), not through
   the delay queue. *)
Theorem C01_touch_reader_emitter C w k r de name w' full content t0 out :
  RSync C w k r -> c_mask C = WATCHDOG_ALL ->
  In de (w_fs w) -> f_dir de = true -> scope C (f_path de) -> valid_name name = true ->
  let p := f_path de ++ sep :: name in
  apply_op w (Touch p) = Some w' ->
  replay (c_recursive C) (c_root C) t0 out = tree_of (c_recursive C) (c_root C) w ->
  let k1 := kernel_op k (w_fs w) (Touch p) in
  exists evs, read_batch C (w_fs w') (r, drainq k1, []) (k_queue k1) = Done (r, drainq k1, evs) /\
    RSync C w' (drainq k1) r /\
    replay (c_recursive C) (c_root C) t0 (out ++ emit_singles C full content evs) = tree_of (c_recursive C) (c_root C) w'.
Proof.
  intros S Hm Hde Dde Sde Vn p Ha Hrep k1.
  destruct (touch_sequential C w k r de name w' full content (tree_of (c_recursive C) (c_root C) w) S Hm Hde Dde Sde Vn Ha)
    as (evs & Hrd & Hre & Hfs).
  exists evs. split; [exact Hrd|]. split.
  - assert (Np : npath p).
    { exists (f_path de), name. split; [reflexivity|]. split; [|exact Vn]. apply npath_gpath. apply (wf_np w); [apply S | exact Hde]. }
    destruct (step_quiet C w k r (Touch p) w' S Np I Ha) as (evs' & _ & _ & S'). exact S'.
  - unfold replay in *. rewrite fold_left_app, Hrep, Hre. assert (Ha' := Ha). cbn [apply_op] in Ha'.
    destruct (fisdir (dirname p) (w_fs w)) eqn:Ed; [|discriminate]. destruct (fexists p (w_fs w)) eqn:Ex; [discriminate|].
    cbn in Ha'. injection Ha' as <-. symmetry. apply tree_of_touch. now apply fexists_false.
Qed.
