(* Byte-string functions that mirror CPython's bytes/str methods and posixpath.
   Definitions are executable; they are validated against CPython by the
   correspondence harness (model `bytes`). *)
Require Import WD.Base.Prelude.

(* s.startswith(p) *)
Fixpoint starts (p s : bytes) : bool :=
  match p, s with
  | [], _ => true
  | x :: p', y :: s' => N.eqb x y && starts p' s'
  | _ :: _, [] => false
  end.

(* s.replace(old, new) for non-empty old: scan left to right, non-overlapping. *)
Fixpoint replace_all_go (old new s : bytes) (skip : nat) : bytes :=
  match s with
  | [] => []
  | c :: s' =>
    match skip with
    | S k => replace_all_go old new s' k
    | O => if starts old s
           then new ++ replace_all_go old new s' (length old - 1)
           else c :: replace_all_go old new s' 0
    end
  end.
Definition replace_all (old new s : bytes) : bytes := replace_all_go old new s 0.

(* s.replace(old, new, 1) for non-empty old. *)
Fixpoint replace_first (old new s : bytes) : bytes :=
  match s with
  | [] => []
  | c :: s' => if starts old s then new ++ skipn (length old) s
               else c :: replace_first old new s'
  end.

Definition last_is_sep (a : bytes) : bool :=
  match rev a with c :: _ => N.eqb c sep | [] => false end.

(* posixpath.join(a, b) *)
Definition join (a b : bytes) : bytes :=
  match b with
  | c :: _ => if N.eqb c sep then b
              else match a with
                   | [] => b
                   | _ => if last_is_sep a then a ++ b else a ++ sep :: b
                   end
  | [] => match a with
          | [] => []
          | _ => if last_is_sep a then a else a ++ [sep]
          end
  end.

Definition joins (a : bytes) (rel : list bytes) : bytes := fold_left join rel a.

(* strip trailing separators *)
Fixpoint rstrip_sep_rev (r : bytes) : bytes :=
  match r with
  | c :: r' => if N.eqb c sep then rstrip_sep_rev r' else r
  | [] => []
  end.
Definition rstrip_sep (a : bytes) : bytes := rev (rstrip_sep_rev (rev a)).

(* drop the last component: the reversed string up to and including the last sep *)
Fixpoint drop_to_sep_rev (r : bytes) : bytes :=
  match r with
  | c :: r' => if N.eqb c sep then r else drop_to_sep_rev r'
  | [] => []
  end.

(* posixpath.dirname(p) *)
Definition dirname (p : bytes) : bytes :=
  let head := rev (drop_to_sep_rev (rev p)) in
  match rstrip_sep head with
  | [] => head           (* head is empty or all separators *)
  | h => h
  end.

(* posixpath.basename(p) *)
Fixpoint basename_rev (r acc : bytes) : bytes :=
  match r with
  | c :: r' => if N.eqb c sep then acc else basename_rev r' (c :: acc)
  | [] => acc
  end.
Definition basename (p : bytes) : bytes := basename_rev (rev p) [].

Definition valid_name (n : bytes) : bool :=
  match n with [] => false | _ => forallb (fun c => negb (N.eqb c sep) && negb (N.eqb c 0)) n end.

(* "/n1/n2/..." *)
Definition relsuffix (rel : list bytes) : bytes := concat (map (fun n => sep :: n) rel).

(* ---------------------------------------------------------------- lemmas *)

Lemma starts_app p r : starts p (p ++ r) = true.
Proof. induction p as [|x p IH]; simpl; [reflexivity|]. rewrite N.eqb_refl. exact IH. Qed.

Lemma starts_spec p s : starts p s = true <-> exists r, s = p ++ r.
Proof.
  revert s; induction p as [|x p IH]; intros s; simpl.
  - split; [intros _; exists s; reflexivity | reflexivity].
  - destruct s as [|y s]; [split; [discriminate | intros [r Hr]; discriminate]|].
    rewrite andb_true_iff, N.eqb_eq, IH. split.
    + intros [-> [r ->]]. exists r. reflexivity.
    + intros [r Hr]. inversion Hr; subst. split; [reflexivity | exists r; reflexivity].
Qed.

Lemma skipn_app_length {A} (p r : list A) : skipn (length p) (p ++ r) = r.
Proof. induction p; simpl; auto. Qed.

(* The C14 string lemma: rewriting only the first occurrence of a prefix rewrites the prefix. *)
Lemma replace_first_prefix old new r :
  old <> [] -> replace_first old new (old ++ r) = new ++ r.
Proof.
  intros Hne. destruct old as [|x old]; [contradiction|].
  change ((x :: old) ++ r) with (x :: (old ++ r)).
  cbn [replace_first].
  change (x :: old ++ r) with ((x :: old) ++ r).
  rewrite starts_app. rewrite skipn_app_length. reflexivity.
Qed.

(* What replace-all does on a string that starts with `old`: the tail is rewritten too. *)
Lemma replace_all_go_skip old new s k :
  k <= length s -> replace_all_go old new s k = replace_all_go old new (skipn k s) 0.
Proof.
  revert k; induction s as [|c s IH]; intros k Hk; simpl in *.
  - destruct k; [reflexivity | lia].
  - destruct k; [reflexivity|]. simpl. apply IH. lia.
Qed.

Lemma replace_all_prefix old new r :
  old <> [] -> replace_all old new (old ++ r) = new ++ replace_all old new r.
Proof.
  intros Hne. destruct old as [|x old]; [contradiction|].
  unfold replace_all.
  change ((x :: old) ++ r) with (x :: (old ++ r)).
  cbn [replace_all_go].
  change (x :: old ++ r) with ((x :: old) ++ r).
  rewrite starts_app. f_equal.
  cbn [length]. replace (S (length old) - 1) with (length old) by lia.
  rewrite replace_all_go_skip by (rewrite app_length; lia).
  rewrite skipn_app_length. reflexivity.
Qed.

Lemma last_is_sep_app_name a n :
  valid_name n = true -> last_is_sep (a ++ n) = false.
Proof.
  unfold last_is_sep, valid_name. intros H. destruct n as [|c n]; [discriminate|].
  rewrite rev_app_distr.
  assert (Hall : forall x, In x (c :: n) -> N.eqb x sep = false).
  { intros x Hx. rewrite forallb_forall in H. specialize (H x Hx).
    apply andb_true_iff in H as [H _]. now apply negb_true_iff in H. }
  destruct (rev (c :: n)) as [|y l] eqn:E.
  - apply (f_equal (@length N)) in E. rewrite rev_length in E. simpl in E. lia.
  - simpl. apply Hall. apply in_rev. rewrite E. left. reflexivity.
Qed.

Lemma join_name a n :
  a <> [] -> last_is_sep a = false -> valid_name n = true -> join a n = a ++ sep :: n.
Proof.
  intros Ha Hs Hn. unfold join. destruct n as [|c n]; [discriminate|].
  unfold valid_name in Hn. simpl in Hn. apply andb_true_iff in Hn as [Hc _].
  apply andb_true_iff in Hc as [Hc _]. apply negb_true_iff in Hc. rewrite Hc.
  destruct a; [contradiction|]. rewrite Hs. reflexivity.
Qed.

Lemma joins_suffix a rel :
  a <> [] -> last_is_sep a = false -> forallb valid_name rel = true ->
  joins a rel = a ++ relsuffix rel.
Proof.
  revert a; induction rel as [|n rel IH]; intros a Ha Hs Hv; simpl.
  - unfold relsuffix. simpl. now rewrite app_nil_r.
  - simpl in Hv. apply andb_true_iff in Hv as [Hn Hv].
    unfold joins in *. rewrite join_name by assumption.
    rewrite IH.
    + unfold relsuffix. simpl. rewrite <- app_assoc. reflexivity.
    + destruct a; discriminate.
    + change (a ++ sep :: n) with (a ++ [sep] ++ n). rewrite app_assoc.
      apply last_is_sep_app_name. exact Hn.
    + exact Hv.
Qed.
