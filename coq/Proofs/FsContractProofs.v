(* C20_fsevents_contract_full: one operation per batch, no coalescing - FSEventsEmitter.queue_events
   queues exactly the contract (after its non-recursive filter). *)
Require Import WD.Base.Prelude WD.Base.BStr WD.Model.SubEvents WD.Proofs.SubEventsProofs.
Require Import WD.Model.PlatFs WD.Proofs.PlatFsProofs WD.Proofs.PlatReplayProofs WD.Proofs.PlatClosedProofs.
Require Import WD.Model.FsEvents WD.Proofs.FsEventsProofs WD.Proofs.WinEmitterProofs.
Require Import Coq.Sorting.Permutation.

Ltac hasc :=
  repeat match goal with
         | |- context [has (FNative ?p ?i ?fl) ?F] =>
           let b := eval vm_compute in (negb (N.eqb (N.land fl F) 0)) in
           change (has (FNative p i fl) F) with b
         end.

Lemma dirname_abs root p : root <> [] -> last_is_sep root = false -> path_ok p = true ->
  dirname (abspath root p) = abspath root (parent p).
Proof.
  intros Hr Hs Hp. apply path_ok_split in Hp as [Hne Hv].
  destruct (exists_last Hne) as (l & a & ->). unfold parent. rewrite removelast_last.
  now apply dirname_abspath.
Qed.

Lemma mem_view_fresh view f i :
  (forall j, mem j view = true -> ino_used f j = true) -> ino_used f i = false -> mem i view = false.
Proof. intros H Hi. destruct (mem i view) eqn:E; [|reflexivity]. apply H in E. congruence. Qed.

Lemma mem_add j i v : mem j (add i v) = true -> mem j v = true \/ j = i.
Proof.
  unfold add. destruct (mem i v) eqn:E; [now left|]. unfold mem. cbn [existsb].
  intros H. apply orb_true_iff in H as [H|H]; [right; now apply N.eqb_eq in H | now left].
Qed.

Lemma mem_discard j i v : mem j (discard i v) = true -> mem j v = true.
Proof.
  unfold mem, discard. intros H. apply existsb_exists in H as (x & Hx & E).
  apply filter_In in Hx as [Hx _]. apply existsb_exists. now exists x.
Qed.

Ltac view_tac :=
  let j := fresh "j" in let Hj := fresh "Hj" in
  intros j Hj; repeat (apply mem_discard in Hj); repeat (apply mem_add in Hj as [Hj | Hj]); tauto.

Section Contract.
  Variable stat_ino : bytes -> option N.
  Variable walk : bytes -> tree.
  Variable sub : path -> tree.
  Variable recursive : bool.
  Variable root : bytes.
  Hypothesis Hroot : root <> [].
  Hypothesis Hsep : last_is_sep root = false.
  Hypothesis Hwalk : forall p, walk (abspath root p) = sub p.
  Hypothesis Hwf : forall p, wf_tree (sub p) = true.

  Let qe := queue_events stat_ino walk recursive root.

  Lemma contract_create view p i k :
    path_ok p = true -> mem i view = false ->
    exists v, qe view [frender root (p, i, N.lor F_CREATED (kflag k))]
    = Some (filter (keep recursive root) (map (render root) (ACreated k p false :: pmod p)), v, false) /\ (forall j, mem j v = true -> mem j view = true \/ j = i).
  Proof.
    intros Hp Hm. unfold qe, queue_events, frender. cbn [length loop fst snd].
    cbv beta zeta delta [process is_meta_mod nkind created_evs deleted_evs modified_evs].
    cbn [f_path f_ino f_flags]. destruct k; cbn [kflag]; hasc; rewrite Hm, dirname_abs by assumption.
    all: cbn [andb orb negb app dirkind map render pmod q]; eexists; (split; [rewrite ?app_nil_r; reflexivity | view_tac]).
  Qed.

  (* content change / metadata change *)
  Lemma contract_modified view p i k fl :
    path_ok p = true -> fl = F_MODIFIED \/ fl = F_INODE_META ->
    exists v, qe view [frender root (p, i, N.lor fl (kflag k))]
    = Some (filter (keep recursive root) (map (render root) [AModified k p]), v, false) /\ (forall j, mem j v = true -> mem j view = true \/ j = i).
  Proof.
    intros Hp Hfl. unfold qe, queue_events, frender. cbn [length loop fst snd].
    cbv beta zeta delta [process is_meta_mod nkind created_evs deleted_evs modified_evs].
    cbn [f_path f_ino f_flags]. destruct Hfl as [-> | ->]; destruct k; cbn [kflag]; hasc.
    all: cbn [andb orb negb app dirkind map render q]; eexists; (split; [rewrite ?app_nil_r; reflexivity | view_tac]).
  Qed.

  Lemma contract_removed view p i k :
    path_ok p = true ->
    exists v, qe view [frender root (p, i, N.lor F_REMOVED (kflag k))]
    = Some (filter (keep recursive root) (map (render root) (ADeleted k p :: pmod p)), v, false) /\ (forall j, mem j v = true -> mem j view = true \/ j = i).
  Proof.
    intros Hp. unfold qe, queue_events, frender. cbn [length loop fst snd].
    cbv beta zeta delta [process is_meta_mod nkind created_evs deleted_evs modified_evs].
    cbn [f_path f_ino f_flags]. destruct k; cbn [kflag]; hasc; rewrite dirname_abs by assumption.
    all: cbn [andb orb negb app dirkind map render pmod q]; eexists; (split; [rewrite ?app_nil_r; reflexivity | view_tac]).
  Qed.

  (* the only visible half of a rename across the boundary: the path no longer names the item *)
  Lemma contract_moveout view p i k :
    path_ok p = true -> stat_ino (abspath root p) = None ->
    exists v, qe view [frender root (p, i, N.lor F_RENAMED (kflag k))]
    = Some (filter (keep recursive root) (map (render root) (ADeleted k p :: pmod p)), v, false) /\ (forall j, mem j v = true -> mem j view = true \/ j = i).
  Proof.
    intros Hp Hst. unfold qe, queue_events, frender. cbn [length loop fst snd].
    cbv beta zeta delta [process is_meta_mod nkind created_evs deleted_evs modified_evs].
    cbn [f_path f_ino f_flags]. rewrite Hst. destruct k; cbn [kflag]; hasc; rewrite dirname_abs by assumption.
    all: cbn [andb orb negb app dirkind map render pmod q find]; eexists; (split; [rewrite ?app_nil_r; reflexivity | view_tac]).
  Qed.

  (* ... and the path names the item: it arrived *)
  Lemma contract_movein view p i k :
    path_ok p = true -> stat_ino (abspath root p) = Some i ->
    exists v, qe view [frender root (p, i, N.lor F_RENAMED (kflag k))]
    = Some (filter (keep recursive root)
              (map (render root) (ACreated k p false :: pmod p ++
                                  map (fun x => ACreated (fst x) (p ++ snd x) true) (desc [] (sub p)))), v, false) /\ (forall j, mem j v = true -> mem j view = true \/ j = i).
  Proof.
    intros Hp Hst. pose proof (path_ok_split _ Hp) as [Hne Hv].
    unfold qe, queue_events, frender. cbn [length loop fst snd].
    cbv beta zeta delta [process is_meta_mod nkind created_evs deleted_evs modified_evs].
    cbn [f_path f_ino f_flags]. rewrite Hst, N.eqb_refl.
    rewrite (sub_created_abs walk sub root Hroot Hsep Hwalk Hwf p Hne Hv).
    destruct k; cbn [kflag]; hasc; rewrite dirname_abs by assumption.
    all: cbn [andb orb negb app dirkind map render pmod q find]; eexists; (split; [rewrite ?app_nil_r; reflexivity | view_tac]).
  Qed.

  (* a rename inside the tree: both paths flagged, same inode, old name first *)
  Lemma contract_rename view s d i k :
    path_ok s = true -> path_ok d = true ->
    exists v, qe view [frender root (s, i, N.lor F_RENAMED (kflag k)); frender root (d, i, N.lor F_RENAMED (kflag k))]
    = Some (filter (keep recursive root)
              (map (render root) (AMoved k s d false :: pmod s ++ pmod d ++
                                  map (fun x => AMoved (fst x) (s ++ snd x) (d ++ snd x) true) (desc [] (sub d)))), v, false) /\ (forall j, mem j v = true -> mem j view = true \/ j = i).
  Proof.
    intros Hs Hd. pose proof (path_ok_split _ Hd) as [Hne Hv].
    unfold qe, queue_events, frender. cbn [length loop fst snd].
    cbv beta zeta delta [process is_meta_mod nkind created_evs deleted_evs modified_evs].
    cbn [f_path f_ino f_flags find].
    destruct k; cbn [kflag]; hasc; rewrite N.eqb_refl; cbn [andb orb negb f_path f_ino f_flags]; hasc;
      rewrite (sub_moved_abs walk sub root Hroot Hsep Hwalk Hwf s d Hne Hv), !dirname_abs by assumption.
    all: cbn [andb orb negb app dirkind map render pmod q find remove_first f_path f_ino f_flags]; hasc;
      rewrite ?N.eqb_refl; cbn [andb orb negb app loop]; eexists; (split; [rewrite ?app_nil_r; reflexivity | view_tac]).
  Qed.
End Contract.

(* the item an operation is about / the inode an operation creates inside the tree *)
Definition subject_ino (before : fs) (o : op) : list N :=
  match o with
  | OCreate _ i | OMkdir _ i | OMoveIn _ _ i _ => [i]
  | OWrite p | OChmod p | OUnlink p | ORmdir p | OMoveOut p | ORename p _ =>
    match lookup before p with Some e => [e_ino e] | None => [] end
  end.
Definition created_ino (o : op) : list N :=
  match o with OCreate _ i | OMkdir _ i => [i] | _ => [] end.

Lemma mem_lookup f p : fs_mem f p = true -> exists e, lookup f p = Some e.
Proof. unfold fs_mem. destruct (lookup f p) as [e|]; [now exists e | discriminate]. Qed.

Section Main.
  Variable stat_ino : bytes -> option N.
  Variable walk : bytes -> tree.
  Variable sub : path -> tree.
  Variable recursive : bool.
  Variable root : bytes.
  Hypothesis Hroot : root <> [].
  Hypothesis Hsep : last_is_sep root = false.
  Hypothesis Hwalk : forall p, walk (abspath root p) = sub p.
  Hypothesis Hwf : forall p, wf_tree (sub p) = true.

  Theorem fse_contract_ok : forall (view : list N) (before : fs) (o : op),
    op_names_ok o = true -> op_ok before o = true ->
    let after := apply_op before o in
    (forall p, stat_ino (abspath root p) = match lookup after p with Some e => Some (e_ino e) | None => None end) ->
    (forall i, In i (created_ino o) -> mem i view = false) ->
    exists v,
      queue_events stat_ino walk recursive root view (map (frender root) (fsevents_kernel before o))
      = Some (filter (keep recursive root) (map (render root) (fse_contract sub before after o)), v, false) /\
      (forall j, mem j v = true -> mem j view = true \/ In j (subject_ino before o)).
  Proof.
    intros view before o Hn Ho after Hst Hfresh.
    assert (Wrap : forall i v L, (forall j, mem j v = true -> mem j view = true \/ j = i) ->
                   L = [i] -> forall j, mem j v = true -> mem j view = true \/ In j L).
    { intros i v L H E j Hj. rewrite E. destruct (H j Hj); [now left | right; now left]. }
    destruct o as [p i|p i|p|p|p|p|s d|s|d k i content]; cbn [op_names_ok] in Hn; cbn [fsevents_kernel fse_contract map].
    - destruct (contract_create stat_ino walk recursive root Hroot Hsep view p i KFile Hn) as (v & E & B);
        [apply Hfresh; now left|]. exists v. split; [exact E | eapply Wrap; eauto].
    - destruct (contract_create stat_ino walk recursive root Hroot Hsep view p i KDir Hn) as (v & E & B);
        [apply Hfresh; now left|]. exists v. split; [exact E | eapply Wrap; eauto].
    - cbn [op_ok] in Ho. destruct (lookup before p) as [e|] eqn:El; [|discriminate]. cbn [map].
      destruct (contract_modified stat_ino walk recursive root view p (e_ino e) (e_kind e) F_MODIFIED Hn (or_introl eq_refl)) as (v & E & B).
      exists v. split; [exact E | eapply Wrap; eauto; cbn [subject_ino]; now rewrite El].
    - cbn [op_ok] in Ho. destruct (lookup before p) as [e|] eqn:El; [|discriminate]. cbn [map].
      destruct (contract_modified stat_ino walk recursive root view p (e_ino e) (e_kind e) F_INODE_META Hn (or_intror eq_refl)) as (v & E & B).
      exists v. split; [exact E | eapply Wrap; eauto; cbn [subject_ino]; now rewrite El].
    - cbn [op_ok] in Ho. destruct (lookup before p) as [e|] eqn:El; [|discriminate]. cbn [map].
      destruct (contract_removed stat_ino walk recursive root Hroot Hsep view p (e_ino e) (e_kind e) Hn) as (v & E & B).
      exists v. split; [exact E | eapply Wrap; eauto; cbn [subject_ino]; now rewrite El].
    - cbn [op_ok] in Ho. apply andb_true_iff in Ho as [Ho _]. apply isdir_mem, mem_lookup in Ho as (e & El).
      rewrite El. cbn [map].
      destruct (contract_removed stat_ino walk recursive root Hroot Hsep view p (e_ino e) (e_kind e) Hn) as (v & E & B).
      exists v. split; [exact E | eapply Wrap; eauto; cbn [subject_ino]; now rewrite El].
    - apply andb_true_iff in Hn as [Hs Hd].
      cbn [op_ok] in Ho. repeat (apply andb_true_iff in Ho as [Ho ?]). apply mem_lookup in Ho as (e & El).
      rewrite El. cbn [map].
      destruct (contract_rename stat_ino walk sub recursive root Hroot Hsep Hwalk Hwf view s d (e_ino e) (e_kind e) Hs Hd) as (v & E & B).
      exists v. split; [exact E | eapply Wrap; eauto; cbn [subject_ino]; now rewrite El].
    - cbn [op_ok] in Ho. apply mem_lookup in Ho as (e & El). rewrite El. cbn [map].
      destruct (contract_moveout stat_ino walk recursive root Hroot Hsep view s (e_ino e) (e_kind e) Hn) as (v & E & B).
      { rewrite Hst. subst after. cbn [apply_op]. rewrite (lookup_filter (fun q => negb (under s q))).
        - now rewrite under_refl'.
        - intros a b Eab. apply path_eqb_eq in Eab. now subst. }
      exists v. split; [exact E | eapply Wrap; eauto; cbn [subject_ino]; now rewrite El].
    - apply andb_true_iff in Hn as [Hd _].
      destruct (contract_movein stat_ino walk sub recursive root Hroot Hsep Hwalk Hwf view d i k Hd) as (v & E & B).
      { rewrite Hst. subst after. cbn [apply_op]. rewrite lookup_app_miss.
        - unfold lookup. cbn [find e_path]. now rewrite path_eqb_refl.
        - cbn [op_ok] in Ho. apply andb_true_iff in Ho as [Ho _]. apply andb_true_iff in Ho as [Ho _].
          apply andb_true_iff in Ho as [Ho _]. now apply fresh_not_mem in Ho. }
      exists v. split; [exact E | eapply Wrap; eauto].
  Qed.
End Main.
