(* C03 - placeholder until the pipeline theorems are proved *)
Require Import WD.Base.Prelude WD.Model.Pipeline.
