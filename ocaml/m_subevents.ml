open Sexp
open Conv

let rec tree_of = function
  | L [L ds; L fs] ->
    SubEvents.Node (Stdlib.List.map (function L [n; t] -> (bytes_of n, tree_of t) | _ -> failwith "tree") ds,
                    Stdlib.List.map bytes_of fs)
  | _ -> failwith "tree"
let kind = function SubEvents.KFile -> A "F" | SubEvents.KDir -> A "D"
let rw = function A "all" -> BStr.replace_all | A "first" -> BStr.replace_first | _ -> failwith "rw"

let run = function
  | L [A "moved"; r; src; dest; t] ->
    sx_list (fun ((k, s), d) -> L [kind k; sx_bytes s; sx_bytes d])
      (SubEvents.sub_moved_events (rw r) (bytes_of src) (bytes_of dest) (tree_of t))
  | L [A "created"; src; t] ->
    sx_list (fun (k, s) -> L [kind k; sx_bytes s]) (SubEvents.sub_created_events (bytes_of src) (tree_of t))
  | L [A "rekey"; r; src; dst; p] ->
    sx_bytes (SubEvents.rekey_path (rw r) (bytes_of src) (bytes_of dst) (bytes_of p))
  | L [A "desc"; t] ->
    sx_list (fun (k, rel) -> L [kind k; sx_list sx_bytes rel]) (SubEvents.desc [] (tree_of t))
  | _ -> failwith "subevents: bad case"
