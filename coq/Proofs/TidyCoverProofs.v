(* Bridge C02 -> C11: on histories covered by C02's sequential theorem (ops_x, from construct) the UNFILTERED run is
   tidy at every drained point (C11LagProofs.tidy_from): the reader's tables mention live kernel watches only. *)
Require Import WD.Base.Prelude WD.Base.BStr WD.Model.SubEvents WD.Model.Emitter WD.Model.Fs WD.Model.Reader WD.Model.Contract.
Require Import WD.Proofs.ReaderFixProofs WD.Proofs.CoverProofs WD.Proofs.CoverOutProofs
               WD.Proofs.C11SeqProofs WD.Proofs.C11InertProofs WD.Proofs.C11LagProofs.
Local Open Scope N_scope.

Lemma settle_now_settled C r k : c_fix_moveout C = true -> settle_now C r k = settled r k.
Proof. intros H. unfold settle_now, settled. rewrite H. destruct (pend r) as [[c p]|]; reflexivity. Qed.

Lemma tables_live_tidy r k : tables_live k r -> tidy r (kdrained k).
Proof. intros H. exact H. Qed.

Lemma live_along_tidy C full : c_fix_moveout C = true -> forall ops w k r,
  live_along C w k r ops -> tidy_along C full w k r ops.
Proof.
  intros Hmo. induction ops as [|o ops IH]; intros w k r H; cbn [live_along tidy_along] in *; destruct H as [H1 H2];
    (split; [unfold nform; rewrite (settle_now_settled C r k Hmo); cbn [fst snd]; exact (tables_live_tidy _ _ H1)|]); [exact I|].
  unfold run_one. destruct (apply_op w o) as [w'|] eqn:Ea; [|now apply IH].
  cbv zeta in H2 |- *. change (kdrained (kernel_op k (w_fs w) o)) with (drainq (kernel_op k (w_fs w) o)).
  destruct (read_batch C (w_fs w') (r, drainq (kernel_op k (w_fs w) o), []) (k_queue (kernel_op k (w_fs w) o)))
    as [[[r' k'] evs]|s]; [now apply IH | exact I].
Qed.

(* C11's hypothesis holds on every history of C02's sequential theorem *)
Theorem tidy_from_covered C full : c_faults C = [] -> c_fix_moveout C = true -> c_mask C = WATCHDOG_ALL ->
  forall ops w, wf_fs w -> fisdir (c_root C) (w_fs w) = true -> ops_x C w None ops -> tidy_from C full w ops.
Proof.
  intros Hf Hmo Hm ops w W Hroot Hc. unfold tidy_from.
  destruct (tables_live_from_start C Hf Hmo ops w Hm W Hroot Hc) as (r0 & k0 & -> & H).
  now apply live_along_tidy.
Qed.
