(* C08 - A rename arrives as one paired move; no native event is lost or duplicated.
   Statements only.  [greachable delay s] quantifies over every finite label list of the reader
   thread (any batches = any way of cutting the kernel stream into reads), the consumer, closers
   and clock ticks, i.e. over all interleavings and all gaps relative to the pairing delay. *)
Require Import WD.Base.Prelude WD.Model.DelayQueue WD.Proofs.DelayQueueProofs WD.Model.Grouping
               WD.Proofs.GroupingProofs.
From Coq Require Import Permutation Sorted.
Local Open Scope N_scope.

(* Exactly once: at every moment the native events read so far (watch-removed markers aside) are
   exactly those handed to the emitter, those waiting in the delay queue and those still local to
   the reader thread - as multisets. *)
Theorem C08_exactly_once : forall delay s, greachable delay s ->
  Permutation (filter keep (nread (snd s)))
    (flats (delivered s) ++ flats (queued s) ++
     filter keep (flats (grouped (snd s))) ++ filter keep (batch (snd s))).
Proof. exact exactly_once. Qed.
Print Assumptions C08_exactly_once.

(* Never twice, never both alone and in a pair: no native event occurs twice on the right-hand side. *)
Theorem C08_no_double : forall delay s, greachable delay s -> NoDup (map n_id (nread (snd s))) ->
  NoDup (map n_id (flats (delivered s) ++ flats (queued s) ++
         filter keep (flats (grouped (snd s))) ++ filter keep (batch (snd s)))).
Proof. exact no_double. Qed.
Print Assumptions C08_no_double.

(* Kernel order: delivered items (followed by the queued ones) can each be anchored at one of their
   own native events - a single at itself, a pair at one of its halves - such that the anchors
   are strictly increasing in kernel order. *)
Theorem C08_kernel_order : forall delay s, greachable delay s ->
  StronglySorted N.lt (map n_id (nread (snd s))) ->
  exists an, Forall2 anch (delivered s ++ queued s) an /\ StronglySorted N.lt an.
Proof. exact kernel_order. Qed.
Print Assumptions C08_kernel_order.

(* Pairing law: when the reader looks at the second half of a rename while the first half (same
   cookie) has been put less than [delay] ago and has not been consumed by an earlier second half,
   the step produces the (from, to) pair - however the stream was cut and whatever the consumer did. *)
Theorem C08_pairing : forall delay s, greachable delay s ->
  forall e rest c, batch (snd s) = e :: rest -> n_kind e = KTo c ->
  forall en f, In en (puts (fst s)) -> item_of (items (snd s)) (e_id en) = Some (ISingle f) ->
    n_kind f = KFrom c ->
    clock (fst s) < e_tins en + delay ->
    ~ In (e_id en) (removed (fst s)) ->
  exists s' f', gstep delay s RGroup = Some s' /\ In (IPair f' e) (grouped (snd s')) /\
                n_kind f' = KFrom c /\ batch (snd s') = rest.
Proof. exact pairing. Qed.
Print Assumptions C08_pairing.

(* A first half that stays unmatched is delivered alone no earlier than the delay. *)
Theorem C08_lone_from_not_early : forall delay s, greachable delay s ->
  forall en f c t, In en (puts (fst s)) -> item_of (items (snd s)) (e_id en) = Some (ISingle f) ->
    n_kind f = KFrom c -> In (e_id en, t) (got (fst s)) -> e_tins en + delay <= t.
Proof. exact lone_from_not_early. Qed.
Print Assumptions C08_lone_from_not_early.

(* Non-vacuity: FROM(7) in one read, an unrelated event and TO(7) in the next read within the delay:
   the consumer, already waiting on the lone FROM, does not get it; delivered: other, then the pair at
   the place of its second half. *)
Example C08_nonvacuous :
  let f := {| n_id := 1; n_kind := KFrom 7 |} in
  let o := {| n_id := 2; n_kind := KOther |} in
  let t := {| n_id := 3; n_kind := KTo 7 |} in
  exists s, grun 5 ginit [RRead [f]; RGroup; RPut; Q GetEnter; Q (Tick 2); RRead [o; t]; RGroup; RGroup;
                          RPut; RPut; Q (Tick 3); Q GetDelay; Q GetPop; Q GetEnter; Q GetDelay; Q GetPop;
                          Q GetEnter; Q GetDelay; Q GetPop]
            = Some s /\ delivered s = [ISingle o; IPair f t] /\ queued s = [].
Proof. eexists. split; [vm_compute; reflexivity | split; reflexivity]. Qed.
