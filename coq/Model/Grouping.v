(* Model of watchdog.observers.inotify_buffer.InotifyBuffer (the reader thread's loop:
   read a batch, _group_events, put every grouped item into the delay queue) composed with the
   DelayQueue LTS.  The reader's calls into the queue (remove inside _group_events, put in run)
   are exactly DelayQueue's [Remove]/[Put] steps; everything else the reader does between two of
   them is thread-local and belongs to the same atomic step.  Definitions only. *)
Require Import WD.Base.Prelude WD.Model.DelayQueue.

Inductive nkind :=
| KFrom (cookie : N)          (* IN_MOVED_FROM *)
| KTo (cookie : N)            (* IN_MOVED_TO *)
| KOther                      (* any other notification *)
| KIgnored (root : bool)      (* IN_IGNORED; root = its path is the watched root *)
| KDeleteSelf (root : bool).  (* IN_DELETE_SELF *)

Record nev := { n_id : N; n_kind : nkind }.     (* one native notification; n_id = its position in the kernel stream *)

Inductive item := ISingle (e : nev) | IPair (f t : nev).

Definition is_from (c : N) (it : item) : bool :=
  match it with
  | ISingle {| n_kind := KFrom c' |} => N.eqb c c'
  | _ => false
  end.

Definition is_ignored (e : nev) : bool := match n_kind e with KIgnored _ => true | _ => false end.
Definition is_ignored_root (e : nev) : bool := match n_kind e with KIgnored true => true | _ => false end.
Definition is_delete_self_root (e : nev) : bool := match n_kind e with KDeleteSelf true => true | _ => false end.
Definition single_from (it : item) : bool :=
  match it with ISingle {| n_kind := KFrom _ |} => true | _ => false end.

(* `for index, event in enumerate(grouped): if matching_from_event(event): grouped[index] = (event, to)` *)
Fixpoint pair_in_grouped (c : N) (t : nev) (g : list item) : option (list item) :=
  match g with
  | [] => None
  | it :: g' =>
    if is_from c it then
      match it with ISingle f => Some (IPair f t :: g') | _ => None end
    else match pair_in_grouped c t g' with Some g'' => Some (it :: g'') | None => None end
  end.

Record rst := {
  batch : list nev;        (* events of the current read not yet looked at by _group_events *)
  grouped : list item;     (* the `grouped` list (while grouping) / what is left to put (while putting) *)
  deleted_self : bool;
  next_el : N;             (* identity of the next object handed to the queue *)
  items : list (N * item); (* queue element identity -> the item it is *)
  nread : list nev         (* ghost: every native event read so far *)
}.

Definition rinit : rst :=
  {| batch := []; grouped := []; deleted_self := false; next_el := 1; items := []; nread := [] |}.

Definition item_of (its : list (N * item)) (id : N) : option item := alookup N.eqb id its.

(* ids of queue elements satisfying matching_from_event for cookie c *)
Definition sat_from (its : list (N * item)) (c : N) (qu : list entry) : list N :=
  map e_id (filter (fun e => match item_of its (e_id e) with Some it => is_from c it | None => false end) qu).

Inductive glabel :=
| RRead (b : list nev)      (* inotify.read_events() returned batch b *)
| RGroup                    (* _group_events looks at the next event of the batch *)
| RPut                      (* run() handles the next grouped item *)
| Q (l : label).            (* a step of the consumer / closer / clock (not Put/Remove: those belong to the reader) *)

Section Delay.
  Variable delay : N.

  Definition gstep (s : st * rst) (l : glabel) : option (st * rst) :=
    let '(d, r) := s in
    match l with
    | RRead b =>
      match batch r, grouped r, deleted_self r with
      | [], [], false =>
        Some (d, {| batch := b; grouped := []; deleted_self := false; next_el := next_el r;
                    items := items r; nread := nread r ++ b |})
      | _, _, _ => None
      end
    | RGroup =>
      match batch r with
      | [] => None
      | e :: rest =>
        match n_kind e with
        | KTo c =>
          match pair_in_grouped c e (grouped r) with
          | Some g' =>
            Some (d, {| batch := rest; grouped := g'; deleted_self := deleted_self r; next_el := next_el r;
                        items := items r; nread := nread r |})
          | None =>
            (* from_event = self._queue.remove(matching_from_event) *)
            match remove_first (sat_from (items r) c (q d)) (q d) with
            | (Some en, _) =>
              match step delay d (Remove (sat_from (items r) c (q d))), item_of (items r) (e_id en) with
              | Some d', Some (ISingle f) =>
                Some (d', {| batch := rest; grouped := grouped r ++ [IPair f e]; deleted_self := deleted_self r;
                             next_el := next_el r; items := items r; nread := nread r |})
              | _, _ => None
              end
            | (None, _) =>
              Some (d, {| batch := rest; grouped := grouped r ++ [ISingle e]; deleted_self := deleted_self r;
                          next_el := next_el r; items := items r; nread := nread r |})
            end
          end
        | _ =>
          Some (d, {| batch := rest; grouped := grouped r ++ [ISingle e]; deleted_self := deleted_self r;
                      next_el := next_el r; items := items r; nread := nread r |})
        end
      end
    | RPut =>
      match batch r, grouped r with
      | [], it :: rest =>
        match it with
        | ISingle e =>
          if is_ignored e then
            Some (d, {| batch := []; grouped := rest; deleted_self := deleted_self r || is_ignored_root e;
                        next_el := next_el r; items := items r; nread := nread r |})
          else
            match step delay d (Put (next_el r) (single_from it)) with
            | Some d' =>
              Some (d', {| batch := []; grouped := rest;
                           deleted_self := deleted_self r || is_delete_self_root e;
                           next_el := next_el r + 1; items := items r ++ [(next_el r, it)];
                           nread := nread r |})
            | None => None
            end
        | IPair _ _ =>
          match step delay d (Put (next_el r) false) with
          | Some d' =>
            Some (d', {| batch := []; grouped := rest; deleted_self := deleted_self r;
                         next_el := next_el r + 1; items := items r ++ [(next_el r, it)];
                         nread := nread r |})
          | None => None
          end
        end
      | _, _ => None
      end
    | Q l =>
      match l with
      | Put _ _ | Remove _ => None
      | _ => match step delay d l with Some d' => Some (d', r) | None => None end
      end
    end.

  Fixpoint grun (s : st * rst) (tr : list glabel) : option (st * rst) :=
    match tr with
    | [] => Some s
    | l :: tr' => match gstep s l with Some s' => grun s' tr' | None => None end
    end.

  Definition ginit : st * rst := (init, rinit).
  Definition greachable (s : st * rst) : Prop := exists tr, grun ginit tr = Some s.
End Delay.

(* the native events inside a list of items, in order *)
Definition flat (it : item) : list nev := match it with ISingle e => [e] | IPair f t => [f; t] end.
Definition flats (l : list item) : list nev := flat_map flat l.

(* items delivered to the emitter so far / still queued *)
Definition items_of (its : list (N * item)) (ids : list N) : list item :=
  flat_map (fun id => match item_of its id with Some it => [it] | None => [] end) ids.
Definition delivered (s : st * rst) : list item := items_of (items (snd s)) (map fst (got (fst s))).
Definition queued (s : st * rst) : list item := items_of (items (snd s)) (map e_id (q (fst s))).
Definition keep (e : nev) : bool := negb (is_ignored e).
