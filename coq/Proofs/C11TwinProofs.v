(* C11: the reader does not care about the mask its watches are created with - two readers that differ
   only in c_mask, over kernel instances that differ only in the masks of their watches, go through the
   same bookkeeping states and produce the same InotifyEvents for the same batch. *)
Require Import WD.Base.Prelude WD.Base.BStr WD.Model.SubEvents WD.Model.Emitter WD.Model.Fs WD.Model.Reader.
Require Import WD.Proofs.C11KernelProofs WD.Proofs.C11ReaderProofs.

Definition with_mask (C : cfg) (M : N) : cfg :=
  {| c_recursive := c_recursive C; c_mask := M; c_root := c_root C; c_fix_ignored := c_fix_ignored C;
     c_fix_movein := c_fix_movein C; c_fix_simulate := c_fix_simulate C; c_fix_relabel := c_fix_relabel C; c_fix_moveout := c_fix_moveout C;
     c_faults := c_faults C |}.

Section RT.
  Variable C : cfg.
  Variables M M' : N.
  Hypothesis HM : c_mask C = M.
  Let C' := with_mask C M'.

  (* twins: same watches up to their masks, same counters (the reader never looks at the kernel queue; what it queues
     itself - the IN_IGNORED of the watches it removes, repair F10 - is tracked separately where it matters) *)
  Definition kw0 (k k' : kst) : Prop := kwt M M' k k'.

  Definition rel3 (a : rstate * kst * list raw) (b : rstate * kst * list raw) : Prop :=
    fst (fst a) = fst (fst b) /\ snd a = snd b /\ kw0 (snd (fst a)) (snd (fst b)).

  Definition orel (a b : outcome (rstate * kst * list raw)) : Prop :=
    match a, b with
    | Done x, Done y => rel3 x y
    | Crash s, Crash s' => s = s'
    | _, _ => False
    end.

  (* the stale key deleted by the repair of F10e is read off the reader's tables: the same on both sides *)
  Lemma unlabel_twin r wd p : unlabel C' r wd p = unlabel C r wd p.
  Proof. reflexivity. Qed.

  Lemma add_watch_twin r k k' t p : kw0 k k' ->
    match add_watch C r k t p, add_watch C' r k' t p with
    | Some (r1, k1, wd), Some (r1', k1', wd') => r1 = r1' /\ wd = wd' /\ kw0 k1 k1'
    | None, None => True
    | _, _ => False
    end.
  Proof.
    intros T. unfold add_watch. cbn [C' with_mask c_faults c_mask]. rewrite HM.
    destruct (mem_nat (calls r) (c_faults C)); [exact I|].
    pose proof (kadd_watch_twin M M' k k' t p T) as H.
    destruct (kadd_watch k t p M) as [[k1 wd]|], (kadd_watch k' t p M') as [[k1' wd']|]; try contradiction; [|exact I].
    destruct H as [-> [T1 [E1 E1']]]. split; [reflexivity|]. split; [reflexivity|].
    exact T1.
  Qed.

  Lemma sim_dirs_twin t root ds : forall r k k' acc, kw0 k k' ->
    rel3 (sim_dirs C r k t root ds acc) (sim_dirs C' r k' t root ds acc).
  Proof.
    induction ds as [|d ds IH]; intros r k k' acc K; cbn [sim_dirs].
    - split; [reflexivity | split; [reflexivity | exact K]].
    - pose proof (add_watch_twin r k k' t (join root d) K) as H.
      destruct (add_watch C r k t (join root d)) as [[[r1 k1] wd]|],
               (add_watch C' r k' t (join root d)) as [[[r1' k1'] wd']|]; try contradiction.
      + destruct H as [-> [-> K1]]. apply IH. exact K1.
      + apply IH. exact K.
  Qed.

  Lemma sim_files_twin r root fls acc : sim_files C r root fls acc = sim_files C' r root fls acc.
  Proof. revert acc. induction fls as [|f fls IH]; intros acc; cbn [sim_files]; [reflexivity|].
    destruct (alookup beqb (dirname (join root f)) (wfp r)); [apply IH|].
    cbn [C' with_mask c_fix_simulate]. destruct (c_fix_simulate C); [apply IH | reflexivity].
  Qed.

  Lemma simulate_twin t w : forall r k k' acc, kw0 k k' ->
    orel (simulate C r k t w acc) (simulate C' r k' t w acc).
  Proof.
    induction w as [|[[root ds] fls] w IH]; intros r k k' acc K; cbn [simulate].
    - split; [reflexivity | split; [reflexivity | exact K]].
    - pose proof (sim_dirs_twin t root ds r k k' acc K) as H.
      destruct (sim_dirs C r k t root ds acc) as [[r1 k1] a1], (sim_dirs C' r k' t root ds acc) as [[r1' k1'] a1'].
      destruct H as [H1 [H2 H3]]. cbn [fst snd] in *. subst r1' a1'.
      rewrite <- sim_files_twin. destruct (sim_files C r1 root fls a1); [|reflexivity].
      apply IH. exact H3.
  Qed.

  Lemma add_dirs_twin t ps : forall r k k', kw0 k k' ->
    fst (add_dirs C r k t ps) = fst (add_dirs C' r k' t ps) /\
    kw0 (snd (add_dirs C r k t ps)) (snd (add_dirs C' r k' t ps)).
  Proof.
    induction ps as [|p ps IH]; intros r k k' K; cbn [add_dirs].
    - split; [reflexivity | exact K].
    - pose proof (add_watch_twin r k k' t p K) as H.
      destruct (add_watch C r k t p) as [[[r1 k1] wd]|], (add_watch C' r k' t p) as [[[r1' k1'] wd']|];
        try contradiction.
      + destruct H as [-> [-> K1]]. apply IH. exact K1.
      + split; [reflexivity | exact K].
  Qed.

  Lemma ro_move_twin t r k k' e wdp : kw0 k k' ->
    fst (fst (ro_move C t r k e wdp)) = fst (fst (ro_move C' t r k' e wdp)) /\
    snd (ro_move C t r k e wdp) = snd (ro_move C' t r k' e wdp) /\
    kw0 (snd (fst (ro_move C t r k e wdp))) (snd (fst (ro_move C' t r k' e wdp))).
  Proof.
    intros K. unfold ro_move. cbn [C' with_mask c_recursive c_fix_movein c_fix_moveout].
    destruct (is_moved_from (k_mask e)); [split; [reflexivity | split; [reflexivity | exact K]]|].
    destruct (is_moved_to (k_mask e)); [|split; [reflexivity | split; [reflexivity | exact K]]].
    set (sp := match k_name e with [] => wdp | _ => join wdp (k_name e) end).
    assert (Hin : forall (b : bool) (ev : raw),
      let X := if b then let '(r', k0) := add_dirs C r k t (sp :: walk_dirs t sp) in (r', k0, ev) else (r, k, ev) in
      let Y := if b then let '(r', k0) := add_dirs C' r k' t (sp :: walk_dirs t sp) in (r', k0, ev) else (r, k', ev) in
      fst (fst X) = fst (fst Y) /\ snd X = snd Y /\ kw0 (snd (fst X)) (snd (fst Y))).
    { intros b ev. destruct b; cbn zeta; [|split; [reflexivity | split; [reflexivity | exact K]]].
      destruct (add_dirs_twin t (sp :: walk_dirs t sp) r k k' K) as [H1 H2].
      destruct (add_dirs C r k t (sp :: walk_dirs t sp)) as [r1 k1],
               (add_dirs C' r k' t (sp :: walk_dirs t sp)) as [r1' k1']. cbn [fst snd] in *.
      subst. repeat split; try reflexivity; apply H2. }
    destruct (alookup N.eqb (k_cookie e) (mvf r)) as [msrc|].
    - destruct (alookup beqb msrc (wfp r)); [split; [reflexivity | split; [reflexivity | exact K]]|]. apply Hin.
    - apply Hin.
  Qed.

  Lemma ro_ignored_twin r e : ro_ignored C r e = ro_ignored C' r e.
  Proof. reflexivity. Qed.

  (* _forget_tree on twins: same keys popped, same watches removed, same IN_IGNORED records queued *)
  Lemma forget_tree_twin keys p : forall r k k', kw0 k k' ->
    fst (forget_tree keys p r k) = fst (forget_tree keys p r k') /\
    kw0 (snd (forget_tree keys p r k)) (snd (forget_tree keys p r k')).
  Proof.
    induction keys as [|[q x] keys IH]; intros r k k' K; cbn [forget_tree]; [split; [reflexivity | exact K]|].
    destruct (beqb q p || starts (p ++ [sep]) q); [|apply IH; exact K].
    destruct (alookup beqb q (wfp r)) as [wd|]; [|apply IH; exact K].
    destruct (alookup N.eqb wd (pfw r)) as [q'|]; [|apply IH; exact K].
    destruct (beqb q' q); [|apply IH; exact K].
    apply IH. apply krm_watch_kwt. exact K.
  Qed.

  Lemma settle_twin r k k' e : kw0 k k' ->
    fst (settle_pending C r k e) = fst (settle_pending C' r k' e) /\
    kw0 (snd (settle_pending C r k e)) (snd (settle_pending C' r k' e)).
  Proof.
    intros K. unfold settle_pending. cbn [C' with_mask c_fix_moveout].
    destruct (c_fix_moveout C); [|split; [reflexivity | exact K]].
    destruct (pend r) as [[c p]|]; [|split; [reflexivity | exact K]].
    destruct (is_moved_to (k_mask e) && N.eqb (k_cookie e) c && amem N.eqb (k_wd e) (pfw r)); [split; [reflexivity | exact K]|].
    apply forget_tree_twin. exact K.
  Qed.

  Lemma read_one_body_twin t r k k' acc e : kw0 k k' ->
    orel (read_one_body C t (r, k, acc) e) (read_one_body C' t (r, k', acc) e).
  Proof.
    intros K. rewrite !read_one_body_factored.
    destruct (alookup N.eqb (k_wd e) (pfw r)) as [wdp|].
    2:{ cbn [C' with_mask c_fix_moveout]. destruct (c_fix_moveout C); [|reflexivity].
        split; [reflexivity | split; [reflexivity | exact K]]. }
    destruct (ro_move_twin t r k k' e wdp K) as [H1 [H2 H3]].
    destruct (ro_move C t r k e wdp) as [[r1 k1] ev1], (ro_move C' t r k' e wdp) as [[r1' k1'] ev1'].
    cbn [fst snd] in *. subst r1' ev1'. rewrite <- ro_ignored_twin.
    destruct (ro_ignored C r1 e) as [r2|s]; [|reflexivity].
    cbn [C' with_mask c_recursive].
    destruct (c_recursive C && is_directory (k_mask e) && is_create (k_mask e)).
    - pose proof (add_watch_twin r2 k1 k1' t (r_path ev1) H3) as H.
      destruct (add_watch C r2 k1 t (r_path ev1)) as [[[r3 k3] wd]|],
               (add_watch C' r2 k1' t (r_path ev1)) as [[[r3' k3'] wd']|]; try contradiction.
      + destruct H as [-> [-> K3]]. apply simulate_twin. exact K3.
      + split; [reflexivity | split; [reflexivity | exact H3]].
    - split; [reflexivity | split; [reflexivity | exact H3]].
  Qed.

  Lemma read_one_twin t r k k' acc e : kw0 k k' ->
    orel (read_one C t (r, k, acc) e) (read_one C' t (r, k', acc) e).
  Proof.
    intros K. rewrite !read_one_settle.
    destruct (settle_twin r k k' e K) as [H1 H2]. rewrite <- H1.
    apply read_one_body_twin. exact H2.
  Qed.

  Theorem read_batch_twin t b : forall r k k' acc, kw0 k k' ->
    orel (read_batch C t (r, k, acc) b) (read_batch C' t (r, k', acc) b).
  Proof.
    induction b as [|e b IH]; intros r k k' acc K; cbn [read_batch].
    - split; [reflexivity | split; [reflexivity | exact K]].
    - pose proof (read_one_twin t r k k' acc e K) as H.
      destruct (read_one C t (r, k, acc) e) as [[[r1 k1] a1]|s], (read_one C' t (r, k', acc) e) as [[[r1' k1'] a1']|s'];
        try contradiction; [|exact H].
      destruct H as [H1 [H2 H3]]. cbn [fst snd] in *. subst. apply IH. exact H3.
  Qed.

  (* Inotify.__init__ *)
  Lemma construct_twin t :
    match construct C kinit t, construct C' kinit t with
    | Some (r, k), Some (r', k') => r = r' /\ kw0 k k'
    | None, None => True
    | _, _ => False
    end.
  Proof.
    unfold construct. cbn [C' with_mask c_root c_recursive].
    destruct (fisdir (c_root C) t); [|exact I].
    assert (K0 : kw0 kinit kinit).
    { constructor; try reflexivity. intros w []. }
    pose proof (add_watch_twin rinit0 kinit kinit t (c_root C) K0) as H.
    destruct (add_watch C rinit0 kinit t (c_root C)) as [[[r1 k1] wd]|],
             (add_watch C' rinit0 kinit t (c_root C)) as [[[r1' k1'] wd']|]; try contradiction; [|exact I].
    destruct H as [-> [-> K1]].
    destruct (c_recursive C); [|split; [reflexivity | exact K1]].
    generalize (walk_dirs t (c_root C)). intros ps. revert r1' k1 k1' K1.
    induction ps as [|p ps IH]; intros r k k' K; [split; [reflexivity | exact K]|].
    pose proof (add_watch_twin r k k' t p K) as H.
    destruct (add_watch C r k t p) as [[[r2 k2] wd2]|], (add_watch C' r k' t p) as [[[r2' k2'] wd2']|];
      try contradiction; [|exact I].
    destruct H as [-> [-> K2]]. apply IH. exact K2.
  Qed.
End RT.
