(* Model of watchdog.events: FileSystemEventHandler.dispatch, PatternMatchingEventHandler.dispatch,
   RegexMatchingEventHandler.dispatch and of watchdog.utils.patterns: _match_path, filter_paths,
   match_any_paths.  Definitions only.

   Strings (paths after os.fsdecode, glob patterns, regex sources) are code-point lists [bytes].
   pathlib's PurePosixPath/PureWindowsPath .match, str.lower and re's compiled .match are not
   modelled: they are parameters (oracles) of the functions below. *)
Require Import WD.Base.Prelude.

(* ---------------------------------------------------------------- events *)
Inductive evtype := Moved | Deleted | Created | Modified | Closed | ClosedNoWrite | Opened.

(* The two base classes and the 11 concrete classes of watchdog.events. *)
Inductive evclass :=
  | FileSystemEvent | FileSystemMovedEvent
  | FileDeletedEvent | FileModifiedEvent | FileCreatedEvent | FileMovedEvent
  | FileClosedEvent | FileClosedNoWriteEvent | FileOpenedEvent
  | DirDeletedEvent | DirModifiedEvent | DirCreatedEvent | DirMovedEvent.

(* class attribute event_type; the bare base class has event_type = "" (no on_ callback). *)
Definition event_type (c : evclass) : option evtype :=
  match c with
  | FileSystemEvent => None
  | FileSystemMovedEvent | FileMovedEvent | DirMovedEvent => Some Moved
  | FileDeletedEvent | DirDeletedEvent => Some Deleted
  | FileModifiedEvent | DirModifiedEvent => Some Modified
  | FileCreatedEvent | DirCreatedEvent => Some Created
  | FileClosedEvent => Some Closed
  | FileClosedNoWriteEvent => Some ClosedNoWrite
  | FileOpenedEvent => Some Opened
  end.

(* class attribute is_directory *)
Definition is_directory (c : evclass) : bool :=
  match c with
  | DirDeletedEvent | DirModifiedEvent | DirCreatedEvent | DirMovedEvent => true
  | _ => false
  end.

Definition concrete_classes : list evclass :=
  [FileDeletedEvent; FileModifiedEvent; FileCreatedEvent; FileMovedEvent; FileClosedEvent;
   FileClosedNoWriteEvent; FileOpenedEvent; DirDeletedEvent; DirModifiedEvent; DirCreatedEvent;
   DirMovedEvent].

(* src_path / dest_path after os.fsdecode (fsdecode keeps emptiness; dest_path defaults to ""). *)
Record event := mkEvent { ecls : evclass; esrc : bytes; edest : bytes }.

(* ---------------------------------------------------------------- callbacks and outcomes *)
Inductive callback := OnAny | On (t : evtype).
Inductive error :=
  | AttributeError      (* getattr(self, "on_") for the bare FileSystemEvent *)
  | ValueError.         (* "conflicting patterns ... included and excluded" *)

(* What one call of handler.dispatch(event) did: the callbacks invoked, in order, and whether it
   returned or raised. *)
Inductive outcome :=
  | Done (calls : list callback)
  | Raised (calls : list callback) (err : error).

(* FileSystemEventHandler.dispatch:
     self.on_any_event(event); getattr(self, f"on_{event.event_type}")(event) *)
Definition dispatch_base (e : event) : outcome :=
  match event_type (ecls e) with
  | Some t => Done [OnAny; On t]
  | None => Raised [OnAny] AttributeError
  end.

(* ---------------------------------------------------------------- the path list a handler builds *)
Definition nonemptyb (p : bytes) : bool := match p with [] => false | _ :: _ => true end.

(* Pinned code:   paths = []
                  if hasattr(event, "dest_path"): paths.append(os.fsdecode(event.dest_path))   # always true
                  if event.src_path:              paths.append(os.fsdecode(event.src_path))   *)
Definition event_paths_pinned (e : event) : list bytes :=
  edest e :: (if nonemptyb (esrc e) then [esrc e] else []).

(* Repaired code (F7):   if event.dest_path: paths.append(...) *)
Definition event_paths (e : event) : list bytes :=
  (if nonemptyb (edest e) then [edest e] else []) ++ (if nonemptyb (esrc e) then [esrc e] else []).

(* "Its paths" in the property: the non-empty ones among source and destination. *)
Definition own_paths (e : event) : list bytes := filter nonemptyb [esrc e; edest e].

(* ---------------------------------------------------------------- watchdog.utils.patterns *)
Inductive result (A : Type) :=
  | Ok (a : A)
  | Conflict.            (* ValueError: a pattern both included and excluded *)
Arguments Ok {A} a.
Arguments Conflict {A}.

Definition star : bytes := [42%N].            (* "*"  *)
Definition dotstar : bytes := [46%N; 42%N].   (* ".*" *)

Definition memb (x : bytes) (l : list bytes) : bool := existsb (beqb x) l.
(* set intersection included & excluded *)
Definition common (a b : list bytes) : list bytes := filter (fun x => memb x b) a.

Definition default {A : Type} (d : A) (o : option A) : A := match o with Some x => x | None => d end.

Inductive subseq {A : Type} : list A -> list A -> Prop :=
  | subseq_nil : subseq [] []
  | subseq_skip x l m : subseq l m -> subseq l (x :: m)
  | subseq_keep x l m : subseq l m -> subseq (x :: l) (x :: m).

Section Glob.
  Variable lower : bytes -> bytes.                       (* str.lower *)
  Variable match_posix : bytes -> bytes -> bool.         (* PurePosixPath(path).match(pattern)   *)
  Variable match_win : bytes -> bytes -> bool.           (* PureWindowsPath(path).match(pattern) *)

  (* {pattern.lower() for pattern in patterns} when not case_sensitive *)
  Definition fold_case (cs : bool) (pats : list bytes) : list bytes :=
    if cs then pats else map lower pats.
  (* the path object chosen by case_sensitive, asked to match an (already folded) pattern *)
  Definition pmatch (cs : bool) (path pat : bytes) : bool :=
    if cs then match_posix path pat else match_win path pat.
  (* the reference reading "path matches pattern, case folded when case-insensitive" *)
  Definition gmatch (cs : bool) (path pat : bytes) : bool :=
    if cs then match_posix path pat else match_win path (lower pat).

  (* _match_path(raw_path, included, excluded, case_sensitive); sets as lists (any() over a set
     does not depend on order or multiplicity). *)
  Definition match_path (raw : bytes) (incl excl : list bytes) (cs : bool) : result bool :=
    let i := fold_case cs incl in
    let x := fold_case cs excl in
    match common i x with
    | _ :: _ => Conflict
    | [] => Ok (existsb (pmatch cs raw) i && negb (existsb (pmatch cs raw) x))
    end.

  (* list(filter_paths(paths, included_patterns=, excluded_patterns=, case_sensitive=)) *)
  Fixpoint filter_go (paths : list bytes) (incl excl : list bytes) (cs : bool) : result (list bytes) :=
    match paths with
    | [] => Ok []
    | p :: rest =>
      match match_path p incl excl cs with
      | Conflict => Conflict
      | Ok b =>
        match filter_go rest incl excl cs with
        | Conflict => Conflict
        | Ok l => Ok (if b then p :: l else l)
        end
      end
    end.
  Definition filter_paths (paths : list bytes) (incl excl : option (list bytes)) (cs : bool)
    : result (list bytes) :=
    filter_go paths (default [star] incl) (default [] excl) cs.

  (* match_any_paths = any(filter_paths(...)): any() consumes the generator lazily and tests the
     truth value of what is yielded.  [counts] is that test: in the pinned code the yielded object
     is the path string itself (so a yielded "" does not count: [nonemptyb]); in the repaired code
     every yielded path counts ([fun _ => true]). *)
  Fixpoint match_any_go (counts : bytes -> bool) (paths incl excl : list bytes) (cs : bool) : result bool :=
    match paths with
    | [] => Ok false
    | p :: rest =>
      match match_path p incl excl cs with
      | Conflict => Conflict
      | Ok true => if counts p then Ok true else match_any_go counts rest incl excl cs
      | Ok false => match_any_go counts rest incl excl cs
      end
    end.
  Definition match_any_paths_with (counts : bytes -> bool) (paths : list bytes)
             (incl excl : option (list bytes)) (cs : bool) : result bool :=
    match_any_go counts paths (default [star] incl) (default [] excl) cs.
  Definition match_any_paths := match_any_paths_with (fun _ => true).
  Definition match_any_paths_pinned := match_any_paths_with nonemptyb.
End Glob.

(* ---------------------------------------------------------------- PatternMatchingEventHandler *)
Record pconfig := mkP {
  p_patterns : option (list bytes);        (* patterns=None | list *)
  p_ignore : option (list bytes);          (* ignore_patterns=None | list *)
  p_ignore_dirs : bool;
  p_cs : bool }.

Section PatternHandler.
  Variable lower : bytes -> bytes.
  Variable match_posix match_win : bytes -> bytes -> bool.

  Definition pattern_dispatch_with (counts : bytes -> bool) (paths_of : event -> list bytes)
             (cfg : pconfig) (e : event) : outcome :=
    if p_ignore_dirs cfg && is_directory (ecls e) then Done []
    else
      match match_any_paths_with lower match_posix match_win counts (paths_of e)
                                 (p_patterns cfg) (p_ignore cfg) (p_cs cfg) with
      | Conflict => Raised [] ValueError
      | Ok true => dispatch_base e
      | Ok false => Done []
      end.

  Definition pattern_dispatch := pattern_dispatch_with (fun _ => true) event_paths.
  Definition pattern_dispatch_pinned := pattern_dispatch_with nonemptyb event_paths_pinned.
End PatternHandler.

(* ---------------------------------------------------------------- RegexMatchingEventHandler *)
Inductive rspec :=
  | RNone                      (* regexes=None -> [r".*"] *)
  | RStr (r : bytes)           (* regexes="..." (a str) -> [regexes] *)
  | RList (l : list bytes).
Definition regex_list (s : rspec) : list bytes :=
  match s with RNone => [dotstar] | RStr r => [r] | RList l => l end.

Record rconfig := mkR {
  r_regexes : rspec;
  r_ignore : option (list bytes);          (* ignore_regexes=None -> [] *)
  r_ignore_dirs : bool;
  r_cs : bool }.

Section RegexHandler.
  (* rmatch cs r p: re.compile(r, 0 if cs else re.IGNORECASE).match(p) is not None *)
  Variable rmatch : bool -> bytes -> bytes -> bool.

  (* any(r.match(p) for r in regexes for p in paths) *)
  Definition any_match (cs : bool) (rs paths : list bytes) : bool :=
    existsb (fun r => existsb (rmatch cs r) paths) rs.

  Definition regex_dispatch_with (paths_of : event -> list bytes) (cfg : rconfig) (e : event) : outcome :=
    if r_ignore_dirs cfg && is_directory (ecls e) then Done []
    else
      let paths := paths_of e in
      if any_match (r_cs cfg) (default [] (r_ignore cfg)) paths then Done []
      else if any_match (r_cs cfg) (regex_list (r_regexes cfg)) paths then dispatch_base e
      else Done [].

  Definition regex_dispatch := regex_dispatch_with event_paths.
  Definition regex_dispatch_pinned := regex_dispatch_with event_paths_pinned.
End RegexHandler.
