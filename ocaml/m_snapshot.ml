open Sexp
open Conv

(* snapshot on the wire: ((path ino dev isdir mtime size) ...) in insertion order *)
let stat_of = function
  | L [p; i; d; k; m; z] ->
    (bytes_of p, { Snapshot.st_ino = n_of i; st_dev = n_of d; st_isdir = bool_of k; st_mtime = n_of m; st_size = n_of z })
  | _ -> failwith "snapshot entry"
let snap_of = list_of stat_of
let sx_stat (st : Snapshot.stat) =
  L [sx_n st.Snapshot.st_ino; sx_n st.Snapshot.st_dev; sx_bool st.Snapshot.st_isdir; sx_n st.Snapshot.st_mtime; sx_n st.Snapshot.st_size]
let sx_snap (s : Snapshot.snap) = sx_list (fun (p, st) -> L (sx_bytes p :: (match sx_stat st with L l -> l | a -> [a]))) s
let sx_pair (a, b) = L [sx_bytes a; sx_bytes b]
let sx_diff (d : Snapshot.dresult) =
  L [sx_list sx_bytes d.Snapshot.files_created; sx_list sx_bytes d.Snapshot.files_deleted;
     sx_list sx_bytes d.Snapshot.files_modified; sx_list sx_pair d.Snapshot.files_moved;
     sx_list sx_bytes d.Snapshot.dirs_created; sx_list sx_bytes d.Snapshot.dirs_deleted;
     sx_list sx_bytes d.Snapshot.dirs_modified; sx_list sx_pair d.Snapshot.dirs_moved]

let run = function
  | L [A "diff"; ign; r; s] ->
    let r = snap_of r and s = snap_of s in
    (match Snapshot.diff (bool_of ign) r s with
     | None -> L [A "CRASH"]
     | Some d -> L [A "OK"; sx_diff d; sx_bool (Snapshot.wfb r); sx_bool (Snapshot.wfb s)])
  | L [A "pathof"; s; i; d] -> sx_opt sx_bytes (Snapshot.path_of (n_of i, n_of d) (snap_of s))
  | _ -> failwith "snapshot: bad case"
