(* C11, reader level: raw kernel events without a structural bit leave the reader's bookkeeping and the
   kernel untouched and only append their InotifyEvent; hence reading a batch from which such events
   have been removed ends in the same state and yields the corresponding sub-list of the output. *)
Require Import WD.Base.Prelude WD.Base.BStr WD.Model.SubEvents WD.Model.Emitter WD.Model.Fs WD.Model.Reader.
Require Import WD.Proofs.ReaderFixProofs WD.Proofs.ContractProofs.

(* the bits the reader itself acts on *)
Definition structural (recursive : bool) (m : N) : bool :=
  is_moved_from m || is_moved_to m || Emitter.is_ignored m || (recursive && is_directory m && is_create m).

(* the raws _recursive_simulate fabricates *)
Definition sim_raw (x : raw) : Prop := r_mask x = IN_CREATE \/ r_mask x = N.lor IN_CREATE IN_ISDIR.

Lemma filter_all {A} (f : A -> bool) l : (forall x, In x l -> f x = true) -> filter f l = l.
Proof.
  induction l as [|a l IH]; intros H; simpl; [reflexivity|].
  rewrite (H a (or_introl eq_refl)). f_equal. apply IH. intros x Hx. apply H. now right.
Qed.

Section R.
  Variable C : cfg.

  (* ---------------------------------------------------------------- the accumulator is only appended to *)
  Lemma sim_dirs_acc t root ds : forall r k,
    exists r' k' o, Forall sim_raw o /\ forall acc, sim_dirs C r k t root ds acc = (r', k', acc ++ o).
  Proof.
    induction ds as [|d ds IH]; intros r k; cbn [sim_dirs].
    - exists r, k, []. split; [constructor|]. intros acc. now rewrite app_nil_r.
    - destruct (add_watch C r k t (join root d)) as [[[r1 k1] wd]|].
      + destruct (IH r1 k1) as [r' [k' [o [Ho H]]]].
        exists r', k', ({| r_wd := wd; r_mask := N.lor IN_CREATE IN_ISDIR; r_cookie := 0; r_name := d;
                           r_path := join root d |} :: o).
        split; [constructor; [right; reflexivity | exact Ho]|].
        intros acc. rewrite H, <- app_assoc. reflexivity.
      + destruct (IH (bump r) k) as [r' [k' [o [Ho H]]]]. exists r', k', o. split; [exact Ho | exact H].
  Qed.

  Lemma sim_files_acc r root fls :
    (exists o, Forall sim_raw o /\ forall acc, sim_files C r root fls acc = Done (acc ++ o)) \/
    (exists s, forall acc, sim_files C r root fls acc = Crash s).
  Proof.
    induction fls as [|f fls IH]; cbn [sim_files].
    - left. exists []. split; [constructor|]. intros acc. now rewrite app_nil_r.
    - destruct (alookup beqb (dirname (join root f)) (wfp r)) as [wd|].
      + destruct IH as [[o [Ho H]]|[s H]].
        * left. exists ({| r_wd := wd; r_mask := IN_CREATE; r_cookie := 0; r_name := f; r_path := join root f |} :: o).
          split; [constructor; [left; reflexivity | exact Ho]|].
          intros acc. rewrite H, <- app_assoc. reflexivity.
        * right. exists s. intros acc. apply H.
      + destruct (c_fix_simulate C); [exact IH|]. right. exists SITE_SIMULATE. reflexivity.
  Qed.

  Lemma simulate_acc t w : forall r k,
    (exists r' k' o, Forall sim_raw o /\ forall acc, simulate C r k t w acc = Done (r', k', acc ++ o)) \/
    (exists s, forall acc, simulate C r k t w acc = Crash s).
  Proof.
    induction w as [|[[root ds] fls] w IH]; intros r k; cbn [simulate].
    - left. exists r, k, []. split; [constructor|]. intros acc. now rewrite app_nil_r.
    - destruct (sim_dirs_acc t root ds r k) as [r1 [k1 [o1 [Ho1 H1]]]].
      destruct (sim_files_acc r1 root fls) as [[o2 [Ho2 H2]]|[s H2]].
      + destruct (IH r1 k1) as [[r' [k' [o3 [Ho3 H3]]]]|[s H3]].
        * left. exists r', k', (o1 ++ o2 ++ o3). split.
          { apply Forall_app; split; [exact Ho1 | apply Forall_app; split; assumption]. }
          intros acc. rewrite H1, H2, H3, <- !app_assoc. reflexivity.
        * right. exists s. intros acc. rewrite H1, H2, H3. reflexivity.
      + right. exists s. intros acc. rewrite H1, H2. reflexivity.
  Qed.

  (* ---------------------------------------------------------------- read_one, factored *)
  Definition ro_move (t : fs) (r : rstate) (k : kst) (e : kraw) (wd_path : bytes) : rstate * kst * raw :=
    let m := k_mask e in
    let src_path := match k_name e with [] => wd_path | _ => join wd_path (k_name e) end in
    let ev := {| r_wd := k_wd e; r_mask := m; r_cookie := k_cookie e; r_name := k_name e; r_path := src_path |} in
    if is_moved_from m then
      ({| wfp := wfp r; pfw := pfw r; mvf := aset N.eqb (k_cookie e) src_path (mvf r); calls := calls r;
         pend := if c_fix_moveout C && c_recursive C && is_directory m then Some (k_cookie e, src_path) else pend r |},
       k, ev)
    else if is_moved_to m then
      let ev' := {| r_wd := k_wd e; r_mask := m; r_cookie := k_cookie e; r_name := k_name e;
                    r_path := join wd_path (k_name e) |} in
      match alookup N.eqb (k_cookie e) (mvf r) with
      | Some msrc =>
        match alookup beqb msrc (wfp r) with
        | Some mwd =>
          let r' := {| wfp := aset beqb src_path mwd (aremove beqb msrc (wfp r));
                       pfw := aset N.eqb mwd src_path (pfw r); mvf := mvf r; calls := calls r; pend := pend r |} in
          ((if c_recursive C then rekey_loop (wfp r') msrc src_path r' else r'), k, ev')
        | None =>
          if c_fix_movein C && c_recursive C && is_directory m && fisdir src_path t
          then let '(r', k') := add_dirs C r k t (src_path :: walk_dirs t src_path) in (r', k', ev')
          else (r, k, ev')
        end
      | None =>
        if c_fix_movein C && c_recursive C && is_directory m && fisdir src_path t
        then let '(r', k') := add_dirs C r k t (src_path :: walk_dirs t src_path) in (r', k', ev')
        else (r, k, ev')
      end
    else (r, k, ev).

  Definition ro_ignored (r1 : rstate) (e : kraw) : outcome rstate :=
    if Emitter.is_ignored (k_mask e) then
      match alookup N.eqb (k_wd e) (pfw r1) with
      | None => Crash SITE_PATH_FOR_WD
      | Some path =>
        let rp := {| wfp := wfp r1; pfw := aremove N.eqb (k_wd e) (pfw r1); mvf := mvf r1; calls := calls r1;
                     pend := pend r1 |} in
        match alookup beqb path (wfp rp) with
        | Some w => if N.eqb w (k_wd e)
                    then Done {| wfp := aremove beqb path (wfp rp); pfw := pfw rp; mvf := mvf rp; calls := calls rp;
                                pend := pend rp |}
                    else Done rp
        | None => if c_fix_ignored C then Done rp else Crash SITE_IGNORED
        end
      end
    else Done r1.

  (* the loop body after the head (settle_pending) *)
  Lemma read_one_body_factored t r k acc e :
    read_one_body C t (r, k, acc) e =
    match alookup N.eqb (k_wd e) (pfw r) with
    | None => if c_fix_moveout C then Done (r, k, acc) else Crash SITE_PATH_FOR_WD
    | Some wd_path =>
      let '(r1, k1, ev1) := ro_move t r k e wd_path in
      match ro_ignored r1 e with
      | Crash s => Crash s
      | Done r2 =>
        let acc2 := acc ++ [ev1] in
        if c_recursive C && is_directory (k_mask e) && is_create (k_mask e) then
          match add_watch C r2 k1 t (r_path ev1) with
          | None => Done (bump r2, k1, acc2)
          | Some (r3, k3, _) => simulate C r3 k3 t (walk (r_path ev1) (content t (r_path ev1))) acc2
          end
        else Done (r2, k1, acc2)
      end
    end.
  Proof. reflexivity. Qed.

  Lemma read_one_settle t r k acc e :
    read_one C t (r, k, acc) e =
    read_one_body C t (fst (settle_pending C r k e), snd (settle_pending C r k e), acc) e.
  Proof. unfold read_one. destruct (settle_pending C r k e); reflexivity. Qed.

  Lemma ro_move_mask t r k e wdp : r_mask (snd (ro_move t r k e wdp)) = k_mask e.
  Proof.
    unfold ro_move.
    destruct (is_moved_from (k_mask e)); [reflexivity|].
    destruct (is_moved_to (k_mask e)); [|reflexivity].
    destruct (alookup N.eqb (k_cookie e) (mvf r)) as [msrc|].
    - destruct (alookup beqb msrc (wfp r)); [reflexivity|].
      destruct (c_fix_movein C && c_recursive C && is_directory (k_mask e) && fisdir _ t); [|reflexivity].
      destruct (add_dirs C r k t _); reflexivity.
    - destruct (c_fix_movein C && c_recursive C && is_directory (k_mask e) && fisdir _ t); [|reflexivity].
      destruct (add_dirs C r k t _); reflexivity.
  Qed.

  (* what one event does is independent of the accumulator; it appends nothing (unknown descriptor, repaired code) or
     its own InotifyEvent (same mask) followed - only for IN_CREATE|IN_ISDIR under a recursive watch - by simulated
     IN_CREATE raws *)
  Lemma read_one_body_acc t r k e :
    (exists r' k' o,
        (o = [] \/ exists ev sims, o = ev :: sims /\ r_mask ev = k_mask e /\ Forall sim_raw sims /\
                                   (sims <> [] -> c_recursive C = true)) /\
        forall acc, read_one_body C t (r, k, acc) e = Done (r', k', acc ++ o)) \/
    (exists s, forall acc, read_one_body C t (r, k, acc) e = Crash s).
  Proof.
    destruct (alookup N.eqb (k_wd e) (pfw r)) as [wdp|] eqn:Hl.
    2:{ destruct (c_fix_moveout C) eqn:Hf.
        - left. exists r, k, []. split; [now left|]. intros acc. rewrite read_one_body_factored, Hl, Hf, app_nil_r. reflexivity.
        - right. exists SITE_PATH_FOR_WD. intros acc. rewrite read_one_body_factored, Hl, Hf. reflexivity. }
    pose proof (ro_move_mask t r k e wdp) as Hm.
    destruct (ro_move t r k e wdp) as [[r1 k1] ev1] eqn:Em. cbn [snd] in Hm.
    destruct (ro_ignored r1 e) as [r2|s] eqn:Ei.
    2:{ right. exists s. intros acc. rewrite read_one_body_factored, Hl, Em, Ei. reflexivity. }
    destruct (c_recursive C && is_directory (k_mask e) && is_create (k_mask e)) eqn:Ec.
    - assert (Hrec : c_recursive C = true).
      { destruct (c_recursive C); [reflexivity | discriminate]. }
      destruct (add_watch C r2 k1 t (r_path ev1)) as [[[r3 k3] wd3]|] eqn:Ea.
      + destruct (simulate_acc t (walk (r_path ev1) (content t (r_path ev1))) r3 k3)
          as [[r' [k' [o [Ho H]]]]|[s H]].
        * left. exists r', k', (ev1 :: o). split.
          { right. exists ev1, o. split; [reflexivity|]. split; [exact Hm | split; [exact Ho | intros _; exact Hrec]]. }
          intros acc. rewrite read_one_body_factored, Hl, Em, Ei, Ec, Ea. cbn zeta. rewrite H, <- app_assoc. reflexivity.
        * right. exists s. intros acc. rewrite read_one_body_factored, Hl, Em, Ei, Ec, Ea. apply H.
      + left. exists (bump r2), k1, [ev1]. split.
        { right. exists ev1, []. split; [reflexivity|]. split; [exact Hm | split; [constructor | congruence]]. }
        intros acc. rewrite read_one_body_factored, Hl, Em, Ei, Ec, Ea. reflexivity.
    - left. exists r2, k1, [ev1]. split.
      { right. exists ev1, []. split; [reflexivity|]. split; [exact Hm | split; [constructor | congruence]]. }
      intros acc. rewrite read_one_body_factored, Hl, Em, Ei, Ec. reflexivity.
  Qed.

  Lemma read_one_acc t r k e :
    (exists r' k' o,
        (o = [] \/ exists ev sims, o = ev :: sims /\ r_mask ev = k_mask e /\ Forall sim_raw sims /\
                                   (sims <> [] -> c_recursive C = true)) /\
        forall acc, read_one C t (r, k, acc) e = Done (r', k', acc ++ o)) \/
    (exists s, forall acc, read_one C t (r, k, acc) e = Crash s).
  Proof.
    destruct (read_one_body_acc t (fst (settle_pending C r k e)) (snd (settle_pending C r k e)) e)
      as [[r' [k' [o [Ho H]]]]|[s H]].
    - left. exists r', k', o. split; [exact Ho|]. intros acc. rewrite read_one_settle. apply H.
    - right. exists s. intros acc. rewrite read_one_settle. apply H.
  Qed.

  (* ---------------------------------------------------------------- the remembered move-out candidate *)
  (* the repair is on and a directory IN_MOVED_FROM is remembered: the head of the next iteration will act *)
  Definition pending_of (r : rstate) : bool :=
    c_fix_moveout C && match pend r with Some _ => true | None => false end.

  (* the only records after which a candidate can be remembered *)
  Definition sets_pend (m : N) : bool := c_fix_moveout C && c_recursive C && is_moved_from m && is_directory m.

  Lemma add_watch_pend r k t p r' k' wd : add_watch C r k t p = Some (r', k', wd) -> pend r' = pend r.
  Proof.
    unfold add_watch. destruct (mem_nat _ _); [discriminate|]. destruct (kadd_watch k t p (c_mask C)) as [[k1 w]|]; [|discriminate].
    intros H. inversion H; subst. reflexivity.
  Qed.

  Lemma sim_dirs_pend t root ds : forall r k acc, pend (fst (fst (sim_dirs C r k t root ds acc))) = pend r.
  Proof.
    induction ds as [|d ds IH]; intros r k acc; cbn [sim_dirs]; [reflexivity|].
    destruct (add_watch C r k t (join root d)) as [[[r1 k1] wd]|] eqn:Ea.
    - rewrite IH. eapply add_watch_pend. exact Ea.
    - rewrite IH. reflexivity.
  Qed.

  Lemma simulate_pend t w : forall r k acc r' k' out,
    simulate C r k t w acc = Done (r', k', out) -> pend r' = pend r.
  Proof.
    induction w as [|[[root ds] fls] w IH]; intros r k acc r' k' out H; cbn [simulate] in H.
    - inversion H; subst. reflexivity.
    - pose proof (sim_dirs_pend t root ds r k acc) as Hp.
      destruct (sim_dirs C r k t root ds acc) as [[r1 k1] a1]. cbn [fst] in Hp.
      destruct (sim_files C r1 root fls a1); [|discriminate]. rewrite (IH _ _ _ _ _ _ H). exact Hp.
  Qed.

  Lemma add_dirs_pend t ps : forall r k, pend (fst (add_dirs C r k t ps)) = pend r.
  Proof.
    induction ps as [|p ps IH]; intros r k; cbn [add_dirs]; [reflexivity|].
    destruct (add_watch C r k t p) as [[[r1 k1] wd]|] eqn:Ea; [|reflexivity].
    rewrite IH. eapply add_watch_pend. exact Ea.
  Qed.

  Lemma rekey_loop_pend keys src dst : forall r, pend (rekey_loop keys src dst r) = pend r.
  Proof.
    induction keys as [|[p x] keys IH]; intros r; cbn [rekey_loop]; [reflexivity|].
    destruct (starts (src ++ [sep]) p); [|apply IH]. destruct (alookup beqb p (wfp r)); rewrite IH; reflexivity.
  Qed.

  Lemma ro_move_pend t r k e wdp :
    pend (fst (fst (ro_move t r k e wdp))) = pend r \/
    (sets_pend (k_mask e) = true).
  Proof.
    unfold ro_move, sets_pend.
    destruct (is_moved_from (k_mask e)).
    - cbn [fst pend]. destruct (c_fix_moveout C && c_recursive C && is_directory (k_mask e)) eqn:E; [|now left].
      right. apply andb_true_iff in E as [E E3]. apply andb_true_iff in E as [E1 E2]. now rewrite E1, E2, E3.
    - left. destruct (is_moved_to (k_mask e)); [|reflexivity].
      destruct (alookup N.eqb (k_cookie e) (mvf r)) as [msrc|].
      + destruct (alookup beqb msrc (wfp r)).
        * cbn [fst]. destruct (c_recursive C); [rewrite rekey_loop_pend|]; reflexivity.
        * destruct (c_fix_movein C && c_recursive C && is_directory (k_mask e) && fisdir _ t); [|reflexivity].
          pose proof (add_dirs_pend t (match k_name e with [] => wdp | _ :: _ => join wdp (k_name e) end
                                        :: walk_dirs t match k_name e with [] => wdp | _ :: _ => join wdp (k_name e) end) r k) as H.
          destruct (add_dirs C r k t _). exact H.
      + destruct (c_fix_movein C && c_recursive C && is_directory (k_mask e) && fisdir _ t); [|reflexivity].
        pose proof (add_dirs_pend t (match k_name e with [] => wdp | _ :: _ => join wdp (k_name e) end
                                      :: walk_dirs t match k_name e with [] => wdp | _ :: _ => join wdp (k_name e) end) r k) as H.
        destruct (add_dirs C r k t _). exact H.
  Qed.

  Lemma ro_ignored_pend r e r2 : ro_ignored r e = Done r2 -> pend r2 = pend r.
  Proof.
    unfold ro_ignored. destruct (Emitter.is_ignored (k_mask e)); [|intros H; inversion H; reflexivity].
    destruct (alookup N.eqb (k_wd e) (pfw r)); [|discriminate]. cbn [wfp pfw].
    destruct (alookup beqb b (wfp r)).
    - destruct (N.eqb n (k_wd e)); intros H; inversion H; reflexivity.
    - destruct (c_fix_ignored C); [|discriminate]. intros H; inversion H; reflexivity.
  Qed.

  Lemma read_one_body_pend t r k acc e r' k' out :
    read_one_body C t (r, k, acc) e = Done (r', k', out) -> pend r' = pend r \/ sets_pend (k_mask e) = true.
  Proof.
    rewrite read_one_body_factored. destruct (alookup N.eqb (k_wd e) (pfw r)) as [wdp|].
    2:{ destruct (c_fix_moveout C); [|discriminate]. intros H; inversion H; subst. now left. }
    pose proof (ro_move_pend t r k e wdp) as Hm.
    destruct (ro_move t r k e wdp) as [[r1 k1] ev1]. cbn [fst] in Hm.
    destruct (ro_ignored r1 e) as [r2|] eqn:Ei; [|discriminate]. apply ro_ignored_pend in Ei.
    destruct Hm as [Hm|Hm]; [|intros _; now right].
    destruct (c_recursive C && is_directory (k_mask e) && is_create (k_mask e)).
    - destruct (add_watch C r2 k1 t (r_path ev1)) as [[[r3 k3] wd]|] eqn:Ea.
      + intros H. apply simulate_pend in H. apply add_watch_pend in Ea. left. congruence.
      + intros H. inversion H; subst. left. cbn [bump pend]. congruence.
    - intros H. inversion H; subst. left. congruence.
  Qed.

  Lemma forget_tree_pend keys p : forall r k, pend (fst (forget_tree keys p r k)) = pend r.
  Proof.
    induction keys as [|[q x] keys IH]; intros r k; cbn [forget_tree]; [reflexivity|].
    destruct (beqb q p || starts (p ++ [sep]) q); [|apply IH].
    destruct (alookup beqb q (wfp r)) as [wd|]; [|apply IH].
    destruct (alookup N.eqb wd (pfw r)) as [q'|]; [destruct (beqb q' q)|]; rewrite IH; reflexivity.
  Qed.

  Lemma settle_not_pending r k e : pending_of (fst (settle_pending C r k e)) = false.
  Proof.
    unfold settle_pending, pending_of. destruct (c_fix_moveout C) eqn:Hf; [|reflexivity].
    destruct (pend r) as [[c p]|] eqn:Ep; [|cbn [fst]; now rewrite Ep].
    destruct (is_moved_to (k_mask e) && N.eqb (k_cookie e) c && amem N.eqb (k_wd e) (pfw r)); [reflexivity|].
    rewrite forget_tree_pend. reflexivity.
  Qed.

  Lemma settle_idle r k e : pending_of r = false -> settle_pending C r k e = (r, k).
  Proof.
    unfold pending_of, settle_pending. destruct (c_fix_moveout C); [|reflexivity].
    destruct (pend r); [discriminate | reflexivity].
  Qed.

  (* a candidate is remembered after an iteration only if the record was a directory IN_MOVED_FROM *)
  Lemma read_one_pending t r k acc e r' k' out :
    read_one C t (r, k, acc) e = Done (r', k', out) -> pending_of r' = true -> sets_pend (k_mask e) = true.
  Proof.
    rewrite read_one_settle. intros H Hp.
    pose proof (settle_not_pending r k e) as Hs.
    destruct (read_one_body_pend _ _ _ _ _ _ _ _ H) as [E|E]; [|exact E].
    unfold pending_of in *. rewrite E in Hp. congruence.
  Qed.

  (* ---------------------------------------------------------------- a plain event *)
  (* in general: the head of the loop may settle a remembered candidate first, then the event only appends *)
  Lemma read_one_plain_c11 t r k acc e :
    structural (c_recursive C) (k_mask e) = false ->
    read_one C t (r, k, acc) e =
    let '(r1, k1) := settle_pending C r k e in
    match alookup N.eqb (k_wd e) (pfw r1) with
    | None => if c_fix_moveout C then Done (r1, k1, acc) else Crash SITE_PATH_FOR_WD
    | Some wdp => Done (r1, k1, acc ++ [mkraw e (rpath wdp (k_name e))])
    end.
  Proof.
    unfold structural. intros H.
    apply orb_false_iff in H as [H H4]. apply orb_false_iff in H as [H H3]. apply orb_false_iff in H as [H1 H2].
    unfold read_one. destruct (settle_pending C r k e) as [r1 k1].
    rewrite read_one_body_factored. destruct (alookup N.eqb (k_wd e) (pfw r1)) as [wdp|]; [|reflexivity].
    unfold ro_move, ro_ignored. rewrite H1, H2, H3, H4. reflexivity.
  Qed.

  (* nothing remembered (or the pinned code): bookkeeping and kernel untouched *)
  Lemma read_one_plain_idle t r k acc e :
    structural (c_recursive C) (k_mask e) = false -> pending_of r = false ->
    read_one C t (r, k, acc) e =
    match alookup N.eqb (k_wd e) (pfw r) with
    | None => if c_fix_moveout C then Done (r, k, acc) else Crash SITE_PATH_FOR_WD
    | Some wdp => Done (r, k, acc ++ [mkraw e (rpath wdp (k_name e))])
    end.
  Proof. intros H Hp. rewrite (read_one_plain_c11 t r k acc e H), (settle_idle r k e Hp). reflexivity. Qed.

  (* ---------------------------------------------------------------- batches *)
  (* the batch is [guarded]: a record that may find a candidate remembered - the first one when a candidate is
     remembered at the start, and every successor of a directory IN_MOVED_FROM - is kept.  (With the repair a dropped
     record in that position would settle the candidate in one run and not in the other.)  Trivially true of the
     pinned code (c_fix_moveout = false). *)
  Fixpoint guardedb (keep : N -> bool) (pending : bool) (b : list kraw) : bool :=
    match b with
    | [] => true
    | e :: b' => (if pending then keep (k_mask e) else true) && guardedb keep (sets_pend (k_mask e)) b'
    end.

  Theorem reader_transparent t (keep : N -> bool) :
    (forall m, structural (c_recursive C) m = true -> keep m = true) ->
    (c_recursive C = true -> keep IN_CREATE = true /\ keep (N.lor IN_CREATE IN_ISDIR) = true) ->
    forall b r k acc r' k' out pending,
      (pending_of r = true -> pending = true) -> guardedb keep pending b = true ->
      read_batch C t (r, k, acc) b = Done (r', k', out) ->
      read_batch C t (r, k, filter (fun x => keep (r_mask x)) acc) (filter (fun e => keep (k_mask e)) b)
      = Done (r', k', filter (fun x => keep (r_mask x)) out).
  Proof.
    intros Hstruct Hsim. induction b as [|e b IH]; intros r k acc r' k' out pending Hpend Hg Hrun.
    - cbn in *. inversion Hrun; subst. reflexivity.
    - cbn [read_batch filter guardedb] in *. apply andb_true_iff in Hg as [Hg1 Hg2].
      destruct (keep (k_mask e)) eqn:Hk.
      + destruct (read_one_acc t r k e) as [[r1 [k1 [o [Ho H]]]]|[s H]].
        2:{ rewrite H in Hrun. discriminate. }
        pose proof (H acc) as Hone. rewrite H in Hrun. cbn [read_batch]. rewrite H.
        assert (Hf : filter (fun x => keep (r_mask x)) (acc ++ o) = filter (fun x => keep (r_mask x)) acc ++ o).
        { rewrite filter_app. f_equal. destruct Ho as [->|[ev [sims [-> [Hm [Hs Hrec]]]]]]; [reflexivity|].
          cbn [filter]. rewrite Hm, Hk. f_equal.
          destruct sims as [|x sims]; [reflexivity|].
          destruct (Hsim (Hrec ltac:(discriminate))) as [K1 K2].
          apply filter_all. intros y Hy.
          rewrite Forall_forall in Hs. destruct (Hs y Hy) as [-> | ->]; assumption. }
        rewrite <- Hf. apply (IH _ _ _ _ _ _ (sets_pend (k_mask e))); [|exact Hg2 | exact Hrun].
        intros Hp. eapply read_one_pending; eassumption.
      + assert (Hp : structural (c_recursive C) (k_mask e) = false).
        { destruct (structural (c_recursive C) (k_mask e)) eqn:E; [|reflexivity].
          rewrite (Hstruct _ E) in Hk. discriminate. }
        assert (Hidle : pending_of r = false).
        { destruct (pending_of r) eqn:E; [|reflexivity]. rewrite (Hpend eq_refl) in Hg1. discriminate. }
        rewrite (read_one_plain_idle t r k acc e Hp Hidle) in Hrun.
        destruct (alookup N.eqb (k_wd e) (pfw r)) as [wdp|].
        * assert (Hnp : pending_of r = true -> sets_pend (k_mask e) = true) by (intros E; congruence).
          specialize (IH r k _ _ _ _ (sets_pend (k_mask e)) Hnp Hg2 Hrun).
          rewrite filter_app in IH. cbn [filter mkraw r_mask] in IH. rewrite Hk, app_nil_r in IH. exact IH.
        * destruct (c_fix_moveout C); [|discriminate].
          apply (IH r k _ _ _ _ (sets_pend (k_mask e))); [intros E; congruence | exact Hg2 | exact Hrun].
  Qed.

  Lemma guarded_pinned : c_fix_moveout C = false -> forall keep b, guardedb keep false b = true.
  Proof.
    intros Hf keep b. induction b as [|e b IH]; [reflexivity|]. cbn [guardedb].
    unfold sets_pend at 1. rewrite Hf. exact IH.
  Qed.
End R.
