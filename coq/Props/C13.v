(* C13 - Registry stays consistent over any call sequence; failed calls leave no trace.
   Only statements; every proof is `exact <lemma>`.

   The machine [step f2 f2b] (Model/Registry.v) is BaseObserver's registry in the code's statement
   order; [step true true] is the repaired order (fixes/F2-schedule-rollback.diff), [false false]
   the pinned one.  A call list pairs every call with the fault injected into it (constructor of
   the new emitter raises / the k-th emitter.start() of the call raises); Start carries the order in
   which the emitter set is iterated.  All theorems quantify over arbitrary lists. *)
Require Import WD.Base.Prelude WD.Model.Registry WD.Proofs.RegistryProofs.

(* Refinement: over any call sequence with any faults, exactly the same calls raise, with the same
   error, as in the simple map watch -> handler set; and what the public API shows of the final
   state (reported emitters with their liveness, handler set of every watch, thread flags) is the
   state of the map. *)
Theorem C13_refines : forall cs : list (call * fault),
  snd (run_impl true true cs) = snd (run_spec cs) /\
  spec_eq (abs (fst (run_impl true true cs))) (fst (run_spec cs)).
Proof. exact refines. Qed.
Print Assumptions C13_refines.

(* The emitters reported are exactly those of the currently scheduled watches, one per distinct
   watch key; _watches, _emitter_for_watch and _handlers describe the same set of watches. *)
Theorem C13_emitters_exact : forall cs : list (call * fault),
  let s := fst (run_impl true true cs) in
  let t := fst (run_spec cs) in
  map ewatch (emitters s) = map fst (sched t) /\
  NoDup (map ewatch (emitters s)) /\
  watches s = map ewatch (emitters s) /\
  efw s = map (fun e => (ewatch e, e)) (emitters s) /\
  (forall w, In w (map fst (sched t)) -> alookup weqb w (handlers s) <> None).
Proof. exact emitters_exact. Qed.
Print Assumptions C13_emitters_exact.

(* Equal watches share one emitter: scheduling a watch whose key is already scheduled succeeds
   whatever the fault oracle says, creates and starts nothing, and no two reported emitters have
   equal keys. *)
Theorem C13_share_one_emitter : forall s h w flt,
  reachable s -> In w (map ewatch (emitters s)) ->
  exists s', step true true s (Schedule h w, flt) = (s', Ok) /\
    emitters s' = emitters s /\ efw s' = efw s /\ started s' = started s /\
    NoDup (map ewatch (emitters s')).
Proof. exact share_one_emitter. Qed.
Print Assumptions C13_share_one_emitter.

(* Unscheduling one watch does not affect another: handlers, emitter, liveness, membership. *)
Theorem C13_independent : forall s w s' r,
  reachable s -> step true true s (Unschedule w, NoFault) = (s', r) ->
  forall w', w' <> w ->
    hget (handlers s') w' = hget (handlers s) w' /\
    (forall e, ewatch e = w' -> (In e (emitters s') <-> In e (emitters s))) /\
    alookup weqb w' (efw s') = alookup weqb w' (efw s) /\
    (In w' (watches s') <-> In w' (watches s)) /\
    started s' = started s.
Proof. exact unschedule_independent. Qed.
Print Assumptions C13_independent.

(* A schedule() that raises is the identity: on the abstract state and on every collection. *)
Theorem C13_failed_schedule_identity : forall s h w flt s' e,
  step true true s (Schedule h w, flt) = (s', Raised e) ->
  abs s' = abs s /\ watches s' = watches s /\ handlers s' = handlers s /\ emitters s' = emitters s /\
  efw s' = efw s /\ started s' = started s.
Proof. exact failed_schedule_identity. Qed.
Print Assumptions C13_failed_schedule_identity.

(* ... and afterwards its handler receives nothing - not even after the same watch is scheduled
   successfully for another handler - unless a later successful schedule/add_handler call adds it:
   after any prefix [pre], if h is not registered for w and schedule(h, w) raises, then after any
   continuation [post] in which no call adding (h, w) succeeded, h is not in the handler set of w
   and receives no event of any reported emitter of w. *)
Theorem C13_failed_schedule_no_delivery :
  forall pre h w flt post s1 e s2 rs,
    let s0 := fst (run_impl true true pre) in
    ~ In h (hget (handlers s0) w) ->
    step true true s0 (Schedule h w, flt) = (s1, Raised e) ->
    run_from true true s1 post = (s2, rs) ->
    no_successful_add h w post rs ->
    ~ In h (hget (handlers s2) w) /\ forall l, In (w, l) (receivers s2) -> ~ In h l.
Proof. exact failed_schedule_no_delivery. Qed.
Print Assumptions C13_failed_schedule_no_delivery.

(* No call ever fails with a KeyError from a later statement (del _handlers[w], _emitters.remove,
   _watches.remove ...): the collections never get out of step. *)
Theorem C13_no_internal_error : forall cs : list (call * fault),
  ~ In (Raised EKeyInternal) (snd (run_impl true true cs)).
Proof. exact no_internal_error. Qed.
Print Assumptions C13_no_internal_error.

(* A second start() - on a running observer, or after stop() - raises RuntimeError and is the
   identity on the whole state, under every fault and iteration order. *)
Theorem C13_second_start_identity : forall s ord flt, thr_started s = true ->
  step true true s (Start ord, flt) = (s, Raised EAlready).
Proof. exact second_start_identity. Qed.
Print Assumptions C13_second_start_identity.

(* Finding F2 - the pinned schedule() registers the handler before the emitter exists: refuted.
   Witness: schedule(h1, w) with a failing constructor, then schedule(h2, w): h1 is served. *)
Theorem C13_pinned_failed_schedule_refuted :
  exists pre h w flt post s1 e s2 rs l,
    let s0 := fst (run_impl false false pre) in
    ~ In h (hget (handlers s0) w) /\
    step false false s0 (Schedule h w, flt) = (s1, Raised e) /\
    run_from false false s1 post = (s2, rs) /\
    no_successful_add h w post rs /\
    In (w, l) (receivers s2) /\ In h l.
Proof. exact pinned_failed_schedule_refuted. Qed.
Print Assumptions C13_pinned_failed_schedule_refuted.

(* Finding F2b - the pinned start() drops only the emitter of the watch that failed to start:
   refuted (with the repaired schedule(), to isolate it).  Witness: schedule(h1, w); start() with
   the emitter failing; schedule(h2, w): the same calls raise as in the map, but h1 is served
   although the map has {h2}; after the failed start _watches still names w. *)
Theorem C13_pinned_failed_start_refuted :
  exists cs w h,
    snd (run_impl true false cs) = snd (run_spec cs) /\
    In (w, [h; 2%N]) (receivers (fst (run_impl true false cs))) /\
    hs (fst (run_spec cs)) w = [2%N] /\ h <> 2%N /\
    (exists w', In w' (watches (fst (run_impl true false (firstn 2 cs)))) /\
                ~ In w' (map ewatch (emitters (fst (run_impl true false (firstn 2 cs)))))).
Proof. exact pinned_failed_start_refuted. Qed.
Print Assumptions C13_pinned_failed_start_refuted.

(* ---------------------------------------------------------------- non-vacuity *)
Definition wa : watch := (1%N, false, 0%N).
Definition wb : watch := (2%N, true, 0%N).

(* a run in which every kind of error occurs and the final map is not empty: the first start() fails
   on the second emitter (wa is de-scheduled), the retry meets the emitter of wb that the failed
   attempt had already started (RuntimeError of that emitter: wb is de-scheduled), the third start()
   succeeds, the last one is refused up front and changes nothing *)
Example C13_refines_nonvacuous :
  let cs := [(Schedule 1 wa, FailCtor); (Schedule 2 wa, NoFault); (Schedule 1 wb, NoFault);
             (Unschedule (3, false, 0), NoFault); (RemoveHandler 1 wa, NoFault);
             (Start [wb; wa], FailStart 1); (Start [], NoFault); (Schedule 1 wa, NoFault);
             (Start [], NoFault); (Schedule 2 wb, FailStart 0); (Schedule 2 wb, NoFault);
             (Start [], NoFault)]%N in
  snd (run_impl true true cs) =
    [Raised ECtor; Ok; Ok; Raised EKeyWatch; Raised EKeyHandler; Raised EStart; Raised EAlready;
     Ok; Ok; Raised EStart; Ok; Raised EAlready] /\
  sched (fst (run_spec cs)) = [(wa, true); (wb, true)] /\ hs (fst (run_spec cs)) wb = [2%N] /\
  receivers (fst (run_impl true true cs)) = [(wa, [1%N]); (wb, [2%N])].
Proof. vm_compute. repeat split. Qed.

(* the hypotheses of C13_failed_schedule_no_delivery are satisfiable (the F2 replay) and the
   conclusion is about a non-empty receiver list *)
Example C13_failed_schedule_nonvacuous :
  let s0 := fst (run_impl true true []) in
  let r1 := step true true s0 (Schedule 1%N wa, FailCtor) in
  let r2 := run_from true true (fst r1) [(Schedule 2%N wa, NoFault); (Start [], NoFault)] in
  snd r1 = Raised ECtor /\ snd r2 = [Ok; Ok] /\
  no_successful_add 1%N wa [(Schedule 2%N wa, NoFault); (Start [], NoFault)] (snd r2) /\
  receivers (fst r2) = [(wa, [2%N])].
Proof. vm_compute. repeat split; intros; discriminate. Qed.

(* a reachable state with two watches (one of them scheduled twice): the hypotheses of
   C13_share_one_emitter and C13_independent hold there *)
Example C13_independent_nonvacuous :
  let cs := [(Schedule 1 wa, NoFault); (Start [], NoFault); (Schedule 2 wb, NoFault); (Schedule 2 wa, NoFault)]%N in
  let s := fst (run_impl true true cs) in
  reachable s /\ In wa (map ewatch (emitters s)) /\ wb <> wa /\
  obs_emitters s = [(wa, true); (wb, true)] /\
  snd (step true true s (Unschedule wa, NoFault)) = Ok /\
  receivers (fst (step true true s (Unschedule wa, NoFault))) = [(wb, [2%N])].
Proof.
  split; [eexists; reflexivity|]. vm_compute. repeat split; auto. discriminate.
Qed.
