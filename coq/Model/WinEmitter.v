(* WindowsApiEmitter.queue_events (read_directory_changes.py) as an executable function, and a
   documented-semantics simulator of ReadDirectoryChangesW.  Definitions only.

   The model follows the repaired code (state carried across calls, fixes/F13-win-rename-state.diff);
   [queue_events_pinned] is the pinned behaviour.  os.path.isdir and os.walk are oracles on the *current* tree (the emitter asks the file system
   when it processes a notification, not when the notification was generated). *)
Require Import WD.Base.Prelude WD.Base.BStr WD.Model.SubEvents WD.Model.PlatFs.

(* FILE_ACTION_* *)
Definition A_ADDED : N := 1.
Definition A_REMOVED : N := 2.
Definition A_MODIFIED : N := 3.
Definition A_RENAMED_OLD : N := 4.
Definition A_RENAMED_NEW : N := 5.
Definition A_REMOVED_SELF : N := 65534.

(* WinAPINativeEvent(action, src_path) - src_path relative to the watched directory *)
Record native := Native { n_action : N; n_path : bytes }.

Section Emit.
  Variable isdir : bytes -> bool.      (* os.path.isdir now *)
  Variable walk : bytes -> tree.       (* os.walk below a directory now *)
  Variable recursive : bool.           (* self.watch.is_recursive *)
  Variable root : bytes.               (* self.watch.path *)

  (*  for winapi_event in winapi_events:
          src_path = os.path.join(self.watch.path, winapi_event.src_path)
          if   is_renamed_old: last_renamed_src_path = src_path
          elif is_renamed_new: dest_path = src_path; src_path = last_renamed_src_path
                               if isdir(dest_path): DirMovedEvent(src, dest)
                                                    if recursive: generate_sub_moved_events(src, dest)
                               else: FileMovedEvent(src, dest)
          elif is_modified:    (DirModifiedEvent if isdir(src_path) else FileModifiedEvent)(src_path)
          elif is_added:       isdir = isdir(src_path); (DirCreatedEvent if isdir else FileCreatedEvent)(src_path)
                               if isdir and recursive: generate_sub_created_events(src_path)
          elif is_removed:     FileDeletedEvent(src_path)              # always the File flavour
          elif is_removed_self: DirDeletedEvent(self.watch.path); self.stop()
      result: (events, new last_renamed_src_path, stop requested) *)
  Definition step (last : bytes) (e : native) : list ev * bytes * bool :=
    let src := join root (n_path e) in
    let a := n_action e in
    if N.eqb a A_RENAMED_OLD then ([], src, false)
    else if N.eqb a A_RENAMED_NEW then
      if isdir src
      then (Moved KDir last src false ::
            (if recursive
             then map (fun x => Moved (fst (fst x)) (snd (fst x)) (snd x) true)
                      (sub_moved_events replace_first last src (walk src))
             else []), last, false)
      else ([Moved KFile last src false], last, false)
    else if N.eqb a A_MODIFIED then ([Modified (dirkind (isdir src)) src], last, false)
    else if N.eqb a A_ADDED then
      let d := isdir src in
      (Created (dirkind d) src false ::
       (if d && recursive
        then map (fun x => Created (fst x) (snd x) true) (sub_created_events src (walk src))
        else []), last, false)
    else if N.eqb a A_REMOVED then ([Deleted KFile src], last, false)
    else if N.eqb a A_REMOVED_SELF then ([Deleted KDir root], last, true)
    else ([], last, false).

  Fixpoint batch_go (last : bytes) (es : list native) : list ev * bytes * bool :=
    match es with
    | [] => ([], last, false)
    | e :: es' =>
      let '(o1, l1, s1) := step last e in
      let '(o2, l2, s2) := batch_go l1 es' in
      (o1 ++ o2, l2, s1 || s2)
    end.

  (* one call of queue_events on the repaired code (fixes/F13): the pending RENAMED_OLD_NAME path is
     the instance attribute self._last_renamed_src_path ("" at construction), carried from call to
     call.  Result: (events, new attribute value, stop requested). *)
  Definition queue_events (last : bytes) (es : list native) : list ev * bytes * bool := batch_go last es.

  (* successive calls, one per read *)
  Fixpoint queue_events_seq (last : bytes) (reads : list (list native)) : list ev * bytes * bool :=
    match reads with
    | [] => ([], last, false)
    | es :: rest =>
      let '(o1, l1, s1) := queue_events last es in
      let '(o2, l2, s2) := queue_events_seq l1 rest in
      (o1 ++ o2, l2, s1 || s2)
    end.

  (* the pinned code: a local variable, "" at the start of every call *)
  Definition queue_events_pinned (es : list native) : list ev * bool :=
    let '(o, _, s) := batch_go [] es in (o, s).
End Emit.

(* --------------------------------------------------------------- ReadDirectoryChangesW, simulated
   Modelled from the documentation of FILE_NOTIFY_INFORMATION.Action (bWatchSubtree = TRUE):
     ADDED "the file was added to the directory", REMOVED "removed from the directory",
     MODIFIED "time stamp or attributes changed", RENAMED_OLD_NAME / RENAMED_NEW_NAME "the file was
     renamed and this is the old / new name" (adjacent, old first); a rename whose other end is
     outside the watched tree shows only the visible half as REMOVED / ADDED.  Names are relative
     to the watched directory.  Cannot be validated in this sandbox. *)
Definition win_kernel (o : op) : list (N * path) :=
  match o with
  | OCreate p _ | OMkdir p _ => [(A_ADDED, p)]
  | OWrite p | OChmod p => [(A_MODIFIED, p)]
  | OUnlink p | ORmdir p | OMoveOut p => [(A_REMOVED, p)]
  | ORename s d => [(A_RENAMED_OLD, s); (A_RENAMED_NEW, d)]
  | OMoveIn d _ _ _ => [(A_ADDED, d)]
  end.

Definition render_native (x : N * path) : native := Native (fst x) (relstr (snd x)).

(* --------------------------------------------------------------- the contract, abstractly
   What one operation, issued alone, must deliver (C03's contract in the vocabulary the Windows
   API can express).  [sub p] is the content tree of directory p after the operation. *)
Section Contract.
  Variable sub : path -> tree.
  Variable recursive : bool.

  Definition win_contract (after : fs) (o : op) : list aev :=
    match o with
    | OCreate p _ => [ACreated KFile p false]
    | OMkdir p _ =>                               (* a new directory is empty: [desc (sub p)] = [] *)
      ACreated KDir p false ::
      (if recursive then map (fun x => ACreated (fst x) (p ++ snd x) true) (desc [] (sub p)) else [])
    | OWrite p | OChmod p => [AModified (dirkind (fs_isdir after p)) p]
    | OUnlink p | ORmdir p | OMoveOut p => [ADeleted KFile p]      (* F11: flavour is always File *)
    | ORename s d =>
      if fs_isdir after d
      then AMoved KDir s d false ::
           (if recursive
            then map (fun x => AMoved (fst x) (s ++ snd x) (d ++ snd x) true) (desc [] (sub d))
            else [])
      else [AMoved KFile s d false]
    | OMoveIn d k _ _ =>
      ACreated k d false ::
      (match k with
       | KDir => if recursive
                 then map (fun x => ACreated (fst x) (d ++ snd x) true) (desc [] (sub d))
                 else []
       | KFile => []
       end)
    end.
End Contract.

