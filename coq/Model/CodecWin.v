(* The ReadDirectoryChangesW buffer: a chain of FILE_NOTIFY_INFORMATION
     { DWORD NextEntryOffset; DWORD Action; DWORD FileNameLength (bytes); WCHAR FileName[]; }
   entries, and winapi._parse_event_buffer.  Definitions only.

   A decoded name is a Python str = list of code points; on the wire it is UTF-16-LE code units. *)
Require Import WD.Base.Prelude WD.Base.Le32.

Local Open Scope N_scope.

(* ------------------------------------------------------------ UTF-16 *)
Definition is_high (u : N) : bool := (55296 <=? u) && (u <? 56320).    (* D800..DBFF *)
Definition is_low (u : N) : bool := (56320 <=? u) && (u <? 57344).     (* DC00..DFFF *)
Definition is_scalar (c : N) : bool := (c <? 1114112) && negb ((55296 <=? c) && (c <? 57344)).

(* str.encode("utf-16-le") of one scalar value, as code units *)
Definition units_of_cp (c : N) : list N :=
  if c <? 65536 then [c]
  else let v := c - 65536 in [55296 + v / 1024; 56320 + v mod 1024].

Definition utf16_units (s : list N) : list N := flat_map units_of_cp s.
Definition units_bytes (us : list N) : bytes := flat_map le16 us.

(* bytes -> code units; an odd number of bytes is "truncated data" (UnicodeDecodeError) *)
Fixpoint units_le (b : bytes) : option (list N) :=
  match b with
  | [] => Some []
  | [_] => None
  | b0 :: b1 :: r => match units_le r with Some l => Some (rd16 b0 b1 :: l) | None => None end
  end.
Fixpoint units_be (b : bytes) : option (list N) :=
  match b with
  | [] => Some []
  | [_] => None
  | b0 :: b1 :: r => match units_be r with Some l => Some (rd16 b1 b0 :: l) | None => None end
  end.

(* code units -> code points, errors="strict": a lone surrogate is UnicodeDecodeError = None *)
Fixpoint cps (us : list N) : option (list N) :=
  match us with
  | [] => Some []
  | u :: r =>
    if is_high u then
      match r with
      | l :: r' => if is_low l
                   then match cps r' with
                        | Some s => Some (65536 + (u - 55296) * 1024 + (l - 56320) :: s)
                        | None => None
                        end
                   else None
      | [] => None
      end
    else if is_low u then None
    else match cps r with Some s => Some (u :: s) | None => None end
  end.

Definition obind {A B} (o : option A) (f : A -> option B) : option B :=
  match o with Some a => f a | None => None end.

(* bytes.decode("utf-16-le") - the repaired code *)
Definition dec_utf16_le (b : bytes) : option (list N) := obind (units_le b) cps.

(* bytes.decode("utf-16") - the pinned code: a leading FF FE / FE FF is taken as a byte-order
   mark, removed, and selects the byte order (native = little-endian without one). *)
Definition dec_utf16_bom (b : bytes) : option (list N) :=
  match b with
  | 255 :: 254 :: r => obind (units_le r) cps
  | 254 :: 255 :: r => obind (units_be r) cps
  | _ => obind (units_le b) cps
  end.

(* ------------------------------------------------------------ the buffer *)
Record wrec := WRec { w_action : N; w_name : list N }.

(* One entry with [pad] arbitrary bytes after the name (DWORD alignment in practice);
   NextEntryOffset = size of this entry, 0 for the last one. *)
Definition name_bytes (r : wrec) : bytes := units_bytes (utf16_units (w_name r)).
Definition entry_size (r : wrec) (pad : bytes) : nat := (12 + length (name_bytes r) + length pad)%nat.

Fixpoint encode (rs : list (wrec * bytes)) : bytes :=
  match rs with
  | [] => []
  | (r, pad) :: rest =>
    le32 (match rest with [] => 0 | _ => N.of_nat (entry_size r pad) end)
    ++ le32 (w_action r) ++ le32 (N.of_nat (length (name_bytes r)))
    ++ name_bytes r ++ pad ++ encode rest
  end.

(* def _parse_event_buffer(read_buffer, n_bytes):
       results = []
       while n_bytes > 0:
           fni = ctypes.cast(read_buffer, LPFNI)[0]
           ptr = ctypes.addressof(fni) + FileNotifyInformation.FileName.offset        # 12
           filename = ctypes.string_at(ptr, fni.FileNameLength)
           results.append((fni.Action, filename.decode(<codec>)))
           num_to_skip = fni.NextEntryOffset
           if num_to_skip <= 0: break
           read_buffer = read_buffer[num_to_skip:]
           n_bytes -= num_to_skip
       return results
   The ctypes reads are raw memory reads: reading past the end of the bytes object is undefined
   behaviour in the real code and None here; a UnicodeDecodeError is None as well.  n_bytes only
   ever matters through "n_bytes > 0", so the truncating subtraction of N is exact.  The slice
   read_buffer[num_to_skip:] clamps at the end (the clamp is applied before converting to nat).  One unit of
   fuel per iteration (every iteration but the last lowers n_bytes by >= 1). *)
Inductive wres :=
| Ok (l : list wrec)
| OutOfBounds          (* raw read past the end of the buffer object *)
| DecodeError          (* UnicodeDecodeError *)
| NoFuel.              (* artefact of the fuel; never the answer of [parse] (CodecWinProofs.parse_fuel) *)

Section Parse.
  Variable dec : bytes -> option (list N).

  Fixpoint parse_go (fuel : nat) (buf : bytes) (n : N) : wres :=
    if n =? 0 then Ok []
    else match fuel with
         | O => NoFuel
         | S f =>
           if (length buf <? 12)%nat then OutOfBounds
           else
             let next := u32_at 0 buf in
             let fnl := u32_at 8 buf in
             let body := skipn 12 buf in
             if N.of_nat (length body) <? fnl then OutOfBounds
             else match dec (firstn (N.to_nat fnl) body) with
                  | None => DecodeError
                  | Some name =>
                    let r := WRec (u32_at 4 buf) name in
                    if next =? 0 then Ok [r]
                    else match parse_go f (skipn (N.to_nat (N.min next (N.of_nat (length buf)))) buf) (n - next) with
                         | Ok l => Ok (r :: l)
                         | e => e
                         end
                  end
         end.

  Definition parse (buf : bytes) (n : N) : wres := parse_go (N.to_nat n) buf n.
End Parse.

(* well-formed entries: Action and the sizes fit a DWORD, the name is a sequence of Unicode
   scalar values (what str.encode("utf-16-le") accepts), padding is bytes *)
Definition valid_rec (rp : wrec * bytes) : Prop :=
  w_action (fst rp) < 4294967296 /\ forallb is_scalar (w_name (fst rp)) = true /\
  N.of_nat (entry_size (fst rp) (snd rp)) < 4294967296.
Definition valid (rs : list (wrec * bytes)) : Prop := Forall valid_rec rs.

Definition valid_recb (rp : wrec * bytes) : bool :=
  (w_action (fst rp) <? 4294967296) && forallb is_scalar (w_name (fst rp)) &&
  (N.of_nat (entry_size (fst rp) (snd rp)) <? 4294967296).
