(* Facts about the flat file-system model, path rendering and replay (C20). *)
Require Import WD.Base.Prelude WD.Base.BStr WD.Model.SubEvents WD.Proofs.SubEventsProofs WD.Model.PlatFs.

Lemma path_ok_split p : path_ok p = true -> p <> [] /\ forallb valid_name p = true.
Proof.
  unfold path_ok. intros H. apply andb_true_iff in H as [H1 H2]. split; [|exact H2].
  destruct p; [discriminate | discriminate].
Qed.

Lemma relstr_cons n p : relstr (n :: p) = n ++ relsuffix p.
Proof.
  revert n; induction p as [|m p IH]; intros n.
  - unfold relsuffix. simpl. now rewrite app_nil_r.
  - change (relstr (n :: m :: p)) with (n ++ sep :: relstr (m :: p)). rewrite IH.
    unfold relsuffix. simpl. reflexivity.
Qed.

(* os.path.join(root, "a/b/c") = root + "/a/b/c" *)
Lemma join_rel root p :
  root <> [] -> last_is_sep root = false -> p <> [] -> forallb valid_name p = true ->
  join root (relstr p) = abspath root p.
Proof.
  intros Hr Hs Hp Hv. destruct p as [|n p]; [contradiction|].
  rewrite relstr_cons. cbn [forallb] in Hv. apply andb_true_iff in Hv as [Hn _].
  unfold abspath, relsuffix. cbn [map concat]. fold (relsuffix p).
  unfold join. destruct n as [|c n]; [discriminate|].
  unfold valid_name in Hn. cbn [forallb] in Hn. apply andb_true_iff in Hn as [Hc _].
  apply andb_true_iff in Hc as [Hc _]. apply negb_true_iff in Hc.
  cbn [app]. rewrite Hc. destruct root; [contradiction|]. rewrite Hs. reflexivity.
Qed.

Lemma path_eqb_eq a b : path_eqb a b = true <-> a = b.
Proof.
  revert b; induction a as [|x a IH]; intros [|y b]; simpl; split; intros H;
    try reflexivity; try discriminate.
  - apply andb_true_iff in H as [H1 H2]. apply beqb_eq in H1. apply IH in H2. congruence.
  - inversion H; subst. rewrite beqb_refl. simpl. now apply IH.
Qed.

Lemma path_eqb_refl a : path_eqb a a = true.
Proof. now apply path_eqb_eq. Qed.

Lemma lookup_app_miss f g p : fs_mem f p = false -> lookup (f ++ g) p = lookup g p.
Proof.
  unfold fs_mem, lookup. induction f as [|e f IH]; simpl; [reflexivity|].
  destruct (path_eqb (e_path e) p); [discriminate | exact IH].
Qed.

Lemma isdir_new_entry f p k i : fs_mem f p = false ->
  fs_isdir (f ++ [Entry p k i]) p = kind_eqb k KDir.
Proof.
  intros H. unfold fs_isdir. rewrite lookup_app_miss by exact H.
  unfold lookup. simpl. now rewrite path_eqb_refl.
Qed.

Lemma isdir_new_head f p k i rest : fs_mem f p = false ->
  fs_isdir (f ++ Entry p k i :: rest) p = kind_eqb k KDir.
Proof.
  intros H. unfold fs_isdir. rewrite lookup_app_miss by exact H.
  unfold lookup. simpl. now rewrite path_eqb_refl.
Qed.

Lemma fresh_not_mem f p i : fresh_at f p i = true -> fs_mem f p = false.
Proof.
  unfold fresh_at. rewrite !andb_true_iff. intros [[[_ H] _] _]. now apply negb_true_iff in H.
Qed.
