(* FSEventsEmitter.queue_events (fsevents.py) as an executable function: the flag table, the
   _fs_view inode set, the look-ahead for the rename partner, the existence test and the
   non-recursive filter (_is_recursive_event); and a documented-semantics simulator of FSEvents.
   Definitions only. *)
Require Import WD.Base.Prelude WD.Base.BStr WD.Model.SubEvents WD.Model.PlatFs.

(* _watchdog_fsevents.NativeEvent(path, inode, flags, event_id); flags = kFSEventStreamEventFlag* *)
Record fnative := FNative { f_path : bytes; f_ino : N; f_flags : N }.

Definition F_ROOT_CHANGED : N := 32.        (* 0x20 *)
Definition F_CREATED : N := 256.            (* 0x100 *)
Definition F_REMOVED : N := 512.            (* 0x200 *)
Definition F_INODE_META : N := 1024.        (* 0x400 *)
Definition F_RENAMED : N := 2048.           (* 0x800 *)
Definition F_MODIFIED : N := 4096.          (* 0x1000 *)
Definition F_OWNER : N := 16384.            (* 0x4000 *)
Definition F_XATTR : N := 32768.            (* 0x8000 *)
Definition F_IS_FILE : N := 65536.          (* 0x10000 *)
Definition F_IS_DIR : N := 131072.          (* 0x20000 *)

Definition has (e : fnative) (flag : N) : bool := negb (N.eqb (N.land (f_flags e) flag) 0).
Definition is_meta_mod (e : fnative) : bool := has e F_INODE_META || has e F_XATTR || has e F_OWNER.
Definition nkind (e : fnative) : kind := dirkind (has e F_IS_DIR).

Definition mem (i : N) (v : list N) : bool := existsb (N.eqb i) v.
Definition add (i : N) (v : list N) : list N := if mem i v then v else i :: v.
Definition discard (i : N) (v : list N) : list N := filter (fun x => negb (N.eqb x i)) v.

(* events.remove(dst_event): the first element for which [f] holds (the one [find] returned) *)
Fixpoint remove_first {A} (f : A -> bool) (l : list A) : list A :=
  match l with
  | [] => []
  | x :: l' => if f x then l' else x :: remove_first f l'
  end.

(* def _is_recursive_event(self, event):
       src_path = event.src_path if event.is_directory else os.path.dirname(event.src_path)
       if src_path == self._absolute_watch_path: return False
       if isinstance(event, (FileMovedEvent, DirMovedEvent)):
           dest_path = os.path.dirname(event.dest_path)
           if dest_path == self._absolute_watch_path: return False
       return True *)
Definition is_recursive_event (root : bytes) (e : ev) : bool :=
  let at_root (k : kind) (p : bytes) :=
      beqb (match k with KDir => p | KFile => dirname p end) root in
  match e with
  | Created k p _ | Deleted k p | Modified k p => negb (at_root k p)
  | Moved k s d _ => negb (at_root k s) && negb (beqb (dirname d) root)
  end.

Section Emit.
  Variable stat_ino : bytes -> option N.   (* os.stat(path).st_ino now; None = OSError *)
  Variable walk : bytes -> tree.           (* os.walk below the path now (nothing for a file) *)
  Variable recursive : bool.               (* self.watch.is_recursive *)
  Variable root : bytes.                   (* self.watch.path = self._absolute_watch_path *)

  (* FSEventsEmitter.queue_event: drop what a non-recursive watch must not see *)
  Definition keep (e : ev) : bool := recursive || negb (is_recursive_event root e).
  Definition q (l : list ev) : list ev := filter keep l.

  Definition created_evs (e : fnative) (p dn : bytes) := [Created (nkind e) p false; Modified KDir dn].
  Definition deleted_evs (e : fnative) (p dn : bytes) := [Deleted (nkind e) p; Modified KDir dn].
  Definition modified_evs (e : fnative) (p : bytes) := [Modified (nkind e) p].

  (* One iteration of `while events: event = events.pop(0) ...`; [rest] = the remaining list.
     Result: (queued events before filtering, new _fs_view, remaining list, stop requested). *)
  Definition process (view : list N) (e : fnative) (rest : list fnative)
    : list ev * list N * list fnative * bool :=
    let src := f_path e in
    let dn := dirname src in
    let ino := f_ino e in
    let exists_ := match stat_ino src with Some i => N.eqb i ino | None => false end in
    let root_part (out : list ev) (v : list N) (r : list fnative) :=
        if has e F_ROOT_CHANGED then (out ++ [Deleted KDir root], [], r, true) else (out, v, r, false) in
    if has e F_CREATED && has e F_REMOVED then
      let o1 := if negb (mem ino view) then created_evs e src dn else [] in
      let o2 := if has e F_MODIFIED || is_meta_mod e then modified_evs e src else [] in
      root_part (o1 ++ o2 ++ deleted_evs e src dn) (discard ino (add ino view)) rest
    else
      let o1 := if has e F_CREATED && negb (mem ino view) then created_evs e src dn else [] in
      let v1 := add ino view in
      let o2 := if has e F_MODIFIED || is_meta_mod e then modified_evs e src else [] in
      if has e F_RENAMED then
        let partner (x : fnative) := has x F_RENAMED && N.eqb (f_ino x) ino in
        match find partner rest with
        | Some dst =>
          let dp := f_path dst in
          let ddn := dirname dp in
          let o3 := [Moved (nkind e) src dp false; Modified KDir dn; Modified KDir ddn] ++
                    map (fun x => Moved (fst (fst x)) (snd (fst x)) (snd x) true)
                        (sub_moved_events replace_first src dp (walk dp)) in
          let o4 := if has dst F_MODIFIED || is_meta_mod dst then modified_evs dst dp else [] in
          let o5 := if has dst F_REMOVED then deleted_evs dst dp ddn else [] in
          let v2 := if has dst F_REMOVED then discard (f_ino dst) v1 else v1 in
          let o6 := if has e F_REMOVED then deleted_evs e src dn else [] in
          let v3 := if has e F_REMOVED then discard ino v2 else v2 in
          root_part (o1 ++ o2 ++ o3 ++ o4 ++ o5 ++ o6) v3 (remove_first partner rest)
        | None =>
          if exists_ then
            let o3 := created_evs e src dn ++
                      map (fun x => Created (fst x) (snd x) true) (sub_created_events src (walk src)) in
            let o6 := if has e F_REMOVED then deleted_evs e src dn else [] in
            let v3 := if has e F_REMOVED then discard ino v1 else v1 in
            root_part (o1 ++ o2 ++ o3 ++ o6) v3 rest
          else
            (* moved out: `continue` skips the is_removed and is_root_changed parts *)
            (o1 ++ o2 ++ deleted_evs e src dn, discard ino v1, rest, false)
        end
      else
        let o6 := if has e F_REMOVED then deleted_evs e src dn else [] in
        let v3 := if has e F_REMOVED then discard ino v1 else v1 in
        root_part (o1 ++ o2 ++ o6) v3 rest.

  Fixpoint loop (fuel : nat) (view : list N) (events : list fnative) : option (list ev * list N * bool) :=
    match events with
    | [] => Some ([], view, false)
    | e :: rest =>
      match fuel with
      | O => None
      | S f =>
        let '(o1, v1, rest1, s1) := process view e rest in
        match loop f v1 rest1 with
        | Some (o2, v2, s2) => Some (q o1 ++ o2, v2, s1 || s2)
        | None => None
        end
      end
    end.

  (* one call of queue_events(timeout, events); the _fs_view persists across calls *)
  Definition queue_events (view : list N) (events : list fnative) : option (list ev * list N * bool) :=
    loop (length events) view events.
End Emit.

(* --------------------------------------------------------------- FSEvents, simulated
   Modelled from the FSEvents documentation (kFSEventStreamCreateFlagFileEvents): one event per
   (item, path) carrying the item's inode, the kind flag and the flags of what happened to the item
   at that path; a rename flags both the old and the new path of the same item (old first); a rename
   whose other end is outside the watched tree shows only the visible path.  Uncoalesced form: one
   event per operation and path.  Cannot be validated in this sandbox. *)
Definition kflag (k : kind) : N := match k with KDir => F_IS_DIR | KFile => F_IS_FILE end.

Definition fsevents_kernel (before : fs) (o : op) : list (path * N * N) :=
  let ent (p : path) (flags : N) :=
      match lookup before p with
      | Some e => [(p, e_ino e, N.lor flags (kflag (e_kind e)))]
      | None => []
      end in
  match o with
  | OCreate p i => [(p, i, N.lor F_CREATED F_IS_FILE)]
  | OMkdir p i => [(p, i, N.lor F_CREATED F_IS_DIR)]
  | OWrite p => ent p F_MODIFIED
  | OChmod p => ent p F_INODE_META
  | OUnlink p | ORmdir p => ent p F_REMOVED
  | ORename s d =>
    match lookup before s with
    | Some e => [(s, e_ino e, N.lor F_RENAMED (kflag (e_kind e))); (d, e_ino e, N.lor F_RENAMED (kflag (e_kind e)))]
    | None => []
    end
  | OMoveOut s => ent s F_RENAMED
  | OMoveIn d k i _ => [(d, i, N.lor F_RENAMED (kflag k))]
  end.

Definition frender (root : bytes) (x : path * N * N) : fnative :=
  FNative (abspath root (fst (fst x))) (snd (fst x)) (snd x).

(* Coalescing (environment choice): two events for the same item at the same path may be merged
   into one carrying the union of the flags, at the position of the earlier one. *)
Definition same_item (a b : fnative) : bool := beqb (f_path a) (f_path b) && N.eqb (f_ino a) (f_ino b).
Fixpoint coalesce_into (e : fnative) (l : list fnative) : list fnative :=
  match l with
  | [] => [e]
  | x :: l' => if same_item x e then FNative (f_path x) (f_ino x) (N.lor (f_flags x) (f_flags e)) :: l'
               else x :: coalesce_into e l'
  end.
Definition coalesce_all (l : list fnative) : list fnative := fold_left (fun acc e => coalesce_into e acc) l [].

(* --------------------------------------------------------------- the contract (uncoalesced, one op per batch) *)
Section Contract.
  Variable sub : path -> tree.

  Definition pmod (p : path) : list aev := [AModified KDir (parent p)].

  Definition fse_contract (before after : fs) (o : op) : list aev :=
    let kind_of (p : path) := match lookup before p with Some e => e_kind e | None => KFile end in
    match o with
    | OCreate p _ => ACreated KFile p false :: pmod p
    | OMkdir p _ => ACreated KDir p false :: pmod p
    | OWrite p | OChmod p => [AModified (kind_of p) p]
    | OUnlink p | ORmdir p | OMoveOut p => ADeleted (kind_of p) p :: pmod p
    | ORename s d =>
      AMoved (kind_of s) s d false :: pmod s ++ pmod d ++
      map (fun x => AMoved (fst x) (s ++ snd x) (d ++ snd x) true) (desc [] (sub d))
    | OMoveIn d k _ _ =>
      ACreated k d false :: pmod d ++
      map (fun x => ACreated (fst x) (d ++ snd x) true) (desc [] (sub d))
    end.
End Contract.

(* --------------------------------------------------------------- executable batch hypotheses
   The item (inode) an operation flags ItemRenamed: a rename inside the tree, a move out, a move in. *)
Definition rename_subject (f : fs) (o : op) : option N :=
  match o with
  | ORename s _ | OMoveOut s => match lookup f s with Some e => Some (e_ino e) | None => None end
  | OMoveIn _ _ i _ => Some i
  | _ => None
  end.

Fixpoint rename_subjects (f : fs) (ops : list op) : list N :=
  match ops with
  | [] => []
  | o :: r => (match rename_subject f o with Some i => [i] | None => [] end) ++ rename_subjects (apply_op f o) r
  end.

Fixpoint nodupb (l : list N) : bool :=
  match l with
  | [] => true
  | x :: r => negb (existsb (N.eqb x) r) && nodupb r
  end.

(* no item is the subject of two rename-flagged operations inside the batch *)
Definition one_rename_per_item (f : fs) (ops : list op) : bool := nodupb (rename_subjects f ops).

(* no two events of the batch concern the same item at the same path (nothing to coalesce) *)
Fixpoint distinct_itemsb (l : list fnative) : bool :=
  match l with
  | [] => true
  | e :: r => negb (existsb (same_item e) r) && distinct_itemsb r
  end.
